//! C25 — WebSocket sessions follow the graphql-ws and graphql-transport-ws protocols.
//!
//! The real `async_graphql::http::WebSocket` is driven poll by poll with a no-op waker.  Everything
//! it can observe is controlled by the case:
//!   * the client byte stream is a queue the harness fills (a message taken from it is logged),
//!   * `on_connection_init` / `on_ping` return futures that complete only when the step offers
//!     `ok` / `err`,
//!   * the `Executor` hands out operation streams (instance 0, 1, … in creation order) that are
//!     ready only in the poll whose step names the instance — so at most one stream is ready per
//!     poll and the iteration order of the `HashMap` of streams cannot matter,
//!   * the keep-alive `Timer` reads a virtual clock that advances by one unit per `tick`.
//!
//! Case     (ws PROTO KA STEP…)   STEP = ((FRAME…) FUT STR TICK)      — see lean/AGV/Drive/C25.lean
//!          FRAME = (t "text") | (b "hex bytes") | (eof): frames are BYTE STRINGS; what a frame means is
//!          decided by the Lean model of `ClientMessage::from_bytes`, never by this harness.
//! Output   (tr EV…)              the session trace ((r K) = frame K was taken from the socket);
//!                                polling stops after the stream ended.
//!
//! Stream `decode`:  (dec FRAME)  →  the canonical form of `ClientMessage::from_bytes(frame)`.

use std::{
    collections::VecDeque,
    future::Future,
    pin::Pin,
    sync::{Arc, Mutex},
    task::{Context, Poll},
    time::Duration,
};

use agvh::*;
use async_graphql::{
    Data, Executor, Request, Response,
    http::{ClientMessage, WebSocket, WebSocketProtocols, WsMessage},
    runtime::Timer,
};
use futures_util::{
    future::BoxFuture,
    stream::{BoxStream, Stream},
};

// ------------------------------------------------------------------ the controlled environment

enum QItem {
    Msg(Vec<u8>, usize),
    Eof(usize),
}

#[derive(Default)]
struct Shared {
    queue: VecDeque<QItem>,
    log: Vec<Sexp>,
    fut: Option<bool>,
    str_ev: Option<(usize, Option<u64>)>,
    now: u64,
    n_inst: usize,
}

type Sh = Arc<Mutex<Shared>>;

struct ClientStream(Sh);

impl Stream for ClientStream {
    type Item = Vec<u8>;
    fn poll_next(self: Pin<&mut Self>, _cx: &mut Context<'_>) -> Poll<Option<Vec<u8>>> {
        let mut sh = self.0.lock().unwrap();
        match sh.queue.front() {
            None => Poll::Pending,
            Some(QItem::Eof(k)) => {
                let k = *k;
                sh.log.push(node("r", vec![num(k)]));
                Poll::Ready(None)
            }
            Some(QItem::Msg(..)) => {
                let Some(QItem::Msg(bytes, k)) = sh.queue.pop_front() else { unreachable!() };
                sh.log.push(node("r", vec![num(k)]));
                Poll::Ready(Some(bytes))
            }
        }
    }
}

#[derive(Clone)]
struct Exec(Sh);

struct OpStream {
    inst: usize,
    sh: Sh,
}

impl Stream for OpStream {
    type Item = Response;
    fn poll_next(self: Pin<&mut Self>, _cx: &mut Context<'_>) -> Poll<Option<Response>> {
        let mut sh = self.sh.lock().unwrap();
        match sh.str_ev {
            Some((inst, ev)) if inst == self.inst => {
                sh.str_ev = None;
                match ev {
                    Some(val) => {
                        let v = async_graphql::Value::from_json(serde_json::json!({"i": inst, "v": val})).unwrap();
                        Poll::Ready(Some(Response::new(v)))
                    }
                    None => Poll::Ready(None),
                }
            }
            _ => Poll::Pending,
        }
    }
}

impl Executor for Exec {
    async fn execute(&self, _request: Request) -> Response {
        Response::default()
    }
    fn execute_stream(&self, _request: Request, _session_data: Option<Arc<Data>>) -> BoxStream<'static, Response> {
        let mut sh = self.0.lock().unwrap();
        let inst = sh.n_inst;
        sh.n_inst += 1;
        Box::pin(OpStream { inst, sh: self.0.clone() })
    }
}

/// future returned by the init / ping callbacks: completes when the current step offers a result
struct CbFut<T> {
    sh: Sh,
    ok: fn() -> T,
}

impl<T> Future for CbFut<T> {
    type Output = async_graphql::Result<T>;
    fn poll(self: Pin<&mut Self>, _cx: &mut Context<'_>) -> Poll<Self::Output> {
        let mut sh = self.sh.lock().unwrap();
        match sh.fut.take() {
            Some(true) => Poll::Ready(Ok((self.ok)())),
            Some(false) => Poll::Ready(Err(async_graphql::Error::new("rej"))),
            None => Poll::Pending,
        }
    }
}

struct VTimer(Sh);

struct Delay {
    sh: Sh,
    deadline: u64,
}

impl Future for Delay {
    type Output = ();
    fn poll(self: Pin<&mut Self>, _cx: &mut Context<'_>) -> Poll<()> {
        if self.sh.lock().unwrap().now >= self.deadline { Poll::Ready(()) } else { Poll::Pending }
    }
}

impl Timer for VTimer {
    fn delay(&self, duration: Duration) -> BoxFuture<'static, ()> {
        let now = self.0.lock().unwrap().now;
        Box::pin(Delay { sh: self.0.clone(), deadline: now + duration.as_secs() })
    }
}

// ------------------------------------------------------------------ frames

fn ft(text: &str) -> Sexp {
    node("t", vec![st(text)])
}

fn fb(bytes: &[u8]) -> Sexp {
    let mut h = String::with_capacity(bytes.len() * 2);
    for b in bytes {
        h.push_str(&format!("{b:02x}"));
    }
    node("b", vec![st(h)])
}

/// a frame given as bytes: text form when the bytes are UTF-8
fn frame(bytes: &[u8]) -> Sexp {
    match std::str::from_utf8(bytes) {
        Ok(s) => ft(s),
        Err(_) => fb(bytes),
    }
}

/// the bytes of a FRAME (`None` = end of the client stream)
fn frame_bytes(f: &Sexp) -> Option<Vec<u8>> {
    match f.tag().expect("frame tag") {
        "t" => Some(f.args()[0].as_str().expect("text frame").as_bytes().to_vec()),
        "b" => {
            let h = f.args()[0].as_str().expect("byte frame").as_bytes();
            assert!(h.len() % 2 == 0, "odd hex");
            Some(h.chunks(2).map(|p| u8::from_str_radix(std::str::from_utf8(p).unwrap(), 16).expect("hex")).collect())
        }
        "eof" => None,
        t => panic!("unknown frame kind {t}"),
    }
}

// ------------------------------------------------------------------ canonical output

fn reason(s: &str) -> Sexp {
    atom(match s {
        "timeout" => "timeout",
        "Too many initialisation requests." => "tooMany",
        "The handshake is not completed." => "handshake",
        "rej" => "cb",
        "Unauthorized" => "unauth",
        x if x.starts_with("Subscriber for") => "dupId",
        _ => "other",
    })
}

fn canon_text(t: &str) -> Sexp {
    let raw = || node("text", vec![st(t)]);
    let Ok(v) = serde_json::from_str::<serde_json::Value>(t) else { return raw() };
    let Some(obj) = v.as_object() else { return raw() };
    let Some(ty) = obj.get("type").and_then(|x| x.as_str()) else { return raw() };
    let keys: Vec<&str> = obj.keys().map(|k| k.as_str()).collect();
    let has_only = |ks: &[&str]| keys.len() == ks.len() && ks.iter().all(|k| keys.contains(k));
    match ty {
        "connection_ack" | "pong" if has_only(&["type"]) => node(ty, vec![]),
        "complete" if has_only(&["type", "id"]) => match obj["id"].as_str() {
            Some(id) => node(ty, vec![st(id)]),
            None => raw(),
        },
        "next" | "data" if has_only(&["type", "id", "payload"]) => {
            let p = &obj["payload"];
            let ok_shape = p.as_object().map(|o| o.len() == 1).unwrap_or(false);
            match (obj["id"].as_str(), p["data"]["i"].as_u64(), p["data"]["v"].as_u64()) {
                (Some(id), Some(i), Some(val)) if ok_shape => node(ty, vec![st(id), num(i), num(val)]),
                _ => raw(),
            }
        }
        "connection_error" if has_only(&["type", "payload"]) => match obj["payload"]["message"].as_str() {
            Some(m) => node(ty, vec![reason(m)]),
            None => raw(),
        },
        _ => raw(),
    }
}

fn num_sexp(n: &serde_json::Number) -> Sexp {
    if let Some(u) = n.as_u64() {
        node("i", vec![num(u)])
    } else if let Some(i) = n.as_i64() {
        node("i", vec![num(i)])
    } else {
        atom("f")
    }
}

fn sorted_obj(mut kvs: Vec<(String, Sexp)>) -> Sexp {
    kvs.sort_by(|a, b| a.0.cmp(&b.0));
    node("o", kvs.into_iter().map(|(k, v)| list(vec![st(k), v])).collect())
}

fn canon_json(v: &serde_json::Value) -> Sexp {
    use serde_json::Value as V;
    match v {
        V::Null => atom("null"),
        V::Bool(b) => atom(if *b { "true" } else { "false" }),
        V::Number(n) => num_sexp(n),
        V::String(s) => node("s", vec![st(s.as_str())]),
        V::Array(xs) => node("a", xs.iter().map(canon_json).collect()),
        V::Object(m) => sorted_obj(m.iter().map(|(k, v)| (k.clone(), canon_json(v))).collect()),
    }
}

fn canon_const(v: &async_graphql::Value) -> Sexp {
    use async_graphql::Value as V;
    match v {
        V::Null => atom("null"),
        V::Boolean(b) => atom(if *b { "true" } else { "false" }),
        V::Number(n) => num_sexp(n),
        V::String(s) => node("s", vec![st(s.as_str())]),
        V::List(xs) => node("a", xs.iter().map(canon_const).collect()),
        V::Object(m) => sorted_obj(m.iter().map(|(k, v)| (k.to_string(), canon_const(v))).collect()),
        V::Enum(n) => node("enum", vec![st(n.as_str())]),
        V::Binary(_) => atom("binary"),
    }
}

fn opt_json(p: &Option<serde_json::Value>) -> Sexp {
    match p {
        None => atom("-"),
        Some(v) => canon_json(v),
    }
}

/// `ClientMessage::from_bytes` in canonical form
fn run_decode(f: &Sexp, dist: &mut Dist) -> Sexp {
    let bytes = frame_bytes(f).expect("dec of eof");
    let out = match ClientMessage::from_bytes(&bytes) {
        Err(_) => node("bad", vec![]),
        Ok(ClientMessage::ConnectionInit { payload }) => node("init", vec![opt_json(&payload)]),
        Ok(ClientMessage::Start { id, payload }) => node(
            "start",
            vec![
                st(id),
                node(
                    "req",
                    vec![
                        st(payload.query.as_str()),
                        match &payload.operation_name {
                            None => atom("-"),
                            Some(o) => st(o.as_str()),
                        },
                        sorted_obj(payload.variables.iter().map(|(k, v)| (k.to_string(), canon_const(v))).collect()),
                        sorted_obj(payload.extensions.iter().map(|(k, v)| (k.clone(), canon_const(v))).collect()),
                    ],
                ),
            ],
        ),
        Ok(ClientMessage::Stop { id }) => node("stop", vec![st(id)]),
        Ok(ClientMessage::ConnectionTerminate) => node("term", vec![]),
        Ok(ClientMessage::Ping { payload }) => node("ping", vec![opt_json(&payload)]),
        Ok(ClientMessage::Pong { payload }) => node("pong", vec![opt_json(&payload)]),
    };
    dist.hit(&format!("dec_{}", out.tag().unwrap_or("?")));
    out
}

// ------------------------------------------------------------------ running one case

fn run(case: &Sexp, dist: &mut Dist) -> Sexp {
    if case.tag() == Some("dec") {
        return run_decode(&case.args()[0], dist);
    }
    assert_eq!(case.tag(), Some("ws"));
    let a = case.args();
    let proto = match a[0].as_atom().unwrap() {
        "new" => WebSocketProtocols::GraphQLWS,
        "legacy" => WebSocketProtocols::SubscriptionsTransportWS,
        p => panic!("bad protocol {p}"),
    };
    let ka = a[1].as_usize().unwrap() as u64;
    let sh: Sh = Arc::new(Mutex::new(Shared::default()));
    let sh_init = sh.clone();
    let sh_ping = sh.clone();
    let ws = WebSocket::new(Exec(sh.clone()), ClientStream(sh.clone()), proto)
        .on_connection_init(move |_payload: serde_json::Value| CbFut::<Data> { sh: sh_init, ok: Data::default })
        .on_ping(move |_d: Option<&Data>, _p: Option<serde_json::Value>| CbFut::<Option<serde_json::Value>> {
            sh: sh_ping,
            ok: || None,
        })
        .keepalive_timeout(VTimer(sh.clone()), if ka > 0 { Some(Duration::from_secs(ka)) } else { None });
    let mut ws = Box::pin(ws);
    let waker = futures_util::task::noop_waker();
    let mut cx = Context::from_waker(&waker);
    let mut n_frames = 0usize;
    for step in &a[2..] {
        let s = step.as_list().expect("step");
        {
            let mut g = sh.lock().unwrap();
            for m in s[0].as_list().expect("frames") {
                g.queue.push_back(match frame_bytes(m) {
                    Some(bytes) => QItem::Msg(bytes, n_frames),
                    None => QItem::Eof(n_frames),
                });
                n_frames += 1;
            }
            g.fut = match s[1].as_atom() {
                Some("ok") => Some(true),
                Some("err") => Some(false),
                _ => None,
            };
            g.str_ev = match s[2].tag() {
                Some("item") => Some((s[2].args()[0].as_usize().unwrap(), Some(s[2].args()[1].as_usize().unwrap() as u64))),
                Some("fin") => Some((s[2].args()[0].as_usize().unwrap(), None)),
                _ => None,
            };
            if s[3].as_atom() == Some("1") {
                g.now += 1;
            }
        }
        let r = ws.as_mut().poll_next(&mut cx);
        let mut g = sh.lock().unwrap();
        // what the poll did not consume is withdrawn: readiness is per poll
        g.fut = None;
        g.str_ev = None;
        let (ev, stop) = match r {
            Poll::Pending => (node("pending", vec![]), false),
            Poll::Ready(None) => (node("done", vec![]), true),
            Poll::Ready(Some(WsMessage::Text(t))) => (canon_text(&t), false),
            Poll::Ready(Some(WsMessage::Close(code, why))) => (node("close", vec![num(code), reason(&why)]), false),
        };
        dist.hit(&format!("out_{}", ev.tag().unwrap_or("?")));
        if let Some("close") = ev.tag() {
            dist.hit(&format!("close_{}", ev.args()[0]));
        }
        g.log.push(ev);
        if stop {
            break;
        }
    }
    let log = std::mem::take(&mut sh.lock().unwrap().log);
    node("tr", log)
}

// ------------------------------------------------------------------ generator: frames

const QUERY: &str = "subscription { s }";
const KINDS: [&str; 6] = ["init", "start", "stop", "term", "ping", "pong"];

/// the plain spellings of the client messages (`v` selects one of the two the parser accepts)
fn plain(kind: &str, id: usize, v: usize) -> String {
    match kind {
        "init" => {
            if v == 0 { r#"{"type":"connection_init"}"#.to_string() } else { r#"{"type":"connection_init","payload":{"token":"t"}}"#.to_string() }
        }
        "start" => format!(
            r#"{{"type":"{}","id":"id{}","payload":{{"query":"{}"}}}}"#,
            if v == 0 { "start" } else { "subscribe" },
            id,
            QUERY
        ),
        "stop" => format!(r#"{{"type":"{}","id":"id{}"}}"#, if v == 0 { "stop" } else { "complete" }, id),
        "term" => {
            if v == 0 { r#"{"type":"connection_terminate"}"#.to_string() } else { r#"{"type":"connection_terminate","payload":null}"#.to_string() }
        }
        "ping" => {
            if v == 0 { r#"{"type":"ping"}"#.to_string() } else { r#"{"type":"ping","payload":{"a":1}}"#.to_string() }
        }
        "pong" => {
            if v == 0 { r#"{"type":"pong"}"#.to_string() } else { r#"{"type":"pong","payload":{"a":1}}"#.to_string() }
        }
        k => panic!("unknown message kind {k}"),
    }
}

fn nest(open: &str, close: &str, n: usize, inner: &str) -> String {
    format!("{}{}{}", open.repeat(n), inner, close.repeat(n))
}

/// hand-picked frames: every family of the frame→message step (trailing data, white space, BOM,
/// repeated / unknown / ill-typed members, arrays, depth, numbers, strings, UTF-8)
fn specials() -> Vec<(&'static str, Vec<u8>)> {
    let init = plain("init", 0, 0);
    let start0 = plain("start", 0, 1);
    let start1 = plain("start", 1, 0);
    let stop0 = plain("stop", 0, 1);
    let ping = plain("ping", 0, 0);
    let mut v: Vec<(&'static str, Vec<u8>)> = vec![];
    let mut t = |fam: &'static str, s: String| v.push((fam, s.into_bytes()));
    // valid message + trailing bytes
    for base in [&init, &start0, &stop0, &ping] {
        t("trail_msg", format!("{base}{start1}"));
        t("trail_msg", format!("{base}{base}"));
        t("trail_trunc", format!("{base}\n{{\"type\":"));
        t("trail_brace", format!("{base}}}"));
        t("trail_x", format!("{base} x"));
        t("trail_nul", format!("{base}\u{0}"));
        t("trail_scalar", format!("{base}1"));
        t("trail_scalar", format!("{base} null"));
        t("trail_comma", format!("{base},"));
        // white space only: legal JSON
        t("trail_ws", format!("{base} \n\t\r "));
        t("lead_ws", format!(" \r\n\t{base}"));
        t("lead_bom", format!("\u{feff}{base}"));
        t("trail_bom", format!("{base}\u{feff}"));
        t("trail_ff", format!("{base}\u{c}"));
        t("trail_nbsp", format!("{base}\u{a0}"));
    }
    // repeated members
    t("dup_type", r#"{"type":"ping","type":"ping"}"#.into());
    t("dup_type", r#"{"type":"connection_init","type":"ping"}"#.into());
    t("dup_type", r#"{"\u0074ype":"ping","type":"ping"}"#.into());
    t("dup_id", r#"{"type":"stop","id":"id0","id":"id0"}"#.into());
    t("dup_id", format!(r#"{{"type":"start","id":"id0","id":"id1","payload":{{"query":"{QUERY}"}}}}"#));
    t("dup_payload", format!(r#"{{"type":"start","id":"id0","payload":{{"query":"{QUERY}"}},"payload":{{"query":"{QUERY}"}}}}"#));
    t("dup_payload", r#"{"type":"connection_init","payload":null,"payload":{}}"#.into());
    t("dup_payload", r#"{"type":"ping","payload":1,"payload":2}"#.into());
    t("dup_ignored", r#"{"type":"connection_terminate","payload":1,"payload":2}"#.into());
    t("dup_ignored", r#"{"type":"stop","id":"id0","payload":1,"payload":2}"#.into());
    t("dup_ignored", r#"{"type":"ping","id":1,"id":2,"x":null,"x":[]}"#.into());
    t("dup_query", format!(r#"{{"type":"start","id":"id0","payload":{{"query":"{QUERY}","query":"{QUERY}"}}}}"#));
    t("dup_vars", format!(r#"{{"type":"start","id":"id0","payload":{{"query":"{QUERY}","variables":{{"a":1,"a":2}},"extensions":{{"b":1,"b":[]}}}}}}"#));
    // unknown members, member order, escapes in keys
    t("unknown", r#"{"x":1,"type":"connection_init","y":{"type":"ping"},"":[]}"#.into());
    t("unknown", format!(r#"{{"payload":{{"query":"{QUERY}","operation_name":"o","uploads":5}},"id":"id0","extra":true,"type":"subscribe"}}"#));
    t("unknown", r#"{"id":"id0","type":"complete","payload":{"deep":[1,2,{"a":null}]}}"#.into());
    t("key_esc", r#"{"\u0074\u0079pe":"p\u0069ng"}"#.into());
    t("key_esc", r#"{"type":"stop","\u0069d":"id\u0030"}"#.into());
    t("key_case", r#"{"TYPE":"ping"}"#.into());
    t("key_case", r#"{"type":"Ping"}"#.into());
    t("key_case", r#"{"type":"connection_ack"}"#.into());
    t("key_case", r#"{"type":""}"#.into());
    // wrong member types / missing members
    t("ty_id", r#"{"type":"stop","id":5}"#.into());
    t("ty_id", r#"{"type":"stop","id":null}"#.into());
    t("ty_id", r#"{"type":"stop","id":["id0"]}"#.into());
    t("ty_id", format!(r#"{{"type":"start","id":5,"payload":{{"query":"{QUERY}"}}}}"#));
    t("ty_type", r#"{"type":null}"#.into());
    t("ty_type", r#"{"type":5}"#.into());
    t("ty_type", r#"{"type":["ping"]}"#.into());
    t("ty_type", r#"{"type":{"type":"ping"}}"#.into());
    t("ty_payload", r#"{"type":"start","id":"id0","payload":null}"#.into());
    t("ty_payload", r#"{"type":"start","id":"id0","payload":"q"}"#.into());
    t("ty_payload", r#"{"type":"start","id":"id0","payload":{"query":5}}"#.into());
    t("ty_payload", r#"{"type":"start","id":"id0","payload":{"query":null}}"#.into());
    t("ty_payload", r#"{"type":"start","id":"id0","payload":{"operationName":5}}"#.into());
    t("ty_payload", r#"{"type":"start","id":"id0","payload":{"variables":[]}}"#.into());
    t("ty_payload", r#"{"type":"start","id":"id0","payload":{"extensions":"x"}}"#.into());
    t("ok_payload", r#"{"type":"start","id":"id0","payload":{}}"#.into());
    t("ok_payload", r#"{"type":"start","id":"id0","payload":{"query":"q","operationName":null,"variables":null,"extensions":null}}"#.into());
    t("ok_payload", r#"{"type":"subscribe","id":"id1","payload":{"query":"q","operationName":"o","variables":{"a":[1,-2,3.5,"s",null,true,{"b":{}}]},"extensions":{"e":18446744073709551615,"f":18446744073709551616,"g":-9223372036854775808,"h":-9223372036854775809,"i":-0}}}"#.into());
    t("ok_payload", r#"{"type":"connection_init","payload":5}"#.into());
    t("ok_payload", r#"{"type":"pong","payload":[1,"a",null,true,{"b":1.5}]}"#.into());
    t("missing", r#"{"type":"stop"}"#.into());
    t("missing", r#"{"type":"subscribe","id":"id0"}"#.into());
    t("missing", format!(r#"{{"type":"start","payload":{{"query":"{QUERY}"}}}}"#));
    t("missing", r#"{"id":"id0"}"#.into());
    t("missing", "{}".into());
    // not an object
    t("array", "[]".into());
    t("array", r#"["ping"]"#.into());
    t("array", r#"["ping",null]"#.into());
    t("array", r#"["pong",{"a":1}]"#.into());
    t("array", r#"["connection_init",null]"#.into());
    t("array", r#"["connection_terminate"]"#.into());
    t("array", r#"["connection_terminate",1]"#.into());
    t("array", r#"["stop","id0"]"#.into());
    t("array", r#"["complete","id0","x"]"#.into());
    t("array", format!(r#"["subscribe","id0",{{"query":"{QUERY}"}}]"#));
    t("array", format!(r#"["start","id1",["{QUERY}"]]"#));
    t("array", r#"["nope"]"#.into());
    t("array", r#"[["ping"]]"#.into());
    t("array", r#"[5]"#.into());
    t("array_payload", r#"{"type":"start","id":"id0","payload":[]}"#.into());
    t("array_payload", format!(r#"{{"type":"subscribe","id":"id1","payload":["{QUERY}",null,{{"a":1}},null]}}"#));
    t("array_payload", r#"{"type":"start","id":"id0","payload":["q",null,null,null,null]}"#.into());
    t("array_payload", r#"{"type":"start","id":"id0","payload":[5]}"#.into());
    t("array_payload", r#"{"type":"start","id":"id0","payload":["q","o",[]]}"#.into());
    t("scalar", "null".into());
    t("scalar", "\"ping\"".into());
    t("scalar", "1".into());
    t("scalar", "true".into());
    // nesting
    for n in [100usize, 125, 126, 127, 128, 300] {
        t("depth", format!(r#"{{"type":"ping","payload":{}}}"#, nest("[", "]", n, "")));
        t("depth", format!(r#"{{"type":"ping","x":{}}}"#, nest("{\"a\":", "}", n, "1")));
        t("depth", format!(r#"{{"x":{},"type":"connection_terminate"}}"#, nest("[", "]", n, "{}")));
    }
    t("depth", nest("[", "]", 200, ""));
    t("depth", format!("[\"ping\",{}]", nest("[", "]", 126, "")));
    t("depth", format!("[\"ping\",{}]", nest("[", "]", 127, "")));
    // numbers
    for n in [
        "0", "-0", "01", "-01", "1.", ".5", "+1", "1e5", "1E+5", "1e-5", "1e", "1e+", "-", "1.5.5", "0x10", "1e400", "-1e400", "1e-400",
        "1.7976931348623157e308", "1.7976931348623158e308", "1.7976931348623159e308", "179769313486231580793728971405303415079934132710037826936173778980444968292764750946649017977587207096330286416692887910946555547851940402630657488671505820681908902000708383676273854845817711531764475730270069855571366959622842914819860834936475292719074168444365510704342711559699508093042880177904174497791",
        "179769313486231580793728971405303415079934132710037826936173778980444968292764750946649017977587207096330286416692887910946555547851940402630657488671505820681908902000708383676273854845817711531764475730270069855571366959622842914819860834936475292719074168444365510704342711559699508093042880177904174497792",
        "0e99999999999999999999", "1e99999999999999999999", "1e-99999999999999999999", "0.0e2147483648", "123456789012345678901234567890", "1e01", "00", "NaN", "Infinity", "1_000",
    ] {
        t("number", format!(r#"{{"type":"ping","payload":{n}}}"#));
    }
    t("number", format!(r#"{{"type":"ping","x":0.{}1e400}}"#, "0".repeat(400)));
    t("number", format!(r#"{{"type":"ping","x":1{}e-400}}"#, "0".repeat(400)));
    t("number", format!(r#"{{"type":"ping","x":1{}}}"#, "0".repeat(308)));
    t("number", format!(r#"{{"type":"ping","x":1{}}}"#, "0".repeat(309)));
    // strings
    for s in [
        r#""\ud83d\ude00""#, r#""\ud83d""#, r#""\ude00""#, r#""\ud83dx""#, r#""\ud83d\u0041""#, r#""\uD83D\uDE00""#, r#""\u00e9\u0000""#, r#""\q""#,
        r#""\/\b\f\n\r\t\"\\""#, r#""\u12""#, r#""\u12G4""#, "\"\u{1}\"", "\"\u{7f}\"", "\"\t\"", "\"é😀\"", r#"'a'"#, r#""unterminated"#, r#""\"#,
    ] {
        t("string", format!(r#"{{"type":"ping","payload":{s}}}"#));
        t("string", format!(r#"{{"type":"stop","id":{s}}}"#));
    }
    // JSON syntax
    for s in [
        "", " ", "{", "}", r#"{"type":"ping""#, r#"{"type":"ping",}"#, r#"{,"type":"ping"}"#, r#"{"type":"ping" "x":1}"#, r#"{"type" "ping"}"#, r#"{"type":"ping","x":[1,]}"#,
        r#"{"type":"ping","x":[,1]}"#, r#"{"type":"ping","x":[1 2]}"#, r#"{"type":"ping","x":tru}"#, r#"{"type":"ping","x":True}"#, r#"{"type":"ping","x":truefalse}"#,
        r#"{"type":"ping","x":nullx}"#, r#"{type:"ping"}"#, r#"{"type":"ping"}// c"#, r#"{"type":"ping"/* c */}"#, r#"{"type" : "ping" , "payload" : [ ] }"#,
        "{\n\t\"type\"\r:\n\"ping\"\n}\n", "{\u{b}\"type\":\"ping\"}", r#"{"type":"ping","x":}"#, r#"{"type":"ping","x"}"#, r#"{"type":"ping":1}"#, r#"{"type"::"ping"}"#, r#"{{"type":"ping"}}"#,
        r#"{"type":"ping"]"#, r#"{"type":"ping","x":[1}"#, r#"{5:"ping"}"#, r#"{null:1,"type":"ping"}"#,
    ] {
        t("syntax", s.into());
    }
    let mut b = |fam: &'static str, bytes: Vec<u8>| v.push((fam, bytes));
    // bytes that are not UTF-8
    b("utf8", b"\xff".to_vec());
    b("utf8", [ping.as_bytes(), b"\xff"].concat());
    b("utf8", [b"\xff".as_slice(), ping.as_bytes()].concat());
    b("utf8", b"{\"type\":\"ping\",\"x\":\"\xff\"}".to_vec());
    b("utf8", b"{\"type\":\"ping\",\"x\":\"\xed\xa0\x80\"}".to_vec());
    b("utf8", b"{\"type\":\"ping\",\"x\":\"\xc0\x80\"}".to_vec());
    b("utf8", b"{\"type\":\"ping\",\"x\":\"\xf4\x90\x80\x80\"}".to_vec());
    b("utf8", b"{\"type\":\"stop\",\"id\":\"id0\xc3\"}".to_vec());
    b("utf8", b"{\"ty\xffpe\":\"ping\"}".to_vec());
    b("utf8", b"{\"type\":\"ping\"}\xc2".to_vec());
    b("utf8_ok", "{\"type\":\"stop\",\"id\":\"é😀\u{0}\"}".as_bytes().to_vec());
    v
}

/// random JSON text for payloads and unknown members
fn gen_json(rng: &mut Rng, depth: usize) -> String {
    match rng.below(if depth == 0 { 8 } else { 11 }) {
        0 => "null".into(),
        1 => "true".into(),
        2 => "false".into(),
        3 => rng.range(-5, 100).to_string(),
        4 => (*rng.pick(&["1.5", "-0", "1e5", "2E-3", "18446744073709551615", "18446744073709551616", "-9223372036854775808", "1e308", "0.1"])).into(),
        5 | 6 => gen_string(rng),
        7 => (*rng.pick(&["[]", "{}", "[ ]", "{ }"])).into(),
        8 | 9 => {
            let n = rng.below(3) + 1;
            let xs: Vec<String> = (0..n).map(|_| gen_json(rng, depth - 1)).collect();
            format!("[{}]", xs.join(if rng.chance(1, 4) { " , " } else { "," }))
        }
        _ => {
            let n = rng.below(3) + 1;
            let xs: Vec<String> = (0..n)
                .map(|_| format!("{}:{}", gen_key(rng, &["a", "b", "type", "id", "payload", "query"]), gen_json(rng, depth - 1)))
                .collect();
            format!("{{{}}}", xs.join(","))
        }
    }
}

fn esc_char(rng: &mut Rng, c: char) -> String {
    let cp = c as u32;
    if cp >= 0x10000 && rng.chance(1, 2) {
        let x = cp - 0x10000;
        return format!("\\u{:04x}\\u{:04X}", 0xd800 + (x >> 10), 0xdc00 + (x & 0x3ff));
    }
    if cp < 0x20 || c == '"' || c == '\\' || rng.chance(1, 6) {
        if cp < 0x10000 {
            return if rng.chance(1, 2) { format!("\\u{cp:04x}") } else { format!("\\u{cp:04X}") };
        }
    }
    c.to_string()
}

/// a JSON string token for `s` with random escaping
fn quote_json(rng: &mut Rng, s: &str) -> String {
    let mut o = String::from("\"");
    for c in s.chars() {
        o.push_str(&esc_char(rng, c));
    }
    o.push('"');
    o
}

fn gen_string(rng: &mut Rng) -> String {
    let s: String = match rng.below(8) {
        0 => "".into(),
        1 => "id0".into(),
        2 => "a b".into(),
        3 => "é😀".into(),
        4 => "q\"\\/\n".into(),
        5 => "\u{0}\u{1f}\u{7f}".into(),
        6 => "ping".into(),
        _ => "subscription { s }".into(),
    };
    if rng.chance(1, 12) {
        // a raw (possibly malformed) token
        return (*rng.pick(&[r#""\n\t\/\b\f\r""#, r#""\ud83d\ude00""#, r#""\ud83d""#, r#""\udc00""#, r#""\x""#, "\"\u{1}\"", r#""\u00e9""#, r#""\u00E9""#])).into();
    }
    quote_json(rng, &s)
}

fn gen_key(rng: &mut Rng, names: &[&str]) -> String {
    let k = *rng.pick(names);
    quote_json(rng, k)
}

fn ws(rng: &mut Rng) -> &'static str {
    match rng.below(12) {
        0 => " ",
        1 => "\n",
        2 => "\t",
        3 => "\r\n",
        4 => "  ",
        _ => "",
    }
}

/// a message object built member by member: mostly one of the table, with random member order,
/// white space, escapes, unknown / repeated / ill-typed members
fn gen_message(rng: &mut Rng, dist: &mut Dist) -> String {
    let ty = *rng.pick(&[
        "connection_init", "start", "subscribe", "stop", "complete", "connection_terminate", "ping", "pong", "start", "subscribe", "stop", "ping",
        "Ping", "connection_ack", "", "next",
    ]);
    let mut ms: Vec<String> = vec![];
    let member = |rng: &mut Rng, k: &str, v: String| format!("{}{}{}:{}{}", ws(rng), quote_json(rng, k), ws(rng), ws(rng), v);
    // the tag
    if !rng.chance(1, 25) {
        let tv = match rng.below(30) {
            0 => "null".to_string(),
            1 => "5".to_string(),
            2 => format!("[{}]", quote_json(rng, ty)),
            _ => quote_json(rng, ty),
        };
        ms.push(member(rng, "type", tv));
    }
    let id = |rng: &mut Rng| match rng.below(16) {
        0 => "5".to_string(),
        1 => "null".to_string(),
        2 => gen_string(rng),
        _ => {
            let k = rng.below(3);
            quote_json(rng, &format!("id{k}"))
        }
    };
    let request = |rng: &mut Rng| -> String {
        let mut fs: Vec<String> = vec![];
        if !rng.chance(1, 8) {
            fs.push(format!("{}:{}", quote_json(rng, "query"), if rng.chance(1, 10) { gen_json(rng, 1) } else { quote_json(rng, QUERY) }));
        }
        if rng.chance(1, 3) {
            fs.push(format!("{}:{}", quote_json(rng, "operationName"), if rng.chance(1, 4) { gen_json(rng, 1) } else { (*rng.pick(&["null", "\"o\""])).to_string() }));
        }
        if rng.chance(1, 3) {
            fs.push(format!("{}:{}", quote_json(rng, "variables"), if rng.chance(1, 4) { gen_json(rng, 1) } else { (*rng.pick(&["null", "{}", "{\"a\":1,\"b\":[true]}", "{\"a\":1,\"a\":2}"])).to_string() }));
        }
        if rng.chance(1, 4) {
            fs.push(format!("{}:{}", quote_json(rng, "extensions"), if rng.chance(1, 4) { gen_json(rng, 1) } else { (*rng.pick(&["null", "{}", "{\"x\":{\"y\":1.5}}"])).to_string() }));
        }
        if rng.chance(1, 6) {
            fs.push(format!("{}:{}", gen_key(rng, &["operation_name", "uploads", "data", "x"]), gen_json(rng, 1)));
        }
        if rng.chance(1, 12) && !fs.is_empty() {
            let d = rng.pick(&fs).clone();
            fs.push(d);
        }
        rng.shuffle(&mut fs);
        if rng.chance(1, 14) {
            // positional form
            return (*rng.pick(&["[]", "[\"subscription { s }\"]", "[\"subscription { s }\",null,{},{}]", "[\"q\",\"o\",null,null,null]", "[5]"])).to_string();
        }
        format!("{{{}}}", fs.join(","))
    };
    match ty {
        "start" | "subscribe" => {
            if !rng.chance(1, 12) {
                let v = id(rng);
                ms.push(member(rng, "id", v));
            }
            if !rng.chance(1, 12) {
                let v = if rng.chance(1, 12) { gen_json(rng, 1) } else { request(rng) };
                ms.push(member(rng, "payload", v));
            }
        }
        "stop" | "complete" => {
            if !rng.chance(1, 10) {
                let v = id(rng);
                ms.push(member(rng, "id", v));
            }
        }
        "connection_terminate" => {}
        _ => {
            if rng.chance(1, 2) {
                let v = gen_json(rng, 2);
                ms.push(member(rng, "payload", v));
            }
        }
    }
    // unknown members
    for _ in 0..[0, 0, 0, 1, 1, 2][rng.below(6)] {
        dist.hit("frame_unknown_member");
        let k = *rng.pick(&["x", "", "Type", "ID", "extensions", "id", "payload"]);
        let v = gen_json(rng, 2);
        ms.push(member(rng, k, v));
    }
    // a repeated member
    if rng.chance(1, 10) && !ms.is_empty() {
        dist.hit("frame_dup_member");
        let d = rng.pick(&ms).clone();
        ms.push(d);
    }
    rng.shuffle(&mut ms);
    format!("{}{{{}{}}}{}", ws(rng), ms.join(","), ws(rng), ws(rng))
}

/// damage done to a frame after it was written
fn mutate(rng: &mut Rng, text: String, dist: &mut Dist) -> Vec<u8> {
    let mut bytes = text.clone().into_bytes();
    let k = rng.below(16);
    dist.hit(&format!("frame_mut_{k}"));
    match k {
        0 => bytes.extend_from_slice(plain("start", rng.below(3), rng.below(2)).as_bytes()),
        1 => bytes.extend_from_slice(text.as_bytes()),
        2 => bytes.extend_from_slice(&text.as_bytes()[..rng.below(text.len() + 1)]),
        3 => bytes.extend_from_slice(rng.pick(&["}", "]", "x", "\u{0}", ",", ":", "1", "null", "\"\"", " 1", "\n{", "//", "\u{feff}", "\u{c}", "\u{a0}"]).as_bytes()),
        4 => bytes.extend_from_slice(rng.pick(&[" ", "\n", "\t", "\r", " \n\t\r "]).as_bytes()),
        5 => {
            let lead = *rng.pick(&[" ", "\n\t", "\u{feff}", "\u{0}", "x", "\r"]);
            bytes = [lead.as_bytes(), &bytes].concat();
        }
        6 => {
            let n = rng.below(bytes.len() + 1);
            bytes.truncate(n);
        }
        7 if !bytes.is_empty() => {
            let i = rng.below(bytes.len());
            bytes.remove(i);
        }
        8 => {
            let i = rng.below(bytes.len() + 1);
            bytes.insert(i, *rng.pick(&[b'"', b'{', b'}', b'[', b']', b',', b':', b'\\', b' ', b'0', b'e', b'-', b'.', 0, 0x1f, 0xff, 0xc3, 0x80]));
        }
        9 if !bytes.is_empty() => {
            let i = rng.below(bytes.len());
            bytes[i] = *rng.pick(&[b'"', b'}', b',', b':', b'\\', b' ', b'1', b'u', 0xff]);
        }
        10 => {
            // as an array: the tag first
            bytes = (*rng.pick(&[
                "[\"ping\",null]", "[\"ping\"]", "[\"connection_init\",{}]", "[\"stop\",\"id0\"]", "[\"complete\",\"id1\"]", "[\"connection_terminate\"]",
                "[\"start\",\"id0\",{\"query\":\"subscription { s }\"}]", "[\"subscribe\",\"id1\",[\"subscription { s }\"]]", "[\"pong\",1,2]", "[]",
            ]))
            .as_bytes()
            .to_vec();
        }
        11 => {
            let n = *rng.pick(&[3usize, 60, 125, 126, 127, 128, 129, 140]);
            let inner = if rng.chance(1, 2) { nest("[", "]", n, "") } else { nest("{\"a\":", "}", n, "null") };
            bytes = format!("{{\"type\":\"ping\",\"{}\":{}}}", rng.pick(&["payload", "x"]), inner).into_bytes();
        }
        12 => {
            let n = *rng.pick(&["1e308", "1e309", "1.7976931348623158e308", "1.7976931348623159e308", "-1e400", "1e-400", "01", "1.", "-", "1e", "0e999999999999", "2e308", "17976931348623158e292", "17976931348623159e292", "0.00017976931348623159e312"]);
            bytes = format!("{{\"type\":\"pong\",\"{}\":{}}}", rng.pick(&["payload", "x"]), n).into_bytes();
        }
        _ => {}
    }
    bytes
}

/// one frame for the random parts: a plain message, a structured message, or a damaged one
fn gen_frame(rng: &mut Rng, dist: &mut Dist, sp: &[(&'static str, Vec<u8>)]) -> Sexp {
    match rng.below(10) {
        0 => {
            let (fam, b) = rng.pick(sp);
            dist.hit(&format!("frame_{fam}"));
            frame(b)
        }
        1..=3 => {
            dist.hit("frame_structured");
            let m = gen_message(rng, dist);
            frame(m.as_bytes())
        }
        4..=6 => {
            dist.hit("frame_mutated");
            let base = if rng.chance(1, 2) { gen_message(rng, dist) } else { plain(KINDS[rng.below(6)], rng.below(3), rng.below(2)) };
            frame(&mutate(rng, base, dist))
        }
        _ => {
            dist.hit("frame_plain");
            frame(plain(KINDS[rng.below(6)], rng.below(3), rng.below(2)).as_bytes())
        }
    }
}

// ------------------------------------------------------------------ generator: sessions

const NSYM: usize = 18;

fn step(ms: Vec<Sexp>, fut: &str, str_ev: Sexp, tick: bool) -> Sexp {
    list(vec![list(ms), atom(fut), str_ev, atom(if tick { "1" } else { "0" })])
}

fn p0(kind: &str, v: usize) -> Sexp {
    ft(&plain(kind, 0, v))
}
fn p1(kind: &str, id: usize, v: usize) -> Sexp {
    ft(&plain(kind, id, v))
}
fn item(i: usize, v: usize) -> Sexp {
    node("item", vec![num(i), num(v)])
}
fn fin(i: usize) -> Sexp {
    node("fin", vec![num(i)])
}

/// the atomic steps of the bounded-exhaustive part; `v` varies the spelling / the undecodable frame
fn symbol(k: usize, v: usize, sp: &[(&'static str, Vec<u8>)]) -> Sexp {
    let n = || atom("-");
    match k {
        0 => step(vec![], "-", n(), false),
        1 => step(vec![p0("init", v % 2)], "-", n(), false),
        2 => step(vec![p1("start", 0, v % 2)], "-", n(), false),
        3 => step(vec![p1("start", 1, v % 2)], "-", n(), false),
        4 => step(vec![p1("stop", 0, v % 2)], "-", n(), false),
        5 => step(vec![p0("term", v % 2)], "-", n(), false),
        6 => step(vec![p0("ping", v % 2)], "-", n(), false),
        7 => step(vec![p0("pong", v % 2)], "-", n(), false),
        8 => step(vec![frame(&sp[v % sp.len()].1)], "-", n(), false),
        9 => step(vec![node("eof", vec![])], "-", n(), false),
        10 => step(vec![], "ok", n(), false),
        11 => step(vec![], "err", n(), false),
        12 => step(vec![], "-", item(0, v % 2), false),
        13 => step(vec![], "-", item(1, v % 2), false),
        14 => step(vec![], "-", fin(0), false),
        15 => step(vec![], "-", n(), true),
        16 => step(vec![p0("init", v % 2)], "ok", n(), false),
        17 => step(vec![p1("start", 0, v % 2)], "-", item(0, v % 2), false),
        _ => unreachable!(),
    }
}

fn pow(b: usize, e: usize) -> usize {
    (0..e).fold(1, |a, _| a * b)
}

/// number of bounded-exhaustive scripts for a tier, and the decoder of the i-th one
fn exhaustive(i: usize, lmax: usize) -> Result<(usize, usize, Vec<usize>), usize> {
    let mut i = i;
    for block in 0..4 {
        for len in 1..=lmax {
            let n = pow(NSYM, len);
            if i < n {
                let mut syms = vec![];
                let mut x = i;
                for _ in 0..len {
                    syms.push(x % NSYM);
                    x /= NSYM;
                }
                return Ok((block & 1, block >> 1, syms));
            }
            i -= n;
        }
    }
    Err(i)
}

const NCTX: usize = 7;

/// every hand-picked frame at every point of a session: before the init, while the init callback
/// runs, after the ack, while an operation streams, after it completed, after the client stopped
/// it, behind another frame in the same poll; followed by a tail that shows whether the session
/// went on or fell silent
fn placed(proto: usize, ctx: usize, f: Sexp, v: usize) -> Sexp {
    let n = || atom("-");
    let mut s: Vec<Sexp> = vec![];
    let init_ok = || step(vec![p0("init", v % 2)], "ok", n(), false);
    match ctx {
        0 => s.push(step(vec![f], "-", n(), false)),
        1 => {
            s.push(step(vec![p0("init", v % 2)], "-", n(), false));
            s.push(step(vec![f], "-", n(), false));
            s.push(step(vec![], "ok", n(), false));
            s.push(step(vec![], "-", n(), false));
        }
        2 => {
            s.push(init_ok());
            s.push(step(vec![f], "-", n(), false));
        }
        3 => {
            s.push(init_ok());
            s.push(step(vec![p1("start", 0, v % 2)], "-", item(0, 1), false));
            s.push(step(vec![f], "-", item(0, 2), false));
        }
        4 => {
            s.push(init_ok());
            s.push(step(vec![p1("start", 0, v % 2)], "-", n(), false));
            s.push(step(vec![], "-", fin(0), false));
            s.push(step(vec![f], "-", n(), false));
        }
        5 => {
            s.push(init_ok());
            s.push(step(vec![p1("start", 0, v % 2)], "-", n(), false));
            s.push(step(vec![p1("stop", 0, v % 2)], "-", n(), false));
            s.push(step(vec![f], "-", item(0, 4), false));
        }
        _ => {
            s.push(init_ok());
            s.push(step(vec![p1("start", 1, v % 2), f, p1("start", 2, v % 2)], "-", n(), false));
        }
    }
    s.push(step(vec![], "-", item(0, 3), false));
    s.push(step(vec![p0("ping", 0)], "ok", n(), false));
    s.push(step(vec![p1("start", 0, 1)], "-", item(1, 5), false));
    s.push(step(vec![], "-", item(1, 6), false));
    let mut c = vec![atom(if proto == 0 { "new" } else { "legacy" }), num(0)];
    c.extend(s);
    node("ws", c)
}

fn gen_session(rng: &mut Rng, i: usize, o: &Opts, dist: &mut Dist, sp: &[(&'static str, Vec<u8>)]) -> Sexp {
    let lmax = if o.tier == "thorough" { 4 } else { 3 };
    let i = match exhaustive(i, lmax) {
        Ok((proto, prefix, syms)) => {
            dist.hit("exhaustive");
            let mut v = vec![atom(if proto == 0 { "new" } else { "legacy" }), num(2)];
            if prefix == 1 {
                v.push(symbol(16, 0, sp));
            }
            for (j, k) in syms.iter().enumerate() {
                v.push(symbol(*k, i / 7 + j, sp));
            }
            return node("ws", v);
        }
        Err(rest) => rest,
    };
    if i < sp.len() * NCTX * 2 {
        dist.hit("placed");
        let (fam, b) = &sp[i / (NCTX * 2)];
        dist.hit(&format!("placed_{fam}"));
        return placed(i % 2, (i / 2) % NCTX, frame(b), i / 14);
    }
    dist.hit("random");
    let proto = if rng.chance(1, 2) { "new" } else { "legacy" };
    dist.hit(&format!("proto_{proto}"));
    let ka = *rng.pick(&[0usize, 0, 1, 2, 3]);
    let len = 3 + rng.below(14);
    let mut started = 0usize;
    let mut steps = vec![];
    for j in 0..len {
        let mut ms = vec![];
        let nmsg = if j == 0 {
            1
        } else {
            match rng.below(20) {
                0..=7 => 0,
                8..=16 => 1,
                _ => 2,
            }
        };
        for q in 0..nmsg {
            let v = rng.below(2);
            let k = if j == 0 && q == 0 && rng.chance(3, 4) { 0 } else { rng.below(88) };
            let (name, m) = match k {
                0..=11 => ("init", p0("init", v)),
                12..=41 => {
                    started += 1;
                    ("start", p1("start", rng.below(3), v))
                }
                42..=56 => ("stop", p1("stop", rng.below(3), v)),
                57..=59 => ("term", p0("term", v)),
                60..=67 => ("ping", p0("ping", v)),
                68..=72 => ("pong", p0("pong", v)),
                73..=84 => {
                    // a structured / damaged / hand-picked frame: may well start an operation
                    started += 1;
                    ("frame", gen_frame(rng, dist, sp))
                }
                _ => ("eof", node("eof", vec![])),
            };
            dist.hit(&format!("msg_{name}"));
            ms.push(m);
        }
        let fut = match rng.below(20) {
            0..=9 => "ok",
            10 => "err",
            _ => "-",
        };
        let sev = if rng.chance(1, 2) {
            let inst = rng.below(started.max(1) + 1);
            if rng.chance(3, 4) {
                dist.hit("str_item");
                item(inst, rng.below(10))
            } else {
                dist.hit("str_fin");
                fin(inst)
            }
        } else {
            atom("-")
        };
        let tick = ka > 0 && rng.chance(1, 4);
        if tick {
            dist.hit("tick");
        }
        steps.push(step(ms, fut, sev, tick));
    }
    let mut v = vec![atom(proto), num(ka)];
    v.extend(steps);
    node("ws", v)
}

fn gen_decode(rng: &mut Rng, i: usize, dist: &mut Dist, sp: &[(&'static str, Vec<u8>)]) -> Sexp {
    if i < sp.len() {
        dist.hit(&format!("frame_{}", sp[i].0));
        return node("dec", vec![frame(&sp[i].1)]);
    }
    let f = match rng.below(10) {
        0..=3 => {
            dist.hit("frame_structured");
            let m = gen_message(rng, dist);
            frame(m.as_bytes())
        }
        4..=8 => {
            dist.hit("frame_mutated");
            let base = if rng.chance(2, 3) { gen_message(rng, dist) } else { plain(KINDS[rng.below(6)], rng.below(3), rng.below(2)) };
            let mut b = mutate(rng, base, dist);
            if rng.chance(1, 5) {
                b = mutate(rng, String::from_utf8_lossy(&b).into_owned(), dist);
            }
            frame(&b)
        }
        _ => {
            dist.hit("frame_plain");
            frame(plain(KINDS[rng.below(6)], rng.below(3), rng.below(2)).as_bytes())
        }
    };
    node("dec", vec![f])
}

fn main() {
    let sp = specials();
    let mut g = |rng: &mut Rng, i: usize, o: &Opts, dist: &mut Dist| -> Sexp {
        if o.stream == "decode" { gen_decode(rng, i, dist, &sp) } else { gen_session(rng, i, o, dist, &sp) }
    };
    main_loop(&mut g, &mut run);
}
