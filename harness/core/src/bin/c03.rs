//! C03 — a field error nulls only the nearest nullable position and is reported once (static flavour).
//!
//! Case:   (case SCHEMA DOC OPNAME VARS WORLD TEXT)
//!   SCHEMA  description of the family schema read back from the real registry (SDL export)
//!   DOC     the document as a tree (the harness prints it to TEXT, which is what is executed)
//!   VARS    supplied variable values;  WORLD  the data world driving every resolver
//! Output: (resp DATA (errs …) (log …)): data, errors as sorted (path line column), invocation log.

use std::sync::Arc;

#[path = "../family.rs"]
mod family;

use agvh::*;
use family::*;

fn gen_case(rng: &mut Rng, _i: usize, _o: &Opts, dist: &mut Dist) -> Sexp {
    thread_local! {
        static SD: SchemaD = SchemaD::from_sdl(&build_schema().sdl());
    }
    SD.with(|sd| {
        let op_ty = if rng.chance(1, 4) { "mutation" } else { "query" };
        let fail_16 = if rng.chance(1, 2) { 1 } else { 3 };
        let (mut doc, vars) = gen_request(sd, rng, dist, op_ty, true);
        let text = print_doc(&mut doc);
        let wg = WorldGen { sd, fail_16, nonfinite: false };
        let root = if doc.ops[0].ty == "mutation" { sd.mutation.clone().unwrap() } else { sd.query.clone() };
        let w = wg.generate(rng, &root, dist);
        node(
            "case",
            vec![
                sd.to_sexp(),
                doc.to_sexp(),
                doc.ops[0].name.as_ref().map(|n| st(n.clone())).unwrap_or(atom("none")),
                vars_sexp(&vars),
                w.to_sexp(),
                st(text),
                // number of pass-through extensions installed (they must not change the response)
                node("ext", vec![num(if rng.chance(1, 3) { 1 + rng.below(2) } else { 0 })]),
            ],
        )
    })
}

/// an extension whose hooks only delegate
struct PassThrough;
impl async_graphql::extensions::ExtensionFactory for PassThrough {
    fn create(&self) -> std::sync::Arc<dyn async_graphql::extensions::Extension> {
        std::sync::Arc::new(PassThroughExt)
    }
}
struct PassThroughExt;
#[async_graphql::async_trait::async_trait]
impl async_graphql::extensions::Extension for PassThroughExt {}

fn run(case: &Sexp, dist: &mut Dist) -> Sexp {
    let a = case.args();
    let vars = vars_from_sexp(&a[3]);
    let w = Arc::new(World::from_sexp(&a[4]).expect("world"));
    let text = a[5].as_str().unwrap();
    let n_ext = a.get(6).and_then(|e| e.args().first()).and_then(|x| x.as_usize()).unwrap_or(0);
    let schema = if n_ext == 0 {
        build_schema()
    } else {
        let mut b = async_graphql::Schema::build(Query, Mutation, async_graphql::EmptySubscription);
        for _ in 0..n_ext {
            b = b.extension(PassThrough);
        }
        b.finish()
    };
    let mut req = async_graphql::Request::new(text).data(w.clone());
    if let Some(n) = a[2].as_str() {
        req = req.operation_name(n);
    }
    let mut vs = async_graphql::Variables::default();
    for (k, v) in &vars {
        vs.insert(async_graphql::Name::new(k), v.to_avalue());
    }
    req = req.variables(vs);
    let resp = spin_on(schema.execute(req));
    if !resp.errors.is_empty() {
        dist.hit("resp_with_errors");
        if std::env::var("AGV_DEBUG").is_ok() {
            eprintln!("{:?}", resp.errors.iter().map(|e| e.message.clone()).collect::<Vec<_>>());
        }
    }
    response_sexp(&resp, &w)
}

fn main() {
    main_loop(&mut gen_case, &mut run);
}
