//! C10 — depth, complexity, recursion and directive limits are enforced exactly.
//!
//! Case:   (case KIND SCHEMA RULES DOC OPNAME VARS TEXT)
//!   KIND    static | dynamic (the same type system built with the derive macros, with custom
//!           complexity rules, or with `async_graphql::dynamic`, which has no rules)
//!   SCHEMA  description read back from the real registry (SDL export)
//!   RULES   (rules (rule TYPE FIELD EXPR) …) — the custom complexity rules in force, EXPR over
//!           (const N) | (arg NAME DEFAULT) | child | (add A B) | (mul A B); produced from the
//!           rule strings in `RULES` below, which are checked at start-up to be exactly the
//!           `#[graphql(complexity = "…")]` attributes of this file; argument defaults are
//!           taken from the SDL of the real registry
//!   DOC     the document tree (printed to TEXT, which is what is executed), VARS the variables
//!
//! The harness has no oracle: for each of the four limits it finds, by doubling + bisection on
//! the REAL schema, the smallest configured value under which the request is not rejected by
//! that limit (M), then re-runs with the limit at M-1, M, M+1 and prints the three verdicts,
//! and finally runs the 16 combinations of all four limits at {M-1, M}.
//!
//! Output: (out (nest M (t t t) DEF) (dirs M (t t t)) (cx M (t t t)) (depth M (t t t)) (all t×16))
//!   token: a = not rejected by a limit, n/x/c/d = rejected by recursion / directive /
//!   complexity / depth limit with no resolver invoked, upper case if a resolver ran anyway,
//!   - = limit value does not exist (M = 0).  DEF = verdict with the default configuration.

#![allow(dead_code)]

use std::sync::atomic::{AtomicUsize, Ordering};

#[path = "../c10doc.rs"]
#[allow(unused)]
mod family;

use agvh::*;
use async_graphql::{EmptyMutation, EmptySubscription, Interface, Object, Schema, Union, dynamic};
use family::{DV, DirN, DocN, FragN, GV, OpN, SchemaD, SelN, TRef, VarDefN, print_doc, vars_from_sexp, vars_sexp};

// ------------------------------------------------------------------ the static schema

static RAN: AtomicUsize = AtomicUsize::new(0);
fn ran() {
    RAN.fetch_add(1, Ordering::Relaxed);
}

/// (type, field, rule) — must be exactly the complexity attributes below (checked by `check_rule_table`)
const RULES: &[(&str, &str, &str)] = &[
    ("Query", "list", "count * child_complexity + 1"),
    ("Query", "nodes", "first * child_complexity"),
    ("Obj", "exp", "50"),
    ("Obj", "items", "count * child_complexity + 2"),
    ("Item", "id", "0"),
    ("Item", "exp", "3"),
    ("Item", "sub", "2 * child_complexity + 1"),
    ("Sub", "cost", "n + 2"),
];

pub struct Obj;
pub struct Item;
pub struct Sub;
pub struct Query;

#[derive(Interface)]
#[graphql(field(name = "id", ty = "i32"), field(name = "exp", ty = "i32"), field(name = "sub", ty = "Sub"))]
pub enum Node {
    Obj(Obj),
    Item(Item),
}

#[derive(Union)]
pub enum Un {
    Obj(Obj),
    Sub(Sub),
}

#[Object]
impl Query {
    async fn o(&self) -> Obj {
        ran();
        Obj
    }
    async fn i(&self) -> Node {
        ran();
        Node::Obj(Obj)
    }
    async fn u(&self) -> Un {
        ran();
        Un::Obj(Obj)
    }
    async fn n(&self) -> i32 {
        ran();
        1
    }
    #[graphql(complexity = "count * child_complexity + 1")]
    async fn list(&self, #[graphql(default = 3)] count: usize) -> Vec<Obj> {
        ran();
        let _ = count;
        vec![Obj]
    }
    #[graphql(complexity = "first * child_complexity")]
    async fn nodes(&self, #[graphql(default = 2)] first: usize) -> Vec<Node> {
        ran();
        let _ = first;
        vec![Node::Item(Item), Node::Obj(Obj)]
    }
}

#[Object]
impl Obj {
    async fn id(&self) -> i32 {
        ran();
        1
    }
    #[graphql(complexity = "50")]
    async fn exp(&self) -> i32 {
        ran();
        2
    }
    async fn sub(&self) -> Sub {
        ran();
        Sub
    }
    async fn only(&self) -> Sub {
        ran();
        Sub
    }
    #[graphql(complexity = "count * child_complexity + 2")]
    async fn items(&self, #[graphql(default = 2)] count: usize) -> Vec<Item> {
        ran();
        let _ = count;
        vec![Item]
    }
}

#[Object]
impl Item {
    #[graphql(complexity = "0")]
    async fn id(&self) -> i32 {
        ran();
        1
    }
    #[graphql(complexity = "3")]
    async fn exp(&self) -> i32 {
        ran();
        2
    }
    #[graphql(complexity = "2 * child_complexity + 1")]
    async fn sub(&self) -> Sub {
        ran();
        Sub
    }
    async fn v(&self) -> i32 {
        ran();
        3
    }
    async fn un(&self) -> Un {
        ran();
        Un::Sub(Sub)
    }
}

#[Object]
impl Sub {
    async fn id(&self) -> i32 {
        ran();
        1
    }
    #[graphql(complexity = "n + 2")]
    async fn cost(&self, #[graphql(default = 1)] n: usize) -> i32 {
        ran();
        n as i32
    }
    async fn obj(&self) -> Obj {
        ran();
        Obj
    }
    async fn node(&self) -> Node {
        ran();
        Node::Item(Item)
    }
}

/// The rule table is the set of attributes in this file: every `complexity = "…"` attribute is
/// followed by the `async fn` it decorates, inside the `impl` of its type.
fn check_rule_table() {
    let src = include_str!("c10.rs");
    let mut found: Vec<(String, String, String)> = vec![];
    let mut cur_ty = String::new();
    let mut pending: Option<String> = None;
    for line in src.lines() {
        let t = line.trim();
        if let Some(r) = t.strip_prefix("impl ") {
            cur_ty = r.trim_end_matches('{').trim().to_string();
        }
        if let Some(r) = t.strip_prefix("#[graphql(complexity = \"") {
            pending = Some(r.trim_end_matches("\")]").to_string());
        } else if let Some(r) = t.strip_prefix("async fn ") {
            if let Some(e) = pending.take() {
                let name = r.split('(').next().unwrap().to_string();
                found.push((cur_ty.clone(), name, e));
            }
        }
    }
    let want: Vec<(String, String, String)> = RULES.iter().map(|(a, b, c)| (a.to_string(), b.to_string(), c.to_string())).collect();
    assert_eq!(found, want, "RULES differs from the complexity attributes of the schema");
}

// ------------------------------------------------------------------ rule expressions

#[derive(Clone, Debug)]
enum CE {
    Const(u64),
    Arg(String),
    Child,
    Add(Box<CE>, Box<CE>),
    Mul(Box<CE>, Box<CE>),
}

/// sum of products of atoms, tokens separated by blanks
fn parse_rule(s: &str) -> CE {
    let atom_of = |t: &str| -> CE {
        if t == "child_complexity" {
            CE::Child
        } else if let Ok(n) = t.parse::<u64>() {
            CE::Const(n)
        } else {
            assert!(t.chars().all(|c| c.is_ascii_alphanumeric() || c == '_'), "rule token {t}");
            CE::Arg(t.to_string())
        }
    };
    let mut sum: Option<CE> = None;
    for term in s.split(" + ") {
        let mut prod: Option<CE> = None;
        for f in term.split(" * ") {
            let a = atom_of(f.trim());
            prod = Some(match prod {
                None => a,
                Some(p) => CE::Mul(Box::new(p), Box::new(a)),
            });
        }
        let p = prod.unwrap();
        sum = Some(match sum {
            None => p,
            Some(q) => CE::Add(Box::new(q), Box::new(p)),
        });
    }
    sum.unwrap()
}

fn ce_sexp(e: &CE, sd: &SchemaD, ty: &str, field: &str) -> Sexp {
    match e {
        CE::Const(n) => node("const", vec![num(n)]),
        CE::Child => atom("child"),
        CE::Arg(a) => {
            let f = sd.find(ty).unwrap().fields.iter().find(|f| f.name == field).expect("rule field in SDL");
            let ad = f.args.iter().find(|x| &x.name == a).expect("rule argument in SDL");
            let d = match &ad.default {
                Some(GV::Int(i)) => num(i),
                None => atom("none"),
                other => panic!("default {other:?}"),
            };
            node("arg", vec![st(a.clone()), d])
        }
        CE::Add(a, b) => node("add", vec![ce_sexp(a, sd, ty, field), ce_sexp(b, sd, ty, field)]),
        CE::Mul(a, b) => node("mul", vec![ce_sexp(a, sd, ty, field), ce_sexp(b, sd, ty, field)]),
    }
}

fn rules_sexp(sd: &SchemaD, kind: &str) -> Sexp {
    if kind == "dynamic" {
        return node("rules", vec![]);
    }
    node(
        "rules",
        RULES.iter().map(|(t, f, e)| node("rule", vec![st(*t), st(*f), ce_sexp(&parse_rule(e), sd, t, f)])).collect(),
    )
}

// ------------------------------------------------------------------ schema construction under a configuration

#[derive(Clone, Copy, Debug, Default)]
struct Cfg {
    rec: Option<usize>,
    dirs: Option<usize>,
    cx: Option<usize>,
    depth: Option<usize>,
}

type StaticSchema = Schema<Query, EmptyMutation, EmptySubscription>;

fn static_schema(c: Cfg) -> StaticSchema {
    let mut b = Schema::build(Query, EmptyMutation, EmptySubscription);
    if let Some(x) = c.rec {
        b = b.limit_recursive_depth(x);
    }
    if let Some(x) = c.dirs {
        b = b.limit_directives(x);
    }
    if let Some(x) = c.cx {
        b = b.limit_complexity(x);
    }
    if let Some(x) = c.depth {
        b = b.limit_depth(x);
    }
    b.finish()
}

fn dyn_tref(t: &TRef) -> dynamic::TypeRef {
    match t {
        TRef::Named(n) => dynamic::TypeRef::Named(n.clone().into()),
        TRef::List(i) => dynamic::TypeRef::List(Box::new(dyn_tref(i))),
        TRef::NonNull(i) => dynamic::TypeRef::NonNull(Box::new(dyn_tref(i))),
    }
}

/// the same type system, built from the static schema's description
fn dynamic_schema(sd: &SchemaD, c: Cfg) -> dynamic::Schema {
    use dynamic::*;
    fn value_for<'a>(sd: &SchemaD, t: &TRef) -> FieldValue<'a> {
        match t {
            TRef::NonNull(i) => value_for(sd, i),
            TRef::List(i) => FieldValue::list(vec![value_for(sd, i)]),
            TRef::Named(n) => match sd.find(n).map(|t| t.kind.as_str()) {
                Some("object") => FieldValue::owned_any(0u8),
                Some("interface") | Some("union") => FieldValue::owned_any(0u8).with_type(sd.possible(n)[0].clone()),
                _ => FieldValue::value(1),
            },
        }
    }
    let mut b = Schema::build(&sd.query, None, None);
    for t in &sd.types {
        match t.kind.as_str() {
            "object" => {
                let mut o = Object::new(&t.name);
                for i in &t.implements {
                    o = o.implement(i);
                }
                for f in &t.fields {
                    let sd2 = sd.clone();
                    let ty = f.ty.clone();
                    let mut fld = Field::new(&f.name, dyn_tref(&f.ty), move |_ctx| {
                        ran();
                        let v = value_for(&sd2, &ty);
                        FieldFuture::new(async move { Ok(Some(v)) })
                    });
                    for a in &f.args {
                        let mut iv = InputValue::new(&a.name, dyn_tref(&a.ty));
                        if let Some(GV::Int(d)) = &a.default {
                            iv = iv.default_value(*d);
                        }
                        fld = fld.argument(iv);
                    }
                    o = o.field(fld);
                }
                b = b.register(o);
            }
            "interface" => {
                let mut o = Interface::new(&t.name);
                for f in &t.fields {
                    let mut fld = InterfaceField::new(&f.name, dyn_tref(&f.ty));
                    for a in &f.args {
                        fld = fld.argument(InputValue::new(&a.name, dyn_tref(&a.ty)));
                    }
                    o = o.field(fld);
                }
                b = b.register(o);
            }
            "union" => {
                let mut u = Union::new(&t.name);
                for m in &t.members {
                    u = u.possible_type(m);
                }
                b = b.register(u);
            }
            _ => {}
        }
    }
    if let Some(x) = c.rec {
        b = b.limit_recursive_depth(x);
    }
    if let Some(x) = c.dirs {
        b = b.limit_directives(x);
    }
    if let Some(x) = c.cx {
        b = b.limit_complexity(x);
    }
    if let Some(x) = c.depth {
        b = b.limit_depth(x);
    }
    b.finish().expect("dynamic schema")
}

thread_local! {
    static SD_STATIC: SchemaD = SchemaD::from_sdl(&static_schema(Cfg::default()).sdl());
    static SD_DYNAMIC: SchemaD = SD_STATIC.with(|sd| SchemaD::from_sdl(&dynamic_schema(sd, Cfg::default()).sdl()));
}

// ------------------------------------------------------------------ one probe of the real implementation

struct Req<'a> {
    kind: &'a str,
    text: &'a str,
    op: Option<&'a str>,
    vars: &'a [(String, GV)],
}

/// executes the request under `c`; returns the verdict token
fn probe(r: &Req, c: Cfg, dist: &mut Dist) -> char {
    let mut req = async_graphql::Request::new(r.text);
    if let Some(n) = r.op {
        req = req.operation_name(n);
    }
    let mut vs = async_graphql::Variables::default();
    for (k, v) in r.vars {
        vs.insert(async_graphql::Name::new(k), v.to_avalue());
    }
    req = req.variables(vs);
    RAN.store(0, Ordering::Relaxed);
    let resp = if r.kind == "static" {
        spin_on(static_schema(c).execute(req))
    } else {
        let s = SD_STATIC.with(|sd| dynamic_schema(sd, c));
        spin_on(s.execute(req))
    };
    let ran = RAN.load(Ordering::Relaxed) > 0;
    dist.hit("probes");
    let mut tok = 'a';
    for e in &resp.errors {
        let m = e.message.as_str();
        let t = if m.starts_with("The recursion depth of the query cannot be greater than") {
            'n'
        } else if m.starts_with("The number of directives on the field") {
            'x'
        } else if m == "Query is too complex." {
            'c'
        } else if m == "Query is nested too deep." {
            'd'
        } else {
            continue;
        };
        tok = t;
        break;
    }
    if tok == 'a' {
        if !resp.errors.is_empty() {
            dist.hit("probe_accepted_other_error");
            if std::env::var("AGV_DEBUG").is_ok() {
                eprintln!("{} -> {:?}", r.text, resp.errors.iter().map(|e| e.message.clone()).collect::<Vec<_>>());
            }
        } else if ran {
            dist.hit("probe_accepted_resolvers_ran");
        } else {
            dist.hit("probe_accepted_no_resolver");
        }
        'a'
    } else {
        dist.hit("probe_rejected");
        if ran { tok.to_ascii_uppercase() } else { tok }
    }
}

const CAP_NEST: usize = 128;
const CAP: usize = 1 << 22;

/// smallest limit value in 0..=cap under which the request is not rejected with token `which`
/// (None = rejected even at `cap`).  Doubling, then bisection; monotonicity is not assumed by
/// the judge, which sees the verdicts at M-1, M, M+1.
fn threshold(r: &Req, which: char, cap: usize, mk: &dyn Fn(usize) -> Cfg, dist: &mut Dist) -> Option<usize> {
    let rejected = |l: usize, dist: &mut Dist| probe(r, mk(l), dist).to_ascii_lowercase() == which;
    if !rejected(0, dist) {
        return Some(0);
    }
    let mut lo = 0usize; // rejected at lo
    let mut hi = 1usize;
    loop {
        if !rejected(hi, dist) {
            break;
        }
        lo = hi;
        if hi >= cap {
            return None;
        }
        hi = (hi * 2).min(cap);
    }
    while hi - lo > 1 {
        let mid = lo + (hi - lo) / 2;
        if rejected(mid, dist) {
            lo = mid;
        } else {
            hi = mid;
        }
    }
    Some(hi)
}

fn around(r: &Req, m: Option<usize>, mk: &dyn Fn(usize) -> Cfg, dist: &mut Dist) -> (Sexp, Sexp) {
    match m {
        None => (atom("inf"), list(vec![])),
        Some(m) => {
            let mut toks = vec![];
            if m == 0 {
                toks.push(atom("-"));
            } else {
                toks.push(atom(probe(r, mk(m - 1), dist).to_string()));
            }
            toks.push(atom(probe(r, mk(m), dist).to_string()));
            toks.push(atom(probe(r, mk(m + 1), dist).to_string()));
            (num(m), list(toks))
        }
    }
}

fn run(case: &Sexp, dist: &mut Dist) -> Sexp {
    let a = case.args();
    let kind = a[0].as_atom().expect("kind");
    let vars = vars_from_sexp(&a[5]);
    let r = Req { kind, text: a[6].as_str().unwrap(), op: a[4].as_str(), vars: &vars };
    let none = Cfg::default();

    let mk_n = |l: usize| Cfg { rec: Some(l), ..none };
    let m_n = threshold(&r, 'n', CAP_NEST, &mk_n, dist);
    let (mn, tn) = around(&r, m_n, &mk_n, dist);
    let def = probe(&r, none, dist);
    let mut out = vec![node("nest", vec![mn, tn, atom(def.to_string())])];
    if def.to_ascii_lowercase() == 'n' {
        dist.hit("case_over_default_recursion_limit");
        out.push(atom("skip"));
        return node("out", out);
    }
    let mk_x = |l: usize| Cfg { dirs: Some(l), ..none };
    let m_x = threshold(&r, 'x', CAP, &mk_x, dist);
    let (mx, tx) = around(&r, m_x, &mk_x, dist);
    out.push(node("dirs", vec![mx, tx]));
    let mk_c = |l: usize| Cfg { cx: Some(l), ..none };
    let m_c = threshold(&r, 'c', CAP, &mk_c, dist);
    let (mc, tc) = around(&r, m_c, &mk_c, dist);
    out.push(node("cx", vec![mc, tc]));
    let mk_d = |l: usize| Cfg { depth: Some(l), ..none };
    let m_d = threshold(&r, 'd', CAP, &mk_d, dist);
    let (md, td) = around(&r, m_d, &mk_d, dist);
    out.push(node("depth", vec![md, td]));
    if let (Some(n), Some(x), Some(c), Some(d)) = (m_n, m_x, m_c, m_d) {
        dist.add(&format!("cx_bucket_{}", match c { 0 => "0", 1..=5 => "1-5", 6..=20 => "6-20", 21..=100 => "21-100", _ => "101+" }), 1);
        dist.add(&format!("depth_{}", d.min(6)), 1);
        dist.add(&format!("nest_{}", match n { 0..=2 => "0-2", 3..=5 => "3-5", 6..=12 => "6-12", _ => "13+" }), 1);
        dist.add(&format!("dirs_{}", x.min(4)), 1);
        let mut toks = vec![];
        for k in 0..16usize {
            let pick = |bit: usize, m: usize| if k >> bit & 1 == 1 { m.saturating_sub(1) } else { m };
            let c = Cfg { rec: Some(pick(0, n)), dirs: Some(pick(1, x)), cx: Some(pick(2, c)), depth: Some(pick(3, d)) };
            toks.push(atom(probe(&r, c, dist).to_string()));
        }
        out.push(node("all", toks));
    } else {
        out.push(node("all", vec![]));
    }
    node("out", out)
}

// ------------------------------------------------------------------ generator

struct G<'a> {
    sd: &'a SchemaD,
    rng: &'a mut Rng,
    dist: &'a mut Dist,
    frags: Vec<FragN>,
    /// Int variables in play: (name, has default, default)
    vars: Vec<(String, bool, i64)>,
    budget: usize,
    alias_no: usize,
    adversarial: bool,
    heavy_dirs: bool,
    typenames: bool,
}

impl<'a> G<'a> {
    fn overlapping(&self, ty: &str) -> Vec<String> {
        let mine = self.sd.possible(ty);
        self.sd
            .types
            .iter()
            .filter(|t| matches!(t.kind.as_str(), "object" | "interface" | "union") && t.name != self.sd.query)
            .filter(|t| self.sd.possible(&t.name).iter().any(|p| mine.contains(p)))
            .map(|t| t.name.clone())
            .collect()
    }
    fn dirs(&mut self) -> Vec<DirN> {
        let mut out = vec![];
        if self.heavy_dirs && self.rng.chance(1, 4) {
            // repeated directives (invalid by the uniqueness rule, which is checked after the limit)
            let n = 3 + self.rng.below(4);
            for _ in 0..n {
                out.push(DirN { name: "include".into(), args: vec![("if".into(), DV::Const(GV::Bool(true)))] });
            }
            self.dist.hit("gen_repeated_directives");
            return out;
        }
        if !self.rng.chance(1, 4) {
            return out;
        }
        let k = self.rng.below(3);
        let keep = !self.rng.chance(1, 8);
        if k != 1 {
            out.push(DirN { name: "skip".into(), args: vec![("if".into(), DV::Const(GV::Bool(!keep)))] });
        }
        if k != 0 {
            out.push(DirN { name: "include".into(), args: vec![("if".into(), DV::Const(GV::Bool(keep)))] });
        }
        self.dist.add("gen_directives", out.len() as u64);
        out
    }
    fn int_arg(&mut self) -> DV {
        if self.adversarial && self.rng.chance(1, 6) {
            self.dist.hit("gen_bad_rule_argument");
            return match self.rng.below(3) {
                0 => DV::Const(GV::Int(-1 - self.rng.below(3) as i64)),
                1 => DV::Const(GV::Null),
                _ => DV::Var("undeclared".into()),
            };
        }
        if self.rng.chance(1, 3) {
            let k = self.rng.below(3);
            let name = format!("c{k}");
            if !self.vars.iter().any(|v| v.0 == name) {
                let has_default = self.rng.chance(1, 2);
                let d = self.rng.below(5) as i64;
                self.vars.push((name.clone(), has_default, d));
            }
            self.dist.hit("gen_arg_variable");
            DV::Var(name)
        } else {
            self.dist.hit("gen_arg_literal");
            DV::Const(GV::Int(self.rng.below(6) as i64))
        }
    }
    fn selection_set(&mut self, ty: &str, depth: usize) -> Vec<SelN> {
        let t = self.sd.find(ty).unwrap().clone();
        let n = 1 + self.rng.below(4);
        let mut out = vec![];
        for _ in 0..n {
            if self.budget == 0 {
                break;
            }
            self.budget -= 1;
            let k = self.rng.below(20);
            if self.adversarial && self.rng.chance(1, 10) {
                // malformed selections: the limits are measured before validation reports them
                match self.rng.below(4) {
                    0 => {
                        self.dist.hit("gen_unknown_field");
                        let sels = if self.rng.chance(1, 2) && depth > 0 { self.selection_set("Obj", depth - 1) } else { vec![] };
                        out.push(SelN::Field { alias: None, name: "zz".into(), args: vec![], dirs: vec![], sels, pos: (0, 0) });
                    }
                    1 => {
                        self.dist.hit("gen_unknown_spread");
                        out.push(SelN::Spread { name: "Nope".into(), dirs: self.dirs(), pos: (0, 0) });
                    }
                    2 => {
                        self.dist.hit("gen_unknown_type_condition");
                        let sels = self.selection_set("Obj", depth);
                        if !sels.is_empty() {
                            out.push(SelN::Inline { cond: Some("Nope".into()), dirs: vec![], sels, pos: (0, 0) });
                        }
                    }
                    _ => {
                        self.dist.hit("gen_impossible_type_condition");
                        let sels = self.selection_set("Sub", depth);
                        if !sels.is_empty() {
                            out.push(SelN::Inline { cond: Some("Sub".into()), dirs: vec![], sels, pos: (0, 0) });
                        }
                    }
                }
                continue;
            }
            if k < 11 && !t.fields.is_empty() {
                let f = self.rng.pick(&t.fields).clone();
                let composite = self.sd.is_composite(f.ty.base());
                if composite && depth == 0 {
                    continue;
                }
                let mut args = vec![];
                for a in &f.args {
                    if self.rng.chance(2, 3) {
                        args.push((a.name.clone(), self.int_arg()));
                    }
                }
                let alias = if !f.args.is_empty() {
                    self.alias_no += 1;
                    Some(format!("a{}", self.alias_no))
                } else if self.rng.chance(1, 6) {
                    self.dist.hit("gen_alias");
                    Some(format!("{}_x", f.name))
                } else {
                    None
                };
                let dirs = self.dirs();
                let sels = if composite { self.selection_set(f.ty.base(), depth - 1) } else { vec![] };
                if composite && sels.is_empty() {
                    continue;
                }
                self.dist.hit(if f.args.is_empty() { "gen_field" } else { "gen_field_with_rule_argument" });
                out.push(SelN::Field { alias, name: f.name.clone(), args, dirs, sels, pos: (0, 0) });
            } else if k < 13 {
                if !self.typenames || k == 12 {
                    continue;
                }
                self.dist.hit("gen_typename");
                let dirs = self.dirs();
                out.push(SelN::Field { alias: None, name: "__typename".into(), args: vec![], dirs, sels: vec![], pos: (0, 0) });
            } else if k < 16 || self.frags.len() >= 4 {
                let conds = self.overlapping(ty);
                let cond = if ty == self.sd.query || conds.is_empty() || self.rng.chance(1, 5) {
                    if self.rng.chance(1, 2) { None } else { Some(ty.to_string()) }
                } else {
                    Some(self.rng.pick(&conds).clone())
                };
                let inner = cond.clone().unwrap_or(ty.to_string());
                let dirs = self.dirs();
                let sels = self.selection_set(&inner, depth);
                if sels.is_empty() {
                    continue;
                }
                self.dist.hit(match &cond {
                    None => "gen_inline_nocond",
                    Some(c) if c == ty => "gen_inline_same_type",
                    Some(_) => "gen_inline_other_type",
                });
                out.push(SelN::Inline { cond, dirs, sels, pos: (0, 0) });
            } else {
                let conds = if ty == self.sd.query { vec![ty.to_string()] } else { self.overlapping(ty) };
                let reusable: Vec<String> = self.frags.iter().filter(|f| conds.contains(&f.cond)).map(|f| f.name.clone()).collect();
                let name = if !reusable.is_empty() && self.rng.chance(1, 2) {
                    self.dist.hit("gen_spread_reuse");
                    self.rng.pick(&reusable).clone()
                } else {
                    let cond = self.rng.pick(&conds).clone();
                    let sels = self.selection_set(&cond, depth);
                    if sels.is_empty() {
                        continue;
                    }
                    let name = format!("F{}", self.frags.len());
                    self.dist.hit(if cond == ty { "gen_frag_same_type" } else { "gen_frag_other_type" });
                    self.frags.push(FragN { name: name.clone(), cond, sels });
                    name
                };
                out.push(SelN::Spread { name, dirs: self.dirs(), pos: (0, 0) });
            }
        }
        out
    }
}

fn used_vars(ss: &[SelN], frags: &[FragN], used: &mut Vec<String>, seen: &mut Vec<String>) {
    for s in ss {
        match s {
            SelN::Field { args, sels, .. } => {
                for (_, v) in args {
                    if let DV::Var(n) = v {
                        if !used.contains(n) {
                            used.push(n.clone());
                        }
                    }
                }
                used_vars(sels, frags, used, seen);
            }
            SelN::Inline { sels, .. } => used_vars(sels, frags, used, seen),
            SelN::Spread { name, .. } => {
                if !seen.contains(name) {
                    seen.push(name.clone());
                    if let Some(f) = frags.iter().find(|f| &f.name == name) {
                        used_vars(&f.sels, frags, used, seen);
                    }
                }
            }
        }
    }
}

/// `{ o { sub { obj { sub { … id } } } } }` with `levels` nested selection sets below the root
fn chain(levels: usize, rng: &mut Rng) -> Vec<SelN> {
    let mut inner = vec![SelN::Field { alias: None, name: "id".into(), args: vec![], dirs: vec![], sels: vec![], pos: (0, 0) }];
    // the innermost composite is Obj when `levels` is odd (o, sub, obj, sub, …)
    for l in (1..=levels).rev() {
        let name = if l == 1 { "o" } else if l % 2 == 0 { "sub" } else { "obj" };
        let f = SelN::Field { alias: None, name: name.into(), args: vec![], dirs: vec![], sels: inner, pos: (0, 0) };
        inner = if rng.chance(1, 6) && l > 1 {
            // an inline fragment costs a recursion level but no depth
            vec![SelN::Inline { cond: None, dirs: vec![], sels: vec![f], pos: (0, 0) }]
        } else {
            vec![f]
        };
    }
    inner
}

fn gen_case(rng: &mut Rng, i: usize, _o: &Opts, dist: &mut Dist) -> Sexp {
    let kind = if i % 3 == 2 { "dynamic" } else { "static" };
    dist.hit(&format!("kind_{kind}"));
    let sd = if kind == "static" { SD_STATIC.with(|s| s.clone()) } else { SD_DYNAMIC.with(|s| s.clone()) };
    let shape = rng.below(100);
    let adversarial = shape < 15;
    let heavy_dirs = (15..22).contains(&shape);
    let deep = (22..27).contains(&shape);
    let two_ops = (27..40).contains(&shape);
    let mut doc;
    let mut supplied: Vec<(String, GV)> = vec![];
    if deep {
        dist.hit("shape_deep_chain");
        let levels = 28 + rng.below(8);
        doc = DocN { ops: vec![OpN { ty: "query".into(), name: None, vars: vec![], sels: chain(levels, rng) }], frags: vec![] };
    } else {
        dist.hit(if adversarial { "shape_adversarial" } else if heavy_dirs { "shape_repeated_directives" } else if two_ops { "shape_two_operations" } else { "shape_valid" });
        let mut g = G { sd: &sd, rng, dist, frags: vec![], vars: vec![], budget: 14, alias_no: 0, adversarial, heavy_dirs, typenames: false };
        g.typenames = g.rng.chance(1, 5);
        if g.typenames {
            g.dist.hit("doc_with_typename_allowed");
        }
        let nops = if two_ops { 2 } else { 1 };
        let mut ops_sels = vec![];
        for _ in 0..nops {
            let mut sels = vec![];
            while sels.is_empty() {
                g.budget = 14;
                sels = g.selection_set(&sd.query, 3);
            }
            ops_sels.push(sels);
        }
        if adversarial && !g.frags.is_empty() && g.rng.chance(1, 5) {
            // a fragment cycle: every recursion limit rejects it
            g.dist.hit("gen_fragment_cycle");
            // (a self-spread: the expansion stays linear in the number of levels)
            let k = g.rng.below(g.frags.len());
            let name = g.frags[k].name.clone();
            g.frags[k].sels.push(SelN::Spread { name, dirs: vec![], pos: (0, 0) });
        }
        let frags = g.frags.clone();
        let mut ops = vec![];
        for (k, sels) in ops_sels.into_iter().enumerate() {
            let mut used = vec![];
            used_vars(&sels, &frags, &mut used, &mut vec![]);
            let vars: Vec<VarDefN> = g
                .vars
                .iter()
                .filter(|v| used.contains(&v.0))
                .map(|(n, has_d, d)| VarDefN {
                    name: n.clone(),
                    ty: if *has_d { TRef::Named("Int".into()) } else { TRef::NonNull(Box::new(TRef::Named("Int".into()))) },
                    default: if *has_d { Some(GV::Int(*d)) } else { None },
                })
                .collect();
            let name = if nops == 2 { Some(format!("Op{k}")) } else if !vars.is_empty() || g.rng.chance(1, 2) { Some("Op".to_string()) } else { None };
            ops.push(OpN { ty: "query".into(), name, vars, sels });
        }
        for (n, has_d, _) in g.vars.clone() {
            if !has_d || g.rng.chance(1, 2) {
                supplied.push((n, GV::Int(g.rng.below(6) as i64)));
            } else {
                g.dist.hit("gen_var_omitted_with_default");
            }
        }
        doc = DocN { ops, frags };
    }
    let opname = if doc.ops.len() == 2 { Some(format!("Op{}", rng.below(2))) } else { doc.ops[0].name.clone() };
    let text = print_doc(&mut doc);
    node(
        "case",
        vec![
            atom(kind),
            sd.to_sexp(),
            rules_sexp(&sd, kind),
            doc.to_sexp(),
            opname.map(st).unwrap_or(atom("none")),
            vars_sexp(&supplied),
            st(text),
        ],
    )
}

// ------------------------------------------------------------------ corpus helper: query text -> case line

fn doc_from_text(text: &str) -> DocN {
    use async_graphql_parser::types as q;
    use async_graphql_value::Value as V;
    fn dv(v: &V) -> DV {
        match v {
            V::Variable(n) => DV::Var(n.to_string()),
            V::Null => DV::Const(GV::Null),
            V::Number(n) => DV::Const(GV::Int(n.as_i64().expect("integer"))),
            V::Boolean(b) => DV::Const(GV::Bool(*b)),
            V::String(s) => DV::Const(GV::Str(s.clone())),
            other => panic!("corpus helper: value {other:?}"),
        }
    }
    fn dirs(ds: &[async_graphql::Positioned<q::Directive>]) -> Vec<DirN> {
        ds.iter().map(|d| DirN { name: d.node.name.node.to_string(), args: d.node.arguments.iter().map(|(k, v)| (k.node.to_string(), dv(&v.node))).collect() }).collect()
    }
    fn sels(ss: &q::SelectionSet) -> Vec<SelN> {
        ss.items
            .iter()
            .map(|s| match &s.node {
                q::Selection::Field(f) => SelN::Field {
                    alias: f.node.alias.as_ref().map(|a| a.node.to_string()),
                    name: f.node.name.node.to_string(),
                    args: f.node.arguments.iter().map(|(k, v)| (k.node.to_string(), dv(&v.node))).collect(),
                    dirs: dirs(&f.node.directives),
                    sels: sels(&f.node.selection_set.node),
                    pos: (0, 0),
                },
                q::Selection::FragmentSpread(f) => SelN::Spread { name: f.node.fragment_name.node.to_string(), dirs: dirs(&f.node.directives), pos: (0, 0) },
                q::Selection::InlineFragment(f) => SelN::Inline {
                    cond: f.node.type_condition.as_ref().map(|c| c.node.on.node.to_string()),
                    dirs: dirs(&f.node.directives),
                    sels: sels(&f.node.selection_set.node),
                    pos: (0, 0),
                },
            })
            .collect()
    }
    fn tref(t: &q::Type) -> TRef {
        let b = match &t.base {
            q::BaseType::Named(n) => TRef::Named(n.to_string()),
            q::BaseType::List(i) => TRef::List(Box::new(tref(i))),
        };
        if t.nullable { b } else { TRef::NonNull(Box::new(b)) }
    }
    let doc = async_graphql_parser::parse_query(text).expect("corpus helper: query parses");
    let mut ops = vec![];
    for (name, op) in doc.operations.iter() {
        assert!(matches!(op.node.ty, q::OperationType::Query), "corpus helper: queries only");
        ops.push(OpN {
            ty: "query".into(),
            name: name.map(|n| n.to_string()),
            vars: op
                .node
                .variable_definitions
                .iter()
                .map(|v| VarDefN {
                    name: v.node.name.node.to_string(),
                    ty: tref(&v.node.var_type.node),
                    default: v.node.default_value.as_ref().map(|d| GV::Int(match &d.node {
                        async_graphql_value::ConstValue::Number(n) => n.as_i64().unwrap(),
                        o => panic!("corpus helper: default {o:?}"),
                    })),
                })
                .collect(),
            sels: sels(&op.node.selection_set.node),
        });
    }
    ops.sort_by(|a, b| a.name.cmp(&b.name));
    let mut frags: Vec<FragN> = doc
        .fragments
        .iter()
        .map(|(n, f)| FragN { name: n.to_string(), cond: f.node.type_condition.node.on.node.to_string(), sels: sels(&f.node.selection_set.node) })
        .collect();
    frags.sort_by(|a, b| a.name.cmp(&b.name));
    DocN { ops, frags }
}

/// `AGV_C10_CASE="static|OpName or -|c0=3,c1=4 or -|{ query text }"` prints the case line
fn print_case_from_env(spec: &str) {
    let p: Vec<&str> = spec.splitn(4, '|').collect();
    let kind = p[0];
    let sd = if kind == "static" { SD_STATIC.with(|s| s.clone()) } else { SD_DYNAMIC.with(|s| s.clone()) };
    let mut doc = doc_from_text(p[3]);
    let text = print_doc(&mut doc);
    let vars: Vec<(String, GV)> = if p[2] == "-" { vec![] } else { p[2].split(',').map(|kv| { let (k, v) = kv.split_once('=').unwrap(); (k.to_string(), GV::Int(v.parse().unwrap())) }).collect() };
    println!(
        "{}",
        node("case", vec![atom(kind), sd.to_sexp(), rules_sexp(&sd, kind), doc.to_sexp(), if p[1] == "-" { atom("none") } else { st(p[1]) }, vars_sexp(&vars), st(text)])
    );
}

fn main() {
    check_rule_table();
    if let Ok(spec) = std::env::var("AGV_C10_CASE") {
        print_case_from_env(&spec);
        return;
    }
    if std::env::var("AGV_C10_PRINT").is_ok() {
        // helper for writing corpus lines: AGV_C10_PRINT=static|dynamic prints SCHEMA and RULES
        let kind = std::env::var("AGV_C10_PRINT").unwrap();
        let sd = if kind == "static" { SD_STATIC.with(|s| s.clone()) } else { SD_DYNAMIC.with(|s| s.clone()) };
        println!("{}", sd.to_sexp());
        println!("{}", rules_sexp(&sd, &kind));
        return;
    }
    main_loop(&mut gen_case, &mut run);
}
