//! C12 — no client input can crash, overflow or hang the server.
//!
//! Every case is executed in a WORKER process (this binary started with `--child`): the parent
//! writes the case line to the worker's stdin and waits for one answer line under a wall-clock
//! budget.  A panic is caught inside the worker (`agvh::guarded`) and reported as
//! `(panic "file")`; a worker that dies (stack overflow = SIGSEGV/SIGABRT, allocator abort) is
//! observed by its exit status and becomes `(abort SIGNAL)`, a worker that does not answer in
//! time is killed and becomes `(timeout)`; the parent then starts a fresh worker.  Inside the
//! worker every future is polled under a step budget (`(timeout)` when it is exhausted).
//!
//! Strings that stand for BYTES (bodies, query strings, WebSocket frames) use one char per byte
//! (U+0000..U+00FF).
//!
//! Cases
//!   stream `markers`
//!     (marker POS "value" NFILES VIA)
//!         POS  = single | req | list | inobj | maybe      where the string is put
//!         VIA  = var (JSON variables + Request::set_upload for the real files)
//!              | lit (the string is a literal in the document)
//!              | multipart (operations/map/file parts through `receive_body`)
//!              | ws (graphql-transport-ws `subscribe` carrying the variables; never any file)
//!         NFILES real uploads are bound to `$fs` first (indices 0..NFILES).
//!         → (ok "fK") the forged position resolved to upload K | err | (panic "src/types/upload.rs")
//!   stream `docs`
//!     (doc MODE [CFG] (lit "text")) | (doc MODE [CFG] (nest KIND N))
//!         CFG  = (cfg DIRS DEPTH CPLX RDEPTH FAST NOINTRO)   schema configuration for exec modes
//!                DIRS/DEPTH/CPLX/RDEPTH = - | N   `limit_directives` / `limit_depth` /
//!                `limit_complexity` / `limit_recursive_depth`; FAST = 0|1 `ValidationMode::Fast`;
//!                NOINTRO = 0|1 `disable_introspection`; absent = the default schema
//!         MODE = parse (`parse_query`) | exec (`Schema::execute`) | parse2m / exec2m (the same on
//!                a thread with a 2 MiB stack, tokio's worker default)
//!         KIND = see `nest_doc` (the Lean driver expands the same families)
//!     (calib MODE KIND)   smallest power of two N in 2^8..2^20 for which (doc MODE (nest KIND N))
//!                         kills the worker → (threshold N) | (threshold none)
//!   stream `transport`
//!     (body none|"content/type" "bytes" EXEC)   `receive_batch_body` (+ execute when EXEC = 1)
//!     (qs "bytes")                              `parse_query_string` (+ execute)
//!     (ws new|legacy ("frame bytes" …))         `WebSocket::new` over these client frames
//!   stream `numbers`
//!     (num TYPE POS VIA "text")   a number text offered to a position of the built-in numeric
//!         input type TYPE (i8 … NonZeroUsize | f32 | f64 | ID), POS = arg | list | obj (argument,
//!         list element, input-object field), VIA = lit (document literal) | var (JSON variable in
//!         a request body decoded by `receive_body`) → (ok "value as the resolver saw it") | ok | err
//!     (numtypes)                  → (types "i8" …) the types the probe schema covers
//!   Output of docs/transport cases: ok | err | (panic "file") | (abort SIG) | (timeout)
//!   (`err` = a clean error: Err(..) of the decoder or a response with errors; for `ws` the
//!   connection having been closed by the server).

use std::{
    io::{BufRead, BufReader, Write},
    pin::Pin,
    process::{Child, ChildStdin, Command, Stdio},
    sync::mpsc::{Receiver, RecvTimeoutError, channel},
    task::{Context as TaskCx, Poll},
    time::Duration,
};

use agvh::*;
use async_graphql::{
    BatchRequest, Context, Enum, ID, InputObject, Json, MaybeUndefined, Object, Request, Schema, Subscription, Upload,
    UploadValue, Variables,
    http::{MultipartOptions, WebSocket, WebSocketProtocols, WsMessage, parse_query_string, receive_batch_body, receive_body},
};
use futures_util::stream::{Stream, StreamExt};

// ------------------------------------------------------------------ the schema: every built-in input type

#[derive(Enum, Copy, Clone, Eq, PartialEq)]
enum Color {
    Red,
    Green,
}

#[derive(InputObject)]
struct In {
    f: Option<Upload>,
    fs: Option<Vec<Upload>>,
    n: Option<i32>,
    id: Option<ID>,
    j: Option<Json<serde_json::Value>>,
    m: MaybeUndefined<i32>,
    c: Option<Color>,
    #[graphql(default = 7)]
    d: i32,
    nested: Option<Box<In>>,
}

fn in_size(i: &In) -> usize {
    1 + i.nested.as_ref().map(|b| in_size(b)).unwrap_or(0)
        + i.fs.as_ref().map(|v| v.len()).unwrap_or(0)
        + i.f.is_some() as usize
        + i.n.is_some() as usize
        + i.id.is_some() as usize
        + i.j.is_some() as usize
        + i.m.is_value() as usize
        + i.c.is_some() as usize
        + (i.d == 7) as usize
}

struct Q;

#[Object]
impl Q {
    async fn a(&self) -> Q {
        Q
    }
    async fn s(&self) -> i32 {
        1
    }
    async fn j(&self, x: Option<Json<serde_json::Value>>) -> i32 {
        x.is_some() as i32
    }
    #[allow(clippy::too_many_arguments)]
    async fn t(
        &self,
        i: Option<i32>,
        i64: Option<i64>,
        u: Option<u64>,
        f: Option<f64>,
        s: Option<String>,
        b: Option<bool>,
        id: Option<ID>,
        e: Option<Color>,
        o: Option<In>,
        l: Option<Vec<Option<Vec<i32>>>>,
        m: MaybeUndefined<String>,
    ) -> i32 {
        (i.is_some() as i32)
            + (i64.is_some() as i32)
            + (u.is_some() as i32)
            + (f.is_some() as i32)
            + (s.map(|s| s.len()).unwrap_or(0) as i32)
            + (b.is_some() as i32)
            + (id.is_some() as i32)
            + (e.is_some() as i32)
            + (o.map(|o| in_size(&o)).unwrap_or(0) as i32)
            + (l.map(|l| l.len()).unwrap_or(0) as i32)
            + (m.is_value() as i32)
    }
}

struct M;

fn fname(ctx: &Context<'_>, u: &Upload) -> async_graphql::Result<String> {
    match u.value(ctx) {
        Ok(v) => Ok(v.filename),
        Err(_) => Err(async_graphql::Error::new("upload-io")),
    }
}

#[Object]
impl M {
    /// resolves every upload it is given; answers the file name the probed position resolved to
    #[allow(clippy::too_many_arguments)]
    async fn probe(
        &self,
        ctx: &Context<'_>,
        single: Option<Upload>,
        list: Option<Vec<Upload>>,
        inobj: Option<In>,
        maybe: MaybeUndefined<Upload>,
        fs: Option<Vec<Upload>>,
    ) -> async_graphql::Result<String> {
        let mut out = String::from("-");
        for u in fs.iter().flatten() {
            fname(ctx, u)?;
        }
        if let Some(u) = &single {
            out = fname(ctx, u)?;
        }
        for u in list.iter().flatten() {
            out = fname(ctx, u)?;
        }
        if let Some(i) = &inobj {
            if let Some(u) = &i.f {
                out = fname(ctx, u)?;
            }
            for u in i.fs.iter().flatten() {
                out = fname(ctx, u)?;
            }
        }
        if let MaybeUndefined::Value(u) = &maybe {
            out = fname(ctx, u)?;
        }
        Ok(out)
    }
    async fn probe_req(&self, ctx: &Context<'_>, file: Upload, fs: Option<Vec<Upload>>) -> async_graphql::Result<String> {
        for u in fs.iter().flatten() {
            fname(ctx, u)?;
        }
        fname(ctx, &file)
    }
}

struct S;

#[Subscription]
impl S {
    async fn ticks(&self, n: Option<i32>) -> impl Stream<Item = i32> {
        futures_util::stream::iter(0..n.unwrap_or(2).clamp(0, 3))
    }
}

type Sch = Schema<Q, M, S>;

fn schema() -> Sch {
    Schema::build(Q, M, S).finish()
}

/// `(cfg DIRS DEPTH CPLX RDEPTH FAST NOINTRO)`
fn schema_cfg(cfg: &Sexp) -> Option<Sch> {
    let a = cfg.args();
    let lim = |i: usize| -> Option<Option<usize>> {
        match a.get(i)? {
            Sexp::Atom(x) if x == "-" => Some(None),
            x => Some(Some(x.as_usize()?)),
        }
    };
    let mut b = Schema::build(Q, M, S);
    if let Some(n) = lim(0)? {
        b = b.limit_directives(n);
    }
    if let Some(n) = lim(1)? {
        b = b.limit_depth(n);
    }
    if let Some(n) = lim(2)? {
        b = b.limit_complexity(n);
    }
    if let Some(n) = lim(3)? {
        b = b.limit_recursive_depth(n);
    }
    if a.get(4)?.as_atom()? == "1" {
        b = b.validation_mode(async_graphql::ValidationMode::Fast);
    }
    if a.get(5)?.as_atom()? == "1" {
        b = b.disable_introspection();
    }
    Some(b.finish())
}

// ------------------------------------------------------------------ budgets

const STEP_BUDGET: u64 = 2_000_000;

/// polls to completion on this thread under a step budget
fn run_budget<F: std::future::Future>(f: F) -> Option<F::Output> {
    let mut f = std::pin::pin!(f);
    let waker = futures_util::task::noop_waker();
    let mut cx = TaskCx::from_waker(&waker);
    for _ in 0..STEP_BUDGET {
        if let Poll::Ready(v) = f.as_mut().poll(&mut cx) {
            return Some(v);
        }
    }
    None
}

fn timeout() -> Sexp {
    node("timeout", vec![])
}

fn bytes_of(s: &str) -> Vec<u8> {
    s.chars().map(|c| c as u32 as u8).collect()
}

fn latin1(b: &[u8]) -> String {
    b.iter().map(|&x| x as char).collect()
}

// ------------------------------------------------------------------ markers

const MP_BOUNDARY: &str = "agvZ12Zb";

fn marker_query(pos: &str, lit: Option<&str>) -> Option<String> {
    let arg = match lit {
        Some(s) => serde_json::to_string(s).unwrap(),
        None => "$v".to_string(),
    };
    let (ty, call) = match pos {
        "single" => ("Upload", format!("probe(single: {arg}, fs: $fs)")),
        "req" => ("Upload!", format!("probeReq(file: {arg}, fs: $fs)")),
        "list" => ("[Upload!]", format!("probe(list: {}, fs: $fs)", if lit.is_some() { format!("[{arg}]") } else { arg.clone() })),
        "inobj" => ("In", format!("probe(inobj: {}, fs: $fs)", if lit.is_some() { format!("{{f: {arg}}}") } else { arg.clone() })),
        "maybe" => ("Upload", format!("probe(maybe: {arg}, fs: $fs)")),
        _ => return None,
    };
    Some(if lit.is_some() {
        format!("mutation($fs: [Upload!]) {{ r: {call} }}")
    } else {
        format!("mutation($v: {ty}, $fs: [Upload!]) {{ r: {call} }}")
    })
}

fn marker_vars(pos: &str, value: &str, nfiles: usize, with_v: bool) -> serde_json::Value {
    let s = serde_json::Value::String(value.to_string());
    let v = match pos {
        "list" => serde_json::json!([s]),
        "inobj" => serde_json::json!({ "f": s }),
        _ => s,
    };
    let fs: Vec<serde_json::Value> = vec![serde_json::Value::Null; nfiles];
    if with_v { serde_json::json!({ "v": v, "fs": fs }) } else { serde_json::json!({ "fs": fs }) }
}

fn resp_out(r: async_graphql::Response) -> Sexp {
    if !r.errors.is_empty() {
        return atom("err");
    }
    let v = serde_json::to_value(&r.data).unwrap_or(serde_json::Value::Null);
    match v.get("r").and_then(|x| x.as_str()) {
        Some(s) => node("ok", vec![st(s)]),
        None => atom("ok"),
    }
}

fn run_marker(a: &[Sexp]) -> Option<Sexp> {
    let pos = a.first()?.as_atom()?;
    let value = a.get(1)?.as_str()?;
    let nfiles = a.get(2)?.as_usize()?.min(8);
    let via = a.get(3)?.as_atom()?;
    let sch = schema();
    match via {
        "var" | "lit" => {
            let lit = via == "lit";
            let q = marker_query(pos, if lit { Some(value) } else { None })?;
            let mut req = Request::new(q).variables(Variables::from_json(marker_vars(pos, value, nfiles, !lit)));
            for i in 0..nfiles {
                let content = std::fs::File::open("/dev/null").ok()?;
                req.set_upload(&format!("variables.fs.{i}"), UploadValue { filename: format!("f{i}"), content_type: None, content });
            }
            Some(run_budget(sch.execute(req)).map(resp_out).unwrap_or_else(timeout))
        }
        "multipart" => {
            let q = marker_query(pos, None)?;
            let ops = serde_json::json!({ "query": q, "variables": marker_vars(pos, value, nfiles, true) });
            let mut map = serde_json::Map::new();
            for i in 0..nfiles {
                map.insert(i.to_string(), serde_json::json!([format!("variables.fs.{i}")]));
            }
            let mut body: Vec<u8> = vec![];
            let mut part = |name: &str, filename: Option<&str>, content: &[u8]| {
                body.extend_from_slice(format!("--{MP_BOUNDARY}\r\nContent-Disposition: form-data; name=\"{name}\"").as_bytes());
                if let Some(f) = filename {
                    body.extend_from_slice(format!("; filename=\"{f}\"").as_bytes());
                }
                body.extend_from_slice(b"\r\n\r\n");
                body.extend_from_slice(content);
                body.extend_from_slice(b"\r\n");
            };
            part("operations", None, ops.to_string().as_bytes());
            part("map", None, serde_json::Value::Object(map).to_string().as_bytes());
            for i in 0..nfiles {
                part(&i.to_string(), Some(&format!("f{i}")), b"data");
            }
            body.extend_from_slice(format!("--{MP_BOUNDARY}--\r\n").as_bytes());
            let ct = format!("multipart/form-data; boundary={MP_BOUNDARY}");
            let rt = tokio::runtime::Builder::new_current_thread().build().ok()?;
            let req = match rt.block_on(receive_body(Some(&ct), &body[..], MultipartOptions::default())) {
                Ok(r) => r,
                Err(_) => return Some(atom("err")),
            };
            Some(resp_out(rt.block_on(sch.execute(req))))
        }
        "ws" => {
            let q = marker_query(pos, None)?;
            let sub = serde_json::json!({"type": "subscribe", "id": "1", "payload": {"query": q, "variables": marker_vars(pos, value, 0, true)}});
            let frames = vec![br#"{"type":"connection_init"}"#.to_vec(), sub.to_string().into_bytes()];
            let out = drive_ws(&sch, WebSocketProtocols::GraphQLWS, frames);
            // the first `next`/`error` message of operation 1
            for t in out.texts {
                let Ok(v) = serde_json::from_str::<serde_json::Value>(&t) else { continue };
                match v["type"].as_str() {
                    Some("next") => {
                        if v["payload"]["errors"].as_array().map(|e| !e.is_empty()).unwrap_or(false) {
                            return Some(atom("err"));
                        }
                        return Some(match v["payload"]["data"]["r"].as_str() {
                            Some(s) => node("ok", vec![st(s)]),
                            None => atom("ok"),
                        });
                    }
                    Some("error") => return Some(atom("err")),
                    _ => {}
                }
            }
            Some(if out.timed_out { timeout() } else { atom("err") })
        }
        _ => None,
    }
}

// ------------------------------------------------------------------ WebSocket driving

struct WsOut {
    texts: Vec<String>,
    closed: bool,
    timed_out: bool,
}

fn drive_ws(sch: &Sch, proto: WebSocketProtocols, frames: Vec<Vec<u8>>) -> WsOut {
    let client = futures_util::stream::iter(frames).chain(futures_util::stream::pending());
    let mut ws = Box::pin(WebSocket::new(sch.clone(), client, proto));
    let waker = futures_util::task::noop_waker();
    let mut cx = TaskCx::from_waker(&waker);
    let mut out = WsOut { texts: vec![], closed: false, timed_out: false };
    let mut idle = 0;
    for _ in 0..20_000 {
        match Pin::new(&mut ws).poll_next(&mut cx) {
            Poll::Ready(None) => return out,
            Poll::Ready(Some(WsMessage::Text(t))) => {
                idle = 0;
                out.texts.push(t);
            }
            Poll::Ready(Some(WsMessage::Close(..))) => {
                out.closed = true;
                return out;
            }
            Poll::Pending => {
                idle += 1;
                if idle > 32 {
                    return out; // nothing left to do: the client is silent and no operation is ready
                }
            }
        }
    }
    out.timed_out = true;
    out
}

// ------------------------------------------------------------------ documents

fn rep(s: &str, n: usize) -> String {
    s.repeat(n)
}

/// the nesting families (mirrored by `nestDoc` in lean/AGV/Model/Hostile.lean)
fn nest_doc(kind: &str, n: usize) -> Option<String> {
    let m = n.saturating_sub(1);
    Some(match kind {
        "list" => format!("{{j(x:{}{})}}", rep("[", n), rep("]", n)),
        "obj" => format!("{{j(x:{}1{})}}", rep("{k:", n), rep("}", n)),
        "sel" => format!("{}{{s{}", rep("{a", m), rep("}", m + 1)),
        "inline" => format!("{}{{s{}", rep("{...on Q", m), rep("}", m + 1)),
        "type" => format!("query($v:{}Int{}){{s}}", rep("[", n), rep("]", n)),
        "constlist" => format!("query($v:JSON={}{}){{j(x:$v)}}", rep("[", n), rep("]", n)),
        "listopen" => format!("{{j(x:{}", rep("[", n)),
        "objopen" => format!("{{j(x:{}", rep("{k:", n)),
        "selopen" => rep("{a", n),
        "widelist" => format!("{{j(x:[{}])}}", rep("1,", n)),
        "widefields" => format!("{{{}}}", rep("s ", n)),
        "widedirs" => format!("{{s{}}}", rep("@include(if:true)", n)),
        "fragchain" => {
            let mut s = String::from("{...f0}");
            for i in 0..m {
                s.push_str(&format!("fragment f{} on Q{{...f{}}}", i, i + 1));
            }
            s.push_str(&format!("fragment f{m} on Q{{s}}"));
            s
        }
        // what the pre-execution guards are supposed to stop (n = length of the cycle / count)
        "cycreach" => {
            // a cycle of n fragments reachable from the operation, every field carries a directive
            let mut s = String::from("{s ...f0}");
            for i in 0..=m {
                s.push_str(&format!("fragment f{} on Q{{s @include(if:true) ...f{}}}", i, if i == m { 0 } else { i + 1 }));
            }
            s
        }
        "cycinline" => {
            // the cycle is entered and closed only through inline fragments
            let mut s = String::from("{... on Q{...f0}}");
            for i in 0..=m {
                s.push_str(&format!("fragment f{} on Q{{... on Q{{a{{...f{}}}}}}}", i, if i == m { 0 } else { i + 1 }));
            }
            s
        }
        "cycunreach" => {
            // the operation does not reach the cycle
            let mut s = String::from("{s}");
            for i in 0..=m {
                s.push_str(&format!("fragment f{} on Q{{...f{}}}", i, if i == m { 0 } else { i + 1 }));
            }
            s
        }
        "undefspread" => format!("{{s {}}}", rep("...Nope ", n)),
        "undefchain" => {
            // a chain of n fragments whose last one spreads an undefined fragment
            let mut s = String::from("{...f0}");
            for i in 0..=m {
                s.push_str(&format!("fragment f{} on Q{{...{}}}", i, if i == m { "Nope".to_string() } else { format!("f{}", i + 1) }));
            }
            s
        }
        "dirsdeep" => format!("{}{{s{}{}", rep("{a", 2), rep("@include(if:true)", n), rep("}", 3)),
        "dirsfrag" => format!("{{...F}}fragment F on Q{{s{}}}", rep("@skip(if:false)", n)),
        "intro" => format!("{{__schema{{types{{{}name{}}}}}}}", rep("fields{type{", n), rep("}}", n)),
        "fragbomb" => {
            // a DAG, not a cycle: every fragment spreads the next one four times (4^(n-1) paths)
            let mut s = String::from("{...f0}");
            for i in 0..m {
                s.push_str(&format!("fragment f{} on Q{{...f{j} ...f{j} ...f{j} ...f{j}}}", i, j = i + 1));
            }
            s.push_str(&format!("fragment f{m} on Q{{s}}"));
            s
        }
        "fragcycle" => {
            let mut s = String::from("{...f0}");
            for i in 0..=m {
                s.push_str(&format!("fragment f{} on Q{{...f{}}}", i, if i == m { 0 } else { i + 1 }));
            }
            s
        }
        _ => return None,
    })
}

fn doc_text(spec: &Sexp) -> Option<String> {
    match spec.tag()? {
        "lit" => Some(spec.args().first()?.as_str()?.to_string()),
        "nest" => nest_doc(spec.args().first()?.as_atom()?, spec.args().get(1)?.as_usize()?),
        _ => None,
    }
}

fn run_doc_here(mode: &str, sch: Option<Sch>, text: String) -> Sexp {
    if mode.starts_with("parse") {
        match async_graphql_parser::parse_query(&text) {
            Ok(d) => {
                drop(d);
                atom("ok")
            }
            Err(_) => atom("err"),
        }
    } else {
        let sch = sch.unwrap_or_else(schema);
        match run_budget(sch.execute(Request::new(text))) {
            Some(r) => {
                if r.errors.is_empty() {
                    atom("ok")
                } else {
                    atom("err")
                }
            }
            None => timeout(),
        }
    }
}

fn run_doc(a: &[Sexp]) -> Option<Sexp> {
    let mode = a.first()?.as_atom()?.to_string();
    let (sch, spec) = if a.get(1)?.tag() == Some("cfg") { (Some(schema_cfg(a.get(1)?)?), a.get(2)?) } else { (None, a.get(1)?) };
    let text = doc_text(spec)?;
    if mode.ends_with("2m") {
        // tokio's default worker-thread stack
        let h = std::thread::Builder::new().stack_size(2 * 1024 * 1024).spawn(move || guarded(|| run_doc_here(&mode, sch, text))).ok()?;
        h.join().ok()
    } else {
        Some(run_doc_here(&mode, sch, text))
    }
}

// ------------------------------------------------------------------ transport

fn exec_batch(sch: &Sch, b: BatchRequest) -> Sexp {
    match run_budget(sch.execute_batch(b)) {
        Some(r) => {
            if r.is_ok() {
                atom("ok")
            } else {
                atom("err")
            }
        }
        None => timeout(),
    }
}

fn run_body(a: &[Sexp]) -> Option<Sexp> {
    let ct = match a.first()? {
        Sexp::Atom(x) if x == "none" => None,
        s => Some(latin1(&bytes_of(s.as_str()?))),
    };
    let body = bytes_of(a.get(1)?.as_str()?);
    let exec = a.get(2)?.as_atom()? == "1";
    let rt = tokio::runtime::Builder::new_current_thread().build().ok()?;
    // both entry points decode the same bytes
    let single = rt.block_on(receive_body(ct.as_deref(), &body[..], MultipartOptions::default()));
    let batch = rt.block_on(receive_batch_body(ct.as_deref(), &body[..], MultipartOptions::default()));
    drop(single);
    Some(match batch {
        Err(_) => atom("err"),
        Ok(b) => {
            if exec {
                exec_batch(&schema(), b)
            } else {
                atom("ok")
            }
        }
    })
}

fn run_qs(a: &[Sexp]) -> Option<Sexp> {
    let raw = bytes_of(a.first()?.as_str()?);
    // a query string reaches the library as &str: the integrations hand over the (lossily decoded) URI
    let text = String::from_utf8_lossy(&raw).to_string();
    Some(match parse_query_string(&text) {
        Err(_) => atom("err"),
        Ok(r) => exec_batch(&schema(), BatchRequest::Single(r)),
    })
}

fn run_ws(a: &[Sexp]) -> Option<Sexp> {
    let proto = match a.first()?.as_atom()? {
        "new" => WebSocketProtocols::GraphQLWS,
        "legacy" => WebSocketProtocols::SubscriptionsTransportWS,
        _ => return None,
    };
    let frames: Vec<Vec<u8>> = a.get(1)?.as_list()?.iter().filter_map(|s| s.as_str().map(bytes_of)).collect();
    let out = drive_ws(&schema(), proto, frames);
    Some(if out.timed_out {
        timeout()
    } else if out.closed {
        atom("err")
    } else {
        atom("ok")
    })
}

// ------------------------------------------------------------------ numbers
//
// One probe object per built-in numeric input type (the twenty integer scalars of
// src/types/external/{integers,non_zero_integers}.rs, f32, f64, ID): the type as an argument, as
// the element of a list argument and as a field of an input object.  The root field is called
// like the Rust type; the Lean judge compares `NUM_TYPES` with the source-derived tables
// (`(numtypes)` case), so a numeric scalar added to the source without a probe here is noticed.

trait Show {
    fn show(&self) -> String;
}

macro_rules! show_int {
    ($($t:ident),*) => { $( impl Show for $t { fn show(&self) -> String { self.to_string() } } )* };
}

use std::num::{
    NonZeroI8, NonZeroI16, NonZeroI32, NonZeroI64, NonZeroIsize, NonZeroU8, NonZeroU16, NonZeroU32, NonZeroU64, NonZeroUsize,
};

show_int!(
    i8, i16, i32, i64, isize, u8, u16, u32, u64, usize, NonZeroI8, NonZeroI16, NonZeroI32, NonZeroI64, NonZeroIsize, NonZeroU8, NonZeroU16,
    NonZeroU32, NonZeroU64, NonZeroUsize
);

// floats are never printed (both sides would have to format them alike)
impl Show for f32 {
    fn show(&self) -> String {
        "f".into()
    }
}
impl Show for f64 {
    fn show(&self) -> String {
        "f".into()
    }
}
impl Show for ID {
    fn show(&self) -> String {
        self.0.clone()
    }
}

macro_rules! num_schema {
    ($( ($name:literal, $T:ident, $P:ident, $In:ident) ),* $(,)?) => {
        $(
            #[derive(InputObject)]
            struct $In {
                f: Option<$T>,
            }
            struct $P;
            #[Object]
            impl $P {
                async fn a(&self, v: Option<$T>) -> Option<String> {
                    v.map(|x| x.show())
                }
                async fn l(&self, v: Option<Vec<$T>>) -> Option<String> {
                    v.map(|xs| xs.iter().map(|x| x.show()).collect::<Vec<_>>().join(","))
                }
                async fn o(&self, v: Option<$In>) -> Option<String> {
                    v.and_then(|o| o.f).map(|x| x.show())
                }
            }
        )*
        pub struct NQ;
        #[Object]
        impl NQ {
            $(
                #[graphql(name = $name)]
                async fn $P(&self) -> $P {
                    $P
                }
            )*
        }
        const NUM_TYPES: &[&str] = &[$($name),*];
        /// GraphQL names of the scalar and of the probe's input object
        fn num_gql(ty: &str) -> Option<(String, String)> {
            match ty {
                $( $name => Some((<$T as async_graphql::InputType>::type_name().to_string(), <$In as async_graphql::InputType>::type_name().to_string())), )*
                _ => None,
            }
        }
    };
}

#[allow(non_snake_case)]
mod numprobe {
    use super::*;
    num_schema!(
        ("i8", i8, PI8, InI8),
        ("i16", i16, PI16, InI16),
        ("i32", i32, PI32, InI32),
        ("i64", i64, PI64, InI64),
        ("isize", isize, PIsize, InIsize),
        ("u8", u8, PU8, InU8),
        ("u16", u16, PU16, InU16),
        ("u32", u32, PU32, InU32),
        ("u64", u64, PU64, InU64),
        ("usize", usize, PUsize, InUsize),
        ("NonZeroI8", NonZeroI8, PNzI8, InNzI8),
        ("NonZeroI16", NonZeroI16, PNzI16, InNzI16),
        ("NonZeroI32", NonZeroI32, PNzI32, InNzI32),
        ("NonZeroI64", NonZeroI64, PNzI64, InNzI64),
        ("NonZeroIsize", NonZeroIsize, PNzIsize, InNzIsize),
        ("NonZeroU8", NonZeroU8, PNzU8, InNzU8),
        ("NonZeroU16", NonZeroU16, PNzU16, InNzU16),
        ("NonZeroU32", NonZeroU32, PNzU32, InNzU32),
        ("NonZeroU64", NonZeroU64, PNzU64, InNzU64),
        ("NonZeroUsize", NonZeroUsize, PNzUsize, InNzUsize),
        ("f32", f32, PF32, InF32),
        ("f64", f64, PF64, InF64),
        ("ID", ID, PId, InId),
    );
    pub type NSch = Schema<NQ, async_graphql::EmptyMutation, async_graphql::EmptySubscription>;
    pub fn num_schema() -> NSch {
        Schema::build(NQ, async_graphql::EmptyMutation, async_graphql::EmptySubscription).finish()
    }
    pub fn types() -> &'static [&'static str] {
        NUM_TYPES
    }
    pub fn gql(ty: &str) -> Option<(String, String)> {
        num_gql(ty)
    }
}

thread_local! {
    static NUM_SCHEMA: numprobe::NSch = numprobe::num_schema();
}

/// `(num TYPE POS VIA "text")`: the number text at a position of type TYPE.
///   VIA = lit   the text is spliced into the document as the argument value
///       | var   the text is spliced into a JSON request body as the value of `$v`; the body goes
///               through `receive_body` (a body that does not decode is answered `err`)
///   → (ok "shown") | ok (null) | err | …
fn run_num(a: &[Sexp]) -> Option<Sexp> {
    let ty = a.first()?.as_atom()?;
    let pos = a.get(1)?.as_atom()?;
    let via = a.get(2)?.as_atom()?;
    let text = a.get(3)?.as_str()?;
    let (scalar, inobj) = numprobe::gql(ty)?;
    let lit = match via {
        "lit" => true,
        "var" => false,
        _ => return None,
    };
    let (call, vty, vjson) = match pos {
        "arg" => (if lit { format!("a(v:{text})") } else { "a(v:$v)".into() }, scalar.clone(), text.to_string()),
        "list" => (if lit { format!("l(v:[{text}])") } else { "l(v:$v)".into() }, format!("[{scalar}!]"), format!("[{text}]")),
        "obj" => (if lit { format!("o(v:{{f:{text}}})") } else { "o(v:$v)".into() }, inobj.clone(), format!("{{\"f\":{text}}}")),
        _ => return None,
    };
    let req = if lit {
        Request::new(format!("{{ r: {ty} {{ x: {call} }} }}"))
    } else {
        let q = format!("query($v:{vty}){{ r: {ty} {{ x: {call} }} }}");
        let body = format!("{{\"query\":{},\"variables\":{{\"v\":{vjson}}}}}", serde_json::to_string(&q).ok()?);
        match run_budget(receive_body(Some("application/json"), body.as_bytes(), MultipartOptions::default())) {
            Some(Ok(r)) => r,
            Some(Err(_)) => return Some(atom("err")),
            None => return Some(timeout()),
        }
    };
    let resp = NUM_SCHEMA.with(|s| run_budget(s.execute(req)));
    let Some(resp) = resp else { return Some(timeout()) };
    if !resp.errors.is_empty() {
        return Some(atom("err"));
    }
    let v = serde_json::to_value(&resp.data).unwrap_or(serde_json::Value::Null);
    Some(match v.get("r").and_then(|r| r.get("x")).and_then(|x| x.as_str()) {
        Some(s) => node("ok", vec![st(s)]),
        None => atom("ok"),
    })
}

fn run_numtypes() -> Option<Sexp> {
    // the probe schema must build, and name every type it probes
    NUM_SCHEMA.with(|_| ());
    Some(node("types", numprobe::types().iter().map(|t| st(*t)).collect()))
}

// ------------------------------------------------------------------ worker side

fn run_in_worker(case: &Sexp) -> Sexp {
    let bad = || node("bad-case", vec![]);
    let r = match case.tag() {
        Some("num") => run_num(case.args()),
        Some("numtypes") => run_numtypes(),
        Some("marker") => run_marker(case.args()),
        Some("doc") => run_doc(case.args()),
        Some("body") => run_body(case.args()),
        Some("qs") => run_qs(case.args()),
        Some("ws") => run_ws(case.args()),
        _ => None,
    };
    r.unwrap_or_else(bad)
}

fn worker_main() {
    install_panic_hook();
    let stdin = std::io::stdin();
    let mut out = std::io::stdout();
    for line in stdin.lock().lines() {
        let Ok(line) = line else { break };
        if line.trim().is_empty() {
            continue;
        }
        let res = match Sexp::parse(&line) {
            Some(c) => guarded(|| run_in_worker(&c)),
            None => node("bad-case", vec![]),
        };
        // only the file of a panic location is part of the observable: line numbers move with every edit
        let res = match &res {
            Sexp::List(v) if v.first() == Some(&atom("panic")) => {
                let loc = v.get(1).and_then(|s| s.as_str()).unwrap_or("?");
                node("panic", vec![st(loc.rsplit_once(':').map(|x| x.0).unwrap_or(loc))])
            }
            _ => res,
        };
        writeln!(out, "{res}").unwrap();
        out.flush().unwrap();
    }
}

// ------------------------------------------------------------------ parent side

struct Worker {
    child: Child,
    stdin: ChildStdin,
    rx: Receiver<String>,
}

fn spawn_worker() -> Worker {
    let exe = std::env::current_exe().expect("current_exe");
    let mut child = Command::new(exe)
        .arg("--child")
        .stdin(Stdio::piped())
        .stdout(Stdio::piped())
        .stderr(Stdio::null())
        .spawn()
        .expect("spawn worker");
    let stdin = child.stdin.take().unwrap();
    let stdout = child.stdout.take().unwrap();
    let (tx, rx) = channel();
    std::thread::spawn(move || {
        for line in BufReader::new(stdout).lines() {
            let Ok(line) = line else { break };
            if tx.send(line).is_err() {
                break;
            }
        }
    });
    Worker { child, stdin, rx }
}

fn signal_name(s: i32) -> String {
    match s {
        4 => "SIGILL".into(),
        6 => "SIGABRT".into(),
        7 => "SIGBUS".into(),
        9 => "SIGKILL".into(),
        11 => "SIGSEGV".into(),
        n => format!("SIG{n}"),
    }
}

struct Pool {
    w: Option<Worker>,
    budget: Duration,
}

impl Pool {
    fn retire(&mut self) {
        if let Some(mut w) = self.w.take() {
            let _ = w.child.kill();
            let _ = w.child.wait();
        }
    }
    /// one case through the worker: its answer line, or how it died
    fn ask(&mut self, case: &Sexp, dist: &mut Dist) -> Sexp {
        if self.w.is_none() {
            self.w = Some(spawn_worker());
            dist.hit("workers_started");
        }
        let w = self.w.as_mut().unwrap();
        let sent = writeln!(w.stdin, "{case}").and_then(|_| w.stdin.flush());
        let died = |w: &mut Worker| -> Sexp {
            use std::os::unix::process::ExitStatusExt;
            match w.child.wait() {
                Ok(st) => match st.signal() {
                    Some(s) => node("abort", vec![atom(signal_name(s))]),
                    None => node("abort", vec![atom(format!("exit{}", st.code().unwrap_or(-1)))]),
                },
                Err(_) => node("abort", vec![atom("unknown")]),
            }
        };
        if sent.is_err() {
            let r = died(w);
            self.w = None;
            return r;
        }
        match w.rx.recv_timeout(self.budget) {
            Ok(line) => Sexp::parse(&line).unwrap_or_else(|| node("bad-answer", vec![])),
            Err(RecvTimeoutError::Timeout) => {
                self.retire();
                timeout()
            }
            Err(RecvTimeoutError::Disconnected) => {
                let r = died(w);
                self.w = None;
                r
            }
        }
    }
}

fn is_abort(s: &Sexp) -> bool {
    s.tag() == Some("abort")
}

fn run(case: &Sexp, dist: &mut Dist, pool: &mut Pool) -> Sexp {
    let out = if case.tag() == Some("calib") {
        let a = case.args();
        let (Some(mode), Some(kind)) = (a.first().and_then(|s| s.as_atom()), a.get(1).and_then(|s| s.as_atom())) else {
            return node("bad-case", vec![]);
        };
        let mut found = None;
        for k in 8..=20 {
            let n = 1usize << k;
            let c = node("doc", vec![atom(mode), node("nest", vec![atom(kind), num(n)])]);
            let r = pool.ask(&c, dist);
            if is_abort(&r) {
                found = Some(n);
                break;
            }
            if r.tag() == Some("timeout") {
                return r;
            }
        }
        node("threshold", vec![found.map(num).unwrap_or(atom("none"))])
    } else {
        pool.ask(case, dist)
    };
    let k = match &out {
        Sexp::Atom(a) => a.clone(),
        s => s.tag().unwrap_or("?").to_string(),
    };
    dist.hit(&format!("out_{}_{}", case.tag().unwrap_or("?"), k));
    out
}

// ------------------------------------------------------------------ generators

const PREFIX: &str = "#__graphql_file__:";
const POSS: &[&str] = &["single", "req", "list", "inobj", "maybe"];

fn gen_marker(rng: &mut Rng, dist: &mut Dist) -> Sexp {
    let nfiles = *rng.pick(&[0usize, 0, 1, 2, 3]);
    let tails: &[&str] = &[
        "", "x", "0", "1", "2", "3", "4", "+0", "+1", "-0", "-1", " 1", "1 ", "01", "007", "1.0", "1e0", "0x1", "\u{663}", "\u{ff11}",
        "18446744073709551615", "18446744073709551616", "+18446744073709551615", "99999999999999999999999999", "4294967296", "+", "-", "++1",
        "1\u{0}", "\n1", "1,2", "null", "#__graphql_file__:0",
    ];
    let value = match rng.below(10) {
        0..=5 => {
            dist.hit("marker_forged");
            format!("{PREFIX}{}", rng.pick(tails))
        }
        6 => {
            dist.hit("marker_forged_random_index");
            format!("{PREFIX}{}", rng.below(6))
        }
        7 => {
            dist.hit("marker_near_miss");
            let near = ["#__graphql_file__", "#__graphql_file__ :0", "#__GRAPHQL_FILE__:0", " #__graphql_file__:0", "__graphql_file__:0", "#__graphql_file_:0", "#"];
            rng.pick(&near).to_string()
        }
        _ => {
            dist.hit("marker_plain_string");
            rng.pick(&["", "file", "0", "\u{e9}", "a\"b\\c"]).to_string()
        }
    };
    let via = *rng.pick(&["var", "var", "lit", "multipart", "ws"]);
    dist.hit(&format!("via_{via}"));
    let pos = *rng.pick(POSS);
    dist.hit(&format!("pos_{pos}"));
    node("marker", vec![atom(pos), st(value), num(if via == "ws" { 0 } else { nfiles }), atom(via)])
}

const BASE_DOCS: &[&str] = &[
    "{s}",
    "{...A} fragment A on Q{s ...B} fragment B on Q{s @skip(if:false) ...on Q{a{...A}}}",
    "{s @include(if:true) @skip(if:false) ...Nope ...on Q @include(if:true){s}}",
    "{a{a{s}}}",
    "query Q($i:Int=3,$o:In={n:1,nested:{id:\"x\",c:RED}}){t(i:$i,o:$o,l:[[1,2],null],m:null,e:GREEN,f:1.5e3,b:true,id:7,s:\"a\\u00e9\\n\")}",
    "mutation($v:Upload,$fs:[Upload!]){r:probe(single:$v,fs:$fs)}",
    "{j(x:{a:[1,2.5,\"s\",true,null,E,{b:[]}]})}",
    "query($x:JSON){j(x:$x) ...F ...on Q{s}} fragment F on Q{a{s @skip(if:false)}}",
    "subscription{ticks(n:2)}",
    "{t(s:\"\"\"block \\\"\"\" text\n  more\"\"\") __typename __schema{types{name}}}",
    "{t(i64:-9223372036854775808,u:18446744073709551615,f:-0.0,i:2147483647)}",
];

const HOSTILE: &[&str] = &[
    "[", "]", "{", "}", "(", ")", "\"", "\"\"\"", "\\", "\\u", "\\uD800", "\\uDFFF", "\\u{1F600}", "\\q", "\u{0}", "\u{feff}", "\u{2028}", "\u{1F600}", "\u{80}",
    "$", "@", "#", "...", "!", ":", "=", "|", "&", "-", ".", "e", "E", "0", "9", "1e", "1.", "-0", "0x", "on", "null", "true", "fragment", "query", "\r", "\n",
    "99999999999999999999999999999999999999", "1e999999999", "-1e-999999999", "0.00000000000000000000000000000000000000000000000000001", "\"\\u12\"", "\"\\uD83D\\uDE00\"", "\"\\\"",
];

fn mutate(rng: &mut Rng, base: &str, dist: &mut Dist) -> String {
    let mut cs: Vec<char> = base.chars().collect();
    let k = 1 + rng.below(4);
    for _ in 0..k {
        let at = if cs.is_empty() { 0 } else { rng.below(cs.len() + 1) };
        match rng.below(8) {
            0 | 1 => {
                let ins: Vec<char> = rng.pick(HOSTILE).chars().collect();
                cs.splice(at..at, ins);
                dist.hit("mut_insert_hostile");
            }
            2 => {
                if at < cs.len() {
                    cs.remove(at);
                }
                dist.hit("mut_delete");
            }
            3 => {
                cs.truncate(at);
                dist.hit("mut_truncate");
            }
            4 => {
                if at < cs.len() {
                    cs[at] = char::from_u32(rng.below(256) as u32).unwrap_or('?');
                }
                dist.hit("mut_replace_byte");
            }
            5 => {
                let end = (at + 1 + rng.below(12)).min(cs.len());
                let seg: Vec<char> = cs[at.min(end)..end].to_vec();
                let times = *rng.pick(&[2usize, 3, 50]);
                for _ in 0..times {
                    cs.splice(at..at, seg.clone());
                }
                dist.hit("mut_duplicate_segment");
            }
            6 => {
                let len = *rng.pick(&[300usize, 5000, 70000]);
                let name: Vec<char> = std::iter::repeat_n('n', len).collect();
                cs.splice(at..at, name);
                dist.hit("mut_long_name");
            }
            _ => {
                let len = *rng.pick(&[40usize, 400, 5000]);
                let d = *rng.pick(&['9', '0', '1']);
                let numb: Vec<char> = std::iter::repeat_n(d, len).collect();
                cs.splice(at..at, numb);
                dist.hit("mut_huge_number");
            }
        }
    }
    cs.into_iter().collect()
}

const NEST_KINDS: &[&str] = &[
    "list", "obj", "sel", "inline", "type", "constlist", "listopen", "objopen", "selopen", "widelist", "widefields", "widedirs", "fragchain", "fragcycle",
    "cycreach", "cycinline", "cycunreach", "undefspread", "undefchain", "dirsdeep", "dirsfrag", "intro", "fragcycle", "cycreach",
];

fn gen_cfg(rng: &mut Rng, dist: &mut Dist) -> Option<Sexp> {
    if rng.chance(1, 3) {
        dist.hit("cfg_default");
        return None;
    }
    let lim = |rng: &mut Rng, p: usize, vals: &[usize]| -> Sexp { if rng.chance(p, 10) { num(*rng.pick(vals)) } else { atom("-") } };
    let dirs = lim(rng, 6, &[0, 1, 2, 5, 1000]);
    let depth = lim(rng, 4, &[1, 3, 10, 100]);
    let cplx = lim(rng, 4, &[1, 5, 50, 100000]);
    let rdepth = lim(rng, 5, &[0, 1, 5, 40, 200]);
    let fast = num(rng.chance(1, 3) as usize);
    let nointro = num(rng.chance(1, 4) as usize);
    for (k, v) in [("dirs", &dirs), ("depth", &depth), ("cplx", &cplx), ("rdepth", &rdepth)] {
        if v.as_atom() != Some("-") {
            dist.hit(&format!("cfg_limit_{k}"));
        }
    }
    if fast.as_atom() == Some("1") {
        dist.hit("cfg_fast_validation");
    }
    Some(node("cfg", vec![dirs, depth, cplx, rdepth, fast, nointro]))
}

fn gen_doc(rng: &mut Rng, i: usize, o: &Opts, dist: &mut Dist) -> Sexp {
    // the first cases of a run: calibration of the abort threshold
    if i < 2 {
        dist.hit("calibration");
        return node("calib", vec![atom(if i == 0 { "parse" } else { "parse2m" }), atom("list")]);
    }
    let mode = *rng.pick(&["parse", "exec", "exec", "parse2m", "exec2m"]);
    if rng.chance(2, 5) {
        let kind = *rng.pick(NEST_KINDS);
        let top = if o.tier == "thorough" { 6 } else { 5 };
        let n = match rng.below(top) {
            0 => 1 + rng.below(9),
            1 => *rng.pick(&[10usize, 63, 64, 65, 66, 67, 100]),
            2 => 60 + rng.below(12),
            3 => *rng.pick(&[128usize, 500, 1000]),
            4 => *rng.pick(&[2000usize, 10_000]),
            _ => *rng.pick(&[20_000usize, 50_000]),
        };
        // chains of n fragments are quadratic in some validation rules: keep them moderate
        let n = if kind.starts_with("frag") || kind.starts_with("cyc") || kind.starts_with("undef") { n.min(2000) } else { n };
        let n = if kind == "intro" { n.min(12) } else { n };
        dist.hit(&format!("nest_{kind}"));
        dist.hit(&format!("nest_depth_{}", if n < 64 { "lt64" } else if n < 1000 { "lt1000" } else { "ge1000" }));
        let mut v = vec![atom(mode)];
        if mode.starts_with("exec") {
            v.extend(gen_cfg(rng, dist));
        }
        v.push(node("nest", vec![atom(kind), num(n)]));
        node("doc", v)
    } else {
        let base = *rng.pick(BASE_DOCS);
        let text = if rng.chance(1, 12) {
            dist.hit("doc_unmutated");
            base.to_string()
        } else {
            mutate(rng, base, dist)
        };
        dist.hit("doc_literal");
        let mut v = vec![atom(mode)];
        if mode.starts_with("exec") {
            v.extend(gen_cfg(rng, dist));
        }
        v.push(node("lit", vec![st(text)]));
        node("doc", v)
    }
}

fn json_nest(open: &str, close: &str, inner: &str, n: usize) -> String {
    format!("{}{}{}", open.repeat(n), inner, close.repeat(n))
}

fn gen_request_json(rng: &mut Rng, dist: &mut Dist) -> String {
    let q = *rng.pick(BASE_DOCS);
    let hostile_vals: &[&str] = &[
        "null", "1", "-0", "1e400", "-1e400", "123456789012345678901234567890", "1.7976931348623157e308", "2147483648", "-2147483649",
        "9223372036854775808", "18446744073709551616", "0.1", "\"\"", "\"\\ud800\"", "\"\\ud83d\\ude00\"", "\"#__graphql_file__:0\"", "\"#__graphql_file__:x\"",
        "\"\\u0000\"", "[]", "{}", "[null]", "{\"\":1}", "{\"a\":1,\"a\":2}", "true", "\"RED\"", "\"red\"",
    ];
    let mut vars = String::from("{");
    let names = ["i", "o", "x", "v", "fs", "f", "s", "id"];
    let nv = rng.below(4);
    for k in 0..nv {
        if k > 0 {
            vars.push(',');
        }
        let val = match rng.below(6) {
            0 => {
                dist.hit("json_deep_value");
                let n = *rng.pick(&[10usize, 100, 127, 128, 129, 1000, 5000]);
                if rng.chance(1, 2) { json_nest("[", "]", "1", n) } else { json_nest("{\"nested\":", "}", "{}", n) }
            }
            _ => rng.pick(hostile_vals).to_string(),
        };
        vars.push_str(&format!("\"{}\":{}", rng.pick(&names), val));
    }
    vars.push('}');
    let vars = if rng.chance(1, 8) { rng.pick(&["null", "[]", "\"x\"", "1", "[1]"]).to_string() } else { vars };
    let opn = rng.pick(&["null", "\"Q\"", "\"\"", "1", "\"nope\"", "{}"]).to_string();
    let ext = rng.pick(&["null", "{}", "{\"persistedQuery\":{\"version\":1,\"sha256Hash\":\"x\"}}", "[]", "\"x\"", "{\"a\":[[[[1]]]]}"]).to_string();
    let qv = if rng.chance(1, 8) { rng.pick(&["null", "1", "[]", "{}"]).to_string() } else { serde_json::to_string(q).unwrap() };
    let mut members = vec![format!("\"query\":{qv}")];
    if rng.chance(3, 4) {
        members.push(format!("\"variables\":{vars}"));
    }
    if rng.chance(1, 2) {
        members.push(format!("\"operationName\":{opn}"));
    }
    if rng.chance(1, 3) {
        members.push(format!("\"extensions\":{ext}"));
    }
    if rng.chance(1, 10) {
        members.push(members[0].clone());
    }
    if rng.chance(1, 10) {
        members.push("\"unknown\":[1,2]".into());
    }
    rng.shuffle(&mut members);
    let one = format!("{{{}}}", members.join(","));
    match rng.below(10) {
        0 => format!("[{one},{one}]"),
        1 => "[]".into(),
        2 => format!("[{one}"),
        _ => one,
    }
}

fn garble(rng: &mut Rng, mut b: Vec<u8>, dist: &mut Dist) -> Vec<u8> {
    match rng.below(6) {
        0 => {
            let at = rng.below(b.len() + 1);
            b.truncate(at);
            dist.hit("bytes_truncated");
        }
        1 => {
            for _ in 0..1 + rng.below(3) {
                if !b.is_empty() {
                    let at = rng.below(b.len());
                    b[at] = *rng.pick(&[0u8, 0xff, 0xc0, 0x80, b'"', b'\\', b'{', b'[', b'\r', b'\n', b'-']);
                }
            }
            dist.hit("bytes_garbled");
        }
        2 => {
            let at = rng.below(b.len() + 1);
            let n = *rng.pick(&[1usize, 100, 100_000]);
            let fill = *rng.pick(&[b' ', b'[', 0u8, b'a', 0xf0]);
            b.splice(at..at, std::iter::repeat_n(fill, n));
            dist.hit("bytes_oversized");
        }
        _ => dist.hit("bytes_intact"),
    }
    b
}

fn gen_multipart(rng: &mut Rng, dist: &mut Dist) -> (String, Vec<u8>) {
    let boundary = *rng.pick(&["bnd", "----x", "a b", "\"q\"", "b", ""]);
    let ops = gen_request_json(rng, dist);
    let maps: &[&str] = &[
        "{}", "{\"0\":[\"variables.fs.0\"]}", "{\"0\":[\"variables.v\"],\"1\":[\"variables.fs.0\",\"variables.fs.1\"]}", "{\"0\":\"variables.v\"}",
        "{\"0\":[1]}", "[]", "\"x\"", "{\"0\":[\"variables.\"]}", "{\"0\":[\"variables..\"]}", "{\"0\":[\"variables.fs.99999999999999999999\"]}",
        "{\"0\":[\"variables.fs.-1\"]}", "{\"0\":[\"variables.fs.+0\"]}", "{\"0\":[\"0.variables.v\"]}", "{\"0\":[\"\"]}", "{\"0\":[\"variables\"]}",
        "{\"0\":[\"variables.o.nested.nested.f\"]}", "{\"9\":[\"variables.v\"]}", "{\"0\":[\"variables.v\",\"variables.v\"]}", "{\"0\":[]}",
    ];
    let mut parts: Vec<(String, Vec<u8>)> = vec![];
    let disp = |name: &str, file: Option<&str>| match file {
        Some(f) => format!("Content-Disposition: form-data; name=\"{name}\"; filename=\"{f}\""),
        None => format!("Content-Disposition: form-data; name=\"{name}\""),
    };
    if rng.chance(9, 10) {
        let hdr = if rng.chance(1, 8) {
            format!("{}\r\nContent-Type: {}", disp("operations", None), rng.pick(&["multipart/mixed; boundary=zz", "text/plain", "application/json", "\u{0}", "multipart/form-data"]))
        } else {
            disp("operations", None)
        };
        parts.push((hdr, ops.into_bytes()));
    }
    if rng.chance(9, 10) {
        parts.push((disp("map", None), rng.pick(maps).as_bytes().to_vec()));
    }
    let nf = *rng.pick(&[0usize, 1, 2, 2, 40]);
    for i in 0..nf {
        let hdr = match rng.below(8) {
            0 => "Content-Disposition: form-data".to_string(),
            1 => format!("Content-Disposition: attachment; name=\"{i}\""),
            2 => format!("X-Other: 1\r\n{}", disp(&i.to_string(), Some("f\"\\\r"))),
            3 => "Content-Disposition".to_string(),
            _ => disp(&i.to_string(), Some("f.txt")),
        };
        parts.push((hdr, b"data\r\n--not-boundary".to_vec()));
    }
    if rng.chance(1, 6) {
        rng.shuffle(&mut parts);
        dist.hit("multipart_parts_shuffled");
    }
    let mut body = vec![];
    for (h, c) in parts {
        body.extend_from_slice(format!("--{boundary}\r\n{h}\r\n\r\n").as_bytes());
        body.extend_from_slice(&c);
        body.extend_from_slice(b"\r\n");
    }
    if rng.chance(5, 6) {
        body.extend_from_slice(format!("--{boundary}--\r\n").as_bytes());
    }
    let ct = match rng.below(8) {
        0 => "multipart/form-data".to_string(),
        1 => format!("multipart/form-data; boundary={boundary}; boundary=other"),
        2 => format!("multipart/mixed; boundary={boundary}"),
        _ => format!("multipart/form-data; boundary={boundary}"),
    };
    (ct, body)
}

fn gen_ws(rng: &mut Rng, dist: &mut Dist) -> Sexp {
    let legacy = rng.chance(1, 3);
    let (start, stop) = if legacy { ("start", "stop") } else { ("subscribe", "complete") };
    let mut frames: Vec<Vec<u8>> = vec![];
    if rng.chance(4, 5) {
        frames.push(
            rng.pick(&[r#"{"type":"connection_init"}"#, r#"{"type":"connection_init","payload":{"a":[1,{"b":null}]}}"#, r#"{"type":"connection_init","payload":1}"#])
                .as_bytes()
                .to_vec(),
        );
    }
    for _ in 0..rng.below(5) {
        let id = rng.pick(&["\"1\"", "\"\"", "1", "null", "\"1\"", "\"\\u0000\"", "[]"]).to_string();
        let f = match rng.below(10) {
            0..=3 => {
                let payload = gen_request_json(rng, dist);
                format!("{{\"type\":\"{start}\",\"id\":{id},\"payload\":{payload}}}")
            }
            4 => format!("{{\"type\":\"{stop}\",\"id\":{id}}}"),
            5 => rng.pick(&[r#"{"type":"ping"}"#, r#"{"type":"pong","payload":[]}"#, r#"{"type":"connection_terminate"}"#, r#"{"type":"connection_init"}"#]).to_string(),
            6 => rng.pick(&["", "{", "null", "[]", "{\"type\":1}", "{\"type\":\"nope\"}", "{\"id\":\"1\"}", "{\"type\":\"subscribe\"}", "\u{0}"]).to_string(),
            7 => format!("{{\"type\":\"{start}\",\"id\":\"2\",\"payload\":{{\"query\":\"subscription{{ticks(n:3)}}\"}}}}"),
            8 => format!("{{\"type\":\"{start}\",\"id\":\"3\",\"payload\":{}}}", json_nest("[", "]", "1", *rng.pick(&[100usize, 200, 3000]))),
            _ => format!("{{\"type\":\"{start}\",\"id\":\"4\",\"payload\":{{\"query\":\"{{s}}\",\"variables\":\"x\"}}}}"),
        };
        frames.push(garble(rng, f.into_bytes(), dist));
    }
    dist.hit(if legacy { "ws_legacy" } else { "ws_new" });
    node("ws", vec![atom(if legacy { "legacy" } else { "new" }), list(frames.iter().map(|f| st(latin1(f))).collect())])
}

fn gen_transport(rng: &mut Rng, dist: &mut Dist) -> Sexp {
    match rng.below(10) {
        0..=3 => {
            dist.hit("transport_json_body");
            let raw = gen_request_json(rng, dist).into_bytes();
            let body = garble(rng, raw, dist);
            let ct = match rng.below(6) {
                0 => atom("none"),
                1 => st(*rng.pick(&["text/plain", "application/graphql-response+json", "", "x", "application/json; charset=\u{ff}", "a/b/c", "*/*"])),
                _ => st("application/json"),
            };
            node("body", vec![ct, st(latin1(&body)), atom("1")])
        }
        4 | 5 => {
            dist.hit("transport_multipart_body");
            let (ct, body) = gen_multipart(rng, dist);
            let body = garble(rng, body, dist);
            node("body", vec![st(ct), st(latin1(&body)), atom("1")])
        }
        6 | 7 => {
            dist.hit("transport_query_string");
            let q = *rng.pick(BASE_DOCS);
            let enc = |s: &str, rng: &mut Rng| -> String {
                s.bytes()
                    .map(|b| if b.is_ascii_alphanumeric() && rng.chance(9, 10) { (b as char).to_string() } else { format!("%{b:02X}") })
                    .collect()
            };
            let mut ps = vec![format!("query={}", enc(q, rng))];
            let extras = [
                "variables=%7B%7D", "variables=x", "variables=%7B%22i%22%3A1e400%7D", "variables=", "variables=%5B%5D", "operationName=Q", "operationName=",
                "extensions=%7B%7D", "extensions=1", "query=", "query=%7Bs%7D", "%", "%zz=1", "a=%00", "=", "&&", "query", "variables=%ff%fe", "query=%7Bs%7D%",
            ];
            for _ in 0..rng.below(4) {
                ps.push(rng.pick(&extras).to_string());
            }
            rng.shuffle(&mut ps);
            let qs = garble(rng, ps.join("&").into_bytes(), dist);
            node("qs", vec![st(latin1(&qs))])
        }
        _ => {
            dist.hit("transport_websocket");
            gen_ws(rng, dist)
        }
    }
}

// ---- numbers

fn pow2(k: u32) -> i128 {
    1i128 << k
}

const NUM_SPECIALS: &[&str] = &[
    "0", "-0", "1", "-1", "-9223372036854775808", "-9223372036854775809", "9223372036854775807", "9223372036854775808", "18446744073709551615",
    "18446744073709551616", "-18446744073709551615", "-18446744073709551616", "55340232221128654848", "340282366920938463463374607431768211455",
    "340282366920938463463374607431768211456", "10000000000000000000", "100000000000000000000", "100000000000000000000000000000000000000",
    "1000000000000000000000000000000000000000", "340282346638528859811704183484516925440", "340282356779733661637539395458142568448",
    "9007199254740992", "9007199254740993", "16777216", "16777217", "123456789012345678901234567890",
];

const NUM_EXPONENTS: &[&str] = &[
    "1e400", "-1e400", "1e-400", "-1e-400", "1E400", "1e+400", "1e308", "1.8e308", "-1.8e308", "1.7976931348623157e308", "1.7976931348623159e308", "1e309",
    "4.9e-324", "2.4e-324", "1e-324", "2.2250738585072014e-308", "1e39", "3.5e38", "-3.5e38", "3.4028235e38", "1e-46", "1e19", "1.8446744073709552e19",
    "9.223372036854775807e18", "1e0", "1e1", "65536e0", "6.5536e4", "655.36e2", "0e0", "0e999999", "0e-999999", "1e999999999", "-1e999999999", "1e-999999999",
    "1e18446744073709551616", "1e-18446744073709551616", "0.1e1", "1e00000000000000000001", "1e2147483648", "1e-2147483649", "1e9223372036854775808",
];

const NUM_FRACTIONS: &[&str] = &[
    "1.0", "0.0", "-0.0", "-0e0", "65536.0", "65535.0", "0.5", "-1.5", "255.0", "256.0", "4294967296.0", "1.0000000000000002", "0.1", "1.5e0", "-128.0",
    "9223372036854775807.0", "18446744073709551615.0", "18446744073709551616.0", "0.99999999999999999999", "1.00000000000000000000000000000000000001",
    "0.000000000000000000000000000000000000000000000000000000000000001",
];

const NUM_SPELLINGS: &[&str] = &[
    "NaN", "nan", "NAN", "-NaN", "Infinity", "-Infinity", "+Infinity", "infinity", "inf", "-inf", "+Inf", "Inf", "\"NaN\"", "\"Infinity\"", "\"-Infinity\"",
    "\"65536\"", "\"1\"", "\"0\"", "\"1e400\"", "\"\"", "+1", "+0", "--1", "-+1", "0x10", "0X10", "0b1", "0o7", "1_000", "01", "-01", "00", "-00", ".5", "-.5",
    "1.", "1.e1", "1e", "1e+", "1e-", "-", "+", "1f", "1L", "1n", "1u8", "1i64", "\u{661}\u{662}", "\u{ff11}", "1,0", "1 0", "null", "true", "false", "[]",
    "[1]", "[[1]]", "{}", "{f:1}", "{\"f\":1}", "1e1.5", "0x1p3", "1/0", "\u{221e}", "1e\u{0}", "1\u{0}", "- 1", "1e 5", "$v", "$nope", "E", "e1", "_1",
];

fn long_digits(rng: &mut Rng, o: &Opts, dist: &mut Dist) -> String {
    let big = if o.tier == "thorough" { rng.chance(1, 6) } else { rng.chance(1, 10) };
    let len = if big { 100_000 } else { *rng.pick(&[1000usize, 1000, 10_000]) };
    dist.hit(&format!("num_long_{len}_digits"));
    let body: String = match rng.below(4) {
        0 => "9".repeat(len),
        1 => "1".repeat(len),
        2 => format!("1{}", "0".repeat(len - 1)),
        _ => (0..len).map(|i| char::from(b'0' + if i == 0 { 1 + rng.below(9) as u8 } else { rng.below(10) as u8 })).collect(),
    };
    let sign = if rng.chance(1, 3) { "-" } else { "" };
    match rng.below(8) {
        0 => format!("{sign}{body}.5"),
        1 => format!("{sign}{body}e5"),
        2 => format!("{sign}0.{body}"),
        3 => format!("{sign}1e{body}"),
        4 => format!("{sign}1e-{body}"),
        5 => format!("{sign}0{body}"),
        _ => format!("{sign}{body}"),
    }
}

fn hostile_number(rng: &mut Rng, o: &Opts, dist: &mut Dist) -> String {
    match rng.below(20) {
        0..=6 => {
            dist.hit("num_pow2_boundary");
            let k = if rng.chance(1, 12) { 65 + rng.below(61) as u32 } else { rng.below(65) as u32 };
            let v = pow2(k) + rng.range(-1, 1) as i128;
            (if rng.chance(1, 3) { -v } else { v }).to_string()
        }
        7..=9 => {
            dist.hit("num_multiple_of_2_8_16_32");
            let w = *rng.pick(&[8u32, 16, 32]);
            let ms: &[i128] = &[1, 2, 3, 127, 128, 255, 256, 257, 32767, 32768, 65535, 65536, 65537, 1 << 24, 1 << 31, (1 << 32) - 1, 1 << 32, (1 << 32) + 1];
            let m = if rng.chance(1, 3) { 1 + rng.below(1 << 20) as i128 } else { *rng.pick(ms) };
            let v = m * pow2(w) + if rng.chance(1, 6) { rng.range(-1, 1) as i128 } else { 0 };
            (if rng.chance(1, 5) { -v } else { v }).to_string()
        }
        10 | 11 => {
            dist.hit("num_special");
            rng.pick(NUM_SPECIALS).to_string()
        }
        12 | 13 => {
            dist.hit("num_exponent_form");
            rng.pick(NUM_EXPONENTS).to_string()
        }
        14 => {
            dist.hit("num_fraction_form");
            rng.pick(NUM_FRACTIONS).to_string()
        }
        15 => long_digits(rng, o, dist),
        16 | 17 => {
            dist.hit("num_spelling");
            rng.pick(NUM_SPELLINGS).to_string()
        }
        _ => {
            dist.hit("num_random");
            match rng.below(4) {
                0 => rng.next_u64().to_string(),
                1 => (rng.next_u64() as i64).to_string(),
                2 => (((rng.next_u64() as i128) << 8) + rng.below(256) as i128).to_string(),
                _ => (rng.range(-70000, 70000)).to_string(),
            }
        }
    }
}

/// the deterministic head of the stream: the probed types, then for every type the values at
/// which a cast of every width wraps to zero (±m·2^w)
fn num_sweep(i: usize) -> Option<Sexp> {
    if i == 0 {
        return Some(node("numtypes", vec![]));
    }
    let i = i - 1;
    let types = numprobe::types();
    let per = 4 * 2 * 2;
    if i >= types.len() * per {
        return None;
    }
    let ty = types[i / per];
    let j = i % per;
    let w = [8u32, 16, 32, 64][j / 4];
    let m = [1i128, 3][(j / 2) % 2];
    let v = m * pow2(w) * if j % 2 == 0 { 1 } else { -1 };
    Some(node("num", vec![atom(ty), atom("arg"), atom(if (i / per + j) % 2 == 0 { "lit" } else { "var" }), st(v.to_string())]))
}

fn gen_num(rng: &mut Rng, i: usize, o: &Opts, dist: &mut Dist) -> Sexp {
    if let Some(c) = num_sweep(i) {
        dist.hit("num_sweep");
        return c;
    }
    let ty = *rng.pick(numprobe::types());
    let pos = *rng.pick(&["arg", "arg", "list", "obj"]);
    let via = *rng.pick(&["lit", "var"]);
    let text = hostile_number(rng, o, dist);
    dist.hit(&format!("num_type_{ty}"));
    dist.hit(&format!("num_pos_{pos}"));
    dist.hit(&format!("num_via_{via}"));
    node("num", vec![atom(ty), atom(pos), atom(via), st(text)])
}

fn gen_case(rng: &mut Rng, i: usize, o: &Opts, dist: &mut Dist) -> Sexp {
    match o.stream.as_str() {
        "numbers" => gen_num(rng, i, o, dist),
        "markers" => gen_marker(rng, dist),
        "docs" => gen_doc(rng, i, o, dist),
        "transport" => gen_transport(rng, dist),
        s => panic!("unknown stream {s}"),
    }
}

fn main() {
    if std::env::args().nth(1).as_deref() == Some("--child") {
        worker_main();
        return;
    }
    let budget = std::env::var("AGV_C12_BUDGET_S").ok().and_then(|s| s.parse().ok()).unwrap_or(40u64);
    let mut pool = Pool { w: None, budget: Duration::from_secs(budget) };
    main_loop(&mut gen_case, &mut |c, d| run(c, d, &mut pool));
    pool.retire();
}
