//! C33 — dynamic schemas build exactly when the type system is valid.
//!
//! A case carries an abstract type system
//!
//! ```text
//! (ts LABEL (roots "Query" none|(some "M") none|(some "S")) (types TYPEDEF…))
//! TYPEDEF := (obj "N" (impl "I"…) (fields FIELD…)) | (iface "N" (impl "I"…) (fields FIELD…))
//!          | (union "N" (members "A"…)) | (enum "N" (items "X"…))
//!          | (input "N" oneof|plain (fields ARG…)) | (scalar "N") | (sub "N" (fields FIELD…)) | (upload)
//! FIELD   := (f "name" TY (args ARG…))      ARG := (a "name" TY def|nodef)
//! TY      := (n "Name") | (nn TY) | (l TY)
//! ```
//!
//! `run` rebuilds the schema with the real dynamic API (`async_graphql::dynamic`), calls
//! `SchemaBuilder::finish()` and prints `(err "message")` or `(ok PANIC…)`, where every accepted
//! schema is exercised with the standard introspection query, `sdl()`, generated queries for
//! every root field, a mutation and a subscription operation, each under `catch_unwind`; a panic
//! in one of them is printed as `(panic "what")`.

use std::panic::{AssertUnwindSafe, catch_unwind};

use agvh::{Dist, Opts, Rng, Sexp, atom, list, main_loop, node, spin_on, st};
use async_graphql::{
    Value,
    dynamic::{
        Enum, Field, FieldFuture, FieldValue, InputObject, InputValue, Interface, InterfaceField, Object, Scalar, Schema,
        Subscription, SubscriptionField, SubscriptionFieldFuture, TypeRef, Union,
    },
};
use futures_util::StreamExt;

// ------------------------------------------------------------------ abstract type system

#[derive(Clone, Debug, PartialEq)]
enum Ty {
    N(String),
    NN(Box<Ty>),
    L(Box<Ty>),
}

impl Ty {
    fn name(&self) -> &str {
        match self {
            Ty::N(n) => n,
            Ty::NN(t) | Ty::L(t) => t.name(),
        }
    }
    fn to_ref(&self) -> TypeRef {
        match self {
            Ty::N(n) => TypeRef::Named(n.clone().into()),
            Ty::NN(t) => TypeRef::NonNull(Box::new(t.to_ref())),
            Ty::L(t) => TypeRef::List(Box::new(t.to_ref())),
        }
    }
    fn sexp(&self) -> Sexp {
        match self {
            Ty::N(n) => node("n", vec![st(n.clone())]),
            Ty::NN(t) => node("nn", vec![t.sexp()]),
            Ty::L(t) => node("l", vec![t.sexp()]),
        }
    }
    fn parse(s: &Sexp) -> Ty {
        match (s.tag().expect("ty"), s.args()) {
            ("n", [x]) => Ty::N(x.as_str().expect("ty name").to_string()),
            ("nn", [x]) => Ty::NN(Box::new(Ty::parse(x))),
            ("l", [x]) => Ty::L(Box::new(Ty::parse(x))),
            _ => panic!("bad ty"),
        }
    }
    fn n(s: &str) -> Ty {
        Ty::N(s.to_string())
    }
    fn nn(self) -> Ty {
        Ty::NN(Box::new(self))
    }
    fn l(self) -> Ty {
        Ty::L(Box::new(self))
    }
    fn is_nn(&self) -> bool {
        matches!(self, Ty::NN(_))
    }
}

#[derive(Clone, Debug)]
struct Arg {
    name: String,
    ty: Ty,
    def: bool,
}

#[derive(Clone, Debug)]
struct Fld {
    name: String,
    ty: Ty,
    args: Vec<Arg>,
}

#[derive(Clone, Debug)]
enum Def {
    Obj { name: String, implements: Vec<String>, fields: Vec<Fld> },
    Iface { name: String, implements: Vec<String>, fields: Vec<Fld> },
    Union { name: String, members: Vec<String> },
    Enum { name: String, items: Vec<String> },
    Input { name: String, oneof: bool, fields: Vec<Arg> },
    Scalar { name: String },
    Sub { name: String, fields: Vec<Fld> },
    Upload,
}

impl Def {
    fn name(&self) -> &str {
        match self {
            Def::Obj { name, .. }
            | Def::Iface { name, .. }
            | Def::Union { name, .. }
            | Def::Enum { name, .. }
            | Def::Input { name, .. }
            | Def::Scalar { name }
            | Def::Sub { name, .. } => name,
            Def::Upload => "Upload",
        }
    }
}

#[derive(Clone, Debug)]
struct TS {
    query: String,
    mutation: Option<String>,
    subscription: Option<String>,
    types: Vec<Def>,
}

fn strs(tag: &str, xs: &[String]) -> Sexp {
    node(tag, xs.iter().map(|x| st(x.clone())).collect())
}
fn arg_sexp(a: &Arg) -> Sexp {
    node("a", vec![st(a.name.clone()), a.ty.sexp(), atom(if a.def { "def" } else { "nodef" })])
}
fn fld_sexp(f: &Fld) -> Sexp {
    node("f", vec![st(f.name.clone()), f.ty.sexp(), node("args", f.args.iter().map(arg_sexp).collect())])
}
fn opt_sexp(o: &Option<String>) -> Sexp {
    match o {
        None => atom("none"),
        Some(s) => node("some", vec![st(s.clone())]),
    }
}
fn def_sexp(d: &Def) -> Sexp {
    match d {
        Def::Obj { name, implements, fields } => {
            node("obj", vec![st(name.clone()), strs("impl", implements), node("fields", fields.iter().map(fld_sexp).collect())])
        }
        Def::Iface { name, implements, fields } => {
            node("iface", vec![st(name.clone()), strs("impl", implements), node("fields", fields.iter().map(fld_sexp).collect())])
        }
        Def::Union { name, members } => node("union", vec![st(name.clone()), strs("members", members)]),
        Def::Enum { name, items } => node("enum", vec![st(name.clone()), strs("items", items)]),
        Def::Input { name, oneof, fields } => node(
            "input",
            vec![st(name.clone()), atom(if *oneof { "oneof" } else { "plain" }), node("fields", fields.iter().map(arg_sexp).collect())],
        ),
        Def::Scalar { name } => node("scalar", vec![st(name.clone())]),
        Def::Sub { name, fields } => node("sub", vec![st(name.clone()), node("fields", fields.iter().map(fld_sexp).collect())]),
        Def::Upload => node("upload", vec![]),
    }
}
fn ts_sexp(label: &str, t: &TS) -> Sexp {
    node(
        "ts",
        vec![
            atom(label),
            node("roots", vec![st(t.query.clone()), opt_sexp(&t.mutation), opt_sexp(&t.subscription)]),
            node("types", t.types.iter().map(def_sexp).collect()),
        ],
    )
}

fn p_str(s: &Sexp) -> String {
    s.as_str().expect("string").to_string()
}
fn p_strs(s: &Sexp) -> Vec<String> {
    s.args().iter().map(p_str).collect()
}
fn p_arg(s: &Sexp) -> Arg {
    let a = s.args();
    Arg { name: p_str(&a[0]), ty: Ty::parse(&a[1]), def: a[2].as_atom() == Some("def") }
}
fn p_fld(s: &Sexp) -> Fld {
    let a = s.args();
    Fld { name: p_str(&a[0]), ty: Ty::parse(&a[1]), args: a[2].args().iter().map(p_arg).collect() }
}
fn p_opt(s: &Sexp) -> Option<String> {
    if s.as_atom() == Some("none") { None } else { Some(p_str(&s.args()[0])) }
}
fn p_def(s: &Sexp) -> Def {
    let a = s.args();
    match s.tag().expect("def") {
        "obj" => Def::Obj { name: p_str(&a[0]), implements: p_strs(&a[1]), fields: a[2].args().iter().map(p_fld).collect() },
        "iface" => Def::Iface { name: p_str(&a[0]), implements: p_strs(&a[1]), fields: a[2].args().iter().map(p_fld).collect() },
        "union" => Def::Union { name: p_str(&a[0]), members: p_strs(&a[1]) },
        "enum" => Def::Enum { name: p_str(&a[0]), items: p_strs(&a[1]) },
        "input" => Def::Input { name: p_str(&a[0]), oneof: a[1].as_atom() == Some("oneof"), fields: a[2].args().iter().map(p_arg).collect() },
        "scalar" => Def::Scalar { name: p_str(&a[0]) },
        "sub" => Def::Sub { name: p_str(&a[0]), fields: a[1].args().iter().map(p_fld).collect() },
        "upload" => Def::Upload,
        x => panic!("bad def {x}"),
    }
}
fn p_ts(s: &Sexp) -> TS {
    let a = s.args();
    let r = a[1].args();
    TS { query: p_str(&r[0]), mutation: p_opt(&r[1]), subscription: p_opt(&r[2]), types: a[2].args().iter().map(p_def).collect() }
}

// ------------------------------------------------------------------ building the real schema

const BUILTIN: [&str; 5] = ["Int", "Float", "String", "Boolean", "ID"];

/// what a resolver returns for a field of a given named type
#[derive(Clone)]
enum Plan {
    Null,
    Val(Value),
    Any(Option<String>),
}

fn plan_for(t: &TS, name: &str) -> Plan {
    match name {
        "Int" => return Plan::Val(Value::from(1)),
        "Float" => return Plan::Val(Value::from(1.5)),
        "String" => return Plan::Val(Value::from("s")),
        "Boolean" => return Plan::Val(Value::from(true)),
        "ID" => return Plan::Val(Value::from("1")),
        _ => {}
    }
    for d in &t.types {
        if d.name() == name {
            return match d {
                Def::Obj { .. } => Plan::Any(None),
                Def::Iface { name, .. } => {
                    let o = t.types.iter().find_map(|d| match d {
                        Def::Obj { name: on, implements, .. } if implements.contains(name) => Some(on.clone()),
                        _ => None,
                    });
                    match o {
                        Some(o) => Plan::Any(Some(o)),
                        None => Plan::Null,
                    }
                }
                Def::Union { members, .. } => match members.first() {
                    Some(m) => Plan::Any(Some(m.clone())),
                    None => Plan::Null,
                },
                Def::Enum { items, .. } => match items.first() {
                    Some(i) => Plan::Val(Value::Enum(async_graphql::Name::new(i))),
                    None => Plan::Null,
                },
                Def::Scalar { .. } => Plan::Val(Value::from(1)),
                _ => Plan::Null,
            };
        }
    }
    Plan::Null
}

fn produce<'a>(ty: &Ty, plan: &Plan) -> Option<FieldValue<'a>> {
    match ty {
        Ty::N(_) => match plan {
            Plan::Null => None,
            Plan::Val(v) => Some(FieldValue::value(v.clone())),
            Plan::Any(None) => Some(FieldValue::owned_any(0u8)),
            Plan::Any(Some(t)) => Some(FieldValue::owned_any(0u8).with_type(t.clone())),
        },
        Ty::NN(t) => produce(t, plan),
        Ty::L(t) => Some(FieldValue::list(produce(t, plan).into_iter().collect::<Vec<_>>())),
    }
}

fn mk_input_value(a: &Arg) -> InputValue {
    let iv = InputValue::new(a.name.clone(), a.ty.to_ref());
    if a.def { iv.default_value(Value::Null) } else { iv }
}

fn mk_field(t: &TS, f: &Fld) -> Field {
    let plan = plan_for(t, f.ty.name());
    let ty = f.ty.clone();
    let mut fld = Field::new(f.name.clone(), f.ty.to_ref(), move |_| FieldFuture::Value(produce(&ty, &plan)));
    for a in &f.args {
        fld = fld.argument(mk_input_value(a));
    }
    fld
}

fn build(t: &TS) -> Result<Schema, String> {
    let mut b = Schema::build(&t.query, t.mutation.as_deref(), t.subscription.as_deref());
    for d in &t.types {
        match d {
            Def::Obj { name, implements, fields } => {
                let mut o = Object::new(name.clone());
                for f in fields {
                    o = o.field(mk_field(t, f));
                }
                for i in implements {
                    o = o.implement(i.clone());
                }
                b = b.register(o);
            }
            Def::Iface { name, implements, fields } => {
                let mut o = Interface::new(name.clone());
                for f in fields {
                    let mut fld = InterfaceField::new(f.name.clone(), f.ty.to_ref());
                    for a in &f.args {
                        fld = fld.argument(mk_input_value(a));
                    }
                    o = o.field(fld);
                }
                for i in implements {
                    o = o.implement(i.clone());
                }
                b = b.register(o);
            }
            Def::Union { name, members } => {
                let mut u = Union::new(name.clone());
                for m in members {
                    u = u.possible_type(m.clone());
                }
                b = b.register(u);
            }
            Def::Enum { name, items } => {
                let mut e = Enum::new(name.clone());
                for i in items {
                    e = e.item(i.clone());
                }
                b = b.register(e);
            }
            Def::Input { name, oneof, fields } => {
                let mut o = InputObject::new(name.clone());
                for f in fields {
                    o = o.field(mk_input_value(f));
                }
                if *oneof {
                    o = o.oneof();
                }
                b = b.register(o);
            }
            Def::Scalar { name } => b = b.register(Scalar::new(name.clone())),
            Def::Sub { name, fields } => {
                let mut s = Subscription::new(name.clone());
                for f in fields {
                    let plan = plan_for(t, f.ty.name());
                    let ty = f.ty.clone();
                    let mut fld = SubscriptionField::new(f.name.clone(), f.ty.to_ref(), move |_| {
                        let item = produce(&ty, &plan);
                        SubscriptionFieldFuture::new(async move {
                            Ok(futures_util::stream::iter(item.into_iter().map(Ok::<_, async_graphql::Error>)))
                        })
                    });
                    for a in &f.args {
                        fld = fld.argument(mk_input_value(a));
                    }
                    s = s.field(fld);
                }
                b = b.register(s);
            }
            Def::Upload => b = b.enable_uploading(),
        }
    }
    b.finish().map_err(|e| e.0)
}

// ------------------------------------------------------------------ exercising an accepted schema

const INTROSPECTION: &str = r#"query IntrospectionQuery { __schema { queryType { name } mutationType { name } subscriptionType { name }
 types { ...FullType } directives { name description locations args { ...InputValue } } } }
fragment FullType on __Type { kind name description
 fields(includeDeprecated: true) { name description args { ...InputValue } type { ...TypeRef } isDeprecated deprecationReason }
 inputFields { ...InputValue } interfaces { ...TypeRef }
 enumValues(includeDeprecated: true) { name description isDeprecated deprecationReason }
 possibleTypes { ...TypeRef } }
fragment InputValue on __InputValue { name description type { ...TypeRef } defaultValue }
fragment TypeRef on __Type { kind name ofType { kind name ofType { kind name ofType { kind name ofType { kind name } } } } }"#;

fn find<'a>(t: &'a TS, name: &str) -> Option<&'a Def> {
    t.types.iter().find(|d| d.name() == name)
}

/// a literal of the given input type (depth-bounded; nullable positions become null deep down)
fn literal(t: &TS, ty: &Ty, depth: usize) -> String {
    match ty {
        Ty::NN(x) => literal_nn(t, x, depth),
        _ if depth > 2 => "null".into(),
        x => literal_nn(t, x, depth),
    }
}
fn literal_nn(t: &TS, ty: &Ty, depth: usize) -> String {
    match ty {
        Ty::NN(x) => literal_nn(t, x, depth),
        Ty::L(x) => format!("[{}]", literal(t, x, depth + 1)),
        Ty::N(n) => match n.as_str() {
            "Int" => "1".into(),
            "Float" => "1.5".into(),
            "String" => "\"s\"".into(),
            "Boolean" => "true".into(),
            "ID" => "\"1\"".into(),
            _ => match find(t, n) {
                Some(Def::Enum { items, .. }) => items.first().cloned().unwrap_or_else(|| "X".into()),
                Some(Def::Input { fields, oneof, .. }) => {
                    if depth > 4 {
                        return "{}".into();
                    }
                    let mut parts = vec![];
                    for (i, f) in fields.iter().enumerate() {
                        if *oneof && i > 0 {
                            break;
                        }
                        if f.ty.is_nn() || depth < 1 || *oneof {
                            parts.push(format!("{}: {}", f.name, literal_nn(t, &f.ty, depth + 1)));
                        }
                    }
                    format!("{{{}}}", parts.join(", "))
                }
                Some(Def::Upload) => "null".into(),
                _ => "1".into(),
            },
        },
    }
}

fn args_text(t: &TS, f: &Fld) -> String {
    if f.args.is_empty() {
        return String::new();
    }
    let parts: Vec<String> = f.args.iter().map(|a| format!("{}: {}", a.name, literal(t, &a.ty, 0))).collect();
    format!("({})", parts.join(", "))
}

/// selection text for a field (with sub-selections down to `depth` levels)
fn selection(t: &TS, f: &Fld, depth: usize) -> String {
    let head = format!("{}{}", f.name, args_text(t, f));
    let sub = match find(t, f.ty.name()) {
        Some(Def::Obj { fields, .. }) | Some(Def::Iface { fields, .. }) => {
            let mut s = vec!["__typename".to_string()];
            if depth > 0 {
                for g in fields {
                    s.push(selection(t, g, depth - 1));
                }
            }
            Some(s)
        }
        Some(Def::Union { members, .. }) => {
            let mut s = vec!["__typename".to_string()];
            if depth > 0 {
                for m in members {
                    if let Some(Def::Obj { fields, .. }) = find(t, m) {
                        let inner: Vec<String> =
                            std::iter::once("__typename".to_string()).chain(fields.iter().map(|g| selection(t, g, depth - 1))).collect();
                        s.push(format!("... on {} {{ {} }}", m, inner.join(" ")));
                    }
                }
            }
            Some(s)
        }
        _ => None,
    };
    match sub {
        Some(s) => format!("{} {{ {} }}", head, s.join(" ")),
        None => head,
    }
}

fn guarded_run(what: &str, panics: &mut Vec<Sexp>, dist: &mut Dist, f: impl FnOnce() -> bool) {
    match catch_unwind(AssertUnwindSafe(f)) {
        Ok(clean) => {
            if clean {
                dist.hit(&format!("post_{}_clean", what));
            } else {
                dist.hit(&format!("post_{}_errors", what));
            }
        }
        Err(_) => panics.push(node("panic", vec![atom(what)])),
    }
}

fn exercise(t: &TS, schema: &Schema, dist: &mut Dist) -> Vec<Sexp> {
    let mut panics = vec![];
    guarded_run("introspection", &mut panics, dist, || spin_on(schema.execute(INTROSPECTION)).errors.is_empty());
    guarded_run("sdl", &mut panics, dist, || !schema.sdl().is_empty());
    guarded_run("typename", &mut panics, dist, || spin_on(schema.execute("{ __typename }")).errors.is_empty());
    if let Some(Def::Obj { fields, .. }) = find(t, &t.query) {
        let all: Vec<String> = fields.iter().map(|f| selection(t, f, 2)).collect();
        let q = format!("{{ {} }}", all.join(" "));
        guarded_run("query", &mut panics, dist, || spin_on(schema.execute(q.as_str())).errors.is_empty());
        for f in fields.iter().take(3) {
            let q = format!("{{ {} }}", selection(t, f, 1));
            guarded_run("query1", &mut panics, dist, || spin_on(schema.execute(q.as_str())).errors.is_empty());
        }
    }
    if let Some(m) = &t.mutation {
        let q = match find(t, m) {
            Some(Def::Obj { fields, .. }) if !fields.is_empty() => format!("mutation {{ {} }}", selection(t, &fields[0], 1)),
            _ => "mutation { __typename }".to_string(),
        };
        guarded_run("mutation", &mut panics, dist, || spin_on(schema.execute(q.as_str())).errors.is_empty());
    }
    {
        // a subscription operation is sent whether or not a subscription root is configured
        let q = match t.subscription.as_ref().and_then(|s| find(t, s)) {
            Some(Def::Sub { fields, .. }) if !fields.is_empty() => format!("subscription {{ {} }}", selection(t, &fields[0], 1)),
            _ => "subscription { a }".to_string(),
        };
        // the same operation through the plain request path (what an HTTP endpoint does)
        guarded_run("subscription_execute", &mut panics, dist, || spin_on(schema.execute(q.as_str())).errors.is_empty());
        guarded_run("subscription", &mut panics, dist, || {
            let mut s = schema.execute_stream(q.as_str());
            let mut clean = true;
            let mut n = 0;
            while let Some(r) = spin_on(s.next()) {
                clean &= r.errors.is_empty();
                n += 1;
                if n > 4 {
                    break;
                }
            }
            clean
        });
    }
    panics
}

// ------------------------------------------------------------------ required input cycles: distribution

/// how the fields of an input object are scanned for required references; `Full` is the rule,
/// the others are order-dependent scans (used ONLY to count in the evidence how many generated
/// cases tell such a scan from the rule — the verdict is judged by the Lean spec, not by this)
#[derive(Clone, Copy, PartialEq)]
enum Scan {
    Full,
    /// stops at the first nullable or list-typed field
    StopAtOptionalOrList,
    /// stops at the first field that is not a required reference to an input object (`ID!` stops it too)
    StopAtNonRef,
    /// follows the first required reference to an input object only
    FirstRefOnly,
    /// follows the last required reference to an input object only
    LastRefOnly,
}

fn required_name(ty: &Ty) -> Option<&str> {
    match ty {
        Ty::NN(x) => match &**x {
            Ty::N(n) => Some(n),
            _ => None,
        },
        _ => None,
    }
}

fn input_fields<'a>(t: &'a TS, n: &str) -> Option<&'a Vec<Arg>> {
    // type names are distinct in generated cases; a later registration would overwrite an earlier one
    t.types.iter().rev().find_map(|d| match d {
        Def::Input { name, fields, .. } if name == n => Some(fields),
        _ => None,
    })
}

fn scan_refs<'a>(t: &'a TS, fields: &'a [Arg], scan: Scan) -> Vec<&'a str> {
    let is_ref = |f: &&Arg| required_name(&f.ty).is_some_and(|n| input_fields(t, n).is_some());
    let refs: Vec<&str> = match scan {
        Scan::Full | Scan::FirstRefOnly | Scan::LastRefOnly => fields.iter().filter(is_ref).filter_map(|f| required_name(&f.ty)).collect(),
        Scan::StopAtOptionalOrList => {
            fields.iter().map_while(|f| required_name(&f.ty)).filter(|n| input_fields(t, n).is_some()).collect()
        }
        Scan::StopAtNonRef => fields.iter().take_while(is_ref).filter_map(|f| required_name(&f.ty)).collect(),
    };
    match scan {
        Scan::FirstRefOnly => refs.into_iter().take(1).collect(),
        Scan::LastRefOnly => refs.into_iter().rev().take(1).collect(),
        _ => refs,
    }
}

/// names of the input objects that reach themselves through the scanned required references
fn self_requiring(t: &TS, scan: Scan) -> Vec<String> {
    let mut out = vec![];
    for d in &t.types {
        if let Def::Input { name, fields, .. } = d {
            let mut seen: Vec<&str> = vec![];
            let mut todo: Vec<&str> = scan_refs(t, fields, scan);
            while let Some(n) = todo.pop() {
                if seen.contains(&n) {
                    continue;
                }
                seen.push(n);
                if let Some(fs) = input_fields(t, n) {
                    todo.extend(scan_refs(t, fs, scan));
                }
            }
            if seen.contains(&name.as_str()) {
                out.push(name.clone());
            }
        }
    }
    out
}

fn cycle_dist(t: &TS, dist: &mut Dist) {
    let n_inputs = t.types.iter().filter(|d| matches!(d, Def::Input { .. })).count();
    if n_inputs == 0 {
        return;
    }
    dist.hit("cyc_cases_with_input_objects");
    let full = self_requiring(t, Scan::Full);
    if full.is_empty() {
        // is a cycle of references present at all (broken by a nullable or list position)?
        let any_ref = t.types.iter().any(|d| matches!(d, Def::Input { fields, .. } if fields.iter().any(|f| input_fields(t, f.ty.name()).is_some())));
        if any_ref {
            dist.hit("cyc_none_required_but_input_refs_present");
        }
        return;
    }
    dist.hit("cyc_required_cycle_present");
    dist.hit(&format!("cyc_required_members_{}", full.len().min(9)));
    for (scan, key) in [
        (Scan::StopAtOptionalOrList, "cyc_required_cycle_behind_optional_or_list_field"),
        (Scan::StopAtNonRef, "cyc_required_cycle_behind_any_non_reference_field"),
        (Scan::FirstRefOnly, "cyc_required_cycle_behind_another_required_reference"),
        (Scan::LastRefOnly, "cyc_required_cycle_before_another_required_reference"),
    ] {
        let seen = self_requiring(t, scan);
        if seen.is_empty() {
            // every required cycle is invisible to that scan: such a scan would accept the schema
            dist.hit(&format!("{}_ALL_hidden", key));
        } else if seen.first() != full.first() {
            // visible, but the first reported object (the message) would differ
            dist.hit(&format!("{}_first_reported_differs", key));
        }
    }
}

fn run(case: &Sexp, dist: &mut Dist) -> Sexp {
    let t = p_ts(case);
    cycle_dist(&t, dist);
    match build(&t) {
        Err(msg) => {
            dist.hit("verdict_rejected");
            node("err", vec![st(msg)])
        }
        Ok(schema) => {
            dist.hit("verdict_accepted");
            node("ok", exercise(&t, &schema, dist))
        }
    }
}

// ------------------------------------------------------------------ generator

struct Gen<'a> {
    rng: &'a mut Rng,
    enums: Vec<String>,
    scalars: Vec<String>,
    inputs: Vec<String>,
    ifaces: Vec<String>,
    objs: Vec<String>,
    unions: Vec<String>,
    upload: bool,
}

const FIELD_NAMES: [&str; 6] = ["id", "a", "b", "c", "d", "e"];
const ARG_NAMES: [&str; 3] = ["x", "y", "z"];

impl<'a> Gen<'a> {
    fn wrap(&mut self, base: Ty) -> Ty {
        match self.rng.below(8) {
            0 | 1 | 2 => base,
            3 | 4 => base.nn(),
            5 => base.l(),
            6 => base.nn().l().nn(),
            _ => base.l().nn(),
        }
    }
    fn input_names(&self) -> Vec<String> {
        let mut v: Vec<String> = BUILTIN.iter().map(|s| s.to_string()).collect();
        v.extend(self.enums.iter().cloned());
        v.extend(self.scalars.iter().cloned());
        v.extend(self.inputs.iter().cloned());
        if self.upload {
            v.push("Upload".into());
        }
        v
    }
    fn output_names(&self) -> Vec<String> {
        let mut v: Vec<String> = BUILTIN.iter().map(|s| s.to_string()).collect();
        v.extend(self.enums.iter().cloned());
        v.extend(self.scalars.iter().cloned());
        for _ in 0..2 {
            v.extend(self.objs.iter().cloned());
            v.extend(self.ifaces.iter().cloned());
            v.extend(self.unions.iter().cloned());
        }
        v
    }
    fn input_ty(&mut self) -> Ty {
        let names = self.input_names();
        let n = self.rng.pick(&names).clone();
        self.wrap(Ty::N(n))
    }
    fn output_ty(&mut self) -> Ty {
        let names = self.output_names();
        let n = self.rng.pick(&names).clone();
        self.wrap(Ty::N(n))
    }
    fn args(&mut self, max: usize) -> Vec<Arg> {
        let k = if self.rng.chance(1, 2) { 0 } else { 1 + self.rng.below(max) };
        (0..k).map(|i| Arg { name: ARG_NAMES[i].to_string(), ty: self.input_ty(), def: self.rng.chance(1, 4) }).collect()
    }
    fn fields(&mut self, lo: usize, hi: usize, skip: &[String]) -> Vec<Fld> {
        let k = lo + self.rng.below(hi - lo + 1);
        let mut out = vec![];
        for n in FIELD_NAMES.iter() {
            if out.len() >= k {
                break;
            }
            if skip.iter().any(|s| s == n) {
                continue;
            }
            out.push(Fld { name: n.to_string(), ty: self.output_ty(), args: self.args(2) });
        }
        out
    }
}

/// `ty` narrowed covariantly (still a valid implementation of a field of type `ty`)
fn narrow(rng: &mut Rng, ty: &Ty, subs: &dyn Fn(&str) -> Vec<String>) -> Ty {
    match ty {
        Ty::NN(x) => narrow(rng, x, subs).nn(),
        Ty::L(x) => {
            let inner = narrow(rng, x, subs).l();
            if rng.chance(1, 3) { inner.nn() } else { inner }
        }
        Ty::N(n) => {
            let s = subs(n);
            let base = if !s.is_empty() && rng.chance(1, 2) { Ty::N(rng.pick(&s).clone()) } else { Ty::N(n.clone()) };
            if rng.chance(1, 3) { base.nn() } else { base }
        }
    }
}

fn gen_valid(rng: &mut Rng, dist: &mut Dist) -> TS {
    let mut g = Gen { rng, enums: vec![], scalars: vec![], inputs: vec![], ifaces: vec![], objs: vec![], unions: vec![], upload: false };
    let mut defs: Vec<Def> = vec![];
    if g.rng.chance(1, 2) {
        g.enums.push("E".into());
        let k = 1 + g.rng.below(2);
        defs.push(Def::Enum { name: "E".into(), items: ["RED", "GREEN"][..k].iter().map(|s| s.to_string()).collect() });
    }
    if g.rng.chance(1, 4) {
        g.scalars.push("S".into());
        defs.push(Def::Scalar { name: "S".into() });
    }
    if g.rng.chance(1, 10) {
        g.upload = true;
        defs.push(Def::Upload);
    }
    // input objects: In may require In2, In2 refers back only through nullable or list positions
    let n_inputs = g.rng.below(3);
    for i in 0..n_inputs {
        let name = ["In", "In2"][i].to_string();
        let k = 1 + g.rng.below(3);
        let mut fields = vec![];
        for j in 0..k {
            let mut names = g.input_names();
            names.push(name.clone());
            if n_inputs == 2 {
                names.push("In".into());
                names.push("In2".into());
            }
            let n = g.rng.pick(&names).clone();
            let is_input = n == "In" || n == "In2";
            let mut ty = g.wrap(Ty::N(n.clone()));
            if is_input && matches!(&ty, Ty::NN(x) if matches!(**x, Ty::N(_))) {
                // a required reference: allowed only from In to In2
                if !(name == "In" && n == "In2" && n_inputs == 2) {
                    ty = Ty::N(n);
                }
            }
            fields.push(Arg { name: FIELD_NAMES[j].to_string(), ty, def: g.rng.chance(1, 5) });
        }
        let oneof = g.rng.chance(1, 8);
        if oneof {
            for f in fields.iter_mut() {
                f.def = false;
                if f.ty.is_nn() {
                    if let Ty::NN(x) = f.ty.clone() {
                        f.ty = *x;
                    }
                }
            }
        }
        defs.push(Def::Input { name: name.clone(), oneof, fields });
        g.inputs.push(name);
    }
    // names of composite output types are fixed first so that fields may refer forward
    let n_ifaces = g.rng.below(3);
    let n_objs = g.rng.below(3);
    for i in 0..n_ifaces {
        g.ifaces.push(["I", "J"][i].to_string());
    }
    for i in 0..n_objs {
        g.objs.push(["A", "B"][i].to_string());
    }
    let has_union = n_objs > 0 && g.rng.chance(1, 2);
    if has_union {
        g.unions.push("U".into());
    }
    let has_mutation = g.rng.chance(1, 4);
    let has_sub = g.rng.chance(1, 4);
    // interfaces
    let j_implements_i = n_ifaces == 2 && g.rng.chance(1, 2);
    let mut iface_fields: Vec<(String, Vec<Fld>)> = vec![];
    let i_fields = if n_ifaces > 0 { g.fields(1, 2, &[]) } else { vec![] };
    // who implements what (objects; Query may implement too)
    let mut impls: Vec<(String, Vec<String>)> = vec![];
    let mut holders: Vec<String> = g.objs.clone();
    holders.push("Query".into());
    for h in &holders {
        let mut v = vec![];
        for i in g.ifaces.clone() {
            if g.rng.chance(1, 2) {
                v.push(i);
            }
        }
        if j_implements_i && v.contains(&"J".to_string()) && !v.contains(&"I".to_string()) {
            v.insert(0, "I".into());
        }
        impls.push((h.clone(), v));
    }
    let union_members: Vec<String> = if has_union {
        let mut m: Vec<String> = g.objs.iter().filter(|_| g.rng.chance(2, 3)).cloned().collect();
        if m.is_empty() {
            m.push(g.objs[0].clone());
        }
        m
    } else {
        vec![]
    };
    let impls_c = impls.clone();
    let um = union_members.clone();
    let jii = j_implements_i;
    let subs = move |n: &str| -> Vec<String> {
        let mut v: Vec<String> = impls_c.iter().filter(|(h, is)| h != "Query" && is.iter().any(|i| i == n)).map(|(h, _)| h.clone()).collect();
        if n == "I" && jii {
            v.push("J".into());
        }
        if n == "U" {
            v.extend(um.iter().cloned());
        }
        v
    };
    fn implement(g: &mut Gen, base: &[Fld], subs: &dyn Fn(&str) -> Vec<String>) -> Vec<Fld> {
        base.iter()
            .map(|f| {
                let mut args = f.args.clone();
                if g.rng.chance(1, 4) && args.len() < 3 {
                    // an additional optional argument
                    let ty = g.input_ty();
                    let (ty, def) = if ty.is_nn() { (ty, true) } else { (ty, g.rng.chance(1, 3)) };
                    args.push(Arg { name: ARG_NAMES[args.len()].to_string(), ty, def });
                }
                Fld { name: f.name.clone(), ty: narrow(g.rng, &f.ty, subs), args }
            })
            .collect()
    }
    if n_ifaces > 0 {
        iface_fields.push(("I".into(), i_fields.clone()));
        defs.push(Def::Iface { name: "I".into(), implements: vec![], fields: i_fields.clone() });
    }
    if n_ifaces == 2 {
        let mut fields = vec![];
        if j_implements_i {
            fields = implement(&mut g, &i_fields, &subs);
        }
        let skip: Vec<String> = fields.iter().map(|f| f.name.clone()).collect();
        let own = g.fields(if fields.is_empty() { 1 } else { 0 }, 2, &skip);
        fields.extend(own);
        iface_fields.push(("J".into(), fields.clone()));
        defs.push(Def::Iface { name: "J".into(), implements: if j_implements_i { vec!["I".into()] } else { vec![] }, fields });
    }
    for (h, is) in &impls {
        let mut fields: Vec<Fld> = vec![];
        for i in is {
            let base = iface_fields.iter().find(|(n, _)| n == i).unwrap().1.clone();
            let base: Vec<Fld> = base.into_iter().filter(|f| !fields.iter().any(|x| x.name == f.name)).collect();
            // a field shared by I and J (J implements I) must satisfy both: implement J's version
            fields.extend(implement(&mut g, &base, &subs));
        }
        if j_implements_i && is.contains(&"J".to_string()) {
            // re-derive from J's (narrower) versions so both interfaces are satisfied
            let jf = iface_fields.iter().find(|(n, _)| n == "J").unwrap().1.clone();
            fields = implement(&mut g, &jf, &subs);
        }
        let skip: Vec<String> = fields.iter().map(|f| f.name.clone()).collect();
        let own = g.fields(if fields.is_empty() { 1 } else { 0 }, 2, &skip);
        fields.extend(own);
        defs.push(Def::Obj { name: h.clone(), implements: is.clone(), fields });
    }
    if has_union {
        defs.push(Def::Union { name: "U".into(), members: union_members });
    }
    if has_mutation {
        let fields = g.fields(1, 2, &[]);
        defs.push(Def::Obj { name: "Mutation".into(), implements: vec![], fields });
    }
    if has_sub {
        let fields = g.fields(1, 2, &[]);
        defs.push(Def::Sub { name: "Sub".into(), fields });
    }
    g.rng.shuffle(&mut defs);
    dist.add("gen_types", defs.len() as u64);
    TS {
        query: "Query".into(),
        mutation: if has_mutation { Some("Mutation".into()) } else { None },
        subscription: if has_sub { Some("Sub".into()) } else { None },
        types: defs,
    }
}

fn pick_idx(rng: &mut Rng, t: &TS, pred: &dyn Fn(&Def) -> bool) -> Option<usize> {
    let v: Vec<usize> = t.types.iter().enumerate().filter(|(_, d)| pred(d)).map(|(i, _)| i).collect();
    if v.is_empty() { None } else { Some(*rng.pick(&v)) }
}

fn first_name(t: &TS, pred: &dyn Fn(&Def) -> bool) -> Option<String> {
    t.types.iter().find(|d| pred(d)).map(|d| d.name().to_string())
}

fn strip_nn(t: &Ty) -> Ty {
    match t {
        Ty::NN(x) => (**x).clone(),
        x => x.clone(),
    }
}

/// applies one single-rule violation (or an implementation-compatibility variation); returns its label,
/// or None when the type system has no place for it
fn mutate(rng: &mut Rng, t: &mut TS, which: usize) -> Option<&'static str> {
    let is_obj = |d: &Def| matches!(d, Def::Obj { .. });
    let is_iface = |d: &Def| matches!(d, Def::Iface { .. });
    let has_fields = |d: &Def| matches!(d, Def::Obj { fields, .. } | Def::Iface { fields, .. } | Def::Sub { fields, .. } if !fields.is_empty());
    let implementer = |d: &Def| matches!(d, Def::Obj { implements, .. } | Def::Iface { implements, .. } if !implements.is_empty());
    fn fields_mut(d: &mut Def) -> &mut Vec<Fld> {
        match d {
            Def::Obj { fields, .. } | Def::Iface { fields, .. } | Def::Sub { fields, .. } => fields,
            _ => panic!("no fields"),
        }
    }
    // (implementer index, interface name) pairs
    let impl_field = |rng: &mut Rng, t: &TS| -> Option<(usize, String, Fld)> {
        let i = pick_idx(rng, t, &implementer)?;
        let is = match &t.types[i] {
            Def::Obj { implements, .. } | Def::Iface { implements, .. } => implements.clone(),
            _ => return None,
        };
        let iname = rng.pick(&is).clone();
        let ifields = match find(t, &iname)? {
            Def::Iface { fields, .. } => fields.clone(),
            _ => return None,
        };
        if ifields.is_empty() {
            return None;
        }
        let f = rng.pick(&ifields).clone();
        Some((i, iname, f))
    };
    match which {
        0 => {
            t.query = "Nope".into();
            Some("root-query-missing")
        }
        1 => {
            t.mutation = Some("Nope".into());
            Some("root-mutation-missing")
        }
        2 => {
            t.subscription = Some("Nope".into());
            Some("root-subscription-missing")
        }
        3 => {
            let n = first_name(t, &|d| !matches!(d, Def::Obj { .. } | Def::Upload))?;
            t.query = n;
            Some("root-query-not-object")
        }
        4 => {
            let n = first_name(t, &|d| !matches!(d, Def::Obj { .. } | Def::Upload))?;
            t.mutation = Some(n);
            Some("root-mutation-not-object")
        }
        5 => {
            let n = first_name(t, &|d| !matches!(d, Def::Sub { .. } | Def::Upload))?;
            t.subscription = Some(n);
            Some("root-subscription-not-subscription")
        }
        6 => {
            let i = pick_idx(rng, t, &has_fields)?;
            let fs = fields_mut(&mut t.types[i]);
            let k = rng.below(fs.len());
            fs[k].ty = Ty::n("Missing").nn();
            Some("field-type-unknown")
        }
        7 => {
            let i = pick_idx(rng, t, &has_fields)?;
            let fs = fields_mut(&mut t.types[i]);
            let k = rng.below(fs.len());
            fs[k].args.push(Arg { name: "w".into(), ty: Ty::n("Missing"), def: false });
            Some("arg-type-unknown")
        }
        8 => {
            let i = pick_idx(rng, t, &|d| matches!(d, Def::Input { .. }))?;
            if let Def::Input { fields, .. } = &mut t.types[i] {
                fields.push(Arg { name: "w".into(), ty: Ty::n("Missing").l(), def: false });
            }
            Some("input-field-type-unknown")
        }
        9 => {
            let bad = first_name(t, &|d| matches!(d, Def::Input { .. } | Def::Sub { .. } | Def::Upload))?;
            let i = pick_idx(rng, t, &has_fields)?;
            let fs = fields_mut(&mut t.types[i]);
            let k = rng.below(fs.len());
            fs[k].ty = Ty::N(bad).l();
            Some("field-type-not-output")
        }
        10 => {
            let bad = first_name(t, &|d| matches!(d, Def::Obj { .. } | Def::Iface { .. } | Def::Union { .. } | Def::Sub { .. }))?;
            let i = pick_idx(rng, t, &has_fields)?;
            let fs = fields_mut(&mut t.types[i]);
            let k = rng.below(fs.len());
            fs[k].args.push(Arg { name: "w".into(), ty: Ty::N(bad), def: false });
            Some("arg-type-not-input")
        }
        11 => {
            let bad = first_name(t, &|d| matches!(d, Def::Obj { .. } | Def::Iface { .. } | Def::Union { .. } | Def::Sub { .. }))?;
            let i = pick_idx(rng, t, &|d| matches!(d, Def::Input { .. }))?;
            if let Def::Input { fields, oneof, .. } = &mut t.types[i] {
                fields.push(Arg { name: "w".into(), ty: if *oneof { Ty::N(bad) } else { Ty::N(bad).nn() }, def: false });
            }
            Some("input-field-type-not-input")
        }
        12 => {
            let (i, _, f) = impl_field(rng, t)?;
            fields_mut(&mut t.types[i]).retain(|x| x.name != f.name);
            Some("impl-missing-field")
        }
        13 => {
            // drop an argument the interface field declares
            let (i, _, f) = impl_field(rng, t)?;
            if f.args.is_empty() {
                return None;
            }
            let a = rng.pick(&f.args).clone();
            for x in fields_mut(&mut t.types[i]).iter_mut() {
                if x.name == f.name {
                    x.args.retain(|y| y.name != a.name);
                }
            }
            Some(if a.ty.is_nn() { "impl-missing-required-arg" } else { "impl-missing-nullable-arg" })
        }
        14 => {
            // change an argument's type (both directions of nullability, or another name)
            let (i, _, f) = impl_field(rng, t)?;
            if f.args.is_empty() {
                return None;
            }
            let a = rng.pick(&f.args).clone();
            let (nt, label) = match rng.below(3) {
                0 if !a.ty.is_nn() => (a.ty.clone().nn(), "impl-arg-type-narrower"),
                1 if a.ty.is_nn() => (strip_nn(&a.ty), "impl-arg-type-wider"),
                _ => (if a.ty.name() == "Int" { Ty::n("String") } else { Ty::n("Int") }, "impl-arg-type-different"),
            };
            for x in fields_mut(&mut t.types[i]).iter_mut() {
                if x.name == f.name {
                    for y in x.args.iter_mut() {
                        if y.name == a.name {
                            y.ty = nt.clone();
                        }
                    }
                }
            }
            Some(label)
        }
        15 => {
            let (i, _, f) = impl_field(rng, t)?;
            let def = rng.chance(1, 3);
            for x in fields_mut(&mut t.types[i]).iter_mut() {
                if x.name == f.name {
                    x.args.push(Arg { name: "w".into(), ty: Ty::n("Int").nn(), def });
                }
            }
            Some(if def { "impl-extra-arg-nonnull-with-default" } else { "impl-extra-required-arg" })
        }
        16 => {
            // the implementation's field type set relative to the interface's
            let (i, _, f) = impl_field(rng, t)?;
            let (nt, label) = match rng.below(5) {
                0 => (f.ty.clone(), "impl-field-type-equal"),
                1 if !f.ty.is_nn() => (f.ty.clone().nn(), "impl-field-type-nonnull-of-nullable"),
                2 if f.ty.is_nn() => (strip_nn(&f.ty), "impl-field-type-nullable-of-nonnull"),
                3 => (f.ty.clone().l(), "impl-field-type-list-mismatch"),
                _ => (if f.ty.name() == "Int" { Ty::n("String") } else { Ty::n("Int") }, "impl-field-type-different"),
            };
            for x in fields_mut(&mut t.types[i]).iter_mut() {
                if x.name == f.name {
                    x.ty = nt.clone();
                }
            }
            Some(label)
        }
        17 => {
            let bad = match rng.below(3) {
                0 => first_name(t, &|d| !matches!(d, Def::Obj { .. } | Def::Upload))?,
                1 => "Int".to_string(),
                _ => "Missing".to_string(),
            };
            let label = if bad == "Missing" { "union-member-unknown" } else { "union-member-not-object" };
            let i = pick_idx(rng, t, &|d| matches!(d, Def::Union { .. }));
            match i {
                Some(i) => {
                    if let Def::Union { members, .. } = &mut t.types[i] {
                        if !members.contains(&bad) {
                            members.push(bad);
                        }
                    }
                }
                None => t.types.push(Def::Union { name: "U2".into(), members: vec!["Query".into(), bad] }),
            }
            Some(label)
        }
        18 => {
            // required input cycles: self, two, three, and a cycle not through the first object
            let k = rng.below(5);
            let nn = |s: &str| Ty::n(s).nn();
            let mk = |n: &str, to: Ty| Def::Input { name: n.into(), oneof: false, fields: vec![Arg { name: "next".into(), ty: to, def: false }] };
            let (defs, label) = match k {
                0 => (vec![mk("C1", nn("C1"))], "input-cycle-self"),
                1 => (vec![mk("C1", nn("C2")), mk("C2", nn("C1"))], "input-cycle-two"),
                2 => (vec![mk("C1", nn("C2")), mk("C2", nn("C3")), mk("C3", nn("C1"))], "input-cycle-three"),
                3 => (vec![mk("C1", nn("C2")), mk("C2", nn("C3")), mk("C3", nn("C2"))], "input-cycle-local"),
                _ => (vec![mk("C1", nn("C2")), mk("C2", Ty::n("C3").nn().l().nn()), mk("C3", nn("C1"))], "input-cycle-broken-by-list"),
            };
            for d in defs {
                let at = rng.below(t.types.len() + 1);
                t.types.insert(at, d);
            }
            Some(label)
        }
        19 => {
            let i = pick_idx(rng, t, &|d| !matches!(d, Def::Scalar { .. } | Def::Upload))?;
            let label = match &mut t.types[i] {
                Def::Obj { fields, .. } => {
                    fields.clear();
                    "empty-object"
                }
                Def::Iface { fields, .. } => {
                    fields.clear();
                    "empty-interface"
                }
                Def::Union { members, .. } => {
                    members.clear();
                    "empty-union"
                }
                Def::Enum { items, .. } => {
                    items.clear();
                    "empty-enum"
                }
                Def::Input { fields, .. } => {
                    fields.clear();
                    "empty-input"
                }
                Def::Sub { fields, .. } => {
                    fields.clear();
                    "empty-subscription"
                }
                _ => return None,
            };
            Some(label)
        }
        20 => {
            let i = pick_idx(rng, t, &|d| has_fields(d) || matches!(d, Def::Input { fields, .. } if !fields.is_empty()))?;
            match &mut t.types[i] {
                Def::Input { fields, .. } => {
                    let k = rng.below(fields.len());
                    fields[k].name = format!("__{}", fields[k].name);
                    Some("input-field-name-reserved")
                }
                d => {
                    let fs = fields_mut(d);
                    let k = rng.below(fs.len());
                    if !fs[k].args.is_empty() && rng.chance(1, 2) {
                        fs[k].args[0].name = "__x".into();
                        Some("arg-name-reserved")
                    } else {
                        fs[k].name = format!("__{}", fs[k].name);
                        Some("field-name-reserved")
                    }
                }
            }
        }
        21 => {
            let i = pick_idx(rng, t, &is_iface)?;
            if let Def::Iface { name, implements, .. } = &mut t.types[i] {
                if !implements.contains(name) {
                    implements.push(name.clone());
                }
            }
            Some("interface-implements-itself")
        }
        22 => {
            let i = pick_idx(rng, t, &|d| is_obj(d) || is_iface(d))?;
            let bad = match rng.below(2) {
                0 => "Missing".to_string(),
                _ => first_name(t, &|d| !matches!(d, Def::Iface { .. } | Def::Upload))?,
            };
            let label = match (&t.types[i], bad.as_str()) {
                (Def::Obj { .. }, "Missing") => "object-implements-unknown",
                (Def::Iface { .. }, "Missing") => "interface-implements-unknown",
                (Def::Obj { .. }, _) => "object-implements-non-interface",
                _ => "interface-implements-non-interface",
            };
            if t.types[i].name() == bad {
                return None;
            }
            if let Def::Obj { implements, .. } | Def::Iface { implements, .. } = &mut t.types[i] {
                if !implements.contains(&bad) {
                    implements.push(bad);
                }
            }
            Some(label)
        }
        23 => {
            let i = pick_idx(rng, t, &|d| matches!(d, Def::Input { fields, .. } if !fields.is_empty()))?;
            if let Def::Input { oneof, fields, .. } = &mut t.types[i] {
                *oneof = true;
                let k = rng.below(fields.len());
                if rng.chance(1, 2) {
                    fields[k].ty = Ty::n("Int").nn();
                    Some("oneof-field-nonnull")
                } else {
                    fields[k].ty = Ty::n("Int");
                    fields[k].def = true;
                    Some("oneof-field-default")
                }
            } else {
                None
            }
        }
        24 => {
            // an object implements J but not the interface J implements
            let j_impl_i = matches!(find(t, "J"), Some(Def::Iface { implements, .. }) if implements.contains(&"I".to_string()));
            if !j_impl_i {
                return None;
            }
            let i = pick_idx(rng, t, &|d| matches!(d, Def::Obj { implements, .. } if implements.contains(&"J".to_string())))?;
            if let Def::Obj { implements, .. } = &mut t.types[i] {
                implements.retain(|x| x != "I");
            }
            Some("transitive-interface-not-declared")
        }
        25 => {
            let n = *rng.pick(&BUILTIN);
            let d = match rng.below(3) {
                0 => Def::Scalar { name: n.into() },
                1 => Def::Enum { name: n.into(), items: vec!["X".into()] },
                _ => Def::Obj { name: n.into(), implements: vec![], fields: vec![Fld { name: "a".into(), ty: Ty::n("Int"), args: vec![] }] },
            };
            let at = rng.below(t.types.len() + 1);
            t.types.insert(at, d);
            Some("type-redefines-builtin")
        }
        26 => {
            t.mutation = Some(t.query.clone());
            Some("roots-same-type")
        }
        27 => {
            // an object-typed covariant return through interface/union membership, forced
            let oi = pick_idx(rng, t, &|d| matches!(d, Def::Obj { name, .. } if name != "Query" && name != "Mutation"))?;
            let oname = t.types[oi].name().to_string();
            if find(t, "K").is_some() || find(t, "KU").is_some() {
                return None;
            }
            let via_union = rng.chance(1, 2);
            let abs = if via_union { "KU" } else { "K" };
            if via_union {
                t.types.push(Def::Union { name: "KU".into(), members: vec![oname.clone()] });
            } else {
                t.types.push(Def::Iface { name: "K".into(), implements: vec![], fields: vec![Fld { name: "k".into(), ty: Ty::n("Int"), args: vec![] }] });
                if let Def::Obj { implements, fields, .. } = &mut t.types[oi] {
                    implements.push("K".into());
                    if !fields.iter().any(|f| f.name == "k") {
                        fields.push(Fld { name: "k".into(), ty: Ty::n("Int"), args: vec![] });
                    }
                }
            }
            t.types.push(Def::Iface { name: "H".into(), implements: vec![], fields: vec![Fld { name: "h".into(), ty: Ty::n(abs), args: vec![] }] });
            let wrong = rng.chance(1, 4);
            let ret = if wrong { "Query".to_string() } else { oname };
            t.types.push(Def::Obj { name: "HImpl".into(), implements: vec!["H".into()], fields: vec![Fld { name: "h".into(), ty: Ty::N(ret), args: vec![] }] });
            Some(if wrong { "impl-field-type-not-a-member" } else if via_union { "impl-field-type-union-member" } else { "impl-field-type-interface-implementer" })
        }
        28 => {
            // a family of input-object rings with other fields around the ring edges
            if has_family(t) {
                return None;
            }
            let mode = match rng.below(5) {
                0 => CycMode::Broken,
                1 | 2 | 3 => CycMode::Required,
                _ => CycMode::RequiredBehind,
            };
            cycle_family(rng, t, mode);
            Some(cycle_label(t))
        }
        _ => None,
    }
}

// ------------------------------------------------------------------ input-object cycle families

/// what `cycle_family` is asked for (the label of the case is computed from the result, not from this)
#[derive(Clone, Copy, PartialEq)]
enum CycMode {
    /// every ring has at least one nullable / list edge, no chords: stays valid
    Broken,
    /// at least one ring consists of required edges only
    Required,
    /// as `Required`, and a nullable or list field is put in front of a required edge of that ring
    RequiredBehind,
}

const RINGS: [&str; 3] = ["Ca", "Cb", "Cc"];

/// Adds 1-3 rings of 1-5 input objects (`Ca1 -> Ca2 -> … -> Ca1`), every member with 0-3 other
/// fields in random positions before and after the ring edge; optionally a non-cyclic prefix
/// (`Pre1 -> Pre2 -> ring member`), leaf input objects (`Lf1`, `Lf2`) and a query argument that
/// uses one of the new types.
fn cycle_family(rng: &mut Rng, t: &mut TS, mode: CycMode) {
    let n_rings = match rng.below(6) {
        0 | 1 | 2 => 1,
        3 | 4 => 2,
        _ => 3,
    };
    let lens: Vec<usize> = (0..n_rings).map(|_| 1 + rng.below(5)).collect();
    let member = |r: usize, m: usize| format!("{}{}", RINGS[r], m + 1);
    let all_members: Vec<String> = (0..n_rings).flat_map(|r| (0..lens[r]).map(move |m| (r, m))).map(|(r, m)| member(r, m)).collect();
    let with_leaf2 = rng.chance(1, 2);
    let required_ring = if mode == CycMode::Broken { usize::MAX } else { rng.below(n_rings) };
    let mut new_defs: Vec<Def> = vec![];

    fn breaking(rng: &mut Rng, to: &str) -> Ty {
        match rng.below(6) {
            0 | 1 => Ty::n(to),
            2 => Ty::n(to).nn().l().nn(),
            3 => Ty::n(to).l(),
            4 => Ty::n(to).nn().l(),
            _ => Ty::n(to).l().nn(),
        }
    }
    // one "other" field; chords (additional required references into the rings) only when allowed
    fn other(rng: &mut Rng, members: &[String], chords: bool) -> Ty {
        match rng.below(if chords { 13 } else { 12 }) {
            0 | 1 => Ty::n(*rng.pick(&BUILTIN)),
            2 | 3 => {
                let m = rng.pick(members).clone();
                match rng.below(3) {
                    0 => Ty::n(&m).nn().l().nn(),
                    1 => Ty::n(&m).l(),
                    _ => Ty::n(&m).nn().l(),
                }
            }
            4 => Ty::n("Int").nn().l().nn(),
            5 => Ty::n("String").l().nn(),
            6 | 7 => Ty::n(*rng.pick(&BUILTIN)).nn(),
            8 => Ty::n("Lf1").nn(),
            9 => match rng.below(3) {
                0 => Ty::n("Lf1"),
                1 => Ty::n("Lf1").nn().l(),
                _ => Ty::n("Lf1").nn().l().nn(),
            },
            10 | 11 => Ty::n(rng.pick(members).as_str()),
            _ => Ty::n(rng.pick(members).as_str()).nn(),
        }
    }
    fn assemble(rng: &mut Rng, edge: Option<Ty>, others: Vec<Ty>) -> Vec<Arg> {
        let at = rng.below(others.len() + 1);
        let mut fields = vec![];
        let mut k = 0;
        for (i, ty) in others.into_iter().enumerate() {
            if i == at {
                if let Some(e) = &edge {
                    fields.push(Arg { name: "next".into(), ty: e.clone(), def: rng.chance(1, 10) });
                }
            }
            k += 1;
            fields.push(Arg { name: format!("o{}", k), ty, def: rng.chance(1, 8) });
        }
        if at >= fields.len() || !fields.iter().any(|f| f.name == "next") {
            if let Some(e) = edge {
                fields.push(Arg { name: "next".into(), ty: e, def: rng.chance(1, 10) });
            }
        }
        fields
    }

    for r in 0..n_rings {
        let k = lens[r];
        let required = r == required_ring || (mode != CycMode::Broken && rng.chance(1, 4));
        // which edges break the ring
        let mut breaks = vec![false; k];
        if !required {
            breaks[rng.below(k)] = true;
            for b in breaks.iter_mut() {
                if rng.chance(1, 5) {
                    *b = true;
                }
            }
        }
        let forced_behind = if r == required_ring && mode == CycMode::RequiredBehind { rng.below(k) } else { usize::MAX };
        for m in 0..k {
            let to = member(r, (m + 1) % k);
            let edge = if breaks[m] { breaking(rng, &to) } else { Ty::n(&to).nn() };
            let n_others = rng.below(4);
            let chords = mode != CycMode::Broken && rng.chance(1, 6);
            let others: Vec<Ty> = (0..n_others).map(|_| other(rng, &all_members, chords)).collect();
            let mut fields = assemble(rng, Some(edge), others);
            if m == forced_behind {
                let front = match rng.below(4) {
                    0 => Ty::n("String"),
                    1 => Ty::n("String").nn().l().nn(),
                    2 => Ty::n(&member(r, m)).l(),
                    _ => Ty::n("Lf1"),
                };
                let at = fields.iter().position(|f| f.name == "next").unwrap_or(0);
                let at = rng.below(at + 1);
                fields.insert(at, Arg { name: "front".into(), ty: front, def: false });
            }
            let oneof = fields.iter().all(|f| !f.ty.is_nn() && !f.def) && rng.chance(1, 4);
            new_defs.push(Def::Input { name: member(r, m), oneof, fields });
        }
    }
    // leaves: input objects outside every ring
    {
        let mut fields = vec![Arg { name: "lv".into(), ty: Ty::n("Int"), def: false }];
        if with_leaf2 {
            let ty = if rng.chance(1, 2) { Ty::n("Lf2").nn() } else { Ty::n("Lf2").nn().l() };
            let at = rng.below(2);
            fields.insert(at, Arg { name: "lw".into(), ty, def: false });
            new_defs.push(Def::Input { name: "Lf2".into(), oneof: false, fields: vec![Arg { name: "lv".into(), ty: Ty::n("String").nn(), def: false }] });
        }
        new_defs.push(Def::Input { name: "Lf1".into(), oneof: false, fields });
    }
    // a non-cyclic prefix that leads into a ring
    let mut entry: Vec<String> = all_members.clone();
    if rng.chance(2, 5) {
        let plen = 1 + rng.below(2);
        for i in 0..plen {
            let to = if i + 1 < plen { format!("Pre{}", i + 2) } else { rng.pick(&all_members).clone() };
            let edge = if rng.chance(5, 6) { Ty::n(&to).nn() } else { breaking(rng, &to) };
            let n_others = rng.below(4);
            let others: Vec<Ty> = (0..n_others).map(|_| other(rng, &all_members, false)).collect();
            let fields = assemble(rng, Some(edge), others);
            new_defs.push(Def::Input { name: format!("Pre{}", i + 1), oneof: false, fields });
        }
        entry = vec!["Pre1".into()];
    }
    // a query field that takes one of the new types (exercised after an accepted build)
    if rng.chance(1, 2) {
        let n = rng.pick(&entry).clone();
        let ty = match rng.below(3) {
            0 => Ty::n(&n),
            1 => Ty::n(&n).nn(),
            _ => Ty::n(&n).nn().l(),
        };
        let q = t.query.clone();
        for d in t.types.iter_mut() {
            if let Def::Obj { name, fields, .. } = d {
                if *name == q && !fields.iter().any(|f| f.name == "cyc") {
                    fields.push(Fld { name: "cyc".into(), ty: Ty::n("Int"), args: vec![Arg { name: "x".into(), ty: ty.clone(), def: false }] });
                }
            }
        }
    }
    for d in new_defs {
        let at = rng.below(t.types.len() + 1);
        t.types.insert(at, d);
    }
}

fn has_family(t: &TS) -> bool {
    t.types.iter().any(|d| d.name() == "Lf1")
}

/// label of a case that carries a cycle family, from what was actually built
fn cycle_label(t: &TS) -> &'static str {
    if self_requiring(t, Scan::Full).is_empty() {
        "input-cycfam-broken"
    } else if self_requiring(t, Scan::StopAtOptionalOrList).is_empty() {
        "input-cycfam-required-behind-optional-or-list"
    } else if self_requiring(t, Scan::FirstRefOnly).is_empty() {
        "input-cycfam-required-behind-required-ref"
    } else {
        "input-cycfam-required"
    }
}

const N_MUT: usize = 29;

fn gen_case(rng: &mut Rng, _i: usize, _o: &Opts, dist: &mut Dist) -> Sexp {
    let mut t = gen_valid(rng, dist);
    let mut label = "valid".to_string();
    // part of the random mix: a valid (broken) ring family beside whatever else the case carries
    if rng.chance(1, 8) {
        cycle_family(rng, &mut t, CycMode::Broken);
        label = "valid+cycfam-broken".to_string();
    }
    if rng.chance(2, 3) {
        for _ in 0..6 {
            let which = rng.below(N_MUT + 6 + 5);
            // implementation-compatibility variations and the cycle families are drawn more often
            let which = if which >= N_MUT + 6 {
                28
            } else if which >= N_MUT {
                12 + (which - N_MUT) % 5
            } else {
                which
            };
            let mut t2 = t.clone();
            if let Some(l) = mutate(rng, &mut t2, which) {
                label = if has_family(&t) { format!("mix-{}+cycfam-broken", l) } else { l.to_string() };
                t = t2;
                break;
            }
        }
    }
    // part of the random mix: a required ring on top of another change (the first failing check decides)
    if !has_family(&t) && label != "valid" && rng.chance(1, 12) {
        let mode = if rng.chance(1, 2) { CycMode::Required } else { CycMode::RequiredBehind };
        cycle_family(rng, &mut t, mode);
        label = format!("mix-{}+{}", label, &cycle_label(&t)["input-".len()..]);
    }
    // the case line keeps the full label; the counters fold the first half of a mix
    match label.strip_prefix("mix-").and_then(|l| l.split_once('+')) {
        Some((_, fam)) => dist.hit(&format!("kind_mix-other-change+{}", fam)),
        None => dist.hit(&format!("kind_{}", label)),
    }
    ts_sexp(&label, &t)
}

fn main() {
    let _ = list(vec![]);
    main_loop(&mut gen_case, &mut run);
}
