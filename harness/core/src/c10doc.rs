//! C10's private copy of the document / schema-description helpers of `family.rs` (values,
//! SDL-derived schema description, document tree, printer, wire form), so that the C10 binary
//! does not compile the executor family's schema and resolvers.  Same wire format.

use async_graphql::Value as AValue;
use async_graphql_parser::{parse_schema, types as pt};

use agvh::{Sexp, atom, list, node, num, st};

// ------------------------------------------------------------------ values

#[derive(Clone, Debug, PartialEq)]
pub enum GV {
    Null,
    Int(i64),
    Float(String),
    Str(String),
    Bool(bool),
    Enum(String),
    List(Vec<GV>),
    Obj(Vec<(String, GV)>),
}

impl GV {
    pub fn to_sexp(&self) -> Sexp {
        match self {
            GV::Null => atom("null"),
            GV::Int(i) => num(i),
            GV::Float(t) => node("f", vec![st(t.clone())]),
            GV::Str(s) => st(s.clone()),
            GV::Bool(b) => atom(if *b { "true" } else { "false" }),
            GV::Enum(e) => node("e", vec![st(e.clone())]),
            GV::List(xs) => node("list", xs.iter().map(|x| x.to_sexp()).collect()),
            GV::Obj(fs) => node("obj", fs.iter().map(|(k, v)| list(vec![st(k.clone()), v.to_sexp()])).collect()),
        }
    }
    pub fn from_sexp(s: &Sexp) -> Option<GV> {
        Some(match s {
            Sexp::Atom(a) if a == "null" => GV::Null,
            Sexp::Atom(a) if a == "true" => GV::Bool(true),
            Sexp::Atom(a) if a == "false" => GV::Bool(false),
            Sexp::Atom(a) => GV::Int(a.parse().ok()?),
            Sexp::Str(s) => GV::Str(s.clone()),
            Sexp::List(_) => match s.tag()? {
                "f" => GV::Float(s.args()[0].as_str()?.to_string()),
                "e" => GV::Enum(s.args()[0].as_str()?.to_string()),
                "list" => GV::List(s.args().iter().map(GV::from_sexp).collect::<Option<_>>()?),
                "obj" => GV::Obj(
                    s.args()
                        .iter()
                        .map(|p| {
                            let l = p.as_list()?;
                            Some((l[0].as_str()?.to_string(), GV::from_sexp(&l[1])?))
                        })
                        .collect::<Option<_>>()?,
                ),
                _ => return None,
            },
        })
    }
    /// to the request-side value type (variables)
    pub fn to_avalue(&self) -> AValue {
        match self {
            GV::Null => AValue::Null,
            GV::Int(i) => AValue::Number((*i).into()),
            GV::Float(t) => AValue::Number(serde_json::Number::from_f64(float_of_token(t)).unwrap_or(0.into())),
            GV::Str(s) => AValue::String(s.clone()),
            GV::Bool(b) => AValue::Boolean(*b),
            GV::Enum(e) => AValue::Enum(async_graphql::Name::new(e)),
            GV::List(xs) => AValue::List(xs.iter().map(|x| x.to_avalue()).collect()),
            GV::Obj(fs) => AValue::Object(fs.iter().map(|(k, v)| (async_graphql::Name::new(k), v.to_avalue())).collect()),
        }
    }
}

pub fn float_token(f: f64) -> String {
    if f.is_nan() {
        "NaN".into()
    } else if f.is_infinite() {
        if f > 0.0 { "inf".into() } else { "-inf".into() }
    } else {
        serde_json::to_string(&f).unwrap()
    }
}
pub fn float_of_token(t: &str) -> f64 {
    match t {
        "NaN" => f64::NAN,
        "inf" => f64::INFINITY,
        "-inf" => f64::NEG_INFINITY,
        _ => t.parse().unwrap(),
    }
}

/// response data as a canonical S-expression, key order preserved; enums arrive as strings
pub fn avalue_to_sexp(v: &AValue) -> Sexp {
    match v {
        AValue::Null => atom("null"),
        AValue::Number(n) => {
            if let Some(i) = n.as_i64() {
                num(i)
            } else if let Some(u) = n.as_u64() {
                num(u)
            } else {
                node("f", vec![st(float_token(n.as_f64().unwrap()))])
            }
        }
        AValue::String(s) => st(s.clone()),
        AValue::Boolean(b) => atom(if *b { "true" } else { "false" }),
        AValue::Enum(e) => st(e.to_string()),
        AValue::Binary(_) => atom("binary"),
        AValue::List(xs) => node("list", xs.iter().map(avalue_to_sexp).collect()),
        AValue::Object(m) => node("obj", m.iter().map(|(k, v)| list(vec![st(k.to_string()), avalue_to_sexp(v)])).collect()),
    }
}

// ------------------------------------------------------------------ schema description (from the real registry, via SDL)

#[derive(Clone, Debug, PartialEq)]
pub enum TRef {
    Named(String),
    List(Box<TRef>),
    NonNull(Box<TRef>),
}
impl TRef {
    pub fn to_sexp(&self) -> Sexp {
        match self {
            TRef::Named(n) => st(n.clone()),
            TRef::List(t) => node("list", vec![t.to_sexp()]),
            TRef::NonNull(t) => node("nn", vec![t.to_sexp()]),
        }
    }
    pub fn from_sexp(s: &Sexp) -> Option<TRef> {
        Some(match s {
            Sexp::Str(n) => TRef::Named(n.clone()),
            _ => match s.tag()? {
                "list" => TRef::List(Box::new(TRef::from_sexp(&s.args()[0])?)),
                "nn" => TRef::NonNull(Box::new(TRef::from_sexp(&s.args()[0])?)),
                _ => return None,
            },
        })
    }
    pub fn base(&self) -> &str {
        match self {
            TRef::Named(n) => n,
            TRef::List(t) | TRef::NonNull(t) => t.base(),
        }
    }
    pub fn is_non_null(&self) -> bool {
        matches!(self, TRef::NonNull(_))
    }
    fn from_ast(t: &pt::Type) -> TRef {
        let b = match &t.base {
            pt::BaseType::Named(n) => TRef::Named(n.to_string()),
            pt::BaseType::List(inner) => TRef::List(Box::new(TRef::from_ast(inner))),
        };
        if t.nullable { b } else { TRef::NonNull(Box::new(b)) }
    }
}

#[derive(Clone, Debug)]
pub struct ArgD {
    pub name: String,
    pub ty: TRef,
    pub default: Option<GV>,
}
#[derive(Clone, Debug)]
pub struct FieldD {
    pub name: String,
    pub ty: TRef,
    pub args: Vec<ArgD>,
}
#[derive(Clone, Debug)]
pub struct TypeD {
    pub name: String,
    pub kind: String,
    pub fields: Vec<FieldD>,
    pub implements: Vec<String>,
    pub members: Vec<String>,
    pub values: Vec<String>,
}
#[derive(Clone, Debug)]
pub struct SchemaD {
    pub query: String,
    pub mutation: Option<String>,
    pub subscription: Option<String>,
    pub types: Vec<TypeD>,
}

pub fn const_to_gv(v: &async_graphql_value::ConstValue) -> GV {
    use async_graphql_value::ConstValue as CV;
    match v {
        CV::Null => GV::Null,
        CV::Number(n) => n.as_i64().map(GV::Int).unwrap_or_else(|| GV::Float(float_token(n.as_f64().unwrap()))),
        CV::String(s) => GV::Str(s.clone()),
        CV::Boolean(b) => GV::Bool(*b),
        CV::Enum(e) => GV::Enum(e.to_string()),
        CV::List(xs) => GV::List(xs.iter().map(const_to_gv).collect()),
        CV::Object(m) => GV::Obj(m.iter().map(|(k, v)| (k.to_string(), const_to_gv(v))).collect()),
        CV::Binary(_) => GV::Null,
    }
}

impl SchemaD {
    /// Parse an SDL export of the real registry (the crate's own parser is used as a tool here).
    pub fn from_sdl(sdl: &str) -> SchemaD {
        let doc = parse_schema(sdl).expect("SDL of the family schema parses");
        let mut types = vec![];
        let (mut q, mut m, mut s) = ("Query".to_string(), None, None);
        for def in &doc.definitions {
            match def {
                pt::TypeSystemDefinition::Schema(sd) => {
                    if let Some(x) = &sd.node.query {
                        q = x.node.to_string();
                    }
                    m = sd.node.mutation.as_ref().map(|x| x.node.to_string());
                    s = sd.node.subscription.as_ref().map(|x| x.node.to_string());
                }
                pt::TypeSystemDefinition::Type(td) => {
                    let name = td.node.name.node.to_string();
                    let fd = |f: &pt::FieldDefinition| FieldD {
                        name: f.name.node.to_string(),
                        ty: TRef::from_ast(&f.ty.node),
                        args: f
                            .arguments
                            .iter()
                            .map(|a| ArgD {
                                name: a.node.name.node.to_string(),
                                ty: TRef::from_ast(&a.node.ty.node),
                                default: a.node.default_value.as_ref().map(|d| const_to_gv(&d.node)),
                            })
                            .collect(),
                    };
                    let mut t = TypeD { name, kind: String::new(), fields: vec![], implements: vec![], members: vec![], values: vec![] };
                    match &td.node.kind {
                        pt::TypeKind::Scalar => t.kind = "scalar".into(),
                        pt::TypeKind::Object(o) => {
                            t.kind = "object".into();
                            t.fields = o.fields.iter().map(|f| fd(&f.node)).collect();
                            t.implements = o.implements.iter().map(|n| n.node.to_string()).collect();
                        }
                        pt::TypeKind::Interface(o) => {
                            t.kind = "interface".into();
                            t.fields = o.fields.iter().map(|f| fd(&f.node)).collect();
                            t.implements = o.implements.iter().map(|n| n.node.to_string()).collect();
                        }
                        pt::TypeKind::Union(u) => {
                            t.kind = "union".into();
                            t.members = u.members.iter().map(|n| n.node.to_string()).collect();
                        }
                        pt::TypeKind::Enum(e) => {
                            t.kind = "enum".into();
                            t.values = e.values.iter().map(|v| v.node.value.node.to_string()).collect();
                        }
                        pt::TypeKind::InputObject(_) => t.kind = "input".into(),
                    }
                    types.push(t);
                }
                _ => {}
            }
        }
        for b in ["Int", "Float", "String", "Boolean", "ID"] {
            if !types.iter().any(|t| t.name == b) {
                types.push(TypeD { name: b.into(), kind: "scalar".into(), fields: vec![], implements: vec![], members: vec![], values: vec![] });
            }
        }
        SchemaD { query: q, mutation: m, subscription: s, types }
    }
    pub fn to_sexp(&self) -> Sexp {
        let opt = |o: &Option<String>| o.as_ref().map(|x| st(x.clone())).unwrap_or(atom("none"));
        node(
            "schema",
            vec![
                st(self.query.clone()),
                opt(&self.mutation),
                opt(&self.subscription),
                list(
                    self.types
                        .iter()
                        .map(|t| {
                            node(
                                "type",
                                vec![
                                    st(t.name.clone()),
                                    atom(t.kind.clone()),
                                    list(
                                        t.fields
                                            .iter()
                                            .map(|f| {
                                                node(
                                                    "fd",
                                                    vec![
                                                        st(f.name.clone()),
                                                        f.ty.to_sexp(),
                                                        list(
                                                            f.args
                                                                .iter()
                                                                .map(|a| {
                                                                    node(
                                                                        "arg",
                                                                        vec![
                                                                            st(a.name.clone()),
                                                                            a.ty.to_sexp(),
                                                                            match &a.default {
                                                                                Some(d) => node("some", vec![d.to_sexp()]),
                                                                                None => atom("none"),
                                                                            },
                                                                        ],
                                                                    )
                                                                })
                                                                .collect(),
                                                        ),
                                                    ],
                                                )
                                            })
                                            .collect(),
                                    ),
                                    list(t.implements.iter().map(|x| st(x.clone())).collect()),
                                    list(t.members.iter().map(|x| st(x.clone())).collect()),
                                    list(t.values.iter().map(|x| st(x.clone())).collect()),
                                ],
                            )
                        })
                        .collect(),
                ),
            ],
        )
    }
    pub fn find(&self, n: &str) -> Option<&TypeD> {
        self.types.iter().find(|t| t.name == n)
    }
    pub fn is_composite(&self, n: &str) -> bool {
        self.find(n).is_some_and(|t| matches!(t.kind.as_str(), "object" | "interface" | "union"))
    }
    pub fn possible(&self, n: &str) -> Vec<String> {
        match self.find(n) {
            Some(t) if t.kind == "object" => vec![n.to_string()],
            Some(t) if t.kind == "interface" => self
                .types
                .iter()
                .filter(|o| o.kind == "object" && o.implements.iter().any(|i| i == n))
                .map(|o| o.name.clone())
                .collect(),
            Some(t) if t.kind == "union" => t.members.clone(),
            _ => vec![],
        }
    }
}

// ------------------------------------------------------------------ documents

#[derive(Clone, Debug)]
pub enum DV {
    Var(String),
    Const(GV),
}
impl DV {
    pub fn to_sexp(&self) -> Sexp {
        match self {
            DV::Var(n) => node("var", vec![st(n.clone())]),
            DV::Const(g) => g.to_sexp(),
        }
    }
    pub fn text(&self) -> String {
        match self {
            DV::Var(n) => format!("${n}"),
            DV::Const(g) => gv_text(g),
        }
    }
}
pub fn gv_text(g: &GV) -> String {
    match g {
        GV::Null => "null".into(),
        GV::Int(i) => i.to_string(),
        GV::Float(t) => t.clone(),
        GV::Str(s) => serde_json::to_string(s).unwrap(),
        GV::Bool(b) => b.to_string(),
        GV::Enum(e) => e.clone(),
        GV::List(xs) => format!("[{}]", xs.iter().map(gv_text).collect::<Vec<_>>().join(", ")),
        GV::Obj(fs) => format!("{{{}}}", fs.iter().map(|(k, v)| format!("{k}: {}", gv_text(v))).collect::<Vec<_>>().join(", ")),
    }
}

#[derive(Clone, Debug)]
pub struct DirN {
    pub name: String,
    pub args: Vec<(String, DV)>,
}
#[derive(Clone, Debug)]
pub enum SelN {
    Field { alias: Option<String>, name: String, args: Vec<(String, DV)>, dirs: Vec<DirN>, sels: Vec<SelN>, pos: (usize, usize) },
    Spread { name: String, dirs: Vec<DirN>, pos: (usize, usize) },
    Inline { cond: Option<String>, dirs: Vec<DirN>, sels: Vec<SelN>, pos: (usize, usize) },
}
#[derive(Clone, Debug)]
pub struct VarDefN {
    pub name: String,
    pub ty: TRef,
    pub default: Option<GV>,
}
#[derive(Clone, Debug)]
pub struct OpN {
    pub ty: String,
    pub name: Option<String>,
    pub vars: Vec<VarDefN>,
    pub sels: Vec<SelN>,
}
#[derive(Clone, Debug)]
pub struct FragN {
    pub name: String,
    pub cond: String,
    pub sels: Vec<SelN>,
}
#[derive(Clone, Debug)]
pub struct DocN {
    pub ops: Vec<OpN>,
    pub frags: Vec<FragN>,
}

fn tref_text(t: &TRef) -> String {
    match t {
        TRef::Named(n) => n.clone(),
        TRef::List(i) => format!("[{}]", tref_text(i)),
        TRef::NonNull(i) => format!("{}!", tref_text(i)),
    }
}

/// Prints the document on one line (ASCII), filling in every node's position (line 1,
/// column = offset + 1 of its first token).
pub fn print_doc(d: &mut DocN) -> String {
    fn dirs(out: &mut String, ds: &[DirN]) {
        for d in ds {
            out.push_str(&format!(" @{}", d.name));
            if !d.args.is_empty() {
                out.push('(');
                out.push_str(&d.args.iter().map(|(k, v)| format!("{k}: {}", v.text())).collect::<Vec<_>>().join(", "));
                out.push(')');
            }
        }
    }
    fn sels(out: &mut String, ss: &mut [SelN]) {
        out.push_str("{ ");
        for s in ss.iter_mut() {
            match s {
                SelN::Field { alias, name, args, dirs: ds, sels: sub, pos } => {
                    *pos = (1, out.len() + 1);
                    if let Some(a) = alias {
                        out.push_str(&format!("{a}: "));
                    }
                    out.push_str(name);
                    if !args.is_empty() {
                        out.push('(');
                        out.push_str(&args.iter().map(|(k, v)| format!("{k}: {}", v.text())).collect::<Vec<_>>().join(", "));
                        out.push(')');
                    }
                    dirs(out, ds);
                    if !sub.is_empty() {
                        out.push(' ');
                        sels(out, sub);
                    }
                }
                SelN::Spread { name, dirs: ds, pos } => {
                    *pos = (1, out.len() + 1);
                    out.push_str(&format!("...{name}"));
                    dirs(out, ds);
                }
                SelN::Inline { cond, dirs: ds, sels: sub, pos } => {
                    *pos = (1, out.len() + 1);
                    out.push_str("...");
                    if let Some(c) = cond {
                        out.push_str(&format!(" on {c}"));
                    }
                    dirs(out, ds);
                    out.push(' ');
                    sels(out, sub);
                }
            }
            out.push(' ');
        }
        out.push('}');
    }
    let mut out = String::new();
    for op in d.ops.iter_mut() {
        if op.name.is_none() && op.vars.is_empty() && op.ty == "query" {
            // shorthand
        } else {
            out.push_str(&op.ty);
            if let Some(n) = &op.name {
                out.push_str(&format!(" {n}"));
            }
            if !op.vars.is_empty() {
                out.push('(');
                out.push_str(
                    &op.vars
                        .iter()
                        .map(|v| {
                            let mut s = format!("${}: {}", v.name, tref_text(&v.ty));
                            if let Some(d) = &v.default {
                                s.push_str(&format!(" = {}", gv_text(d)));
                            }
                            s
                        })
                        .collect::<Vec<_>>()
                        .join(", "),
                );
                out.push(')');
            }
            out.push(' ');
        }
        sels(&mut out, &mut op.sels);
        out.push(' ');
    }
    for f in d.frags.iter_mut() {
        out.push_str(&format!("fragment {} on {} ", f.name, f.cond));
        sels(&mut out, &mut f.sels);
        out.push(' ');
    }
    assert!(out.is_ascii());
    out
}

fn dirs_sexp(ds: &[DirN]) -> Sexp {
    list(ds.iter().map(|d| {
        let mut v = vec![st(d.name.clone())];
        v.extend(d.args.iter().map(|(k, x)| list(vec![st(k.clone()), x.to_sexp()])));
        node("dir", v)
    }).collect())
}
fn pos_sexp(p: &(usize, usize)) -> Sexp {
    list(vec![num(p.0), num(p.1)])
}
pub fn sels_sexp(ss: &[SelN]) -> Sexp {
    list(ss.iter().map(|s| match s {
        SelN::Field { alias, name, args, dirs, sels, pos } => node("field", vec![
            alias.as_ref().map(|a| st(a.clone())).unwrap_or(atom("none")),
            st(name.clone()),
            list(args.iter().map(|(k, x)| list(vec![st(k.clone()), x.to_sexp()])).collect()),
            dirs_sexp(dirs),
            sels_sexp(sels),
            pos_sexp(pos),
        ]),
        SelN::Spread { name, dirs, pos } => node("spread", vec![st(name.clone()), dirs_sexp(dirs), pos_sexp(pos)]),
        SelN::Inline { cond, dirs, sels, pos } => node("inline", vec![
            cond.as_ref().map(|a| st(a.clone())).unwrap_or(atom("none")),
            dirs_sexp(dirs),
            sels_sexp(sels),
            pos_sexp(pos),
        ]),
    }).collect())
}
impl DocN {
    pub fn to_sexp(&self) -> Sexp {
        node("doc", vec![
            list(self.ops.iter().map(|o| node("op", vec![
                atom(o.ty.clone()),
                o.name.as_ref().map(|a| st(a.clone())).unwrap_or(atom("none")),
                list(o.vars.iter().map(|v| node("vardef", vec![
                    st(v.name.clone()),
                    v.ty.to_sexp(),
                    v.default.as_ref().map(|d| node("some", vec![d.to_sexp()])).unwrap_or(atom("none")),
                ])).collect()),
                list(vec![]),
                sels_sexp(&o.sels),
            ])).collect()),
            list(self.frags.iter().map(|f| node("frag", vec![st(f.name.clone()), st(f.cond.clone()), list(vec![]), sels_sexp(&f.sels)])).collect()),
        ])
    }
}

pub fn vars_sexp(vs: &[(String, GV)]) -> Sexp {
    node("vars", vs.iter().map(|(k, v)| list(vec![st(k.clone()), v.to_sexp()])).collect())
}
pub fn vars_from_sexp(s: &Sexp) -> Vec<(String, GV)> {
    s.args().iter().map(|p| {
        let l = p.as_list().unwrap();
        (l[0].as_str().unwrap().to_string(), GV::from_sexp(&l[1]).unwrap())
    }).collect()
}
