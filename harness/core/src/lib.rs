//! Shared pieces of the correspondence harness: PRNG, S-expression wire format,
//! command-line handling, per-case panic capture, distribution counters.
//!
//! Every property binary (`src/bin/cNN.rs`) has the same command line:
//!
//! ```text
//! cNN --out DIR [--seed S] [--n N] [--tier quick|thorough] [--stream NAME] [--cases FILE]
//! ```
//!
//! and writes `DIR/cases.txt` (one case per line), `DIR/impl.out` (one line per case, the
//! canonicalised behaviour of the *real* implementation) and `DIR/dist.json`
//! (input-distribution counters).  With `--cases FILE` the cases are read from FILE instead of
//! being generated (corpus, replays).

use std::{
    collections::BTreeMap,
    fmt::Write as _,
    io::Write as _,
    panic::{AssertUnwindSafe, catch_unwind},
    path::PathBuf,
    sync::Mutex,
};

// ---------------------------------------------------------------- PRNG

/// SplitMix64: every random choice of a run derives from one seed.
#[derive(Clone)]
pub struct Rng(pub u64);

impl Rng {
    pub fn new(seed: u64) -> Self {
        Rng(seed ^ 0x9E37_79B9_7F4A_7C15)
    }
    pub fn next_u64(&mut self) -> u64 {
        self.0 = self.0.wrapping_add(0x9E37_79B9_7F4A_7C15);
        let mut z = self.0;
        z = (z ^ (z >> 30)).wrapping_mul(0xBF58_476D_1CE4_E5B9);
        z = (z ^ (z >> 27)).wrapping_mul(0x94D0_49BB_1331_11EB);
        z ^ (z >> 31)
    }
    /// uniform in 0..n (n > 0)
    pub fn below(&mut self, n: usize) -> usize {
        (self.next_u64() % (n as u64)) as usize
    }
    /// uniform in lo..=hi
    pub fn range(&mut self, lo: i64, hi: i64) -> i64 {
        lo + (self.next_u64() % ((hi - lo + 1) as u64)) as i64
    }
    pub fn chance(&mut self, num: usize, den: usize) -> bool {
        self.below(den) < num
    }
    pub fn pick<'a, T>(&mut self, xs: &'a [T]) -> &'a T {
        &xs[self.below(xs.len())]
    }
    pub fn fork(&mut self) -> Rng {
        Rng(self.next_u64())
    }
    pub fn shuffle<T>(&mut self, xs: &mut [T]) {
        for i in (1..xs.len()).rev() {
            let j = self.below(i + 1);
            xs.swap(i, j);
        }
    }
}

// ---------------------------------------------------------------- S-expressions

#[derive(Clone, Debug, PartialEq)]
pub enum Sexp {
    Atom(String),
    Str(String),
    List(Vec<Sexp>),
}

pub fn atom(s: impl Into<String>) -> Sexp {
    Sexp::Atom(s.into())
}
pub fn st(s: impl Into<String>) -> Sexp {
    Sexp::Str(s.into())
}
pub fn list(xs: Vec<Sexp>) -> Sexp {
    Sexp::List(xs)
}
pub fn num<T: std::fmt::Display>(n: T) -> Sexp {
    Sexp::Atom(n.to_string())
}
/// `(tag x1 x2 …)`
pub fn node(tag: &str, mut xs: Vec<Sexp>) -> Sexp {
    let mut v = vec![atom(tag)];
    v.append(&mut xs);
    Sexp::List(v)
}

pub fn quote(s: &str) -> String {
    let mut o = String::with_capacity(s.len() + 2);
    o.push('"');
    for c in s.chars() {
        match c {
            '\\' => o.push_str("\\\\"),
            '"' => o.push_str("\\\""),
            '\n' => o.push_str("\\n"),
            '\r' => o.push_str("\\r"),
            '\t' => o.push_str("\\t"),
            c if (c as u32) >= 0x20 && (c as u32) <= 0x7E => o.push(c),
            c => {
                let _ = write!(o, "\\u{{{:x}}}", c as u32);
            }
        }
    }
    o.push('"');
    o
}

impl std::fmt::Display for Sexp {
    fn fmt(&self, f: &mut std::fmt::Formatter<'_>) -> std::fmt::Result {
        match self {
            Sexp::Atom(s) => f.write_str(s),
            Sexp::Str(s) => f.write_str(&quote(s)),
            Sexp::List(xs) => {
                f.write_str("(")?;
                for (i, x) in xs.iter().enumerate() {
                    if i > 0 {
                        f.write_str(" ")?;
                    }
                    write!(f, "{x}")?;
                }
                f.write_str(")")
            }
        }
    }
}

impl Sexp {
    pub fn parse(line: &str) -> Option<Sexp> {
        let cs: Vec<char> = line.chars().collect();
        let mut i = 0;
        let mut stack: Vec<Vec<Sexp>> = vec![];
        let mut cur: Vec<Sexp> = vec![];
        while i < cs.len() {
            let c = cs[i];
            match c {
                ' ' | '\t' | '\n' | '\r' => i += 1,
                '(' => {
                    stack.push(std::mem::take(&mut cur));
                    i += 1;
                }
                ')' => {
                    let done = std::mem::take(&mut cur);
                    cur = stack.pop()?;
                    cur.push(Sexp::List(done));
                    i += 1;
                }
                '"' => {
                    i += 1;
                    let mut s = String::new();
                    loop {
                        let c = *cs.get(i)?;
                        i += 1;
                        match c {
                            '"' => break,
                            '\\' => {
                                let e = *cs.get(i)?;
                                i += 1;
                                match e {
                                    'n' => s.push('\n'),
                                    'r' => s.push('\r'),
                                    't' => s.push('\t'),
                                    '\\' => s.push('\\'),
                                    '"' => s.push('"'),
                                    'u' => {
                                        if *cs.get(i)? != '{' {
                                            return None;
                                        }
                                        i += 1;
                                        let mut n = 0u32;
                                        while *cs.get(i)? != '}' {
                                            n = n * 16 + cs[i].to_digit(16)?;
                                            i += 1;
                                        }
                                        i += 1;
                                        s.push(char::from_u32(n)?);
                                    }
                                    _ => return None,
                                }
                            }
                            c => s.push(c),
                        }
                    }
                    cur.push(Sexp::Str(s));
                }
                _ => {
                    let start = i;
                    while i < cs.len() && !matches!(cs[i], ' ' | '(' | ')' | '"' | '\t' | '\n' | '\r') {
                        i += 1;
                    }
                    cur.push(Sexp::Atom(cs[start..i].iter().collect()));
                }
            }
        }
        if !stack.is_empty() || cur.len() != 1 {
            return None;
        }
        cur.pop()
    }
    pub fn as_list(&self) -> Option<&[Sexp]> {
        match self {
            Sexp::List(v) => Some(v),
            _ => None,
        }
    }
    pub fn as_str(&self) -> Option<&str> {
        match self {
            Sexp::Str(s) => Some(s),
            _ => None,
        }
    }
    pub fn as_atom(&self) -> Option<&str> {
        match self {
            Sexp::Atom(s) => Some(s),
            _ => None,
        }
    }
    pub fn as_i64(&self) -> Option<i64> {
        self.as_atom()?.parse().ok()
    }
    pub fn as_usize(&self) -> Option<usize> {
        self.as_atom()?.parse().ok()
    }
    /// tag of `(tag …)`
    pub fn tag(&self) -> Option<&str> {
        self.as_list()?.first()?.as_atom()
    }
    /// arguments of `(tag a b c)`
    pub fn args(&self) -> &[Sexp] {
        match self {
            Sexp::List(v) if !v.is_empty() => &v[1..],
            _ => &[],
        }
    }
}

// ---------------------------------------------------------------- command line

#[derive(Clone, Debug)]
pub struct Opts {
    pub out: PathBuf,
    pub seed: u64,
    pub n: usize,
    pub tier: String,
    pub stream: String,
    pub cases: Option<PathBuf>,
}

pub fn opts() -> Opts {
    let mut o = Opts {
        out: PathBuf::from("."),
        seed: std::env::var("VERIF_SEED").ok().and_then(|s| s.parse().ok()).unwrap_or(1),
        n: 1000,
        tier: std::env::var("VERIF_TIER").unwrap_or_else(|_| "quick".into()),
        stream: "main".into(),
        cases: None,
    };
    let a: Vec<String> = std::env::args().collect();
    let mut i = 1;
    while i < a.len() {
        let v = a.get(i + 1).cloned().unwrap_or_default();
        match a[i].as_str() {
            "--out" => o.out = PathBuf::from(v),
            "--seed" => o.seed = v.parse().expect("--seed"),
            "--n" => o.n = v.parse().expect("--n"),
            "--tier" => o.tier = v,
            "--stream" => o.stream = v,
            "--cases" => o.cases = Some(PathBuf::from(v)),
            x => panic!("unknown argument {x}"),
        }
        i += 2;
    }
    o
}

// ---------------------------------------------------------------- distribution counters

#[derive(Default)]
pub struct Dist(pub BTreeMap<String, u64>);

impl Dist {
    pub fn hit(&mut self, k: &str) {
        *self.0.entry(k.to_string()).or_insert(0) += 1;
    }
    pub fn add(&mut self, k: &str, n: u64) {
        *self.0.entry(k.to_string()).or_insert(0) += n;
    }
    pub fn to_json(&self) -> String {
        let mut s = String::from("{");
        for (i, (k, v)) in self.0.iter().enumerate() {
            if i > 0 {
                s.push(',');
            }
            let _ = write!(s, "{}:{}", serde_json::to_string(k).unwrap(), v);
        }
        s.push('}');
        s
    }
}

// ---------------------------------------------------------------- panic capture

static LAST_PANIC: Mutex<Option<String>> = Mutex::new(None);

pub fn install_panic_hook() {
    std::panic::set_hook(Box::new(|info| {
        let loc = info
            .location()
            .map(|l| {
                let f = l.file();
                // keep only the path below the repository root so outputs are stable
                let f = f.rsplit_once("/repo/").map(|x| x.1).unwrap_or(f);
                format!("{}:{}", f, l.line())
            })
            .unwrap_or_else(|| "?".into());
        *LAST_PANIC.lock().unwrap() = Some(loc);
    }));
}

/// Runs the implementation on one case; a panic becomes the output `(panic "file:line")`,
/// which no model ever produces.
pub fn guarded(f: impl FnOnce() -> Sexp) -> Sexp {
    match catch_unwind(AssertUnwindSafe(f)) {
        Ok(s) => s,
        Err(_) => {
            let loc = LAST_PANIC.lock().unwrap().take().unwrap_or_else(|| "?".into());
            node("panic", vec![st(loc)])
        }
    }
}

// ---------------------------------------------------------------- the run loop

/// The usual shape of a property binary: `gen` draws the i-th case from the PRNG (and records
/// what it drew in `Dist`), `run` executes the real implementation on a case.  Cases travel as
/// S-expressions so that generated cases and cases read back from a file take the same path.
pub fn main_loop(
    gen_case: &mut dyn FnMut(&mut Rng, usize, &Opts, &mut Dist) -> Sexp,
    run: &mut dyn FnMut(&Sexp, &mut Dist) -> Sexp,
) {
    install_panic_hook();
    let o = opts();
    std::fs::create_dir_all(&o.out).unwrap();
    let mut dist = Dist::default();
    let mut cases: Vec<Sexp> = vec![];
    if let Some(p) = &o.cases {
        let text = std::fs::read_to_string(p).expect("read --cases");
        for (ln, line) in text.lines().enumerate() {
            if line.trim().is_empty() {
                continue;
            }
            cases.push(Sexp::parse(line).unwrap_or_else(|| panic!("bad case line {}", ln + 1)));
        }
    } else {
        let mut rng = Rng::new(o.seed);
        for i in 0..o.n {
            let mut r = rng.fork();
            cases.push(gen_case(&mut r, i, &o, &mut dist));
        }
    }
    let mut fc = std::io::BufWriter::new(std::fs::File::create(o.out.join("cases.txt")).unwrap());
    let mut fi = std::io::BufWriter::new(std::fs::File::create(o.out.join("impl.out")).unwrap());
    for c in &cases {
        let out = guarded(|| run(c, &mut dist));
        if matches!(&out, Sexp::List(v) if v.first() == Some(&atom("panic"))) {
            dist.hit("impl_panics");
        }
        writeln!(fc, "{c}").unwrap();
        writeln!(fi, "{out}").unwrap();
    }
    fc.flush().unwrap();
    fi.flush().unwrap();
    dist.add("cases", cases.len() as u64);
    std::fs::write(o.out.join("dist.json"), dist.to_json()).unwrap();
}

/// Poll a future to completion on the current thread with a no-op waker (the harness never
/// needs a reactor: nothing it awaits is ever pending on I/O).
pub fn block_on<F: std::future::Future>(f: F) -> F::Output {
    futures_util::FutureExt::now_or_never(f).expect("future was not immediately ready")
}

/// Like `block_on` but spins (for futures that yield).
pub fn spin_on<F: std::future::Future>(f: F) -> F::Output {
    let mut f = std::pin::pin!(f);
    let waker = futures_util::task::noop_waker();
    let mut cx = std::task::Context::from_waker(&waker);
    let mut spins = 0u64;
    loop {
        if let std::task::Poll::Ready(v) = f.as_mut().poll(&mut cx) {
            return v;
        }
        spins += 1;
        if spins > 10_000_000 {
            panic!("future did not complete (no progress)");
        }
    }
}
