//! The derive-macro "declaration zoo" shared by bin/c17.rs and bin/c18.rs (included with
//! `#[path]`, not part of the shared lib).
//!
//! One derive-built schema that uses every derive macro (`SimpleObject`, `#[Object]`,
//! `#[ComplexObject]`, `InputObject`, `OneofObject`, `Enum`, `Interface` with fields that take
//! arguments, `Union`, `MergedObject`, `#[Subscription]`, `#[Scalar]` / `scalar!` / `NewType`,
//! `Description`) with the attributes that reach the registry (name / rename rules, deprecation with
//! and without reason on fields, ARGUMENTS, enum items and input fields, default values,
//! descriptions, `visible`, `inaccessible` / `tag`, `secret`, `oneof`, `flatten`, `skip`, `extends`)
//! and every built-in container type in input AND output position.
//!
//! Next to every declaration stands its EXPECTED description (`fn d_…`), written by hand from what
//! the Rust source declares: GraphQL name, type reference string (`[Int!]`), default value literal,
//! deprecation, description, visibility rule, `inaccessible`, tags.  `declared()` collects them; the
//! two harnesses send that description (never anything read back from the registry) to the Lean
//! side, which compares the real SDL export (C17) / the real introspection JSON and the SDL-derived
//! description (C18) with what the model makes of it.
//!
//! Orders: fields, arguments, enum values and union members are listed in declaration order (a
//! flattened member's elements at the place of the member); `implements` lists of an object are in
//! the order the interfaces are registered.
//!
//! Container declarations also carry their Rust type verbatim (`.rust("Option<HashSet<i32>>")`):
//! the Lean judge checks the hand-written reference against Spec/RustTy.lean and gives the model
//! the type Model/RustTy.lean registers for it.
//!
//! AFTER EDITING THIS FILE run `python3 tools/zoo_refresh.py`: corpus/C17/zoo.case,
//! corpus/C18/zoo.case and the witnesses of the two zoo findings carry the description.
#![allow(dead_code, non_snake_case, unused_variables, clippy::all)]

use std::collections::{BTreeSet, HashSet, LinkedList, VecDeque};
use std::sync::Arc;

use async_graphql::*;
use futures_util::stream::{self, Stream};

pub use zd::*;

// ------------------------------------------------------------------ the description language

pub mod zd {
    #[derive(Clone, Debug, PartialEq)]
    pub enum ZVis {
        Always,
        Never,
        Bit(u32),
    }
    #[derive(Clone, Debug, PartialEq)]
    pub enum ZDep {
        No,
        NoReason,
        Reason(&'static str),
    }
    #[derive(Clone, Debug)]
    pub struct ZAttrs {
        pub desc: Option<&'static str>,
        pub dep: ZDep,
        pub vis: ZVis,
        pub inacc: bool,
        pub tags: Vec<&'static str>,
    }
    impl Default for ZAttrs {
        fn default() -> Self {
            ZAttrs { desc: None, dep: ZDep::No, vis: ZVis::Always, inacc: false, tags: vec![] }
        }
    }
    /// argument / input field: type reference and default value as GraphQL text
    #[derive(Clone, Debug)]
    pub struct ZIv {
        pub name: &'static str,
        pub ty: &'static str,
        pub default: Option<&'static str>,
        pub a: ZAttrs,
        /// the declared Rust type, verbatim (container declarations)
        pub rust: Option<&'static str>,
    }
    #[derive(Clone, Debug)]
    pub struct ZField {
        pub name: &'static str,
        pub ty: &'static str,
        pub a: ZAttrs,
        pub args: Vec<ZIv>,
        /// the declared Rust result type, verbatim (container declarations)
        pub rust: Option<&'static str>,
    }
    #[derive(Clone, Debug)]
    pub struct ZEv {
        pub name: &'static str,
        pub a: ZAttrs,
    }
    #[derive(Clone, Debug)]
    pub struct ZType {
        pub name: &'static str,
        /// scalar | object | interface | union | enum | input
        pub kind: &'static str,
        pub a: ZAttrs,
        pub ext: bool,
        pub fields: Vec<ZField>,
        pub inputs: Vec<ZIv>,
        pub values: Vec<ZEv>,
        pub implements: Vec<&'static str>,
        pub members: Vec<&'static str>,
        pub spec_by: Option<&'static str>,
        pub one_of: bool,
    }
    #[derive(Clone, Debug)]
    pub struct ZSchema {
        pub query: &'static str,
        pub mutation: Option<&'static str>,
        pub subscription: Option<&'static str>,
        pub types: Vec<ZType>,
    }

    macro_rules! attr_methods {
        ($t:ty) => {
            impl $t {
                pub fn desc(mut self, d: &'static str) -> Self {
                    self.a.desc = Some(d);
                    self
                }
                /// `deprecation = "reason"`
                pub fn dep(mut self, r: &'static str) -> Self {
                    self.a.dep = ZDep::Reason(r);
                    self
                }
                /// bare `deprecation`
                pub fn dep0(mut self) -> Self {
                    self.a.dep = ZDep::NoReason;
                    self
                }
                /// `visible = false`
                pub fn never(mut self) -> Self {
                    self.a.vis = ZVis::Never;
                    self
                }
                /// `visible = "vbK"`
                pub fn bit(mut self, k: u32) -> Self {
                    self.a.vis = ZVis::Bit(k);
                    self
                }
                pub fn inacc(mut self) -> Self {
                    self.a.inacc = true;
                    self
                }
                pub fn tag(mut self, t: &'static str) -> Self {
                    self.a.tags.push(t);
                    self
                }
            }
        };
    }
    attr_methods!(ZIv);
    attr_methods!(ZField);
    attr_methods!(ZEv);
    attr_methods!(ZType);

    pub fn iv(name: &'static str, ty: &'static str) -> ZIv {
        ZIv { name, ty, default: None, a: ZAttrs::default(), rust: None }
    }
    impl ZIv {
        pub fn rust(mut self, t: &'static str) -> Self {
            self.rust = Some(t);
            self
        }
        pub fn dflt(mut self, text: &'static str) -> Self {
            self.default = Some(text);
            self
        }
    }
    pub fn fd(name: &'static str, ty: &'static str) -> ZField {
        ZField { name, ty, a: ZAttrs::default(), args: vec![], rust: None }
    }
    impl ZField {
        pub fn rust(mut self, t: &'static str) -> Self {
            self.rust = Some(t);
            self
        }
        pub fn arg(mut self, a: ZIv) -> Self {
            self.args.push(a);
            self
        }
        pub fn args(mut self, a: Vec<ZIv>) -> Self {
            self.args.extend(a);
            self
        }
    }
    pub fn ev(name: &'static str) -> ZEv {
        ZEv { name, a: ZAttrs::default() }
    }
    pub fn ty(kind: &'static str, name: &'static str) -> ZType {
        ZType {
            name,
            kind,
            a: ZAttrs::default(),
            ext: false,
            fields: vec![],
            inputs: vec![],
            values: vec![],
            implements: vec![],
            members: vec![],
            spec_by: None,
            one_of: false,
        }
    }
    impl ZType {
        pub fn f(mut self, f: ZField) -> Self {
            self.fields.push(f);
            self
        }
        pub fn fs(mut self, f: Vec<ZField>) -> Self {
            self.fields.extend(f);
            self
        }
        pub fn i(mut self, f: ZIv) -> Self {
            self.inputs.push(f);
            self
        }
        pub fn is(mut self, f: Vec<ZIv>) -> Self {
            self.inputs.extend(f);
            self
        }
        pub fn v(mut self, v: ZEv) -> Self {
            self.values.push(v);
            self
        }
        pub fn implements(mut self, i: &'static str) -> Self {
            self.implements.push(i);
            self
        }
        pub fn member(mut self, m: &'static str) -> Self {
            self.members.push(m);
            self
        }
        pub fn spec_by(mut self, u: &'static str) -> Self {
            self.spec_by = Some(u);
            self
        }
        pub fn one_of(mut self) -> Self {
            self.one_of = true;
            self
        }
        pub fn extends(mut self) -> Self {
            self.ext = true;
            self
        }
    }
}

// ------------------------------------------------------------------ visibility rules: bit k of the request token

pub struct Tok(pub u32);
fn bit(ctx: &Context<'_>, k: u32) -> bool {
    ctx.data_opt::<Tok>().map(|t| (t.0 >> k) & 1 == 1).unwrap_or(false)
}
macro_rules! vb {
    ($($n:ident = $k:expr),*) => { $( pub fn $n(ctx: &Context<'_>) -> bool { bit(ctx, $k) } )* };
}
vb!(vb0 = 0, vb1 = 1, vb2 = 2, vb3 = 3, vb4 = 4, vb5 = 5, vb6 = 6, vb7 = 7);
pub const ZOO_BITS: u32 = 8;

// ------------------------------------------------------------------ enums

/// A colour.
#[derive(Enum, Copy, Clone, Eq, PartialEq, Hash, PartialOrd, Ord)]
pub enum Color {
    /// Like blood.
    Red,
    #[graphql(deprecation = "too \"green\"")]
    DarkGreen,
    #[graphql(deprecation)]
    Blue,
    #[graphql(name = "GRAY")]
    Grey,
    #[graphql(visible = false)]
    Infra,
    #[graphql(visible = "vb0")]
    Ultra,
    #[graphql(inaccessible, tag = "exp")]
    Tinted,
}
fn d_color() -> ZType {
    ty("enum", "Color")
        .desc("A colour.")
        .v(ev("RED").desc("Like blood."))
        .v(ev("DARK_GREEN").dep("too \"green\""))
        .v(ev("BLUE").dep0())
        .v(ev("GRAY"))
        .v(ev("INFRA").never())
        .v(ev("ULTRA").bit(0))
        .v(ev("TINTED").inacc().tag("exp"))
}

#[derive(Enum, Copy, Clone, Eq, PartialEq)]
#[graphql(name = "Mode", rename_items = "lowercase", visible = "vb1", inaccessible, tag = "modes")]
pub enum RunMode {
    Fast,
    VerySlow,
    #[graphql(name = "Custom_1")]
    Custom,
}
fn d_mode() -> ZType {
    ty("enum", "Mode").bit(1).inacc().tag("modes").v(ev("fast")).v(ev("veryslow")).v(ev("Custom_1"))
}

// ------------------------------------------------------------------ scalars

pub struct Stamp(pub i64);
/// A timestamp.
#[Scalar(name = "Stamp", specified_by_url = "https://example.com/stamp", inaccessible, tag = "time")]
impl ScalarType for Stamp {
    fn parse(value: Value) -> InputValueResult<Self> {
        match value {
            Value::Number(n) => Ok(Stamp(n.as_i64().unwrap_or(0))),
            _ => Err(InputValueError::expected_type(value)),
        }
    }
    fn to_value(&self) -> Value {
        Value::from(self.0)
    }
}
fn d_stamp() -> ZType {
    ty("scalar", "Stamp").desc("A timestamp.").spec_by("https://example.com/stamp").inacc().tag("time")
}

/// Money in cents.
#[derive(Description)]
pub struct Money(pub i64);
#[Scalar(use_type_description, visible = "vb6")]
impl ScalarType for Money {
    fn parse(value: Value) -> InputValueResult<Self> {
        match value {
            Value::Number(n) => Ok(Money(n.as_i64().unwrap_or(0))),
            _ => Err(InputValueError::expected_type(value)),
        }
    }
    fn to_value(&self) -> Value {
        Value::from(self.0)
    }
}
fn d_money() -> ZType {
    ty("scalar", "Money").desc("Money in cents.").bit(6)
}

/// transparent: the GraphQL type is the inner one (`Int`)
#[derive(NewType)]
pub struct PlainCount(i32);

/// Weight in grams.
#[derive(NewType)]
#[graphql(name)]
pub struct Weight(i32);
fn d_weight() -> ZType {
    ty("scalar", "Weight").desc("Weight in grams.")
}

// (`specified_by_url = "…"` cannot be declared here: the code `#[derive(NewType)]` generates for it
// does not compile on the pinned tree — `Some("url")` where `Option<String>` is expected,
// derive/src/newtype.rs; see fixes/C17-newtype-specified-by-url.diff)
#[derive(NewType)]
#[graphql(name = "Length", inaccessible, tag = "geo", visible = "vb6")]
pub struct Len(i32);
fn d_length() -> ZType {
    ty("scalar", "Length").inacc().tag("geo").bit(6)
}

#[derive(serde::Serialize, serde::Deserialize)]
pub struct Blob {
    pub a: i32,
}
scalar!(Blob, "BlobData", "Opaque blob.", "https://example.com/blob");
fn d_blob() -> ZType {
    ty("scalar", "BlobData").desc("Opaque blob.").spec_by("https://example.com/blob")
}

// ------------------------------------------------------------------ containers, input position

/// Containers in input position.
#[derive(InputObject)]
pub struct Boxes {
    pub vec: Vec<i32>,
    pub vec_opt: Option<Vec<i32>>,
    pub vec_undef: MaybeUndefined<Vec<i32>>,
    pub deque: VecDeque<i32>,
    pub deque_opt: Option<VecDeque<i32>>,
    pub deque_undef: MaybeUndefined<VecDeque<i32>>,
    pub linked: LinkedList<i32>,
    pub linked_opt: Option<LinkedList<i32>>,
    pub linked_undef: MaybeUndefined<LinkedList<i32>>,
    pub hash_set: HashSet<i32>,
    pub hash_set_opt: Option<HashSet<i32>>,
    pub hash_set_undef: MaybeUndefined<HashSet<i32>>,
    pub btree_set: BTreeSet<i32>,
    pub btree_set_opt: Option<BTreeSet<i32>>,
    pub btree_set_undef: MaybeUndefined<BTreeSet<i32>>,
    pub array: [i32; 2],
    pub array_opt: Option<[i32; 2]>,
    pub array_undef: MaybeUndefined<[i32; 2]>,
    pub box_slice: Box<[i32]>,
    pub box_slice_opt: Option<Box<[i32]>>,
    pub arc_slice: Arc<[i32]>,
    pub arc_slice_undef: MaybeUndefined<Arc<[i32]>>,
    pub boxed: Box<i32>,
    pub boxed_opt: Option<Box<i32>>,
    pub arc: Arc<i32>,
    pub arc_opt: Option<Arc<i32>>,
    pub boxed_vec: Box<Vec<i32>>,
    pub boxed_set_opt: Option<Box<HashSet<i32>>>,
    pub undef_scalar: MaybeUndefined<i32>,
    pub vec_of_opt: Vec<Option<i32>>,
    pub opt_vec_of_opt: Option<Vec<Option<i32>>>,
    pub set_of_opt: Option<BTreeSet<Option<i32>>>,
    pub nested: Vec<Vec<i32>>,
    pub nested_set_opt: Option<Vec<HashSet<i32>>>,
    pub set_of_vec_opt: Option<HashSet<Vec<i32>>>,
    pub deque_of_linked_undef: MaybeUndefined<VecDeque<LinkedList<i32>>>,
    pub deep: Option<Vec<Option<Vec<Option<i32>>>>>,
    pub colors_opt: Option<HashSet<Color>>,
    pub strings: BTreeSet<String>,
    pub vec_of_box_opt: Vec<Box<Option<i32>>>,
    pub set_of_arc_opt: Option<BTreeSet<Arc<Option<i32>>>>,
}
/// the 41 container declarations above (camelCase names), also declared as the arguments of
/// `Query.boxes` with the same Rust types
fn d_containers_in() -> Vec<ZIv> {
    vec![
        iv("vec", "[Int!]!").rust("Vec<i32>"),
        iv("vecOpt", "[Int!]").rust("Option<Vec<i32>>"),
        iv("vecUndef", "[Int!]").rust("MaybeUndefined<Vec<i32>>"),
        iv("deque", "[Int!]!").rust("VecDeque<i32>"),
        iv("dequeOpt", "[Int!]").rust("Option<VecDeque<i32>>"),
        iv("dequeUndef", "[Int!]").rust("MaybeUndefined<VecDeque<i32>>"),
        iv("linked", "[Int!]!").rust("LinkedList<i32>"),
        iv("linkedOpt", "[Int!]").rust("Option<LinkedList<i32>>"),
        iv("linkedUndef", "[Int!]").rust("MaybeUndefined<LinkedList<i32>>"),
        iv("hashSet", "[Int!]!").rust("HashSet<i32>"),
        iv("hashSetOpt", "[Int!]").rust("Option<HashSet<i32>>"),
        iv("hashSetUndef", "[Int!]").rust("MaybeUndefined<HashSet<i32>>"),
        iv("btreeSet", "[Int!]!").rust("BTreeSet<i32>"),
        iv("btreeSetOpt", "[Int!]").rust("Option<BTreeSet<i32>>"),
        iv("btreeSetUndef", "[Int!]").rust("MaybeUndefined<BTreeSet<i32>>"),
        iv("array", "[Int!]!").rust("[i32; 2]"),
        iv("arrayOpt", "[Int!]").rust("Option<[i32; 2]>"),
        iv("arrayUndef", "[Int!]").rust("MaybeUndefined<[i32; 2]>"),
        iv("boxSlice", "[Int!]!").rust("Box<[i32]>"),
        iv("boxSliceOpt", "[Int!]").rust("Option<Box<[i32]>>"),
        iv("arcSlice", "[Int!]!").rust("Arc<[i32]>"),
        iv("arcSliceUndef", "[Int!]").rust("MaybeUndefined<Arc<[i32]>>"),
        iv("boxed", "Int!").rust("Box<i32>"),
        iv("boxedOpt", "Int").rust("Option<Box<i32>>"),
        iv("arc", "Int!").rust("Arc<i32>"),
        iv("arcOpt", "Int").rust("Option<Arc<i32>>"),
        iv("boxedVec", "[Int!]!").rust("Box<Vec<i32>>"),
        iv("boxedSetOpt", "[Int!]").rust("Option<Box<HashSet<i32>>>"),
        iv("undefScalar", "Int").rust("MaybeUndefined<i32>"),
        iv("vecOfOpt", "[Int]!").rust("Vec<Option<i32>>"),
        iv("optVecOfOpt", "[Int]").rust("Option<Vec<Option<i32>>>"),
        iv("setOfOpt", "[Int]").rust("Option<BTreeSet<Option<i32>>>"),
        iv("nested", "[[Int!]!]!").rust("Vec<Vec<i32>>"),
        iv("nestedSetOpt", "[[Int!]!]").rust("Option<Vec<HashSet<i32>>>"),
        iv("setOfVecOpt", "[[Int!]!]").rust("Option<HashSet<Vec<i32>>>"),
        iv("dequeOfLinkedUndef", "[[Int!]!]").rust("MaybeUndefined<VecDeque<LinkedList<i32>>>"),
        iv("deep", "[[Int]]").rust("Option<Vec<Option<Vec<Option<i32>>>>>"),
        iv("colorsOpt", "[Color!]").rust("Option<HashSet<Color>>"),
        iv("strings", "[String!]!").rust("BTreeSet<String>"),
        iv("vecOfBoxOpt", "[Int]!").rust("Vec<Box<Option<i32>>>"),
        iv("setOfArcOpt", "[Int]").rust("Option<BTreeSet<Arc<Option<i32>>>>"),
    ]
}
fn d_boxes() -> ZType {
    ty("input", "Boxes").desc("Containers in input position.").is(d_containers_in())
}

// ------------------------------------------------------------------ containers, output position

/// Containers in output position.
#[derive(SimpleObject)]
pub struct Shelves {
    pub vec: Vec<i32>,
    pub vec_opt: Option<Vec<i32>>,
    pub deque: VecDeque<i32>,
    pub deque_opt: Option<VecDeque<i32>>,
    pub linked: LinkedList<i32>,
    pub linked_opt: Option<LinkedList<i32>>,
    pub hash_set: HashSet<i32>,
    pub hash_set_opt: Option<HashSet<i32>>,
    pub btree_set: BTreeSet<i32>,
    pub btree_set_opt: Option<BTreeSet<i32>>,
    pub array: [i32; 2],
    pub array_opt: Option<[i32; 2]>,
    pub box_slice: Box<[i32]>,
    pub box_slice_opt: Option<Box<[i32]>>,
    pub arc_slice: Arc<[i32]>,
    pub arc_slice_opt: Option<Arc<[i32]>>,
    pub boxed: Box<i32>,
    pub boxed_opt: Option<Box<i32>>,
    pub arc: Arc<i32>,
    pub arc_opt: Option<Arc<i32>>,
    pub boxed_vec: Box<Vec<i32>>,
    pub arc_set_opt: Option<Arc<HashSet<i32>>>,
    pub vec_of_opt: Vec<Option<i32>>,
    pub opt_vec_of_opt: Option<Vec<Option<i32>>>,
    pub set_of_opt: Option<BTreeSet<Option<i32>>>,
    pub nested: Vec<Vec<i32>>,
    pub nested_set_opt: Option<Vec<HashSet<i32>>>,
    pub deque_of_linked_opt: Option<VecDeque<LinkedList<i32>>>,
    pub deep: Option<Vec<Option<Vec<Option<i32>>>>>,
    pub colors_opt: Option<HashSet<Color>>,
    pub strings: BTreeSet<String>,
    pub things: Vec<Meta>,
    pub things_opt: Option<LinkedList<Option<Meta>>>,
    pub vec_of_box_opt: Vec<Box<Option<i32>>>,
    pub vec_of_arc_opt: Option<Vec<Arc<Option<i32>>>>,
}
fn d_shelves() -> ZType {
    ty("object", "Shelves")
        .desc("Containers in output position.")
        .f(fd("vec", "[Int!]!").rust("Vec<i32>"))
        .f(fd("vecOpt", "[Int!]").rust("Option<Vec<i32>>"))
        .f(fd("deque", "[Int!]!").rust("VecDeque<i32>"))
        .f(fd("dequeOpt", "[Int!]").rust("Option<VecDeque<i32>>"))
        .f(fd("linked", "[Int!]!").rust("LinkedList<i32>"))
        .f(fd("linkedOpt", "[Int!]").rust("Option<LinkedList<i32>>"))
        .f(fd("hashSet", "[Int!]!").rust("HashSet<i32>"))
        .f(fd("hashSetOpt", "[Int!]").rust("Option<HashSet<i32>>"))
        .f(fd("btreeSet", "[Int!]!").rust("BTreeSet<i32>"))
        .f(fd("btreeSetOpt", "[Int!]").rust("Option<BTreeSet<i32>>"))
        .f(fd("array", "[Int!]!").rust("[i32; 2]"))
        .f(fd("arrayOpt", "[Int!]").rust("Option<[i32; 2]>"))
        .f(fd("boxSlice", "[Int!]!").rust("Box<[i32]>"))
        .f(fd("boxSliceOpt", "[Int!]").rust("Option<Box<[i32]>>"))
        .f(fd("arcSlice", "[Int!]!").rust("Arc<[i32]>"))
        .f(fd("arcSliceOpt", "[Int!]").rust("Option<Arc<[i32]>>"))
        .f(fd("boxed", "Int!").rust("Box<i32>"))
        .f(fd("boxedOpt", "Int").rust("Option<Box<i32>>"))
        .f(fd("arc", "Int!").rust("Arc<i32>"))
        .f(fd("arcOpt", "Int").rust("Option<Arc<i32>>"))
        .f(fd("boxedVec", "[Int!]!").rust("Box<Vec<i32>>"))
        .f(fd("arcSetOpt", "[Int!]").rust("Option<Arc<HashSet<i32>>>"))
        .f(fd("vecOfOpt", "[Int]!").rust("Vec<Option<i32>>"))
        .f(fd("optVecOfOpt", "[Int]").rust("Option<Vec<Option<i32>>>"))
        .f(fd("setOfOpt", "[Int]").rust("Option<BTreeSet<Option<i32>>>"))
        .f(fd("nested", "[[Int!]!]!").rust("Vec<Vec<i32>>"))
        .f(fd("nestedSetOpt", "[[Int!]!]").rust("Option<Vec<HashSet<i32>>>"))
        .f(fd("dequeOfLinkedOpt", "[[Int!]!]").rust("Option<VecDeque<LinkedList<i32>>>"))
        .f(fd("deep", "[[Int]]").rust("Option<Vec<Option<Vec<Option<i32>>>>>"))
        .f(fd("colorsOpt", "[Color!]").rust("Option<HashSet<Color>>"))
        .f(fd("strings", "[String!]!").rust("BTreeSet<String>"))
        .f(fd("things", "[Meta!]!").rust("Vec<Meta>"))
        .f(fd("thingsOpt", "[Meta]").rust("Option<LinkedList<Option<Meta>>>"))
        .f(fd("vecOfBoxOpt", "[Int]!").rust("Vec<Box<Option<i32>>>"))
        .f(fd("vecOfArcOpt", "[Int]").rust("Option<Vec<Arc<Option<i32>>>>"))
}

/// borrowed and fallible results
pub struct Refs {
    pub v: Vec<i32>,
    pub s: String,
}
#[Object]
impl Refs {
    async fn slice(&self) -> &[i32] {
        &self.v
    }
    async fn slice_opt(&self) -> Option<&[i32]> {
        None
    }
    async fn vec_ref(&self) -> &Vec<i32> {
        &self.v
    }
    async fn fallible(&self) -> Result<Vec<i32>> {
        Ok(vec![])
    }
    async fn fallible_opt(&self) -> Result<Option<Vec<i32>>> {
        Ok(None)
    }
    async fn text(&self) -> &str {
        &self.s
    }
    async fn cow(&self) -> std::borrow::Cow<'_, str> {
        std::borrow::Cow::Borrowed(&self.s)
    }
    async fn text_opt(&self) -> Option<&String> {
        None
    }
    async fn refs_of_opt(&self) -> Vec<&Option<i32>> {
        vec![]
    }
}
fn d_refs() -> ZType {
    ty("object", "Refs")
        .f(fd("slice", "[Int!]!").rust("&[i32]"))
        .f(fd("sliceOpt", "[Int!]").rust("Option<&[i32]>"))
        .f(fd("vecRef", "[Int!]!").rust("&Vec<i32>"))
        .f(fd("fallible", "[Int!]!"))
        .f(fd("fallibleOpt", "[Int!]"))
        .f(fd("text", "String!").rust("&str"))
        .f(fd("cow", "String!"))
        .f(fd("textOpt", "String").rust("Option<&String>"))
        .f(fd("refsOfOpt", "[Int]!").rust("Vec<&Option<i32>>"))
}

// ------------------------------------------------------------------ input objects

#[derive(InputObject, Default)]
pub struct Page {
    /// Page size.
    #[graphql(default = 10)]
    pub first: i32,
    pub after: Option<String>,
}
fn d_page_fields() -> Vec<ZIv> {
    vec![iv("first", "Int!").desc("Page size.").dflt("10"), iv("after", "String")]
}
fn d_page() -> ZType {
    ty("input", "Page").is(d_page_fields())
}

/// Filter for things.
#[derive(InputObject)]
#[graphql(name = "ThingFilter", rename_fields = "snake_case", inaccessible, tag = "filters")]
pub struct Filter {
    /// How many.
    #[graphql(default = 5)]
    pub max_count: i32,
    #[graphql(default)]
    pub off_set: i32,
    #[graphql(default_with = "\"a b\".to_string()")]
    pub text: String,
    #[graphql(default_with = "vec![1, 2]")]
    pub ids: Vec<i32>,
    #[graphql(default_with = "Color::Red")]
    pub color: Color,
    #[graphql(default_with = "Some(HashSet::from([Color::Blue]))")]
    pub colors: Option<HashSet<Color>>,
    #[graphql(name = "theMode")]
    pub mode: Option<RunMode>,
    #[graphql(deprecation = "no longer used")]
    pub legacy: Option<i32>,
    #[graphql(deprecation)]
    pub older: Option<i32>,
    #[graphql(deprecation = "use max_count", default = 7)]
    pub old_max: i32,
    #[graphql(visible = false)]
    pub hidden: Option<i32>,
    #[graphql(visible = "vb2")]
    pub gated: Option<i32>,
    #[graphql(inaccessible, tag = "a", tag = "b")]
    pub marked: Option<i32>,
    #[graphql(secret)]
    pub pass_word: Option<String>,
    #[graphql(skip)]
    pub skipped: i32,
    #[graphql(flatten)]
    pub page: Page,
    pub nested: Option<Box<Filter>>,
    pub stamp: Option<Stamp>,
}
fn d_filter() -> ZType {
    ty("input", "ThingFilter")
        .desc("Filter for things.")
        .inacc()
        .tag("filters")
        .i(iv("max_count", "Int!").desc("How many.").dflt("5"))
        .i(iv("off_set", "Int!").dflt("0"))
        .i(iv("text", "String!").dflt("\"a b\""))
        .i(iv("ids", "[Int!]!").rust("Vec<i32>").dflt("[1, 2]"))
        .i(iv("color", "Color!").dflt("RED"))
        .i(iv("colors", "[Color!]").rust("Option<HashSet<Color>>").dflt("[BLUE]"))
        .i(iv("theMode", "Mode"))
        .i(iv("legacy", "Int").dep("no longer used"))
        .i(iv("older", "Int").dep0())
        .i(iv("old_max", "Int!").dflt("7").dep("use max_count"))
        .i(iv("hidden", "Int").never())
        .i(iv("gated", "Int").bit(2))
        .i(iv("marked", "Int").inacc().tag("a").tag("b"))
        .i(iv("pass_word", "String"))
        .is(d_page_fields())
        .i(iv("nested", "ThingFilter").rust("Option<Box<Filter>>"))
        .i(iv("stamp", "Stamp"))
}

/// Pick one.
#[derive(OneofObject)]
#[graphql(name = "Picker", rename_fields = "snake_case", tag = "pick")]
pub enum Pick {
    ById(i32),
    /// By its name.
    ByName(String),
    #[graphql(name = "tint")]
    ByColor(Color),
    ByIds(Vec<i32>),
    BySet(HashSet<i32>),
    #[graphql(deprecation = "use by_id")]
    ByLegacy(i32),
    #[graphql(visible = "vb2")]
    ByGate(i32),
    #[graphql(inaccessible, tag = "p", secret)]
    ByMark(String),
    ByPage(Page),
}
/// (a oneof member of type `T` is an optional field: registered through `T::type_name()`, which is
/// also what `Option<T>` registers — hence `.rust("Option<…>")` below)
fn d_pick() -> ZType {
    ty("input", "Picker")
        .desc("Pick one.")
        .tag("pick")
        .one_of()
        .i(iv("by_id", "Int"))
        .i(iv("by_name", "String").desc("By its name."))
        .i(iv("tint", "Color"))
        .i(iv("by_ids", "[Int!]").rust("Option<Vec<i32>>"))
        .i(iv("by_set", "[Int!]").rust("Option<HashSet<i32>>"))
        .i(iv("by_legacy", "Int").dep("use by_id"))
        .i(iv("by_gate", "Int").bit(2))
        .i(iv("by_mark", "String").inacc().tag("p"))
        .i(iv("by_page", "Page"))
}

/// A point.
#[derive(SimpleObject, InputObject, Default)]
#[graphql(input_name = "PointInput")]
pub struct Point {
    pub x: i32,
    #[graphql(default = 1)]
    pub y: i32,
    #[graphql(skip_input)]
    pub norm: i32,
    #[graphql(skip_output)]
    pub unit: Option<String>,
}
fn d_point() -> ZType {
    ty("object", "Point").desc("A point.").f(fd("x", "Int!")).f(fd("y", "Int!")).f(fd("norm", "Int!"))
}
fn d_point_input() -> ZType {
    ty("input", "PointInput").desc("A point.").i(iv("x", "Int!")).i(iv("y", "Int!").dflt("1")).i(iv("unit", "String"))
}

// ------------------------------------------------------------------ objects

#[derive(SimpleObject, Default, Clone)]
#[graphql(rename_fields = "PascalCase")]
pub struct Meta {
    /// Who made it.
    pub author: Option<String>,
    #[graphql(deprecation = "use author")]
    pub made_by: Option<String>,
}
fn d_meta_fields() -> Vec<ZField> {
    vec![fd("Author", "String").desc("Who made it."), fd("MadeBy", "String").dep("use author")]
}
fn d_meta() -> ZType {
    ty("object", "Meta").fs(d_meta_fields())
}

/// A thing with a "quoted" word.
#[derive(SimpleObject)]
#[graphql(complex, name = "Thing", rename_fields = "snake_case", tag = "team-a")]
pub struct ThingObj {
    /// The id.
    pub id: ID,
    #[graphql(deprecation = "use id")]
    pub old_id: i32,
    #[graphql(deprecation)]
    pub older_id: i32,
    #[graphql(name = "displayName")]
    pub name: String,
    #[graphql(visible = false)]
    pub hidden: i32,
    #[graphql(visible = "vb3")]
    pub gated: i32,
    #[graphql(inaccessible, tag = "x", tag = "y")]
    pub marked: i32,
    #[graphql(skip)]
    pub skipped: i32,
    #[graphql(flatten)]
    pub meta: Meta,
    pub color: Color,
    pub point: Option<Point>,
}
#[ComplexObject]
impl ThingObj {
    /// Computed.
    async fn full_name(
        &self,
        #[graphql(default = 2, desc = "Repeat.")] times: i32,
        #[graphql(deprecation = "unused")] sep: Option<String>,
        #[graphql(deprecation)] pad: Option<i32>,
        #[graphql(name = "UPPER")] upper_case: Option<bool>,
    ) -> String {
        String::new()
    }
    #[graphql(skip)]
    async fn helper(&self) -> i32 {
        0
    }
    #[graphql(deprecation = "gone")]
    async fn old_calc(&self, set: Option<HashSet<i32>>) -> i32 {
        0
    }
    #[graphql(name = "exact_name", inaccessible, tag = "c")]
    async fn renamed(&self) -> Option<Vec<Color>> {
        None
    }
}
fn d_thing() -> ZType {
    ty("object", "Thing")
        .desc("A thing with a \"quoted\" word.")
        .tag("team-a")
        .f(fd("id", "ID!").desc("The id."))
        .f(fd("old_id", "Int!").dep("use id"))
        .f(fd("older_id", "Int!").dep0())
        .f(fd("displayName", "String!"))
        .f(fd("hidden", "Int!").never())
        .f(fd("gated", "Int!").bit(3))
        .f(fd("marked", "Int!").inacc().tag("x").tag("y"))
        .fs(d_meta_fields())
        .f(fd("color", "Color!"))
        .f(fd("point", "Point"))
        .f(fd("fullName", "String!")
            .desc("Computed.")
            .arg(iv("times", "Int!").desc("Repeat.").dflt("2"))
            .arg(iv("sep", "String").dep("unused"))
            .arg(iv("pad", "Int").dep0())
            .arg(iv("UPPER", "Boolean")))
        .f(fd("oldCalc", "Int!").dep("gone").arg(iv("set", "[Int!]").rust("Option<HashSet<i32>>")))
        .f(fd("exact_name", "[Color!]").rust("Option<Vec<Color>>").inacc().tag("c"))
}

/// the implementers' plain versions of the `Node` fields (their own declarations, no decoration)
fn d_node_fields_plain() -> Vec<ZField> {
    vec![
        fd("legacy", "Int!").arg(iv("limit", "Int!")).arg(iv("count", "Int")),
        fd("current", "Int!")
            .arg(iv("limit", "Int!"))
            .arg(iv("count", "Int"))
            .arg(iv("offset", "Int"))
            .arg(iv("set", "[Int!]").rust("Option<HashSet<i32>>"))
            .arg(iv("undef", "[Int!]").rust("MaybeUndefined<Vec<i32>>"))
            .arg(iv("dbg", "Boolean"))
            .arg(iv("marked", "Int"))
            .arg(iv("key", "String")),
        fd("plain", "Int!").arg(iv("first", "Int")),
    ]
}

pub struct Widget {
    pub id: ID,
}
/// A widget.
#[Object]
impl Widget {
    async fn id(&self) -> &ID {
        &self.id
    }
    async fn legacy(&self, limit: i32, count: Option<i32>) -> i32 {
        0
    }
    async fn current(
        &self,
        limit: i32,
        count: Option<i32>,
        offset: Option<i32>,
        set: Option<HashSet<i32>>,
        undef: MaybeUndefined<Vec<i32>>,
        dbg: Option<bool>,
        marked: Option<i32>,
        key: Option<String>,
    ) -> i32 {
        0
    }
    async fn plain(&self, first: Option<i32>) -> i32 {
        0
    }
    #[graphql(name = "display_name")]
    async fn display_name(&self, #[graphql(name = "UPPER_CASE", default = false)] upper_case: bool) -> String {
        String::new()
    }
    #[graphql(name = "label")]
    async fn label_text(&self) -> Option<String> {
        None
    }
}
fn d_widget() -> ZType {
    ty("object", "Widget")
        .desc("A widget.")
        .implements("Node")
        .implements("Named")
        .f(fd("id", "ID!"))
        .fs(d_node_fields_plain())
        .f(fd("display_name", "String!").arg(iv("UPPER_CASE", "Boolean!").dflt("false")))
        .f(fd("label", "String"))
}

#[derive(SimpleObject)]
#[graphql(complex)]
pub struct Gadget {
    pub id: ID,
    /// In kilograms.
    pub weight: f64,
}
#[ComplexObject]
impl Gadget {
    async fn legacy(&self, limit: i32, count: Option<i32>) -> i32 {
        0
    }
    async fn current(
        &self,
        limit: i32,
        count: Option<i32>,
        offset: Option<i32>,
        set: Option<HashSet<i32>>,
        undef: MaybeUndefined<Vec<i32>>,
        dbg: Option<bool>,
        marked: Option<i32>,
        key: Option<String>,
    ) -> i32 {
        0
    }
    async fn plain(&self, first: Option<i32>) -> i32 {
        0
    }
}
fn d_gadget() -> ZType {
    ty("object", "Gadget")
        .implements("Node")
        .f(fd("id", "ID!"))
        .f(fd("weight", "Float!").desc("In kilograms."))
        .fs(d_node_fields_plain())
}

pub struct Tagged;
#[Object(visible = "vb5")]
impl Tagged {
    #[graphql(name = "display_name")]
    async fn display_name(&self, #[graphql(name = "UPPER_CASE")] upper_case: bool) -> String {
        String::new()
    }
    #[graphql(name = "label")]
    async fn label_text(&self) -> Option<String> {
        None
    }
}
fn d_tagged() -> ZType {
    ty("object", "Tagged")
        .bit(5)
        .implements("Named")
        .f(fd("display_name", "String!").arg(iv("UPPER_CASE", "Boolean!")))
        .f(fd("label", "String"))
}

/// A node.
#[derive(Interface)]
#[graphql(
    name = "Node",
    tag = "iface",
    field(name = "id", ty = "&ID", desc = "The id."),
    field(
        name = "legacy",
        ty = "i32",
        desc = "Old listing.",
        deprecation = "use `current`",
        arg(name = "limit", ty = "i32"),
        arg(name = "count", ty = "Option<i32>", deprecation = "use \"limit\" instead")
    ),
    field(
        name = "current",
        ty = "i32",
        arg(name = "limit", ty = "i32", default = 10, desc = "Page size."),
        arg(name = "count", ty = "Option<i32>", deprecation = "use \"limit\" instead"),
        arg(name = "offset", ty = "Option<i32>", deprecation),
        arg(name = "set", ty = "Option<HashSet<i32>>"),
        arg(name = "undef", ty = "MaybeUndefined<Vec<i32>>"),
        arg(name = "dbg", ty = "Option<bool>", visible = "vb5"),
        arg(name = "marked", ty = "Option<i32>", inaccessible, tag = "t"),
        arg(name = "key", ty = "Option<String>", secret)
    ),
    field(name = "plain", ty = "i32", deprecation, arg(name = "first", ty = "Option<i32>"))
)]
pub enum NodeI {
    Widget(Widget),
    Gadget(Gadget),
}
fn d_node() -> ZType {
    ty("interface", "Node")
        .desc("A node.")
        .tag("iface")
        .f(fd("id", "ID!").desc("The id."))
        .f(fd("legacy", "Int!")
            .desc("Old listing.")
            .dep("use `current`")
            .arg(iv("limit", "Int!"))
            .arg(iv("count", "Int").dep("use \"limit\" instead")))
        .f(fd("current", "Int!")
            .arg(iv("limit", "Int!").desc("Page size.").dflt("10"))
            .arg(iv("count", "Int").dep("use \"limit\" instead"))
            .arg(iv("offset", "Int").dep0())
            .arg(iv("set", "[Int!]").rust("Option<HashSet<i32>>"))
            .arg(iv("undef", "[Int!]").rust("MaybeUndefined<Vec<i32>>"))
            .arg(iv("dbg", "Boolean").bit(5))
            .arg(iv("marked", "Int").inacc().tag("t"))
            .arg(iv("key", "String")))
        .f(fd("plain", "Int!").dep0().arg(iv("first", "Int")))
}

#[derive(Interface)]
#[graphql(
    name = "Named",
    rename_fields = "snake_case",
    rename_args = "SCREAMING_SNAKE_CASE",
    visible = "vb5",
    inaccessible,
    field(name = "display_name", ty = "String", desc = "Shown.", arg(name = "upper_case", ty = "bool", default = false)),
    field(name = "label", method = "label_text", ty = "Option<String>", inaccessible, tag = "lbl", visible = "vb0")
)]
pub enum NamedI {
    Widget(Widget),
    Tagged(Tagged),
}
fn d_named() -> ZType {
    ty("interface", "Named")
        .bit(5)
        .inacc()
        .f(fd("display_name", "String!").desc("Shown.").arg(iv("UPPER_CASE", "Boolean!").dflt("false")))
        .f(fd("label", "String").inacc().tag("lbl").bit(0))
}

#[derive(SimpleObject, Default)]
pub struct PartA {
    pub alpha: i32,
    #[graphql(deprecation = "merged away")]
    pub alpha_old: Option<i32>,
}
fn d_part_a_fields() -> Vec<ZField> {
    vec![fd("alpha", "Int!"), fd("alphaOld", "Int").dep("merged away")]
}
fn d_part_a() -> ZType {
    ty("object", "PartA").fs(d_part_a_fields())
}

#[derive(Default)]
pub struct PartB;
#[Object]
impl PartB {
    /// Second part.
    async fn beta(&self, #[graphql(default = 3)] x: i32, #[graphql(deprecation)] y: Option<HashSet<i32>>) -> Vec<i32> {
        vec![]
    }
}
fn d_part_b_fields() -> Vec<ZField> {
    vec![fd("beta", "[Int!]!").rust("Vec<i32>").desc("Second part.").arg(iv("x", "Int!").dflt("3")).arg(iv("y", "[Int!]").rust("Option<HashSet<i32>>").dep0())]
}
fn d_part_b() -> ZType {
    ty("object", "PartB").fs(d_part_b_fields())
}

/// Both parts.
#[derive(MergedObject, Default)]
#[graphql(name = "Bundle", inaccessible, tag = "merged")]
pub struct BundleObj(PartA, PartB);
fn d_bundle() -> ZType {
    ty("object", "Bundle").desc("Both parts.").inacc().tag("merged").fs(d_part_a_fields()).fs(d_part_b_fields())
}

/// An account.
#[derive(SimpleObject)]
#[graphql(extends, visible = "vb7")]
pub struct Account {
    pub id: ID,
    #[graphql(name = "ownerName")]
    pub owner: String,
}
fn d_account() -> ZType {
    ty("object", "Account").desc("An account.").extends().bit(7).f(fd("id", "ID!")).f(fd("ownerName", "String!"))
}

pub struct Tools;
#[Object(rename_fields = "SCREAMING_SNAKE_CASE", rename_args = "PascalCase", inaccessible, tag = "tools", tag = "internal")]
impl Tools {
    async fn do_it(&self, how_many: i32, #[graphql(default_with = "vec![Some(1), None]")] with_list: Vec<Option<i32>>) -> i32 {
        0
    }
    #[graphql(name = "exact_name")]
    async fn other_one(&self, #[graphql(name = "arg_x")] a: Option<i32>) -> i32 {
        0
    }
}
fn d_tools() -> ZType {
    ty("object", "Tools")
        .inacc()
        .tag("tools")
        .tag("internal")
        .f(fd("DO_IT", "Int!").arg(iv("HowMany", "Int!")).arg(iv("WithList", "[Int]!").rust("Vec<Option<i32>>").dflt("[1, null]")))
        .f(fd("exact_name", "Int!").arg(iv("arg_x", "Int")))
}

#[derive(SimpleObject, Default)]
pub struct ExtraInfo {
    pub rank: i32,
    /// A note.
    pub note: Option<String>,
}
fn d_extra_fields() -> Vec<ZField> {
    vec![fd("rank", "Int!"), fd("note", "String").desc("A note.")]
}
fn d_extra() -> ZType {
    ty("object", "ExtraInfo").fs(d_extra_fields())
}

// ------------------------------------------------------------------ unions

#[derive(Union)]
#[graphql(name = "More", visible = "vb3")]
pub enum MoreU {
    Gadget(Gadget),
    PartA(PartA),
}
fn d_more() -> ZType {
    ty("union", "More").bit(3).member("Gadget").member("PartA")
}

/// One of several.
#[derive(Union)]
#[graphql(name = "Either", inaccessible, tag = "u")]
pub enum EitherU {
    Thing(ThingObj),
    Widget(Widget),
    #[graphql(flatten)]
    More(MoreU),
}
fn d_either() -> ZType {
    ty("union", "Either").desc("One of several.").inacc().tag("u").member("Thing").member("Widget").member("Gadget").member("PartA")
}

// ------------------------------------------------------------------ roots

/// The query root.
///
/// Second paragraph.
#[derive(Description)]
pub struct Query;

#[Object(use_type_description)]
impl Query {
    /// Finds things.
    async fn things(
        &self,
        #[graphql(desc = "The filter.")] filter: Option<Filter>,
        #[graphql(default = 10)] first: i32,
        #[graphql(default)] skip_count: i32,
        #[graphql(default_with = "\"x y\".to_string()")] after: String,
        #[graphql(default_with = "Color::Red")] color: Color,
        #[graphql(default_with = "vec![1, 2]")] ids: Vec<i32>,
        #[graphql(default_with = "Some(HashSet::from([Color::Blue]))")] colors: Option<HashSet<Color>>,
        #[graphql(name = "theMode")] mode: Option<RunMode>,
        #[graphql(deprecation = "no longer used")] legacy: Option<i32>,
        #[graphql(deprecation)] older: Option<i32>,
        #[graphql(deprecation = "use first", default = 7)] old_first: i32,
        #[graphql(visible = false)] hidden: Option<i32>,
        #[graphql(visible = "vb2")] gated: Option<i32>,
        #[graphql(inaccessible, tag = "a", tag = "b")] marked: Option<i32>,
        #[graphql(secret)] pass_word: Option<String>,
        page: Option<Page>,
        point: Option<Point>,
    ) -> Vec<ThingObj> {
        vec![]
    }
    async fn boxes(
        &self,
        vec: Vec<i32>,
        vec_opt: Option<Vec<i32>>,
        vec_undef: MaybeUndefined<Vec<i32>>,
        deque: VecDeque<i32>,
        deque_opt: Option<VecDeque<i32>>,
        deque_undef: MaybeUndefined<VecDeque<i32>>,
        linked: LinkedList<i32>,
        linked_opt: Option<LinkedList<i32>>,
        linked_undef: MaybeUndefined<LinkedList<i32>>,
        hash_set: HashSet<i32>,
        hash_set_opt: Option<HashSet<i32>>,
        hash_set_undef: MaybeUndefined<HashSet<i32>>,
        btree_set: BTreeSet<i32>,
        btree_set_opt: Option<BTreeSet<i32>>,
        btree_set_undef: MaybeUndefined<BTreeSet<i32>>,
        array: [i32; 2],
        array_opt: Option<[i32; 2]>,
        array_undef: MaybeUndefined<[i32; 2]>,
        box_slice: Box<[i32]>,
        box_slice_opt: Option<Box<[i32]>>,
        arc_slice: Arc<[i32]>,
        arc_slice_undef: MaybeUndefined<Arc<[i32]>>,
        boxed: Box<i32>,
        boxed_opt: Option<Box<i32>>,
        arc: Arc<i32>,
        arc_opt: Option<Arc<i32>>,
        boxed_vec: Box<Vec<i32>>,
        boxed_set_opt: Option<Box<HashSet<i32>>>,
        undef_scalar: MaybeUndefined<i32>,
        vec_of_opt: Vec<Option<i32>>,
        opt_vec_of_opt: Option<Vec<Option<i32>>>,
        set_of_opt: Option<BTreeSet<Option<i32>>>,
        nested: Vec<Vec<i32>>,
        nested_set_opt: Option<Vec<HashSet<i32>>>,
        set_of_vec_opt: Option<HashSet<Vec<i32>>>,
        deque_of_linked_undef: MaybeUndefined<VecDeque<LinkedList<i32>>>,
        deep: Option<Vec<Option<Vec<Option<i32>>>>>,
        colors_opt: Option<HashSet<Color>>,
        strings: BTreeSet<String>,
        vec_of_box_opt: Vec<Box<Option<i32>>>,
        set_of_arc_opt: Option<BTreeSet<Arc<Option<i32>>>>,
    ) -> i32 {
        0
    }
    async fn boxes_in(&self, boxes: Option<Boxes>) -> i32 {
        0
    }
    async fn shelves(&self) -> Option<Shelves> {
        None
    }
    async fn refs(&self) -> Option<Refs> {
        None
    }
    async fn pick(&self, by: Pick) -> Option<EitherU> {
        None
    }
    async fn more(&self) -> Option<MoreU> {
        None
    }
    async fn node(&self, id: ID) -> Option<NodeI> {
        None
    }
    async fn named(&self) -> Vec<NamedI> {
        vec![]
    }
    async fn tagged(&self) -> Option<Tagged> {
        None
    }
    async fn bundle(&self) -> BundleObj {
        BundleObj::default()
    }
    async fn part_a(&self) -> Option<PartA> {
        None
    }
    async fn part_b(&self) -> Option<PartB> {
        None
    }
    async fn account(&self) -> Option<Account> {
        None
    }
    async fn tools(&self) -> Tools {
        Tools
    }
    async fn meta(&self) -> Option<Meta> {
        None
    }
    async fn extra_info(&self) -> Option<ExtraInfo> {
        None
    }
    async fn scalars(
        &self,
        stamp: Option<Stamp>,
        money: Option<Money>,
        plain: Option<PlainCount>,
        plain_list: Vec<PlainCount>,
        weight: Weight,
        len: Option<Vec<Len>>,
        blob: Option<Blob>,
    ) -> Option<Stamp> {
        None
    }
    async fn money(&self) -> Option<Money> {
        None
    }
    async fn plain_count(&self) -> PlainCount {
        PlainCount(0)
    }
    async fn weight(&self) -> Option<Vec<Weight>> {
        None
    }
    async fn len(&self) -> Len {
        Len(0)
    }
    async fn blob(&self) -> Option<Blob> {
        None
    }
    #[graphql(name = "renamedField")]
    async fn original(&self) -> i32 {
        0
    }
    #[graphql(deprecation = "gone")]
    async fn old(&self) -> i32 {
        0
    }
    #[graphql(deprecation)]
    async fn older(&self) -> i32 {
        0
    }
    #[graphql(visible = false)]
    async fn hidden(&self) -> i32 {
        0
    }
    #[graphql(visible = "vb3")]
    async fn gated(&self) -> Option<RunMode> {
        None
    }
    #[graphql(inaccessible, tag = "q")]
    async fn marked(&self) -> i32 {
        0
    }
    #[graphql(skip)]
    async fn helper(&self) -> i32 {
        0
    }
    #[graphql(flatten)]
    async fn extra(&self) -> ExtraInfo {
        ExtraInfo::default()
    }
    async fn last(&self, mode: RunMode) -> Option<Color> {
        None
    }
}
fn d_query() -> ZType {
    ty("object", "Query")
        .desc("The query root.\n\nSecond paragraph.")
        .f(fd("things", "[Thing!]!")
            .rust("Vec<ThingObj>")
            .desc("Finds things.")
            .arg(iv("filter", "ThingFilter").desc("The filter."))
            .arg(iv("first", "Int!").dflt("10"))
            .arg(iv("skipCount", "Int!").dflt("0"))
            .arg(iv("after", "String!").dflt("\"x y\""))
            .arg(iv("color", "Color!").dflt("RED"))
            .arg(iv("ids", "[Int!]!").rust("Vec<i32>").dflt("[1, 2]"))
            .arg(iv("colors", "[Color!]").rust("Option<HashSet<Color>>").dflt("[BLUE]"))
            .arg(iv("theMode", "Mode"))
            .arg(iv("legacy", "Int").dep("no longer used"))
            .arg(iv("older", "Int").dep0())
            .arg(iv("oldFirst", "Int!").dflt("7").dep("use first"))
            .arg(iv("hidden", "Int").never())
            .arg(iv("gated", "Int").bit(2))
            .arg(iv("marked", "Int").inacc().tag("a").tag("b"))
            .arg(iv("passWord", "String"))
            .arg(iv("page", "Page"))
            .arg(iv("point", "PointInput")))
        .f(fd("boxes", "Int!").args(d_containers_in()))
        .f(fd("boxesIn", "Int!").arg(iv("boxes", "Boxes")))
        .f(fd("shelves", "Shelves"))
        .f(fd("refs", "Refs"))
        .f(fd("pick", "Either").arg(iv("by", "Picker!")))
        .f(fd("more", "More"))
        .f(fd("node", "Node").arg(iv("id", "ID!")))
        .f(fd("named", "[Named!]!").rust("Vec<NamedI>"))
        .f(fd("tagged", "Tagged"))
        .f(fd("bundle", "Bundle!"))
        .f(fd("partA", "PartA"))
        .f(fd("partB", "PartB"))
        .f(fd("account", "Account"))
        .f(fd("tools", "Tools!"))
        .f(fd("meta", "Meta"))
        .f(fd("extraInfo", "ExtraInfo"))
        .f(fd("scalars", "Stamp")
            .arg(iv("stamp", "Stamp"))
            .arg(iv("money", "Money"))
            .arg(iv("plain", "Int"))
            .arg(iv("plainList", "[Int!]!").rust("Vec<PlainCount>"))
            .arg(iv("weight", "Weight!"))
            .arg(iv("len", "[Length!]").rust("Option<Vec<Len>>"))
            .arg(iv("blob", "BlobData")))
        .f(fd("money", "Money"))
        .f(fd("plainCount", "Int!"))
        .f(fd("weight", "[Weight!]").rust("Option<Vec<Weight>>"))
        .f(fd("len", "Length!"))
        .f(fd("blob", "BlobData"))
        .f(fd("renamedField", "Int!"))
        .f(fd("old", "Int!").dep("gone"))
        .f(fd("older", "Int!").dep0())
        .f(fd("hidden", "Int!").never())
        .f(fd("gated", "Mode").bit(3))
        .f(fd("marked", "Int!").inacc().tag("q"))
        .fs(d_extra_fields())
        .f(fd("last", "Color").arg(iv("mode", "Mode!")))
}

pub struct Mutation;
/// Mutations.
#[Object(name = "Mut", visible = "vb4", rename_fields = "snake_case", rename_args = "UPPERCASE")]
impl Mutation {
    async fn touch_thing(&self, thing_id: ID, #[graphql(name = "exact")] other: Option<i32>) -> bool {
        true
    }
    #[graphql(deprecation = "use touch_thing")]
    async fn set_boxes(&self, boxes: Boxes, #[graphql(deprecation = "ignored")] force: Option<bool>) -> Option<Shelves> {
        None
    }
}
fn d_mutation() -> ZType {
    ty("object", "Mut")
        .desc("Mutations.")
        .bit(4)
        .f(fd("touch_thing", "Boolean!").arg(iv("THING_ID", "ID!")).arg(iv("exact", "Int")))
        .f(fd("set_boxes", "Shelves").dep("use touch_thing").arg(iv("BOXES", "Boxes!")).arg(iv("FORCE", "Boolean").dep("ignored")))
}

pub struct Sub;
/// Event streams.
#[Subscription(name = "Events", rename_args = "snake_case")]
impl Sub {
    /// Ticks.
    async fn ticks(
        &self,
        #[graphql(default = 1, desc = "Step.")] step: i32,
        #[graphql(deprecation = "unused")] skip_n: Option<i32>,
        #[graphql(deprecation)] pad: Option<i32>,
        set: Option<HashSet<i32>>,
        undef_set: MaybeUndefined<HashSet<i32>>,
        list: Vec<Option<i32>>,
        #[graphql(visible = "vb5")] debug: Option<bool>,
        #[graphql(visible = false)] hidden: Option<bool>,
        #[graphql(secret)] key: Option<String>,
        #[graphql(name = "exactName")] other: Option<Color>,
    ) -> impl Stream<Item = i32> {
        stream::iter(vec![1])
    }
    #[graphql(deprecation = "use ticks")]
    async fn old_ticks(&self) -> impl Stream<Item = i32> {
        stream::iter(vec![1])
    }
    #[graphql(deprecation)]
    async fn older_ticks(&self) -> impl Stream<Item = i32> {
        stream::iter(vec![1])
    }
    #[graphql(name = "colours")]
    async fn colors(&self) -> impl Stream<Item = Color> {
        stream::iter(vec![Color::Red])
    }
    #[graphql(visible = false)]
    async fn hidden(&self) -> impl Stream<Item = i32> {
        stream::iter(vec![1])
    }
    #[graphql(visible = "vb6")]
    async fn gated(&self) -> impl Stream<Item = Option<Money>> {
        stream::iter(vec![None])
    }
    #[graphql(skip)]
    async fn helper(&self) -> impl Stream<Item = i32> {
        stream::iter(vec![1])
    }
    async fn lists(&self) -> impl Stream<Item = Vec<Option<i32>>> {
        stream::iter(vec![vec![]])
    }
    async fn sets(&self) -> impl Stream<Item = Option<HashSet<i32>>> {
        stream::iter(vec![None])
    }
    async fn fallible(&self) -> Result<impl Stream<Item = Option<Meta>>> {
        Ok(stream::iter(vec![None]))
    }
}
fn d_subscription() -> ZType {
    ty("object", "Events")
        .desc("Event streams.")
        .f(fd("ticks", "Int!")
            .desc("Ticks.")
            .arg(iv("step", "Int!").desc("Step.").dflt("1"))
            .arg(iv("skip_n", "Int").dep("unused"))
            .arg(iv("pad", "Int").dep0())
            .arg(iv("set", "[Int!]").rust("Option<HashSet<i32>>"))
            .arg(iv("undef_set", "[Int!]").rust("MaybeUndefined<HashSet<i32>>"))
            .arg(iv("list", "[Int]!").rust("Vec<Option<i32>>"))
            .arg(iv("debug", "Boolean").bit(5))
            .arg(iv("hidden", "Boolean").never())
            .arg(iv("key", "String"))
            .arg(iv("exactName", "Color")))
        .f(fd("oldTicks", "Int!").dep("use ticks"))
        .f(fd("olderTicks", "Int!").dep0())
        .f(fd("colours", "Color!"))
        .f(fd("hidden", "Int!").never())
        .f(fd("gated", "Money").rust("Option<Money>").bit(6))
        .f(fd("lists", "[Int]!").rust("Vec<Option<i32>>"))
        .f(fd("sets", "[Int!]").rust("Option<HashSet<i32>>"))
        .f(fd("fallible", "Meta"))
}

// ------------------------------------------------------------------ the schema and its declared description

pub type ZooSchema = Schema<Query, Mutation, Sub>;
pub type ZooSchemaNoSub = Schema<Query, Mutation, EmptySubscription>;

pub fn build() -> ZooSchema {
    Schema::build(Query, Mutation, Sub).finish()
}
/// the same declarations without the subscription root (C17's model has no subscription root)
pub fn build_no_sub() -> ZooSchemaNoSub {
    Schema::build(Query, Mutation, EmptySubscription).finish()
}

pub fn declared(with_subscription: bool) -> ZSchema {
    let mut types = vec![
        d_color(),
        d_mode(),
        d_stamp(),
        d_money(),
        d_weight(),
        d_length(),
        d_blob(),
        d_boxes(),
        d_shelves(),
        d_refs(),
        d_page(),
        d_filter(),
        d_pick(),
        d_point(),
        d_point_input(),
        d_meta(),
        d_thing(),
        d_widget(),
        d_gadget(),
        d_tagged(),
        d_node(),
        d_named(),
        d_part_a(),
        d_part_b(),
        d_bundle(),
        d_account(),
        d_tools(),
        d_extra(),
        d_more(),
        d_either(),
        d_query(),
        d_mutation(),
    ];
    if with_subscription {
        types.push(d_subscription());
    }
    ZSchema { query: "Query", mutation: Some("Mut"), subscription: if with_subscription { Some("Events") } else { None }, types }
}

// ------------------------------------------------------------------ wire formats

pub mod wire {
    use super::zd::*;
    use agvh::{Sexp, atom, list, node, num, st};

    /// the GraphQL name declared for a Rust leaf type (built-in scalars; the zoo's own types with
    /// their `name = …` attributes; `PlainCount` is a transparent `NewType` over `i32`)
    const LEAVES: &[(&str, &str)] = &[
        ("i32", "Int"),
        ("f64", "Float"),
        ("bool", "Boolean"),
        ("String", "String"),
        ("str", "String"),
        ("ID", "ID"),
        ("Color", "Color"),
        ("RunMode", "Mode"),
        ("Meta", "Meta"),
        ("Money", "Money"),
        ("PlainCount", "Int"),
        ("Weight", "Weight"),
        ("Len", "Length"),
        ("Filter", "ThingFilter"),
        ("ThingObj", "Thing"),
        ("NamedI", "Named"),
    ];

    /// a Rust type, verbatim from the declaration → `(vec (option (leaf "Int")))`
    pub fn rust_type(text: &str) -> Sexp {
        fn go(t: &str) -> Sexp {
            let t = t.trim();
            if let Some(r) = t.strip_prefix('&') {
                let r = r.trim();
                if let Some(inner) = r.strip_prefix('[').and_then(|x| x.strip_suffix(']')) {
                    return node("slice", vec![go(inner)]);
                }
                return node("ref", vec![go(r)]);
            }
            if let Some(inner) = t.strip_prefix('[').and_then(|x| x.strip_suffix(']')) {
                let (elem, n) = inner.rsplit_once(';').expect("array type `[T; N]`");
                n.trim().parse::<usize>().expect("array length");
                return node("array", vec![go(elem)]);
            }
            if let Some((head, rest)) = t.split_once('<') {
                let inner = rest.strip_suffix('>').expect("closing `>`").trim();
                let slice = inner.strip_prefix('[').and_then(|x| x.strip_suffix(']')).filter(|x| !x.contains(';'));
                let tag = match (head.trim(), slice) {
                    ("Box", Some(e)) => return node("boxSlice", vec![go(e)]),
                    ("Arc", Some(e)) => return node("arcSlice", vec![go(e)]),
                    ("Vec", _) => "vec",
                    ("VecDeque", _) => "vecDeque",
                    ("LinkedList", _) => "linkedList",
                    ("HashSet", _) => "hashSet",
                    ("BTreeSet", _) => "btreeSet",
                    ("Option", _) => "option",
                    ("MaybeUndefined", _) => "undef",
                    ("Box", _) => "box",
                    ("Arc", _) => "arc",
                    (h, _) => panic!("unknown generic Rust type {h}"),
                };
                return node(tag, vec![go(inner)]);
            }
            let name = LEAVES.iter().find(|(r, _)| *r == t).unwrap_or_else(|| panic!("unknown Rust leaf type {t}")).1;
            node("leaf", vec![st(name)])
        }
        go(text)
    }

    // ---- constant literal text → C17's VALUE
    struct P<'a> {
        s: &'a [u8],
        i: usize,
    }
    impl P<'_> {
        fn ws(&mut self) {
            while self.i < self.s.len() && (self.s[self.i] == b' ' || self.s[self.i] == b',') {
                self.i += 1;
            }
        }
        fn value(&mut self) -> Sexp {
            self.ws();
            let c = self.s[self.i];
            match c {
                b'[' => {
                    self.i += 1;
                    let mut xs = vec![];
                    loop {
                        self.ws();
                        if self.s[self.i] == b']' {
                            self.i += 1;
                            break;
                        }
                        xs.push(self.value());
                    }
                    node("l", xs)
                }
                b'{' => {
                    self.i += 1;
                    let mut xs = vec![];
                    loop {
                        self.ws();
                        if self.s[self.i] == b'}' {
                            self.i += 1;
                            break;
                        }
                        let k = self.name();
                        self.ws();
                        assert_eq!(self.s[self.i], b':');
                        self.i += 1;
                        xs.push(list(vec![st(k), self.value()]));
                    }
                    node("o", xs)
                }
                b'"' => {
                    self.i += 1;
                    let mut out = String::new();
                    loop {
                        let c = self.s[self.i];
                        self.i += 1;
                        match c {
                            b'"' => break,
                            b'\\' => {
                                let e = self.s[self.i];
                                self.i += 1;
                                out.push(match e {
                                    b'n' => '\n',
                                    b't' => '\t',
                                    b'"' => '"',
                                    b'\\' => '\\',
                                    x => panic!("escape {x}"),
                                });
                            }
                            x => out.push(x as char),
                        }
                    }
                    node("s", vec![st(out)])
                }
                b'-' | b'0'..=b'9' => {
                    let j = self.i;
                    self.i += 1;
                    while self.i < self.s.len() && self.s[self.i].is_ascii_digit() {
                        self.i += 1;
                    }
                    node("i", vec![atom(std::str::from_utf8(&self.s[j..self.i]).unwrap())])
                }
                _ => {
                    let n = self.name();
                    match n.as_str() {
                        "null" => atom("null"),
                        "true" | "false" => node("b", vec![atom(n)]),
                        _ => node("e", vec![st(n)]),
                    }
                }
            }
        }
        fn name(&mut self) -> String {
            let j = self.i;
            while self.i < self.s.len() && (self.s[self.i].is_ascii_alphanumeric() || self.s[self.i] == b'_') {
                self.i += 1;
            }
            assert!(self.i > j, "name expected in default literal");
            std::str::from_utf8(&self.s[j..self.i]).unwrap().to_string()
        }
    }
    pub fn literal(text: &str) -> Sexp {
        let mut p = P { s: text.as_bytes(), i: 0 };
        let v = p.value();
        p.ws();
        assert_eq!(p.i, text.len(), "trailing text in default literal {text}");
        v
    }

    // ---- C17: (static5 (roots "Q" M) (T…) (ddefs))
    fn a17(a: &ZAttrs, with_dep: bool) -> Sexp {
        let dep = match (&a.dep, with_dep) {
            (ZDep::No, _) => atom("-"),
            (_, false) => panic!("deprecation on an element that cannot carry one"),
            (ZDep::NoReason, _) => list(vec![atom("dep")]),
            (ZDep::Reason(r), _) => node("dep", vec![st(*r)]),
        };
        node(
            "a",
            vec![
                a.desc.map(st).unwrap_or(atom("-")),
                dep,
                atom(a.inacc.to_string()),
                list(a.tags.iter().map(|t| st(*t)).collect()),
                list(vec![]),
            ],
        )
    }
    fn iv17(x: &ZIv) -> Sexp {
        let mut v = vec![st(x.name), a17(&x.a, true), st(x.ty), x.default.map(literal).unwrap_or(atom("-"))];
        v.extend(x.rust.map(rust_type));
        node("iv", v)
    }
    fn fd17(x: &ZField) -> Sexp {
        let mut v = vec![st(x.name), a17(&x.a, true), st(x.ty), list(x.args.iter().map(iv17).collect())];
        v.extend(x.rust.map(rust_type));
        node("f", v)
    }
    fn names(xs: &[&'static str]) -> Sexp {
        list(xs.iter().map(|x| st(*x)).collect())
    }
    pub fn c17(tag: &str, d: &ZSchema) -> Sexp {
        assert!(d.subscription.is_none(), "C17's model has no subscription root");
        let types = d
            .types
            .iter()
            .map(|t| match t.kind {
                "scalar" => node("scalar", vec![st(t.name), a17(&t.a, false), t.spec_by.map(st).unwrap_or(atom("-"))]),
                "object" | "interface" => node(
                    t.kind,
                    vec![st(t.name), a17(&t.a, false), atom(t.ext.to_string()), names(&t.implements), list(t.fields.iter().map(fd17).collect())],
                ),
                "union" => node("union", vec![st(t.name), a17(&t.a, false), names(&t.members)]),
                "enum" => node(
                    "enum",
                    vec![st(t.name), a17(&t.a, false), list(t.values.iter().map(|v| list(vec![st(v.name), a17(&v.a, true)])).collect())],
                ),
                "input" => node("input", vec![st(t.name), a17(&t.a, false), atom(t.one_of.to_string()), list(t.inputs.iter().map(iv17).collect())]),
                k => panic!("kind {k}"),
            })
            .collect();
        node(tag, vec![node("roots", vec![st(d.query), d.mutation.map(st).unwrap_or(atom("-"))]), list(types), node("ddefs", vec![])])
    }

    // ---- C18: (desc "Q" M S ((type …)…))
    fn tref(s: &str) -> Sexp {
        if let Some(i) = s.strip_suffix('!') {
            node("nn", vec![tref(i)])
        } else if let Some(i) = s.strip_prefix('[').and_then(|x| x.strip_suffix(']')) {
            node("list", vec![tref(i)])
        } else {
            st(s)
        }
    }
    fn opt(o: Option<&'static str>) -> Sexp {
        o.map(st).unwrap_or(atom("none"))
    }
    fn vis(v: &ZVis) -> Sexp {
        match v {
            ZVis::Always => atom("always"),
            ZVis::Never => atom("never"),
            ZVis::Bit(k) => node("bit", vec![num(*k)]),
        }
    }
    fn dep(d: &ZDep) -> Sexp {
        match d {
            ZDep::No => atom("no"),
            ZDep::NoReason => node("dep", vec![atom("none")]),
            ZDep::Reason(r) => node("dep", vec![st(*r)]),
        }
    }
    fn iv18(x: &ZIv) -> Sexp {
        let mut v = vec![st(x.name), opt(x.a.desc), tref(x.ty), opt(x.default), dep(&x.a.dep), vis(&x.a.vis)];
        v.extend(x.rust.map(rust_type));
        node("iv", v)
    }
    pub fn c18(d: &ZSchema) -> Sexp {
        let types = d
            .types
            .iter()
            .map(|t| {
                node(
                    "type",
                    vec![
                        st(t.name),
                        atom(t.kind),
                        opt(t.a.desc),
                        vis(&t.a.vis),
                        list(
                            t.fields
                                .iter()
                                .map(|f| {
                                    let mut v = vec![st(f.name), opt(f.a.desc), tref(f.ty), dep(&f.a.dep), vis(&f.a.vis), list(f.args.iter().map(iv18).collect())];
                                    v.extend(f.rust.map(rust_type));
                                    node("fd", v)
                                })
                                .collect(),
                        ),
                        list(t.inputs.iter().map(iv18).collect()),
                        list(t.values.iter().map(|v| node("ev", vec![st(v.name), opt(v.a.desc), dep(&v.a.dep), vis(&v.a.vis)])).collect()),
                        names(&t.implements),
                        names(&t.members),
                        opt(t.spec_by),
                        atom(if t.one_of { "true" } else { "false" }),
                    ],
                )
            })
            .collect();
        node("desc", vec![st(d.query), opt(d.mutation), opt(d.subscription), list(types)])
    }
}
