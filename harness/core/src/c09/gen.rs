// ------------------------------------------------------------------ generator: valid documents + one rule-targeted mutation

const MUTS: &[&str] = &[
    "none", "none", "none", "none", "none", "none",
    "unknown_field", "unknown_arg", "dup_arg", "missing_arg", "bad_arg_value", "leaf_with_sel", "composite_no_sel",
    "unknown_directive", "misplaced_directive", "dup_directive", "dir_arg_bad", "conflict_alias", "conflict_args",
    "conflict_args_cond", "var_bad_pos", "var_pos_edge", "undefined_var", "typename_dir", "typename_misc", "impossible_spread", "frag_on_leaf",
    "unknown_type_cond", "unknown_spread", "conflict_cond", "conflict_sub", "unused_fragment", "cycle", "unused_var",
    "dup_var", "dup_op_name", "dup_frag_name", "anon_plus_named", "var_non_input", "var_unknown_type",
    "var_bad_default", "upload_in_query", "sub_two_roots", "sub_typename", "op_directive", "frag_directive",
    "var_value_bad", "var_missing", "input_obj_scalar", "enum_string", "var_in_frag_undefined", "list_var_nested",
    "unknown_field_ifdef", "enum_default_string",
    // the four rule defects found by the proof work (each: the deviating shape and its spec-conforming neighbours)
    "untyped_inline_overlap", "null_default", "stale_args", "literal_beside_var",
];

/// the same constant with every enum token written as a string literal
fn enums_as_strings(v: &V) -> V {
    match v {
        V::Enum(e) => V::Str(e.clone()),
        V::List(xs) => V::List(xs.iter().map(enums_as_strings).collect()),
        V::Obj(fs) => V::Obj(fs.iter().map(|(k, x)| (k.clone(), enums_as_strings(x))).collect()),
        x => x.clone(),
    }
}
fn has_enum(v: &V) -> bool {
    match v {
        V::Enum(_) => true,
        V::List(xs) => xs.iter().any(has_enum),
        V::Obj(fs) => fs.iter().any(|(_, x)| has_enum(x)),
        _ => false,
    }
}

struct G<'a> {
    sd: &'a SchemaD,
    rng: &'a mut Rng,
    vars: Vec<VarDef>,
    supplied: Vec<(String, V)>,
    frags: Vec<Frag>,
    n: usize,
    mutation: &'static str,
    applied: bool,
    allow_vars: bool,
}

impl<'a> G<'a> {
    fn fresh(&mut self, p: &str) -> String {
        self.n += 1;
        format!("{p}{}", self.n)
    }
    fn has_ifdef(&self) -> bool {
        self.sd.dirs.iter().any(|d| d.name == "ifdef")
    }
    /// is a directive of that name registered?  (`concat` / `tagged` exist in the static flavour only:
    /// the dynamic API has no way to register an executable directive)
    fn has_dir(&self, n: &str) -> bool {
        self.sd.dirs.iter().any(|d| d.name == n)
    }
    fn want(&mut self, m: &str) -> bool {
        if !self.applied && self.mutation == m && self.rng.chance(1, 2) {
            self.applied = true;
            true
        } else {
            false
        }
    }

    // ---------------------------------------------------------------- values
    fn const_value(&mut self, ty: &TRef, depth: usize) -> V {
        match ty {
            TRef::NonNull(t) => self.const_nn(t, depth),
            t => {
                if self.rng.chance(1, 8) {
                    V::Null
                } else {
                    self.const_nn(t, depth)
                }
            }
        }
    }
    fn const_nn(&mut self, ty: &TRef, depth: usize) -> V {
        match ty {
            TRef::NonNull(t) => self.const_nn(t, depth),
            TRef::List(t) => {
                if self.rng.chance(1, 8) {
                    // single value coerces to a one-element list (never null: that would be the null list)
                    return self.const_nn(t, depth);
                }
                let k = self.rng.below(3);
                V::List((0..k).map(|_| self.const_value(t, depth)).collect())
            }
            TRef::Named(n) => match n.as_str() {
                "Int" => V::Int(self.rng.range(-5, 100)),
                "Float" => {
                    if self.rng.chance(1, 2) {
                        V::Int(self.rng.range(-5, 5))
                    } else {
                        V::Float(["1.5", "0.25", "-2.5"][self.rng.below(3)].into())
                    }
                }
                "String" => V::Str(["", "a", "hello"][self.rng.below(3)].into()),
                "Boolean" => V::Bool(self.rng.chance(1, 2)),
                "ID" => {
                    if self.rng.chance(1, 2) {
                        V::Str("id1".into())
                    } else {
                        V::Int(self.rng.range(0, 9))
                    }
                }
                _ => {
                    let t = self.sd.find(n).expect("type").clone();
                    match t.kind.as_str() {
                        "enum" => V::Enum(self.rng.pick(&t.values).clone()),
                        "input" if t.oneof => {
                            let f = self.rng.pick(&t.inputs).clone();
                            V::Obj(vec![(f.name.clone(), self.const_nn(&f.ty, depth))])
                        }
                        "input" => {
                            let mut fs = vec![];
                            for f in &t.inputs {
                                let required = f.ty.is_non_null() && !f.has_default;
                                let recursive = f.ty.base() == n;
                                if required || (self.rng.chance(1, 3) && !(recursive && depth == 0)) {
                                    fs.push((f.name.clone(), self.const_value(&f.ty, depth.saturating_sub(1))));
                                }
                            }
                            V::Obj(fs)
                        }
                        // a custom scalar without validator (dynamic flavour only): every literal is one
                        "scalar" if n != "Upload" => [V::Int(3_000_000_000), V::Str("x".into()), V::Bool(true), V::Enum("RED".into()), V::Float("1.5".into()), V::List(vec![V::Int(1), V::Str("y".into())]), V::Obj(vec![("k".into(), V::Int(1))])][self.rng.below(7)].clone(),
                        _ => V::Null,
                    }
                }
            },
        }
    }
    /// a literal NOT acceptable for `ty`
    fn bad_value(&mut self, ty: &TRef) -> V {
        match ty {
            TRef::NonNull(t) => {
                if self.rng.chance(1, 3) {
                    V::Null
                } else {
                    self.bad_value(t)
                }
            }
            TRef::List(t) => {
                if self.rng.chance(1, 2) {
                    let b = self.bad_value(t);
                    let g = self.const_nn(t, 1);
                    V::List(vec![g, b])
                } else {
                    self.bad_value(t)
                }
            }
            TRef::Named(n) => match n.as_str() {
                "Int" => [V::Str("1".into()), V::Float("1.5".into()), V::Bool(true), V::Int(3_000_000_000), V::Enum("RED".into()), V::Obj(vec![])][self.rng.below(6)].clone(),
                "Float" => [V::Str("1".into()), V::Bool(true), V::Enum("RED".into())][self.rng.below(3)].clone(),
                "String" => [V::Int(1), V::Bool(true), V::Enum("RED".into()), V::Float("1.5".into())][self.rng.below(4)].clone(),
                "Boolean" => [V::Int(1), V::Str("true".into()), V::Enum("RED".into())][self.rng.below(3)].clone(),
                "ID" => [V::Bool(true), V::Float("1.5".into()), V::Enum("RED".into())][self.rng.below(3)].clone(),
                _ => {
                    let t = self.sd.find(n).expect("type").clone();
                    match t.kind.as_str() {
                        "enum" => [V::Enum("PURPLE".into()), V::Int(1), V::Bool(true), V::Str("PURPLE".into())][self.rng.below(4)].clone(),
                        "input" if t.oneof => [V::Obj(vec![]), V::Obj(vec![("a".into(), V::Int(1)), ("b".into(), V::Str("x".into()))]), V::Obj(vec![("a".into(), V::Null)]), V::Obj(vec![("a".into(), V::Str("x".into()))])][self.rng.below(4)].clone(),
                        "input" => [
                            V::Obj(vec![]),
                            V::Obj(vec![("x".into(), V::Int(1)), ("zz".into(), V::Int(1))]),
                            V::Obj(vec![("x".into(), V::Str("a".into()))]),
                            V::Obj(vec![("x".into(), V::Int(1)), ("sub".into(), V::Obj(vec![("y".into(), V::Int(1))]))]),
                            V::Obj(vec![("x".into(), V::Int(1)), ("cs".into(), V::List(vec![V::Enum("RED".into()), V::Null]))]),
                        ][self.rng.below(5)]
                        .clone(),
                        _ => V::Null,
                    }
                }
            },
        }
    }
    fn declare(&mut self, ty: TRef, default: Option<V>, supply: Option<V>) -> String {
        let name = self.fresh("v");
        self.vars.push(VarDef { name: name.clone(), ty, default });
        if let Some(v) = supply {
            self.supplied.push((name.clone(), v));
        }
        name
    }
    /// a value for a position of type `ty` whose location has a default iff `loc_default`
    fn value(&mut self, ty: &TRef, loc_default: bool, depth: usize) -> V {
        if self.allow_vars && self.want("undefined_var") {
            return V::Var("undef".into());
        }
        if self.allow_vars && self.want("var_bad_pos") {
            // a variable whose declared type does not fit the position
            let (vty, val): (TRef, Option<V>) = match ty.nullable() {
                TRef::Named(n) if n == "Int" => (TRef::Named("String".into()), Some(V::Str("s".into()))),
                TRef::Named(n) if n == "String" => (TRef::Named("Int".into()), Some(V::Int(1))),
                TRef::Named(n) if n == "Boolean" => (TRef::Named("Int".into()), None),
                TRef::List(t) if !matches!(**t, TRef::List(_)) && self.rng.chance(1, 2) => (TRef::List(Box::new(TRef::List(t.clone()))), None),
                TRef::List(_) => (TRef::Named("Int".into()), None),
                _ => (TRef::Named("Boolean".into()), None),
            };
            let vty = if ty.is_non_null() && !loc_default { TRef::NonNull(Box::new(vty)) } else { vty };
            let nm = self.declare(vty, None, val);
            return V::Var(nm);
        }
        if self.allow_vars && ty.is_non_null() && !loc_default && self.want("var_bad_pos") {
            let nm = self.declare(ty.nullable().clone(), None, None);
            return V::Var(nm);
        }
        if self.allow_vars && self.want("var_pos_edge") {
            // allowed by the specification, delicate for the implementation
            if ty.is_non_null() && loc_default {
                let nm = self.declare(ty.nullable().clone(), None, None);
                return V::Var(nm);
            }
            if let TRef::List(_) = ty {
                let c = self.const_nn(ty, 1);
                let nm = self.declare(TRef::NonNull(Box::new(ty.clone())), None, Some(c));
                return V::Var(nm);
            }
            if ty.is_non_null() {
                let d = self.const_nn(ty, 1);
                let nm = self.declare(ty.nullable().clone(), Some(d), None);
                return V::Var(nm);
            }
            self.applied = false;
        }
        if self.allow_vars && (ty.base() == "Color" || ty.base() == "Pt") && self.want("enum_default_string") {
            // a variable whose DEFAULT writes the name of an enum value as a string literal
            // (`$v: Color = "RED"`, `[Color] = ["RED"]`, `Pt = {x: 1, cs: ["RED"]}`): fine as a
            // supplied variable VALUE, not as a literal of the document (§5.6.1)
            let mut c = self.const_nn(ty, 2);
            for _ in 0..6 {
                if has_enum(&c) {
                    break;
                }
                c = self.const_nn(ty, 2);
            }
            if has_enum(&c) {
                let d = enums_as_strings(&c);
                let vty = if self.rng.chance(1, 2) { ty.nullable().clone() } else { ty.clone() };
                let supply = if self.rng.chance(1, 3) { Some(c) } else { None };
                let nm = self.declare(vty, Some(d), supply);
                return V::Var(nm);
            }
            self.applied = false;
        }
        if self.allow_vars && self.want("null_default") {
            // `$v: T = null`: the literal null is no default in the sense of IsVariableUsageAllowed.
            // At a non-null position without location default the usage is INVALID (the rule counts
            // the default); with a location default, or at a nullable position, it is valid.
            let supply = match self.rng.below(3) {
                0 => Some(if ty.is_non_null() { self.const_nn(ty, 1) } else { self.const_value(ty, 1) }),
                _ => None,
            };
            let nm = self.declare(ty.nullable().clone(), Some(V::Null), supply);
            return V::Var(nm);
        }
        if self.allow_vars && self.want("literal_beside_var") {
            // a literal that mentions a variable beside a wrong (or right) literal part: with the
            // variable left without value the pinned rule does not judge the argument at all
            let supplied = self.rng.chance(1, 3);
            match ty.nullable() {
                TRef::List(t) => {
                    let elem = (**t).clone();
                    let sup = if supplied { Some(self.const_nn(&elem, 1)) } else { None };
                    let nm = self.declare(elem.nullable().clone(), None, sup);
                    let other = if self.rng.chance(3, 4) { self.bad_value(elem.nullable()) } else { self.const_nn(&elem, 1) };
                    let other = if matches!(other, V::Null) { V::Obj(vec![("zzz".into(), V::Int(1))]) } else { other };
                    let mut xs = vec![V::Var(nm), other];
                    if self.rng.chance(1, 2) {
                        xs.swap(0, 1);
                    }
                    return V::List(xs);
                }
                TRef::Named(n) if n == "Pt" => {
                    let sup = if supplied { Some(V::Str("t".into())) } else { None };
                    let nm = self.declare(TRef::Named("String".into()), None, sup);
                    let mut fs = vec![("tag".to_string(), V::Var(nm))];
                    match self.rng.below(4) {
                        0 => fs.push(("x".into(), V::Int(1))),                                   // valid
                        1 => fs.push(("x".into(), V::Str("bad".into()))),                      // wrong type beside the variable
                        2 => { fs.push(("x".into(), V::Int(1))); fs.push(("zzz".into(), V::Int(1))) } // undeclared key
                        _ => {}                                                                 // required `x` missing
                    }
                    if self.rng.chance(1, 2) {
                        fs.reverse();
                    }
                    return V::Obj(fs);
                }
                _ => {
                    self.applied = false;
                }
            }
        }
        if self.allow_vars && self.want("var_value_bad") {
            let b = self.bad_value(ty.nullable());
            if !matches!(b, V::Null) {
                let nm = self.declare(ty.clone(), None, Some(b));
                return V::Var(nm);
            }
            self.applied = false;
        }
        if self.allow_vars && ty.is_non_null() && self.want("var_missing") {
            let nm = self.declare(ty.clone(), None, None);
            return V::Var(nm);
        }
        if self.allow_vars && self.want("list_var_nested") {
            if let TRef::List(t) = ty.nullable() {
                // a variable as a list ELEMENT, declared with a wrong type
                let nm = self.declare(TRef::Named("Boolean".into()), None, None);
                let g = self.const_value(t, 1);
                return V::List(vec![g, V::Var(nm)]);
            }
            self.applied = false;
        }
        if self.allow_vars && self.rng.chance(1, 4) {
            // a well-typed variable
            let r = self.rng.below(4);
            if ty.is_non_null() {
                if r == 0 {
                    let d = self.const_nn(ty, 1);
                    let nm = self.declare(ty.nullable().clone(), Some(d), None);
                    return V::Var(nm);
                }
                let c = self.const_nn(ty, 1);
                let nm = self.declare(ty.clone(), None, Some(c));
                return V::Var(nm);
            }
            let vty = if r == 0 { TRef::NonNull(Box::new(ty.clone())) } else { ty.clone() };
            let supply = if r == 1 && !vty.is_non_null() { None } else { Some(if vty.is_non_null() { self.const_nn(ty, 1) } else { self.const_value(ty, 1) }) };
            let nm = self.declare(vty, None, supply);
            return V::Var(nm);
        }
        if depth > 0 && self.allow_vars && self.rng.chance(1, 6) {
            // variables nested inside list / object literals
            match ty.nullable() {
                TRef::List(t) => {
                    let a = self.value(t, false, depth - 1);
                    let b = self.value(t, false, depth - 1);
                    return V::List(vec![a, b]);
                }
                TRef::Named(n) if self.sd.find(n).map(|t| t.kind == "input" && !t.oneof).unwrap_or(false) => {
                    let t = self.sd.find(n).unwrap().clone();
                    let mut fs = vec![];
                    for f in &t.inputs {
                        let required = f.ty.is_non_null() && !f.has_default;
                        if required || (self.rng.chance(1, 3) && f.ty.base() != n) {
                            fs.push((f.name.clone(), self.value(&f.ty, f.has_default, depth - 1)));
                        }
                    }
                    return V::Obj(fs);
                }
                _ => {}
            }
        }
        self.const_value(ty, 1)
    }

    // ---------------------------------------------------------------- directives
    fn directives(&mut self, on_field: bool) -> Vec<Dir> {
        let mut ds = vec![];
        if self.rng.chance(1, 6) {
            let nm = if self.rng.chance(1, 2) { "skip" } else { "include" };
            let v = self.value(&TRef::NonNull(Box::new(TRef::Named("Boolean".into()))), false, 0);
            ds.push(Dir { name: nm.into(), args: vec![("if".into(), v)] });
        }
        if on_field && self.rng.chance(1, 12) && self.has_dir("concat") {
            let mut args = vec![("prefix".to_string(), V::Str("p".into()))];
            if self.rng.chance(1, 2) {
                args.push(("n".into(), self.value(&TRef::Named("Int".into()), false, 0)));
            }
            ds.push(Dir { name: "concat".into(), args });
        }
        if on_field && self.rng.chance(1, 12) && self.has_dir("tagged") {
            for _ in 0..1 + self.rng.below(2) {
                ds.push(Dir { name: "tagged".into(), args: if self.rng.chance(1, 2) { vec![("label".into(), V::Str("t".into()))] } else { vec![] } });
            }
        }
        if on_field && self.has_ifdef() && self.rng.chance(1, 6) {
            // legal use of the user-defined directive of the second schema variant
            ds.push(Dir { name: "ifdef".into(), args: vec![] });
        }
        if self.want("unknown_directive") {
            ds.push(Dir { name: "nope".into(), args: vec![] });
        }
        if self.want("misplaced_directive") {
            ds.push(match self.rng.below(3) {
                0 => Dir { name: "deprecated".into(), args: vec![] },
                1 => Dir { name: "specifiedBy".into(), args: vec![("url".into(), V::Str("u".into()))] },
                _ => if on_field { Dir { name: "oneOf".into(), args: vec![] } } else { Dir { name: "concat".into(), args: vec![("prefix".into(), V::Str("p".into()))] } },
            });
        }
        if self.want("dup_directive") {
            ds.push(Dir { name: "skip".into(), args: vec![("if".into(), V::Bool(false))] });
            ds.push(Dir { name: "skip".into(), args: vec![("if".into(), V::Bool(false))] });
        }
        if self.want("dir_arg_bad") {
            ds.push(match self.rng.below(4) {
                0 => Dir { name: "skip".into(), args: vec![("if".into(), V::Int(1))] },
                1 => Dir { name: "include".into(), args: vec![] },
                2 => Dir { name: "skip".into(), args: vec![("if".into(), V::Bool(true)), ("zz".into(), V::Int(1))] },
                _ => Dir { name: "include".into(), args: vec![("if".into(), V::Bool(true)), ("if".into(), V::Bool(true))] },
            });
        }
        ds
    }

    // ---------------------------------------------------------------- selections
    fn overlapping(&mut self, ty: &str) -> String {
        let mine = self.sd.possible(ty);
        let cands: Vec<String> = self
            .sd
            .types
            .iter()
            .filter(|t| self.sd.is_composite(&t.name) && !t.name.starts_with("__") && self.sd.possible(&t.name).iter().any(|p| mine.contains(p)))
            .map(|t| t.name.clone())
            .collect();
        self.rng.pick(&cands).clone()
    }
    fn disjoint(&mut self, ty: &str) -> Option<String> {
        let mine = self.sd.possible(ty);
        let roots = [Some(self.sd.query.clone()), self.sd.mutation.clone(), self.sd.subscription.clone()];
        let cands: Vec<String> = self
            .sd
            .types
            .iter()
            .filter(|t| self.sd.is_composite(&t.name) && !t.name.starts_with("__") && !roots.contains(&Some(t.name.clone())) && !self.sd.possible(&t.name).iter().any(|p| mine.contains(p)))
            .map(|t| t.name.clone())
            .collect();
        if cands.is_empty() { None } else { Some(self.rng.pick(&cands).clone()) }
    }

    fn field(&mut self, parent: &TypeD, f: &FieldD, depth: usize) -> Vec<Sel> {
        let mut args = vec![];
        for a in &f.args {
            let required = a.ty.is_non_null() && !a.has_default;
            if required || self.rng.chance(1, 2) {
                args.push((a.name.clone(), self.value(&a.ty, a.has_default, 2)));
            }
        }
        if f.args.len() >= 2 && self.rng.chance(1, 2) {
            self.rng.shuffle(&mut args);
        }
        let has_required = f.args.iter().any(|a| a.ty.is_non_null() && !a.has_default);
        let mut name = f.name.clone();
        let composite = self.sd.is_composite(f.ty.base());
        let mut sels = if composite { self.selection_set(f.ty.base(), depth.saturating_sub(1)) } else { vec![] };
        let alias = if !f.args.is_empty() || f.name == "kind" || self.rng.chance(1, 8) { Some(self.fresh("a")) } else { None };
        let mut dirs = self.directives(true);
        if self.want("unknown_field") {
            name = "nope".into();
        }
        if self.want("unknown_field_ifdef") {
            // an unknown field carrying a directive called `ifdef` (defined only in the second schema variant)
            name = "nope".into();
            if !dirs.iter().any(|d| d.name == "ifdef") {
                dirs.push(Dir { name: "ifdef".into(), args: vec![] });
            }
        }
        if self.want("unknown_arg") {
            args.push(("zz".into(), V::Int(1)));
        }
        if !args.is_empty() && self.want("dup_arg") {
            let a = args[0].clone();
            args.push(a);
        }
        if has_required && self.want("missing_arg") {
            let req: Vec<String> = f.args.iter().filter(|a| a.ty.is_non_null() && !a.has_default).map(|a| a.name.clone()).collect();
            let r = self.rng.pick(&req).clone();
            args.retain(|(k, _)| *k != r);
        }
        if !f.args.is_empty() && self.want("bad_arg_value") {
            let a = self.rng.pick(&f.args).clone();
            let b = self.bad_value(&a.ty);
            if matches!(b, V::Null) && !a.ty.is_non_null() {
                self.applied = false;
            } else {
                args.retain(|(k, _)| *k != a.name);
                args.push((a.name.clone(), b));
            }
        }
        if !f.args.is_empty() && self.want("input_obj_scalar") {
            if let Some(a) = f.args.iter().find(|a| self.sd.find(a.ty.base()).map(|t| t.kind == "input").unwrap_or(false) && !matches!(a.ty.nullable(), TRef::List(_))) {
                args.retain(|(k, _)| *k != a.name);
                args.push((a.name.clone(), [V::Int(5), V::Str("s".into()), V::List(vec![]), V::Enum("RED".into())][self.rng.below(4)].clone()));
            } else {
                self.applied = false;
            }
        }
        if !f.args.is_empty() && self.want("enum_string") {
            if let Some(a) = f.args.iter().find(|a| self.sd.find(a.ty.base()).map(|t| t.kind == "enum").unwrap_or(false) && !matches!(a.ty.nullable(), TRef::List(_))) {
                args.retain(|(k, _)| *k != a.name);
                args.push((a.name.clone(), V::Str("RED".into())));
            } else {
                self.applied = false;
            }
        }
        if composite && !f.args.is_empty() && !args.is_empty() && self.want("stale_args") {
            // below a field WITH arguments: `__typename` carrying an argument (the enclosing field's
            // name: accepted by a stale `current_args`; another name), or an unknown field carrying
            // one (the unknown argument is then reported against the ENCLOSING field)
            let an = if self.rng.chance(1, 2) { args[0].0.clone() } else { "zz".to_string() };
            let av = if self.rng.chance(1, 2) { args[0].1.clone() } else { V::Int(1) };
            let av = if matches!(av, V::Var(_)) || !self.rng.chance(1, 2) { V::Int(1) } else { av };
            let fname = if self.rng.chance(2, 3) { "__typename" } else { "nope" };
            sels.push(Sel::Field { alias: None, name: fname.into(), args: vec![(an, av)], dirs: vec![], sels: vec![] });
        }
        if !composite && self.want("leaf_with_sel") {
            sels = vec![Sel::Field { alias: None, name: if self.rng.chance(1, 2) { "id".into() } else { "__typename".into() }, args: vec![], dirs: vec![], sels: vec![] }];
        }
        if composite && self.want("composite_no_sel") {
            sels = vec![];
        }
        let me = Sel::Field { alias: alias.clone(), name: name.clone(), args: args.clone(), dirs: dirs.clone(), sels: sels.clone() };
        let key = alias.clone().unwrap_or(name.clone());
        let mut out = vec![me.clone()];
        if self.rng.chance(1, 10) {
            out.push(me.clone()); // identical fields merge
        }
        if self.want("conflict_alias") {
            // another field of the same parent under the same response key
            if let Some(g) = parent.fields.iter().find(|g| g.name != f.name && g.args.is_empty() && !self.sd.is_composite(g.ty.base())) {
                out.push(Sel::Field { alias: Some(key.clone()), name: g.name.clone(), args: vec![], dirs: vec![], sels: vec![] });
            } else {
                self.applied = false;
            }
        }
        if !f.args.is_empty() && !has_required && self.want("conflict_args") {
            // same field, same key, different arguments
            let a = self.rng.pick(&f.args).clone();
            let mut args2: Vec<(String, V)> = args.iter().filter(|(k, _)| *k != a.name).cloned().collect();
            if args2.len() == args.len() {
                let c = self.const_nn(&a.ty, 1);
                args2.push((a.name.clone(), c));
            }
            out.push(Sel::Field { alias: Some(key.clone()), name: name.clone(), args: args2, dirs: vec![], sels: sels.clone() });
        }
        if !f.args.is_empty() && parent.kind == "object" && self.want("conflict_args_cond") {
            // the same, hidden behind a type condition on the very same type / no condition
            let a = self.rng.pick(&f.args).clone();
            let mut args2: Vec<(String, V)> = args.iter().filter(|(k, _)| *k != a.name).cloned().collect();
            if args2.len() == args.len() {
                let c = self.const_nn(&a.ty, 1);
                args2.push((a.name.clone(), c));
            }
            if f.args.iter().any(|x| x.ty.is_non_null() && !x.has_default && !args2.iter().any(|(k, _)| *k == x.name)) {
                self.applied = false;
            } else {
                let inner = Sel::Field { alias: Some(key.clone()), name: name.clone(), args: args2, dirs: vec![], sels: sels.clone() };
                out.push(Sel::Inline { cond: Some(parent.name.clone()), dirs: vec![], sels: vec![inner] });
            }
        }
        if composite && !sels.is_empty() && self.want("conflict_sub") {
            // the same field twice; the two sub-selections conflict
            let t = self.sd.find(f.ty.base()).unwrap().clone();
            let leafs: Vec<&FieldD> = t.fields.iter().filter(|g| g.args.is_empty() && !self.sd.is_composite(g.ty.base())).collect();
            if leafs.len() >= 2 {
                let mk = |g: &FieldD| Sel::Field { alias: Some("k".into()), name: g.name.clone(), args: vec![], dirs: vec![], sels: vec![] };
                out = vec![
                    Sel::Field { alias: alias.clone(), name: name.clone(), args: args.clone(), dirs: vec![], sels: vec![mk(leafs[0])] },
                    Sel::Field { alias: alias.clone(), name: name.clone(), args: args.clone(), dirs: vec![], sels: vec![mk(leafs[1])] },
                ];
            } else {
                self.applied = false;
            }
        }
        dirs.clear();
        out
    }

    /// the same response key behind two different type conditions (Dog / Cat), inside inline
    /// fragments WITHOUT type condition: (nick, name) and (name, name) merge (String / String),
    /// (id, name) does not (ID! / String); wrapping one side only hides the pair from the pinned rule
    fn untyped_overlap(&mut self) -> Vec<Sel> {
        let (fa, fb): (&str, &str) = [("nick", "name"), ("name", "nick"), ("name", "name"), ("id", "name"), ("friend", "friend")][self.rng.below(5)];
        let mk = |n: &str| Sel::Field {
            alias: Some("k".into()),
            name: n.to_string(),
            args: vec![],
            dirs: vec![],
            sels: if n == "friend" { vec![Sel::Field { alias: None, name: "id".into(), args: vec![], dirs: vec![], sels: vec![] }] } else { vec![] },
        };
        let wrap = |s: Sel| Sel::Inline { cond: None, dirs: vec![], sels: vec![s] };
        let (wa, wb) = match self.rng.below(4) {
            0 => (true, false),
            1 => (false, true),
            _ => (true, true),
        };
        let a = if wa { wrap(mk(fa)) } else { mk(fa) };
        let b = if wb { wrap(mk(fb)) } else { mk(fb) };
        let mut out = vec![];
        if self.rng.chance(1, 3) {
            // through a named fragment on one side
            let name = self.fresh("F");
            self.frags.push(Frag { name: name.clone(), cond: "Dog".into(), dirs: vec![], sels: vec![a] });
            out.push(Sel::Spread { name, dirs: vec![] });
        } else {
            out.push(Sel::Inline { cond: Some("Dog".into()), dirs: vec![], sels: vec![a] });
        }
        out.push(Sel::Inline { cond: Some("Cat".into()), dirs: vec![], sels: vec![b] });
        out
    }

    fn selection_set(&mut self, ty: &str, depth: usize) -> Vec<Sel> {
        let t = self.sd.find(ty).expect("composite").clone();
        let mut out: Vec<Sel> = vec![];
        let k = 1 + self.rng.below(3);
        let is_sub_root = self.sd.subscription.as_deref() == Some(ty);
        for _ in 0..k {
            let r = self.rng.below(10);
            if r < 6 && !t.fields.is_empty() {
                let cands: Vec<&FieldD> = t.fields.iter().filter(|f| !f.name.starts_with("__") && f.ty.base() != "Upload" && !f.args.iter().any(|a| a.ty.base() == "Upload") && (depth > 0 || !self.sd.is_composite(f.ty.base()))).collect();
                if cands.is_empty() {
                    continue;
                }
                let f = (*self.rng.pick(&cands)).clone();
                out.extend(self.field(&t, &f, depth));
            } else if r == 6 && !is_sub_root {
                out.push(Sel::Field { alias: None, name: "__typename".into(), args: vec![], dirs: vec![], sels: vec![] });
            } else if r == 7 && depth > 0 && !is_sub_root {
                let cond = match self.rng.below(3) {
                    0 => None,
                    _ => Some(self.overlapping(ty)),
                };
                let inner_ty = cond.clone().unwrap_or(ty.to_string());
                let dirs = self.directives(false);
                let sels = self.selection_set(&inner_ty, depth - 1);
                out.push(Sel::Inline { cond, dirs, sels });
            } else if r == 8 && depth > 0 && !is_sub_root {
                // reuse a finished fragment or make a new one
                let mine = self.sd.possible(ty);
                let reusable: Vec<String> = self.frags.iter().filter(|f| self.sd.possible(&f.cond).iter().any(|p| mine.contains(p))).map(|f| f.name.clone()).collect();
                let name = if !reusable.is_empty() && self.rng.chance(1, 2) {
                    self.rng.pick(&reusable).clone()
                } else {
                    let cond = self.overlapping(ty);
                    let name = self.fresh("F");
                    let sels = self.selection_set(&cond, depth - 1);
                    self.frags.push(Frag { name: name.clone(), cond, dirs: vec![], sels });
                    name
                };
                let dirs = self.directives(false);
                out.push(Sel::Spread { name, dirs });
            }
        }
        if out.is_empty() {
            if is_sub_root || (t.kind != "union" && self.rng.chance(1, 2) && t.fields.iter().any(|f| f.name == "id")) {
                if is_sub_root {
                    out.push(Sel::Field { alias: None, name: "names".into(), args: vec![], dirs: vec![], sels: vec![] });
                } else {
                    out.push(Sel::Field { alias: None, name: "id".into(), args: vec![], dirs: vec![], sels: vec![] });
                }
            } else {
                out.push(Sel::Field { alias: None, name: "__typename".into(), args: vec![], dirs: vec![], sels: vec![] });
            }
        }
        if is_sub_root {
            out.truncate(1);
            if self.want("sub_two_roots") {
                out.push(Sel::Field { alias: Some("second".into()), name: "names".into(), args: vec![], dirs: vec![], sels: vec![] });
            }
            if self.want("sub_typename") {
                // `__typename` at the subscription root, in every way it can get there: alone, beside a
                // real field, aliased, through an inline fragment without / with type condition, through a
                // named fragment on the root type — and each of these alone or beside the real field
                let tn = |alias: Option<&str>| Sel::Field { alias: alias.map(|a| a.to_string()), name: "__typename".into(), args: vec![], dirs: vec![], sels: vec![] };
                let root = ty.to_string();
                let sel = match self.rng.below(6) {
                    0 | 1 => tn(None),
                    2 => tn(Some("t")),
                    3 => Sel::Inline { cond: None, dirs: vec![], sels: vec![tn(None)] },
                    4 => Sel::Inline { cond: Some(root), dirs: vec![], sels: vec![tn(None)] },
                    _ => {
                        let name = self.fresh("F");
                        self.frags.push(Frag { name: name.clone(), cond: root, dirs: vec![], sels: vec![tn(if self.rng.chance(1, 3) { Some("t") } else { None })] });
                        Sel::Spread { name, dirs: vec![] }
                    }
                };
                if self.rng.chance(1, 2) {
                    out = vec![sel];
                } else if self.rng.chance(1, 2) {
                    out.push(sel);
                } else {
                    out.insert(0, sel);
                }
            }
            return out;
        }
        // ---- mutations needing the type context
        if self.want("typename_dir") {
            let dirs = match self.rng.below(3) {
                0 if self.allow_vars => {
                    let nm = self.declare(TRef::NonNull(Box::new(TRef::Named("Boolean".into()))), None, Some(V::Bool(false)));
                    vec![Dir { name: "skip".into(), args: vec![("if".into(), V::Var(nm))] }]
                }
                1 => vec![Dir { name: "nope".into(), args: vec![] }],
                _ => vec![Dir { name: "skip".into(), args: vec![("if".into(), V::Int(3))] }],
            };
            out.push(Sel::Field { alias: None, name: "__typename".into(), args: vec![], dirs, sels: vec![] });
        }
        if self.want("typename_misc") {
            out.push(match self.rng.below(3) {
                0 => Sel::Field { alias: None, name: "__typename".into(), args: vec![("x".into(), V::Int(1))], dirs: vec![], sels: vec![] },
                1 => Sel::Field { alias: None, name: "__typename".into(), args: vec![], dirs: vec![], sels: vec![Sel::Field { alias: None, name: "id".into(), args: vec![], dirs: vec![], sels: vec![] }] },
                _ => Sel::Field { alias: None, name: "__typename".into(), args: vec![], dirs: vec![], sels: vec![Sel::Spread { name: "Nope".into(), dirs: vec![] }] },
            });
        }
        if self.want("impossible_spread") {
            if let Some(other) = self.disjoint(ty) {
                let sels = self.selection_set(&other, 0);
                if self.rng.chance(1, 2) {
                    out.push(Sel::Inline { cond: Some(other), dirs: vec![], sels });
                } else {
                    let name = self.fresh("F");
                    self.frags.push(Frag { name: name.clone(), cond: other, dirs: vec![], sels });
                    out.push(Sel::Spread { name, dirs: vec![] });
                }
            } else {
                self.applied = false;
            }
        }
        if self.want("frag_on_leaf") {
            let leaf = ["Int", "Color", "Pt", "String"][self.rng.below(4)].to_string();
            let sels = vec![Sel::Field { alias: None, name: "__typename".into(), args: vec![], dirs: vec![], sels: vec![] }];
            if self.rng.chance(1, 2) {
                out.push(Sel::Inline { cond: Some(leaf), dirs: vec![], sels });
            } else {
                let name = self.fresh("F");
                self.frags.push(Frag { name: name.clone(), cond: leaf, dirs: vec![], sels });
                out.push(Sel::Spread { name, dirs: vec![] });
            }
        }
        if self.want("unknown_type_cond") {
            let sels = vec![Sel::Field { alias: None, name: "__typename".into(), args: vec![], dirs: vec![], sels: vec![] }];
            if self.rng.chance(1, 2) {
                out.push(Sel::Inline { cond: Some("Nope".into()), dirs: vec![], sels });
            } else {
                let name = self.fresh("F");
                self.frags.push(Frag { name: name.clone(), cond: "Nope".into(), dirs: vec![], sels });
                out.push(Sel::Spread { name, dirs: vec![] });
            }
        }
        if self.want("unknown_spread") {
            out.push(Sel::Spread { name: "Nope".into(), dirs: vec![] });
        }
        if self.sd.possible(ty).len() >= 2 && self.want("conflict_cond") {
            // the same response key behind two different type conditions
            let (fa, fb): (&str, &str) = [("barks", "lives"), ("kind", "kind"), ("name", "lives"), ("id", "name"), ("name", "name")][self.rng.below(5)];
            let mk = |n: &str| Sel::Field { alias: Some("k".into()), name: n.to_string(), args: vec![], dirs: vec![], sels: vec![] };
            out.push(Sel::Inline { cond: Some("Dog".into()), dirs: vec![], sels: vec![mk(fa)] });
            out.push(Sel::Inline { cond: Some("Cat".into()), dirs: vec![], sels: vec![mk(fb)] });
        }
        if self.sd.possible(ty).len() >= 2 && self.want("untyped_inline_overlap") {
            let more = self.untyped_overlap();
            out.extend(more);
        }
        if self.allow_vars && self.want("var_in_frag_undefined") {
            // a fragment using a variable no operation defines
            let name = self.fresh("F");
            let cond = self.overlapping(ty);
            self.frags.push(Frag {
                name: name.clone(),
                cond,
                dirs: vec![],
                sels: vec![Sel::Field { alias: None, name: "__typename".into(), args: vec![], dirs: vec![], sels: vec![] }, Sel::Inline { cond: None, dirs: vec![Dir { name: "skip".into(), args: vec![("if".into(), V::Var("undef".into()))] }], sels: vec![Sel::Field { alias: None, name: "__typename".into(), args: vec![], dirs: vec![], sels: vec![] }] }],
            });
            out.push(Sel::Spread { name, dirs: vec![] });
        }
        out
    }
}

fn gen_op(sd: &SchemaD, rng: &mut Rng, opty: &str, name: Option<String>, mutation: &'static str, allow_vars: bool, tag: usize) -> (Op, Vec<Frag>, Vec<(String, V)>, bool) {
    let root = match opty {
        "query" => sd.query.clone(),
        "mutation" => sd.mutation.clone().unwrap(),
        _ => sd.subscription.clone().unwrap(),
    };
    let mut g = G { sd, rng, vars: vec![], supplied: vec![], frags: vec![], n: tag * 1000, mutation, applied: false, allow_vars };
    let depth = 1 + g.rng.below(3);
    let sels = g.selection_set(&root, depth);
    let mut dirs = vec![];
    if g.want("op_directive") {
        dirs.push(match g.rng.below(3) {
            0 => Dir { name: "skip".into(), args: vec![("if".into(), V::Bool(false))] },
            1 => Dir { name: "nope".into(), args: vec![] },
            _ => Dir { name: "concat".into(), args: vec![("prefix".into(), V::Str("p".into()))] },
        });
    }
    if g.want("frag_directive") && !g.frags.is_empty() {
        let k = g.rng.below(g.frags.len());
        g.frags[k].dirs.push(if g.rng.chance(1, 2) { Dir { name: "skip".into(), args: vec![("if".into(), V::Bool(false))] } } else { Dir { name: "nope".into(), args: vec![] } });
    }
    if g.want("unused_fragment") {
        let name = g.fresh("F");
        g.frags.push(Frag { name, cond: "Dog".into(), dirs: vec![], sels: vec![Sel::Field { alias: None, name: "id".into(), args: vec![], dirs: vec![], sels: vec![] }] });
    }
    let mut sels = sels;
    if opty != "subscription" && g.want("cycle") {
        let a = g.fresh("F");
        let idf = || Sel::Field { alias: None, name: "__typename".into(), args: vec![], dirs: vec![], sels: vec![] };
        if g.rng.chance(1, 2) {
            g.frags.push(Frag { name: a.clone(), cond: root.clone(), dirs: vec![], sels: vec![idf(), Sel::Spread { name: a.clone(), dirs: vec![] }] });
        } else {
            let b = g.fresh("F");
            g.frags.push(Frag { name: a.clone(), cond: root.clone(), dirs: vec![], sels: vec![idf(), Sel::Spread { name: b.clone(), dirs: vec![] }] });
            g.frags.push(Frag { name: b.clone(), cond: root.clone(), dirs: vec![], sels: vec![Sel::Inline { cond: None, dirs: vec![], sels: vec![Sel::Spread { name: a.clone(), dirs: vec![] }] }] });
        }
        sels.push(Sel::Spread { name: a, dirs: vec![] });
    }
    if opty == "query" && g.mutation == "enum_default_string" && !g.applied && g.allow_vars {
        // no enum-typed position came up while generating: add one at the root
        g.applied = true;
        let color = |n: &str| TRef::Named(n.into());
        let alias = Some(g.fresh("a"));
        let (fname, args): (&str, Vec<(String, V)>) = match g.rng.below(5) {
            0 => {
                let nm = g.declare(color("Color"), Some(V::Str("RED".into())), None);
                ("color", vec![("c".into(), V::Var(nm))])
            }
            1 => {
                let sup = if g.rng.chance(1, 2) { Some(V::Enum("BLUE".into())) } else { None };
                let nm = g.declare(TRef::NonNull(Box::new(color("Color"))), Some(V::Str("GREEN".into())), sup);
                ("color", vec![("c".into(), V::Var(nm))])
            }
            2 => {
                let nm = g.declare(TRef::List(Box::new(color("Color"))), Some(V::List(vec![V::Str("RED".into()), V::Enum("BLUE".into())])), None);
                ("color", vec![("c".into(), V::Enum("RED".into())), ("cs".into(), V::Var(nm))])
            }
            3 => {
                let nm = g.declare(color("Pt"), Some(V::Obj(vec![("x".into(), V::Int(1)), ("cs".into(), V::List(vec![V::Str("RED".into())]))])), None);
                ("pt", vec![("p".into(), V::Var(nm))])
            }
            _ => {
                // not even the name of a value: refused by everybody
                let nm = g.declare(color("Color"), Some(V::Str("PURPLE".into())), None);
                ("color", vec![("c".into(), V::Var(nm))])
            }
        };
        sels.push(Sel::Field { alias, name: fname.into(), args, dirs: vec![], sels: vec![] });
    }
    if opty == "query" && !g.applied && g.allow_vars && matches!(g.mutation, "untyped_inline_overlap" | "stale_args" | "literal_beside_var") {
        // the shape did not come up while generating (it needs an abstract type / a composite field
        // with arguments / a list or `Pt` argument): add one at the root
        match g.mutation {
            "untyped_inline_overlap" => {
                g.applied = true;
                let inner = g.untyped_overlap();
                sels.push(if g.rng.chance(1, 2) {
                    Sel::Field { alias: None, name: "pet".into(), args: vec![], dirs: vec![], sels: inner }
                } else {
                    Sel::Field { alias: Some(g.fresh("a")), name: "node".into(), args: vec![("id".into(), V::Int(1))], dirs: vec![], sels: inner }
                });
            }
            "stale_args" => {
                g.applied = true;
                let inner = match g.rng.below(4) {
                    0 => Sel::Field { alias: None, name: "__typename".into(), args: vec![("id".into(), V::Int(1))], dirs: vec![], sels: vec![] },
                    1 => Sel::Field { alias: None, name: "__typename".into(), args: vec![("zz".into(), V::Int(1))], dirs: vec![], sels: vec![] },
                    2 => Sel::Field { alias: None, name: "nope".into(), args: vec![("id".into(), V::Int(1))], dirs: vec![], sels: vec![] },
                    _ => Sel::Field { alias: None, name: "nope".into(), args: vec![("y".into(), V::Int(1))], dirs: vec![], sels: vec![] },
                };
                let idf = Sel::Field { alias: None, name: "id".into(), args: vec![], dirs: vec![], sels: vec![] };
                sels.push(Sel::Field { alias: Some(g.fresh("a")), name: "node".into(), args: vec![("id".into(), V::Int(1))], dirs: vec![], sels: vec![idf, inner] });
            }
            _ => {
                let (fname, an, aty, rest): (&str, &str, TRef, Vec<(String, V)>) = match g.rng.below(4) {
                    0 => ("list", "xs", TRef::NonNull(Box::new(TRef::List(Box::new(TRef::Named("Int".into()))))), vec![]),
                    1 => ("pt", "p", TRef::NonNull(Box::new(TRef::Named("Pt".into()))), vec![]),
                    2 => ("color", "cs", TRef::List(Box::new(TRef::Named("Color".into()))), vec![("c".into(), V::Enum("RED".into()))]),
                    _ => ("ll", "xss", TRef::List(Box::new(TRef::List(Box::new(TRef::NonNull(Box::new(TRef::Named("Int".into()))))))), vec![]),
                };
                for _ in 0..12 {
                    let (nv, ns) = (g.vars.len(), g.supplied.len());
                    let v = g.value(&aty, false, 2);
                    if g.applied {
                        let mut args = rest.clone();
                        args.push((an.to_string(), v));
                        sels.push(Sel::Field { alias: Some(g.fresh("a")), name: fname.into(), args, dirs: vec![], sels: vec![] });
                        break;
                    }
                    g.vars.truncate(nv);
                    g.supplied.truncate(ns);
                }
            }
        }
    }
    if g.want("unused_var") {
        g.declare(TRef::Named("Int".into()), None, Some(V::Int(1)));
    }
    if g.want("dup_var") {
        if let Some(v) = g.vars.first().cloned() {
            g.vars.push(v);
        } else {
            g.applied = false;
        }
    }
    if g.want("var_non_input") {
        let k = g.rng.below(3);
        g.declare(TRef::Named(["Dog", "Node", "Pet"][k].into()), None, None);
    }
    if g.want("var_unknown_type") {
        let t = if g.rng.chance(1, 2) { TRef::Named("Nope".into()) } else { TRef::List(Box::new(TRef::NonNull(Box::new(TRef::Named("Nope".into()))))) };
        g.declare(t, None, None);
    }
    if g.want("var_bad_default") {
        if let Some(k) = (0..g.vars.len()).find(|k| matches!(g.vars[*k].ty.base(), "Int" | "String" | "Boolean" | "Color")) {
            let t = g.vars[k].ty.nullable().clone();
            let b = g.bad_value(&t);
            g.vars[k].ty = t;
            g.vars[k].default = Some(if matches!(b, V::Null) { V::Obj(vec![]) } else { b });
        } else {
            g.applied = false;
        }
    }
    if opty != "mutation" && g.want("upload_in_query") {
        let t = if g.rng.chance(1, 2) { TRef::Named("Upload".into()) } else { TRef::List(Box::new(TRef::NonNull(Box::new(TRef::Named("Upload".into()))))) };
        g.declare(t, None, None);
    }
    let applied = g.applied;
    (Op { ty: opty.into(), name, vars: g.vars, dirs, sels }, g.frags, g.supplied, applied)
}

/// `sds`: the schema variants — static flavour: [plain, with the `ifdef` directive, merged roots], dynamic
/// flavour: the one schema; the last component of the result is the index of the variant used
fn gen_request(sds: &[&SchemaD], rng: &mut Rng, _i: usize, dist: &mut Dist) -> (Doc, Option<String>, Vec<(String, V)>, usize) {
    let mutation: &'static str = *rng.pick(MUTS);
    let variant: usize = if sds.len() < 3 {
        0
    } else if mutation == "unknown_field_ifdef" {
        if rng.chance(3, 4) { 1 } else if rng.chance(1, 2) { 2 } else { 0 }
    } else if mutation.starts_with("sub_") {
        // the subscription-root rules: half of the cases against the merged subscription root
        if rng.chance(1, 2) { 2 } else if rng.chance(1, 8) { 1 } else { 0 }
    } else {
        match rng.below(8) {
            0 => 1,
            1 | 2 => 2,
            _ => 0,
        }
    };
    let sd = sds[variant];
    dist.hit(["gen_schema_plain", "gen_schema_with_ifdef_directive", "gen_schema_merged_roots"][variant]);
    let opty = match rng.below(8) {
        0 => "mutation",
        1 => "subscription",
        _ => "query",
    };
    let opty = if mutation.starts_with("sub_") { "subscription" } else { opty };
    let multi = rng.chance(1, 6) || matches!(mutation, "dup_op_name" | "anon_plus_named");
    let name = if multi || rng.chance(1, 3) { Some("Q1".to_string()) } else { None };
    let (op, mut frags, supplied, mut applied) = gen_op(sd, rng, opty, name.clone(), mutation, true, 0);
    let mut ops = vec![op];
    if multi {
        let name2 = match mutation {
            "dup_op_name" => Some("Q1".to_string()),
            "anon_plus_named" => None,
            _ => Some("Q2".to_string()),
        };
        if matches!(mutation, "dup_op_name" | "anon_plus_named") {
            applied = true;
        }
        let (op2, frags2, _, _) = gen_op(sd, rng, "query", name2, "none", false, 1);
        ops.push(op2);
        frags.extend(frags2);
        if rng.chance(1, 2) {
            ops.swap(0, 1);
        }
    }
    if mutation == "dup_frag_name" && !frags.is_empty() {
        let f = frags[0].clone();
        frags.push(f);
        applied = true;
    }
    rng.shuffle(&mut frags);
    dist.hit(&format!("mut_{}_{}", mutation, if applied { "applied" } else { "not_applied" }));
    dist.hit(&format!("op_{opty}"));
    if multi {
        dist.hit("multi_op");
    }
    let opname = if multi && mutation != "anon_plus_named" { Some("Q1".to_string()) } else if rng.chance(1, 2) { name } else { None };
    (Doc { ops, frags }, opname, supplied, variant)
}
