// ------------------------------------------------------------------ the SAME schema, built with async_graphql::dynamic
//
// Type by type the schema of schema.rs: enum Color, input objects Pt (recursive, defaults) and One
// (oneOf), interface Node, union Pet, objects Dog / Cat / Person, the three roots (the subscription
// root as `dynamic::Subscription`), Upload through `enable_uploading`.  What the dynamic API cannot
// express is NOT papered over: there is no way to register an executable (query) directive, so
// `concat`, `tagged` and the `ifdef` variant do not exist in this flavour — the registry dump the
// case carries says so, and the model / reference validator judge the request against that dump.
//
// ONE addition the static flavour has no counterpart for: the custom scalar `Blob`, registered with
// `dynamic::Scalar::new` and NO validator (`is_valid: None` in the registry — every literal is a valid
// `Blob`, by design), used by `Query.blob(b: Blob, bs: [Blob!]): Int!`.
//
// Every resolver closure logs its invocation (DYN_RESOLVER_CALLS) before doing anything else.

mod dynflavour {
    use std::sync::atomic::{AtomicUsize, Ordering};

    use async_graphql::dynamic::*;
    use async_graphql::extensions::ExtensionFactory;
    use async_graphql::{Value, ValidationMode};

    pub static DYN_RESOLVER_CALLS: AtomicUsize = AtomicUsize::new(0);

    pub fn tref(s: &str) -> TypeRef {
        if let Some(r) = s.strip_suffix('!') {
            TypeRef::NonNull(Box::new(tref(r)))
        } else if s.starts_with('[') && s.ends_with(']') {
            TypeRef::List(Box::new(tref(&s[1..s.len() - 1])))
        } else {
            TypeRef::Named(s.to_string().into())
        }
    }

    /// what a resolver of a field of type `ty` hands back
    fn value_for<'a>(ty: &TypeRef) -> Option<FieldValue<'a>> {
        match ty {
            TypeRef::NonNull(t) => value_for(t),
            TypeRef::List(t) => Some(FieldValue::list(value_for(t).into_iter().collect::<Vec<_>>())),
            TypeRef::Named(n) => Some(match n.as_ref() {
                "Int" => FieldValue::value(1),
                "Float" => FieldValue::value(1.5),
                "String" => FieldValue::value("s"),
                "Boolean" => FieldValue::value(true),
                "ID" => FieldValue::value("id"),
                "Color" => FieldValue::value(Value::Enum(async_graphql::Name::new("RED"))),
                "Dog" | "Cat" | "Person" => FieldValue::owned_any(0u8),
                "Node" | "Pet" => FieldValue::owned_any(0u8).with_type("Dog"),
                _ => return None,
            }),
        }
    }

    /// the input objects of the schema: (field, type, has a default)
    fn input_fields(n: &str) -> Option<&'static [(&'static str, &'static str, bool)]> {
        match n {
            "Pt" => Some(&[("x", "Int!", false), ("y", "Int!", true), ("tag", "String", false), ("sub", "Pt", false), ("cs", "[Color!]", false)]),
            "One" => Some(&[("a", "Int", false), ("b", "String", false)]),
            _ => None,
        }
    }

    /// what a hand-written dynamic resolver does with an argument of declared type `ty`: read it through
    /// the typed accessors (`i64`, `string`, `enum_name`, `object`, `list` …); a value the accessor
    /// refuses becomes an execution error (`later` in the observation)
    fn read(ty: &TypeRef, v: Option<ValueAccessor<'_>>) -> Result<(), async_graphql::Error> {
        let v = match (ty, v) {
            (TypeRef::NonNull(_), None) => return Err(async_graphql::Error::new("internal: required value missing")),
            (_, None) => return Ok(()),
            (TypeRef::NonNull(t), Some(v)) => {
                if v.is_null() {
                    return Err(async_graphql::Error::new("internal: required value is null"));
                }
                return read(t, Some(v));
            }
            (_, Some(v)) => v,
        };
        if v.is_null() {
            return Ok(());
        }
        match ty {
            TypeRef::NonNull(_) => unreachable!(),
            TypeRef::List(t) => match v.list() {
                Ok(xs) => xs.iter().try_for_each(|x| read(t, Some(x))),
                // input coercion of a single value to a one-element list is the resolver's business here
                Err(_) => read(t, Some(v)),
            },
            TypeRef::Named(n) => match n.as_ref() {
                "Int" => v.i64().map(|_| ()),
                "Float" => v.f64().map(|_| ()),
                "String" => v.string().map(|_| ()),
                "Boolean" => v.boolean().map(|_| ()),
                "ID" => v.string().map(|_| ()).or_else(|_| v.i64().map(|_| ())),
                "Color" => v.enum_name().map(|_| ()),
                other => match input_fields(other) {
                    Some(fs) => {
                        let o = v.object()?;
                        for (fname, fty, has_default) in fs {
                            let fv = o.get(fname);
                            if fv.is_none() && *has_default {
                                continue;
                            }
                            read(&tref(fty), fv)?;
                        }
                        Ok(())
                    }
                    None => Ok(()),
                },
            },
        }
    }

    fn arg(spec: &(&str, &str, Option<Value>)) -> InputValue {
        let iv = InputValue::new(spec.0, tref(spec.1));
        match &spec.2 {
            Some(d) => iv.default_value(d.clone()),
            None => iv,
        }
    }

    /// an output field: logs the call, reads every supplied argument through the accessor, returns a constant
    fn field(name: &str, ty: &str, args: &[(&str, &str, Option<Value>)]) -> Field {
        let t = tref(ty);
        let t2 = t.clone();
        // top-level nullable composite fields of the static schema answer `Some(..)`; nullable leaves `None`
        let nullable_leaf = !ty.ends_with('!') && !matches!(t.type_name(), "Dog" | "Cat" | "Person" | "Node" | "Pet");
        let decl: Vec<(String, TypeRef)> = args.iter().map(|a| (a.0.to_string(), tref(a.1))).collect();
        let mut f = Field::new(name, t, move |ctx| {
            DYN_RESOLVER_CALLS.fetch_add(1, Ordering::SeqCst);
            let read_all = decl.iter().try_for_each(|(n, ty)| read(ty, ctx.args.get(n)));
            let v = if nullable_leaf { None } else { value_for(&t2) };
            FieldFuture::new(async move { read_all.map(|_| v) })
        });
        for a in args {
            f = f.argument(arg(a));
        }
        f
    }

    const NOARGS: &[(&str, &str, Option<Value>)] = &[];

    pub fn build(ext: impl ExtensionFactory) -> Schema {
        let color = Enum::new("Color").item("RED").item("GREEN").item("BLUE");
        let pt = InputObject::new("Pt")
            .field(InputValue::new("x", tref("Int!")))
            .field(InputValue::new("y", tref("Int!")).default_value(0))
            .field(InputValue::new("tag", tref("String")))
            .field(InputValue::new("sub", tref("Pt")))
            .field(InputValue::new("cs", tref("[Color!]")));
        let one = InputObject::new("One").oneof().field(InputValue::new("a", tref("Int"))).field(InputValue::new("b", tref("String")));
        let node = Interface::new("Node")
            .field(InterfaceField::new("id", tref("ID!")))
            .field(InterfaceField::new("name", tref("String")))
            .field(InterfaceField::new("friend", tref("Node")));
        let pet = Union::new("Pet").possible_type("Dog").possible_type("Cat");
        let len = [("len", "Int", None)];
        let dog = Object::new("Dog")
            .implement("Node")
            .field(field("id", "ID!", NOARGS))
            .field(field("name", "String", NOARGS))
            .field(field("friend", "Node", NOARGS))
            .field(field("barks", "Boolean!", NOARGS))
            .field(field("owner", "Person", NOARGS))
            .field(field("kind", "Color!", NOARGS))
            .field(field("nick", "String", &len));
        let cat = Object::new("Cat")
            .implement("Node")
            .field(field("id", "ID!", NOARGS))
            .field(field("name", "String", NOARGS))
            .field(field("friend", "Node", NOARGS))
            .field(field("lives", "Int!", NOARGS))
            .field(field("kind", "String!", NOARGS))
            .field(field("nick", "String", &len));
        let person = Object::new("Person")
            .field(field("id", "ID!", NOARGS))
            .field(field("name", "String", NOARGS))
            .field(field("pets", "[Pet!]!", &[("first", "Int!", Some(Value::from(10))), ("kind", "Color", None)]))
            .field(field("best", "Pet", NOARGS));
        let query = Object::new("Query")
            .field(field("n", "Int", &[("x", "Int!", None)]))
            .field(field("opt", "String", &[("x", "Int", None), ("s", "String", None), ("b", "Boolean", None), ("f", "Float", None), ("id", "ID", None)]))
            .field(field("def", "Int!", &[("x", "Int!", Some(Value::from(7)))]))
            .field(field("list", "Int!", &[("xs", "[Int]!", None)]))
            .field(field("ll", "Int!", &[("xss", "[[Int!]]", None)]))
            .field(field("pt", "Int!", &[("p", "Pt!", None), ("ps", "[Pt!]", None)]))
            .field(field("one", "Int!", &[("o", "One!", None)]))
            .field(field("color", "Color!", &[("c", "Color!", None), ("cs", "[Color]", None)]))
            .field(field("node", "Node", &[("id", "ID!", None)]))
            .field(field("pet", "Pet", NOARGS))
            .field(field("dog", "Dog", NOARGS))
            .field(field("cat", "Cat", NOARGS))
            .field(field("person", "Person", NOARGS))
            .field(field("nodes", "[Node!]!", NOARGS))
            .field(field("blob", "Int!", &[("b", "Blob", None), ("bs", "[Blob!]", None)]));
        let mutation = Object::new("Mutation")
            .field(field("setN", "Int!", &[("x", "Int!", None)]))
            .field(field("up", "Boolean!", &[("file", "Upload!", None)]))
            .field(field("reset", "Boolean!", NOARGS));
        let subscription = Subscription::new("Subscription")
            .field(
                SubscriptionField::new("ticks", tref("Int!"), |ctx| {
                    DYN_RESOLVER_CALLS.fetch_add(1, Ordering::SeqCst);
                    let n = ctx.args.get("n").and_then(|v| v.i64().ok()).unwrap_or(1).clamp(0, 2);
                    SubscriptionFieldFuture::new(async move { Ok(futures_util::stream::iter((0..n).map(|i| Ok(FieldValue::value(i as i32))))) })
                })
                .argument(InputValue::new("n", tref("Int!")).default_value(1)),
            )
            .field(SubscriptionField::new("names", tref("String!"), |_| {
                DYN_RESOLVER_CALLS.fetch_add(1, Ordering::SeqCst);
                SubscriptionFieldFuture::new(async move { Ok(futures_util::stream::iter(vec![Ok(FieldValue::value("a"))])) })
            }));
        Schema::build("Query", Some("Mutation"), Some("Subscription"))
            .register(Scalar::new("Blob"))
            .register(color)
            .register(pt)
            .register(one)
            .register(node)
            .register(pet)
            .register(dog)
            .register(cat)
            .register(person)
            .register(query)
            .register(mutation)
            .register(subscription)
            .enable_uploading()
            .validation_mode(ValidationMode::Strict)
            .extension(ext)
            .finish()
            .expect("dynamic schema of C09")
    }
}
