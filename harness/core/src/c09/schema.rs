// ------------------------------------------------------------------ the schema (rich in arguments)

#[derive(Enum, Copy, Clone, Eq, PartialEq)]
enum Color {
    Red,
    Green,
    Blue,
}

#[derive(InputObject)]
struct Pt {
    x: i32,
    #[graphql(default = 0)]
    y: i32,
    tag: Option<String>,
    sub: Option<Box<Pt>>,
    cs: Option<Vec<Color>>,
}

#[derive(OneofObject)]
enum One {
    A(i32),
    B(String),
}

struct Dog;
struct Cat;
struct Person;

#[derive(Interface)]
#[graphql(field(name = "id", ty = "ID"), field(name = "name", ty = "Option<String>"), field(name = "friend", ty = "Option<Node>"))]
enum Node {
    Dog(Dog),
    Cat(Cat),
}

#[derive(Union)]
enum Pet {
    Dog(Dog),
    Cat(Cat),
}

#[Object]
impl Dog {
    async fn id(&self) -> ID { ID("d".into()) }
    async fn name(&self) -> Option<String> { None }
    async fn friend(&self) -> Option<Node> { None }
    async fn barks(&self) -> bool { true }
    async fn owner(&self) -> Option<Person> { Some(Person) }
    async fn kind(&self) -> Color { Color::Red }
    async fn nick(&self, len: Option<i32>) -> Option<String> { let _ = len; None }
}
#[Object]
impl Cat {
    async fn id(&self) -> ID { ID("c".into()) }
    async fn name(&self) -> Option<String> { None }
    async fn friend(&self) -> Option<Node> { None }
    async fn lives(&self) -> i32 { 9 }
    async fn kind(&self) -> String { "cat".into() }
    async fn nick(&self, len: Option<i32>) -> Option<String> { let _ = len; None }
}
#[Object]
impl Person {
    async fn id(&self) -> ID { ID("p".into()) }
    async fn name(&self) -> Option<String> { None }
    async fn pets(&self, #[graphql(default = 10)] first: i32, kind: Option<Color>) -> Vec<Pet> { let _ = (first, kind); vec![Pet::Dog(Dog), Pet::Cat(Cat)] }
    async fn best(&self) -> Option<Pet> { Some(Pet::Cat(Cat)) }
}

struct Query;
#[Object]
impl Query {
    async fn n(&self, x: i32) -> Option<i32> { Some(x) }
    async fn opt(&self, x: Option<i32>, s: Option<String>, b: Option<bool>, f: Option<f64>, id: Option<ID>) -> Option<String> { let _ = (x, s, b, f, id); None }
    async fn def(&self, #[graphql(default = 7)] x: i32) -> i32 { x }
    async fn list(&self, xs: Vec<Option<i32>>) -> i32 { xs.len() as i32 }
    async fn ll(&self, xss: Option<Vec<Option<Vec<i32>>>>) -> i32 { let _ = xss; 0 }
    async fn pt(&self, p: Pt, ps: Option<Vec<Pt>>) -> i32 { let _ = (p.tag, p.sub, p.cs, ps); p.x + p.y }
    async fn one(&self, o: One) -> i32 { match o { One::A(a) => a, One::B(_) => 0 } }
    async fn color(&self, c: Color, cs: Option<Vec<Option<Color>>>) -> Color { let _ = cs; c }
    async fn node(&self, id: ID) -> Option<Node> { let _ = id; Some(Node::Dog(Dog)) }
    async fn pet(&self) -> Option<Pet> { Some(Pet::Dog(Dog)) }
    async fn dog(&self) -> Option<Dog> { Some(Dog) }
    async fn cat(&self) -> Option<Cat> { Some(Cat) }
    async fn person(&self) -> Option<Person> { Some(Person) }
    async fn nodes(&self) -> Vec<Node> { vec![Node::Dog(Dog), Node::Cat(Cat)] }
}

struct Mutation;
#[Object]
impl Mutation {
    async fn set_n(&self, x: i32) -> i32 { x }
    async fn up(&self, file: Upload) -> bool { let _ = file; true }
    async fn reset(&self) -> bool { true }
}

struct Subscription;
#[Subscription]
impl Subscription {
    async fn ticks(&self, #[graphql(default = 1)] n: i32) -> impl Stream<Item = i32> { stream::iter(0..n.min(2)) }
    async fn names(&self) -> impl Stream<Item = String> { stream::iter(vec!["a".to_string()]) }
}

// ---- THIRD schema variant: the same field set, but every root comes out of a merge derive — the
// Query and Mutation roots are `#[derive(MergedObject)]` of `#[Object]` parts, the Subscription root is a
// `#[derive(MergedSubscription)]` of two `#[Subscription]` parts.  The `MetaType::Object` of such a root is
// written by derive/src/merged_object.rs / merged_subscription.rs, not by the `#[Object]` / `#[Subscription]`
// macros: its flags (`is_subscription`, which `visit_selection` consults) are that code's business.
struct QPartA;
#[Object]
impl QPartA {
    async fn n(&self, x: i32) -> Option<i32> { Some(x) }
    async fn opt(&self, x: Option<i32>, s: Option<String>, b: Option<bool>, f: Option<f64>, id: Option<ID>) -> Option<String> { let _ = (x, s, b, f, id); None }
    async fn def(&self, #[graphql(default = 7)] x: i32) -> i32 { x }
    async fn list(&self, xs: Vec<Option<i32>>) -> i32 { xs.len() as i32 }
    async fn ll(&self, xss: Option<Vec<Option<Vec<i32>>>>) -> i32 { let _ = xss; 0 }
}
struct QPartB;
#[Object]
impl QPartB {
    async fn pt(&self, p: Pt, ps: Option<Vec<Pt>>) -> i32 { let _ = (p.tag, p.sub, p.cs, ps); p.x + p.y }
    async fn one(&self, o: One) -> i32 { match o { One::A(a) => a, One::B(_) => 0 } }
    async fn color(&self, c: Color, cs: Option<Vec<Option<Color>>>) -> Color { let _ = cs; c }
    async fn node(&self, id: ID) -> Option<Node> { let _ = id; Some(Node::Dog(Dog)) }
}
struct QPartC;
#[Object]
impl QPartC {
    async fn pet(&self) -> Option<Pet> { Some(Pet::Dog(Dog)) }
    async fn dog(&self) -> Option<Dog> { Some(Dog) }
    async fn cat(&self) -> Option<Cat> { Some(Cat) }
    async fn person(&self) -> Option<Person> { Some(Person) }
    async fn nodes(&self) -> Vec<Node> { vec![Node::Dog(Dog), Node::Cat(Cat)] }
}
#[derive(MergedObject)]
struct MQuery(QPartA, QPartB, QPartC);

struct MPartA;
#[Object]
impl MPartA {
    async fn set_n(&self, x: i32) -> i32 { x }
    async fn up(&self, file: Upload) -> bool { let _ = file; true }
}
struct MPartB;
#[Object]
impl MPartB {
    async fn reset(&self) -> bool { true }
}
#[derive(MergedObject)]
struct MMutation(MPartA, MPartB);

struct SPartA;
#[Subscription]
impl SPartA {
    async fn ticks(&self, #[graphql(default = 1)] n: i32) -> impl Stream<Item = i32> { stream::iter(0..n.min(2)) }
}
struct SPartB;
#[Subscription]
impl SPartB {
    async fn names(&self) -> impl Stream<Item = String> { stream::iter(vec!["a".to_string()]) }
}
#[derive(MergedSubscription)]
struct MSubscription(SPartA, SPartB);

struct Nop;
#[async_graphql::async_trait::async_trait]
impl CustomDirective for Nop {
    async fn resolve_field(&self, _ctx: &Context<'_>, resolve: ResolveFut<'_>) -> ServerResult<Option<Value>> {
        resolve.await
    }
}
#[Directive(location = "Field")]
fn concat(prefix: String, n: Option<i32>) -> impl CustomDirective {
    let _ = (prefix, n);
    Nop
}
#[Directive(location = "Field", repeatable)]
fn tagged(label: Option<String>) -> impl CustomDirective {
    let _ = label;
    Nop
}

/// Registered only in the SECOND schema variant: a custom field directive that happens to be called
/// `ifdef` — the name `FieldsOnCorrectType` still special-cases (fields_on_correct_type.rs:28-32).
#[Directive(location = "Field")]
fn ifdef() -> impl CustomDirective {
    Nop
}

// ------------------------------------------------------------------ schema description read from the real registry

#[derive(Clone, Debug, PartialEq)]
enum TRef {
    Named(String),
    List(Box<TRef>),
    NonNull(Box<TRef>),
}
impl TRef {
    fn parse(s: &str) -> TRef {
        if let Some(r) = s.strip_suffix('!') {
            TRef::NonNull(Box::new(TRef::parse(r)))
        } else if s.starts_with('[') && s.ends_with(']') {
            TRef::List(Box::new(TRef::parse(&s[1..s.len() - 1])))
        } else {
            TRef::Named(s.to_string())
        }
    }
    fn to_sexp(&self) -> Sexp {
        match self {
            TRef::Named(n) => st(n.clone()),
            TRef::List(t) => node("list", vec![t.to_sexp()]),
            TRef::NonNull(t) => node("nn", vec![t.to_sexp()]),
        }
    }
    fn from_sexp(s: &Sexp) -> Option<TRef> {
        Some(match s {
            Sexp::Str(n) => TRef::Named(n.clone()),
            _ => match s.tag()? {
                "list" => TRef::List(Box::new(TRef::from_sexp(&s.args()[0])?)),
                "nn" => TRef::NonNull(Box::new(TRef::from_sexp(&s.args()[0])?)),
                _ => return None,
            },
        })
    }
    fn base(&self) -> &str {
        match self {
            TRef::Named(n) => n,
            TRef::List(t) | TRef::NonNull(t) => t.base(),
        }
    }
    fn is_non_null(&self) -> bool {
        matches!(self, TRef::NonNull(_))
    }
    fn nullable(&self) -> &TRef {
        match self {
            TRef::NonNull(t) => t,
            t => t,
        }
    }
    fn text(&self) -> String {
        match self {
            TRef::Named(n) => n.clone(),
            TRef::List(t) => format!("[{}]", t.text()),
            TRef::NonNull(t) => format!("{}!", t.text()),
        }
    }
}

#[derive(Clone, Debug)]
struct ArgD {
    name: String,
    ty: TRef,
    has_default: bool,
}
#[derive(Clone, Debug)]
struct FieldD {
    name: String,
    ty: TRef,
    args: Vec<ArgD>,
}
#[derive(Clone, Debug)]
struct TypeD {
    name: String,
    kind: String,
    fields: Vec<FieldD>,
    possible: Vec<String>,
    values: Vec<String>,
    inputs: Vec<ArgD>,
    oneof: bool,
}
#[derive(Clone, Debug)]
struct DirD {
    name: String,
    repeatable: bool,
    locs: Vec<String>,
    args: Vec<ArgD>,
}
#[derive(Clone, Debug)]
struct SchemaD {
    query: String,
    mutation: Option<String>,
    subscription: Option<String>,
    types: Vec<TypeD>,
    dirs: Vec<DirD>,
}

fn arg_sexp(name: &str, ty: &str, has_default: bool) -> Sexp {
    node("arg", vec![st(name), TRef::parse(ty).to_sexp(), if has_default { node("some", vec![atom("null")]) } else { atom("none") }])
}

/// `(vschema (schema QUERY MUTATION SUBSCRIPTION (types…)) (dirs (dirdef NAME REPEATABLE (locs…) (args…))…)
///           (inputs (input NAME ONEOF (arg…)…)…) (subflag NAME…))`
/// `subflag`: the names of the `MetaType::Object`s registered with `is_subscription: true` — the ONLY thing
/// by which `visit_selection` recognises a subscription root (it never compares with `subscription_type`).
/// where a type is `(type NAME KIND (fields…) (implements…) (members = possible types…) (values…))`
/// as in Core/Types.lean.  Everything sorted by name (the registry keeps maps).
fn dump_registry(reg: &Registry) -> Sexp {
    let opt = |o: &Option<String>| o.as_ref().map(|s| st(s.clone())).unwrap_or(atom("none"));
    let mut types = vec![];
    let mut inputs = vec![];
    let mut subflag = vec![];
    let mut names: Vec<&String> = reg.types.keys().collect();
    names.sort();
    for name in names {
        let t = &reg.types[name];
        let out_fields = |fields: &indexmap::IndexMap<String, registry::MetaField>| {
            let mut fs: Vec<&registry::MetaField> = fields.values().collect();
            fs.sort_by(|a, b| a.name.cmp(&b.name));
            list(
                fs.iter()
                    .map(|f| {
                        let mut args: Vec<&registry::MetaInputValue> = f.args.values().collect();
                        args.sort_by(|a, b| a.name.cmp(&b.name));
                        node("fd", vec![st(f.name.clone()), TRef::parse(&f.ty).to_sexp(), list(args.iter().map(|a| arg_sexp(&a.name, &a.ty, a.default_value.is_some())).collect())])
                    })
                    .collect(),
            )
        };
        let sorted = |s: &indexmap::IndexSet<String>| {
            let mut v: Vec<String> = s.iter().cloned().collect();
            v.sort();
            list(v.into_iter().map(st).collect())
        };
        let (kind, fields, members, values) = match t {
            MetaType::Scalar { .. } => ("scalar", list(vec![]), list(vec![]), list(vec![])),
            MetaType::Enum { enum_values, .. } => {
                let mut v: Vec<String> = enum_values.keys().cloned().collect();
                v.sort();
                ("enum", list(vec![]), list(vec![]), list(v.into_iter().map(st).collect()))
            }
            MetaType::Object { fields, is_subscription, .. } => {
                if *is_subscription {
                    subflag.push(st(name.clone()));
                }
                ("object", out_fields(fields), list(vec![]), list(vec![]))
            }
            MetaType::Interface { fields, possible_types, .. } => ("interface", out_fields(fields), sorted(possible_types), list(vec![])),
            MetaType::Union { possible_types, .. } => ("union", list(vec![]), sorted(possible_types), list(vec![])),
            MetaType::InputObject { input_fields, oneof, .. } => {
                let mut fs: Vec<&registry::MetaInputValue> = input_fields.values().collect();
                fs.sort_by(|a, b| a.name.cmp(&b.name));
                let mut v = vec![st(name.clone()), atom(if *oneof { "true" } else { "false" })];
                v.extend(fs.iter().map(|a| arg_sexp(&a.name, &a.ty, a.default_value.is_some())));
                inputs.push(node("input", v));
                ("input", list(vec![]), list(vec![]), list(vec![]))
            }
        };
        types.push(node("type", vec![st(name.clone()), atom(kind), fields, list(vec![]), members, values]));
    }
    let mut dirs = vec![];
    for (name, d) in &reg.directives {
        let mut args: Vec<&registry::MetaInputValue> = d.args.values().collect();
        args.sort_by(|a, b| a.name.cmp(&b.name));
        dirs.push(node(
            "dirdef",
            vec![
                st(name.clone()),
                atom(if d.is_repeatable { "true" } else { "false" }),
                list(d.locations.iter().map(|l| atom(format!("{:?}", l))).collect()),
                list(args.iter().map(|a| arg_sexp(&a.name, &a.ty, a.default_value.is_some())).collect()),
            ],
        ));
    }
    node(
        "vschema",
        vec![
            node("schema", vec![st(reg.query_type.clone()), opt(&reg.mutation_type), opt(&reg.subscription_type), list(types)]),
            node("dirs", dirs),
            node("inputs", inputs),
            node("subflag", subflag),
        ],
    )
}

impl SchemaD {
    fn from_sexp(s: &Sexp) -> SchemaD {
        let a = s.args();
        let sc = a[0].args();
        let arg = |x: &Sexp| {
            let v = x.args();
            ArgD { name: v[0].as_str().unwrap().to_string(), ty: TRef::from_sexp(&v[1]).unwrap(), has_default: v[2].as_atom() != Some("none") }
        };
        let strs = |x: &Sexp| x.as_list().unwrap().iter().map(|y| y.as_str().unwrap().to_string()).collect::<Vec<_>>();
        let mut types: Vec<TypeD> = sc[3]
            .as_list()
            .unwrap()
            .iter()
            .map(|t| {
                let v = t.args();
                TypeD {
                    name: v[0].as_str().unwrap().to_string(),
                    kind: v[1].as_atom().unwrap().to_string(),
                    fields: v[2]
                        .as_list()
                        .unwrap()
                        .iter()
                        .map(|f| {
                            let w = f.args();
                            FieldD { name: w[0].as_str().unwrap().to_string(), ty: TRef::from_sexp(&w[1]).unwrap(), args: w[2].as_list().unwrap().iter().map(arg).collect() }
                        })
                        .collect(),
                    possible: strs(&v[4]),
                    values: strs(&v[5]),
                    inputs: vec![],
                    oneof: false,
                }
            })
            .collect();
        for i in a[2].args() {
            let v = i.args();
            let t = types.iter_mut().find(|t| t.name == v[0].as_str().unwrap()).unwrap();
            t.oneof = v[1].as_atom() == Some("true");
            t.inputs = v[2..].iter().map(arg).collect();
        }
        let dirs = a[1]
            .args()
            .iter()
            .map(|d| {
                let v = d.args();
                DirD {
                    name: v[0].as_str().unwrap().to_string(),
                    repeatable: v[1].as_atom() == Some("true"),
                    locs: v[2].as_list().unwrap().iter().map(|l| l.as_atom().unwrap().to_string()).collect(),
                    args: v[3].as_list().unwrap().iter().map(arg).collect(),
                }
            })
            .collect();
        SchemaD {
            query: sc[0].as_str().unwrap().to_string(),
            mutation: sc[1].as_str().map(|s| s.to_string()),
            subscription: sc[2].as_str().map(|s| s.to_string()),
            types,
            dirs,
        }
    }
    fn find(&self, n: &str) -> Option<&TypeD> {
        self.types.iter().find(|t| t.name == n)
    }
    fn is_composite(&self, n: &str) -> bool {
        self.find(n).map(|t| matches!(t.kind.as_str(), "object" | "interface" | "union")).unwrap_or(false)
    }
    fn possible(&self, n: &str) -> Vec<String> {
        match self.find(n) {
            Some(t) if t.kind == "object" => vec![n.to_string()],
            Some(t) => t.possible.clone(),
            None => vec![],
        }
    }
}
