// ------------------------------------------------------------------ documents (own AST: values may nest variables)

#[derive(Clone, Debug, PartialEq)]
enum V {
    Var(String),
    Null,
    Int(i64),
    Float(String),
    Str(String),
    Bool(bool),
    Enum(String),
    List(Vec<V>),
    Obj(Vec<(String, V)>),
}
impl V {
    fn to_sexp(&self) -> Sexp {
        match self {
            V::Var(n) => node("var", vec![st(n.clone())]),
            V::Null => atom("null"),
            V::Int(i) => num(i),
            V::Float(t) => node("f", vec![st(t.clone())]),
            V::Str(s) => st(s.clone()),
            V::Bool(b) => atom(if *b { "true" } else { "false" }),
            V::Enum(e) => node("e", vec![st(e.clone())]),
            V::List(xs) => node("list", xs.iter().map(|x| x.to_sexp()).collect()),
            V::Obj(fs) => node("obj", fs.iter().map(|(k, v)| list(vec![st(k.clone()), v.to_sexp()])).collect()),
        }
    }
    fn from_sexp(s: &Sexp) -> Option<V> {
        Some(match s {
            Sexp::Str(x) => V::Str(x.clone()),
            Sexp::Atom(a) => match a.as_str() {
                "null" => V::Null,
                "true" => V::Bool(true),
                "false" => V::Bool(false),
                _ => V::Int(a.parse().ok()?),
            },
            _ => match s.tag()? {
                "var" => V::Var(s.args()[0].as_str()?.to_string()),
                "f" => V::Float(s.args()[0].as_str()?.to_string()),
                "e" => V::Enum(s.args()[0].as_str()?.to_string()),
                "list" => V::List(s.args().iter().map(V::from_sexp).collect::<Option<_>>()?),
                "obj" => V::Obj(
                    s.args()
                        .iter()
                        .map(|p| {
                            let l = p.as_list()?;
                            Some((l[0].as_str()?.to_string(), V::from_sexp(&l[1])?))
                        })
                        .collect::<Option<_>>()?,
                ),
                _ => return None,
            },
        })
    }
    fn text(&self) -> String {
        match self {
            V::Var(n) => format!("${n}"),
            V::Null => "null".into(),
            V::Int(i) => i.to_string(),
            V::Float(t) => t.clone(),
            V::Str(s) => serde_json::to_string(s).unwrap(),
            V::Bool(b) => b.to_string(),
            V::Enum(e) => e.clone(),
            V::List(xs) => format!("[{}]", xs.iter().map(|x| x.text()).collect::<Vec<_>>().join(", ")),
            V::Obj(fs) => format!("{{{}}}", fs.iter().map(|(k, v)| format!("{k}: {}", v.text())).collect::<Vec<_>>().join(", ")),
        }
    }
    /// supplied variable value → the crate's ConstValue
    fn to_const(&self) -> async_graphql::Value {
        use async_graphql::Value as CV;
        match self {
            V::Var(_) | V::Null => CV::Null,
            V::Int(i) => CV::Number((*i).into()),
            V::Float(t) => CV::Number(serde_json::Number::from_f64(t.parse().unwrap()).unwrap()),
            V::Str(s) => CV::String(s.clone()),
            V::Bool(b) => CV::Boolean(*b),
            V::Enum(e) => CV::Enum(Name::new(e)),
            V::List(xs) => CV::List(xs.iter().map(|x| x.to_const()).collect()),
            V::Obj(fs) => CV::Object(fs.iter().map(|(k, v)| (Name::new(k), v.to_const())).collect()),
        }
    }
}

#[derive(Clone, Debug)]
struct Dir {
    name: String,
    args: Vec<(String, V)>,
}
#[derive(Clone, Debug)]
enum Sel {
    Field { alias: Option<String>, name: String, args: Vec<(String, V)>, dirs: Vec<Dir>, sels: Vec<Sel> },
    Spread { name: String, dirs: Vec<Dir> },
    Inline { cond: Option<String>, dirs: Vec<Dir>, sels: Vec<Sel> },
}
#[derive(Clone, Debug)]
struct VarDef {
    name: String,
    ty: TRef,
    default: Option<V>,
}
#[derive(Clone, Debug)]
struct Op {
    ty: String,
    name: Option<String>,
    vars: Vec<VarDef>,
    dirs: Vec<Dir>,
    sels: Vec<Sel>,
}
#[derive(Clone, Debug)]
struct Frag {
    name: String,
    cond: String,
    dirs: Vec<Dir>,
    sels: Vec<Sel>,
}
#[derive(Clone, Debug)]
struct Doc {
    ops: Vec<Op>,
    frags: Vec<Frag>,
}

fn args_sexp(args: &[(String, V)]) -> Vec<Sexp> {
    args.iter().map(|(k, v)| list(vec![st(k.clone()), v.to_sexp()])).collect()
}
fn dirs_sexp(ds: &[Dir]) -> Sexp {
    list(ds.iter().map(|d| {
        let mut v = vec![st(d.name.clone())];
        v.extend(args_sexp(&d.args));
        node("dir", v)
    }).collect())
}
fn sels_sexp(ss: &[Sel]) -> Sexp {
    let pos = || list(vec![num(0), num(0)]);
    list(ss.iter().map(|s| match s {
        Sel::Field { alias, name, args, dirs, sels } => node("field", vec![
            alias.as_ref().map(|a| st(a.clone())).unwrap_or(atom("none")),
            st(name.clone()),
            list(args_sexp(args)),
            dirs_sexp(dirs),
            sels_sexp(sels),
            pos(),
        ]),
        Sel::Spread { name, dirs } => node("spread", vec![st(name.clone()), dirs_sexp(dirs), pos()]),
        Sel::Inline { cond, dirs, sels } => node("inline", vec![
            cond.as_ref().map(|a| st(a.clone())).unwrap_or(atom("none")),
            dirs_sexp(dirs),
            sels_sexp(sels),
            pos(),
        ]),
    }).collect())
}
impl Doc {
    fn to_sexp(&self) -> Sexp {
        node("doc", vec![
            list(self.ops.iter().map(|o| node("op", vec![
                atom(o.ty.clone()),
                o.name.as_ref().map(|a| st(a.clone())).unwrap_or(atom("none")),
                list(o.vars.iter().map(|v| node("vardef", vec![
                    st(v.name.clone()),
                    v.ty.to_sexp(),
                    v.default.as_ref().map(|d| node("some", vec![d.to_sexp()])).unwrap_or(atom("none")),
                ])).collect()),
                dirs_sexp(&o.dirs),
                sels_sexp(&o.sels),
            ])).collect()),
            list(self.frags.iter().map(|f| node("frag", vec![st(f.name.clone()), st(f.cond.clone()), dirs_sexp(&f.dirs), sels_sexp(&f.sels)])).collect()),
        ])
    }
    /// only what `run` needs: operation names and types
    fn from_sexp(s: &Sexp) -> Option<Doc> {
        let a = s.args();
        let ops = a.first()?.as_list()?.iter().map(|o| {
            let v = o.args();
            Some(Op { ty: v.first()?.as_atom()?.to_string(), name: v.get(1)?.as_str().map(|s| s.to_string()), vars: vec![], dirs: vec![], sels: vec![] })
        }).collect::<Option<Vec<_>>>()?;
        Some(Doc { ops, frags: vec![] })
    }
}

fn print_doc(d: &Doc) -> String {
    fn args(out: &mut String, a: &[(String, V)]) {
        if !a.is_empty() {
            out.push('(');
            out.push_str(&a.iter().map(|(k, v)| format!("{k}: {}", v.text())).collect::<Vec<_>>().join(", "));
            out.push(')');
        }
    }
    fn dirs(out: &mut String, ds: &[Dir]) {
        for d in ds {
            out.push_str(&format!(" @{}", d.name));
            args(out, &d.args);
        }
    }
    fn sels(out: &mut String, ss: &[Sel]) {
        out.push_str("{ ");
        for s in ss {
            match s {
                Sel::Field { alias, name, args: a, dirs: ds, sels: sub } => {
                    if let Some(al) = alias {
                        out.push_str(&format!("{al}: "));
                    }
                    out.push_str(name);
                    args(out, a);
                    dirs(out, ds);
                    if !sub.is_empty() {
                        out.push(' ');
                        sels(out, sub);
                    }
                }
                Sel::Spread { name, dirs: ds } => {
                    out.push_str(&format!("...{name}"));
                    dirs(out, ds);
                }
                Sel::Inline { cond, dirs: ds, sels: sub } => {
                    out.push_str("...");
                    if let Some(c) = cond {
                        out.push_str(&format!(" on {c}"));
                    }
                    dirs(out, ds);
                    out.push(' ');
                    sels(out, sub);
                }
            }
            out.push(' ');
        }
        out.push('}');
    }
    let mut out = String::new();
    for op in &d.ops {
        if op.name.is_none() && op.vars.is_empty() && op.dirs.is_empty() && op.ty == "query" {
            // shorthand
        } else {
            out.push_str(&op.ty);
            if let Some(n) = &op.name {
                out.push_str(&format!(" {n}"));
            }
            if !op.vars.is_empty() {
                out.push('(');
                out.push_str(
                    &op.vars
                        .iter()
                        .map(|v| {
                            let mut s = format!("${}: {}", v.name, v.ty.text());
                            if let Some(d) = &v.default {
                                s.push_str(&format!(" = {}", d.text()));
                            }
                            s
                        })
                        .collect::<Vec<_>>()
                        .join(", "),
                );
                out.push(')');
            }
            dirs(&mut out, &op.dirs);
            out.push(' ');
        }
        sels(&mut out, &op.sels);
        out.push(' ');
    }
    for f in &d.frags {
        out.push_str(&format!("fragment {} on {}", f.name, f.cond));
        dirs(&mut out, &f.dirs);
        out.push(' ');
        sels(&mut out, &f.sels);
        out.push(' ');
    }
    out
}

fn vars_sexp(vs: &[(String, V)]) -> Sexp {
    node("vars", vs.iter().map(|(k, v)| list(vec![st(k.clone()), v.to_sexp()])).collect())
}
fn vars_from_sexp(s: &Sexp) -> Vec<(String, V)> {
    s.args().iter().filter_map(|p| {
        let l = p.as_list()?;
        Some((l[0].as_str()?.to_string(), V::from_sexp(&l[1])?))
    }).collect()
}
