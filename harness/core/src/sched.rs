//! C04 / C05 — execution under resolver schedules (shared by bin/c04.rs and bin/c05.rs).
//!
//! Case:   (case SCHEMA DOC OPNAME VARS WORLD TEXT (scheds (sc INTENDED (sched ((PATH…) KEY L C K) …)) …) KIND)
//!   KIND = once | order | nonnull (the stream: which predicate the judge applies)
//!   the first five parts as in C01/C03; every schedule assigns a gate `k` (number of polls a
//!   resolver stays Pending) to resolver occurrences identified by (response path of the parent
//!   position, response key, source position); unlisted occurrences have k = 0.
//!   INTENDED = `none` or `(perm (PATH KEY L C) …)`: the completion order the gates were computed for.
//! Output: (out (run RESP (trace (s PATH KEY L C) | (e PATH KEY L C) …)) …), one `run` per schedule:
//!   `response_sexp` (data, sorted errors, invocation log) + start/end events in the order they happened.
//! With `spin_on` (busy polling, no-op waker) an execution is a deterministic function of the schedule.

use std::sync::Arc;

use agvh::*;

use crate::family::*;

// ------------------------------------------------------------------ running

pub fn execute(case: &Sexp, sched: Option<Sched>) -> (async_graphql::Response, Arc<World>) {
    let a = case.args();
    let vars = vars_from_sexp(&a[3]);
    let mut w = World::from_sexp(&a[4]).expect("world");
    w.sched = sched;
    let w = Arc::new(w);
    let text = a[5].as_str().unwrap();
    let dynamic = a.get(7).and_then(|k| k.as_atom()).is_some_and(|k| k.starts_with("dyn"));
    let mut req = async_graphql::Request::new(text).data(w.clone());
    if let Some(n) = a[2].as_str() {
        req = req.operation_name(n);
    }
    let mut vs = async_graphql::Variables::default();
    for (k, v) in &vars {
        vs.insert(async_graphql::Name::new(k), v.to_avalue());
    }
    req = req.variables(vs);
    let resp = if dynamic { spin_on(build_dyn_schema().execute(req)) } else { spin_on(build_schema().execute(req)) };
    (resp, w)
}

fn key_sexp(k: &GateKey) -> Sexp {
    list(vec![path_sexp(&k.0), st(k.1.clone()), num(k.2.0), num(k.2.1)])
}
fn key_from_sexp(s: &Sexp) -> Option<GateKey> {
    let l = s.as_list()?;
    Some((path_from_sexp(&l[0])?, l[1].as_str()?.to_string(), (l[2].as_usize()?, l[3].as_usize()?)))
}

/// distinct occurrences in the order of their first `end` event
fn end_order(w: &World) -> Vec<GateKey> {
    let mut out: Vec<GateKey> = vec![];
    for e in w.trace.lock().unwrap().iter() {
        if e.end && !out.contains(&e.at) {
            out.push(e.at.clone());
        }
    }
    out
}

pub fn run(case: &Sexp, dist: &mut Dist) -> Sexp {
    let a = case.args();
    let mut outs = vec![];
    for sc in a[6].args() {
        let sa = sc.args();
        let sched = Sched::from_sexp(&sa[1]).expect("sched");
        let gated = sched.gates.values().filter(|k| **k > 0).count();
        let (resp, w) = execute(case, Some(sched));
        dist.hit("schedules");
        dist.hit(&format!("gated_resolvers_{}", if gated > 6 { "7+".to_string() } else { gated.to_string() }));
        if !resp.errors.is_empty() {
            dist.hit("runs_with_errors");
        }
        if sa[0].tag() == Some("perm") {
            let want: Vec<GateKey> = sa[0].args().iter().map(|k| key_from_sexp(k).unwrap()).collect();
            let got = end_order(&w);
            dist.hit(if got == want { "perm_realised_exactly" } else { "perm_not_realised" });
        }
        outs.push(node("run", vec![response_sexp(&resp, &w), trace_sexp(&w)]));
    }
    node("out", outs)
}

// ------------------------------------------------------------------ a dynamic schema with the same gated resolvers

use async_graphql::dynamic as dy;

fn dyn_conv(rv: RVal) -> async_graphql::Result<Option<dy::FieldValue<'static>>> {
    fn item(x: &RVal) -> dy::FieldValue<'static> {
        match x {
            RVal::Obj(_, id) => dy::FieldValue::owned_any(*id),
            RVal::Leaf(GV::Int(i)) => dy::FieldValue::value(*i),
            _ => dy::FieldValue::NULL,
        }
    }
    match rv {
        RVal::Null => Ok(None),
        RVal::Fail(m) => Err(m.into()),
        RVal::List(xs) => Ok(Some(dy::FieldValue::list(xs.iter().map(item).collect::<Vec<_>>()))),
        RVal::Arg(_) => Ok(None),
        other => Ok(Some(item(&other))),
    }
}

fn dyn_field(name: &str, ty: dy::TypeRef) -> dy::Field {
    dy::Field::new(name, ty, |ctx: dy::ResolverContext| {
        dy::FieldFuture::new(async move {
            let id = ctx.parent_value.try_downcast_ref::<u32>().ok().copied().unwrap_or(0);
            let rv = gated_get(ctx.ctx, id).await;
            dyn_conv(rv)
        })
    })
}

/// objects A (ids 1-3), B (4-6), C (7-9) as in the static family's pool; every field resolver is
/// the same gated, traced world lookup
pub fn build_dyn_schema() -> dy::Schema {
    use dy::TypeRef as T;
    let int = || T::named(T::INT);
    let obj = |n: &str| T::named(n);
    let query = dy::Object::new("Query")
        .field(dyn_field("a", obj("A")))
        .field(dyn_field("b", obj("B")))
        .field(dyn_field("c", obj("C")))
        .field(dyn_field("as", T::named_nn_list("A")))
        .field(dyn_field("num", int()));
    let mutation = dy::Object::new("Mutation")
        .field(dyn_field("a", obj("A")))
        .field(dyn_field("b", obj("B")))
        .field(dyn_field("num", int()))
        .field(dyn_field("numReq", T::named_nn(T::INT)));
    let a = dy::Object::new("A")
        .field(dyn_field("id", T::named_nn(T::INT)))
        .field(dyn_field("num", int()))
        .field(dyn_field("child", obj("A")))
        .field(dyn_field("bee", obj("B")))
        .field(dyn_field("children", T::named_nn_list("A")));
    let b = dy::Object::new("B")
        .field(dyn_field("id", T::named_nn(T::INT)))
        .field(dyn_field("num", int()))
        .field(dyn_field("cee", obj("C")))
        .field(dyn_field("ay", obj("A")));
    let c = dy::Object::new("C")
        .field(dyn_field("id", T::named_nn(T::INT)))
        .field(dyn_field("num", int()))
        .field(dyn_field("back", obj("A")))
        .field(dyn_field("bees", T::named_nn_list("B")));
    dy::Schema::build("Query", Some("Mutation"), None)
        .register(query)
        .register(mutation)
        .register(a)
        .register(b)
        .register(c)
        .finish()
        .expect("dynamic schema")
}

// ------------------------------------------------------------------ generation

fn type_of_id<'a>(sd: &'a SchemaD, root: &'a str, id: u32) -> &'a str {
    let _ = sd;
    match id {
        0 => root,
        1..=3 => "A",
        4..=6 => "B",
        _ => "C",
    }
}

/// a world whose failing resolvers sit at nullable positions only
fn world_nullable_faults(sd: &SchemaD, rng: &mut Rng, root: &str, fail_16: usize, dist: &mut Dist) -> World {
    let ok = WorldGen { sd, fail_16: 0, nonfinite: false }.generate(rng, root, dist);
    if fail_16 == 0 {
        return ok;
    }
    let mut sink = Dist::default();
    let bad = WorldGen { sd, fail_16, nonfinite: false }.generate(rng, root, &mut sink);
    let mut es = vec![];
    for (o, b) in ok.entries.iter().zip(bad.entries.iter()) {
        assert_eq!(o.0, b.0);
        let ty = type_of_id(sd, root, o.0.0);
        let fd = sd.find(ty).unwrap().fields.iter().find(|f| f.name == o.0.1).unwrap();
        if matches!(b.1, RVal::Fail(_)) && !fd.ty.is_non_null() {
            dist.hit("world_fail_nullable");
            es.push(b.clone());
        } else {
            es.push(o.clone());
        }
    }
    World::new(es)
}

/// repeat response keys: copy a field of a selection set (for composite fields with a non-empty
/// subset of its sub-selections, so that sub-selections have to be merged) and insert the copy
/// directly, inside an inline fragment (with or without type condition), or through a new named
/// fragment on the same type.  Same name, same alias, same arguments: the document stays valid.
fn add_repeats(sd: &SchemaD, ss: &mut Vec<SelN>, ty: &str, frags: &mut Vec<FragN>, rng: &mut Rng, dist: &mut Dist, chance_16: usize) {
    let field_idx: Vec<usize> = ss.iter().enumerate().filter(|(_, s)| matches!(s, SelN::Field { .. })).map(|(i, _)| i).collect();
    if !field_idx.is_empty() && rng.chance(chance_16, 16) {
        let i = *rng.pick(&field_idx);
        let mut copy = ss[i].clone();
        if let SelN::Field { sels, .. } = &mut copy {
            if sels.len() > 1 && rng.chance(1, 2) {
                let keep = rng.below(sels.len());
                let one = sels[keep].clone();
                sels.retain(|_| rng.chance(1, 2));
                if sels.is_empty() {
                    sels.push(one);
                }
                dist.hit("repeat_with_subset_of_subselections");
            }
        }
        let wrapped = match rng.below(5) {
            0 | 1 => {
                dist.hit("repeat_direct");
                copy
            }
            2 => {
                dist.hit("repeat_inline_nocond");
                SelN::Inline { cond: None, dirs: vec![], sels: vec![copy], pos: (0, 0) }
            }
            3 => {
                dist.hit("repeat_inline_cond");
                SelN::Inline { cond: Some(ty.to_string()), dirs: vec![], sels: vec![copy], pos: (0, 0) }
            }
            _ => {
                dist.hit("repeat_named_fragment");
                let name = format!("R{}", frags.len());
                frags.push(FragN { name: name.clone(), cond: ty.to_string(), sels: vec![copy] });
                if rng.chance(1, 3) {
                    // the same fragment spread twice: the same field node occurs twice
                    dist.hit("repeat_same_fragment_twice");
                    let at = rng.below(ss.len() + 1);
                    ss.insert(at, SelN::Spread { name: name.clone(), dirs: vec![], pos: (0, 0) });
                }
                SelN::Spread { name, dirs: vec![], pos: (0, 0) }
            }
        };
        let at = rng.below(ss.len() + 1);
        ss.insert(at, wrapped);
    }
    let t = sd.find(ty).cloned();
    for s in ss.iter_mut() {
        match s {
            SelN::Field { name, sels, .. } if !sels.is_empty() => {
                if let Some(fd) = t.as_ref().and_then(|t| t.fields.iter().find(|f| &f.name == name)) {
                    let inner = fd.ty.base().to_string();
                    add_repeats(sd, sels, &inner, frags, rng, dist, chance_16);
                }
            }
            SelN::Inline { cond, sels, .. } => {
                let inner = cond.clone().unwrap_or(ty.to_string());
                add_repeats(sd, sels, &inner, frags, rng, dist, chance_16);
            }
            _ => {}
        }
    }
}

fn is_prefix(p: &[Seg], q: &[Seg]) -> bool {
    p.len() <= q.len() && p == &q[..p.len()]
}

/// `y` must complete before `x` can start
fn precedes(y: &GateKey, x: &GateKey) -> bool {
    let mut own = y.0.clone();
    own.push(Seg::Key(y.1.clone()));
    is_prefix(&own, &x.0)
}

fn linear_extensions(keys: &[GateKey], cap: usize) -> Vec<Vec<usize>> {
    fn go(keys: &[GateKey], cur: &mut Vec<usize>, out: &mut Vec<Vec<usize>>, cap: usize) {
        if out.len() >= cap {
            return;
        }
        if cur.len() == keys.len() {
            out.push(cur.clone());
            return;
        }
        for x in 0..keys.len() {
            if cur.contains(&x) {
                continue;
            }
            if (0..keys.len()).all(|y| y == x || !precedes(&keys[y], &keys[x]) || cur.contains(&y)) {
                cur.push(x);
                go(keys, cur, out, cap);
                cur.pop();
            }
        }
    }
    let mut out = vec![];
    go(keys, &mut vec![], &mut out, cap);
    out
}

/// gates that make the resolvers complete in the order `perm` (one per round): a resolver starts
/// in the round in which the resolver of its parent position completed
fn gates_for(keys: &[GateKey], perm: &[usize]) -> Vec<(GateKey, u32)> {
    let mut fin: Vec<Option<u32>> = vec![None; keys.len()];
    let mut last: Option<u32> = None;
    let mut out = vec![];
    for &x in perm {
        let start = (0..keys.len()).filter(|&y| y != x && precedes(&keys[y], &keys[x])).filter_map(|y| fin[y]).max().unwrap_or(0);
        let target = match last {
            None => start,
            Some(l) => std::cmp::max(l + 1, start),
        };
        fin[x] = Some(target);
        last = Some(target);
        out.push((keys[x].clone(), target - start));
    }
    out
}

fn sched_sexp(intended: Sexp, gates: &[(GateKey, u32)]) -> Sexp {
    node(
        "sc",
        vec![
            intended,
            node("sched", gates.iter().filter(|g| g.1 > 0).map(|(k, g)| list(vec![path_sexp(&k.0), st(k.1.clone()), num(k.2.0), num(k.2.1), num(g)])).collect()),
        ],
    )
}

pub fn gen_case(rng: &mut Rng, _i: usize, o: &Opts, dist: &mut Dist) -> Sexp {
    thread_local! {
        static SD: SchemaD = SchemaD::from_sdl(&build_schema().sdl());
        static SD_DYN: SchemaD = SchemaD::from_sdl(&build_dyn_schema().sdl());
    }
    let dynamic = o.stream.starts_with("dyn");
    let key = if dynamic { &SD_DYN } else { &SD };
    key.with(|sd| {
        // `dyn-once` / `dyn-order`: the same streams against the dynamic schema (fault-free worlds)
        let kind = match o.stream.as_str() {
            "once" => "once",
            "nonnull" => "nonnull",
            "dyn-once" => "dyn-once",
            "dyn-order" => "dyn-order",
            _ => "order",
        };
        let stream = match o.stream.as_str() {
            "dyn-once" => "once",
            "dyn-order" => "order",
            x => x,
        };
        if stream == "witness" || stream == "dyn-witness" {
            return witness_case(sd, _i, dynamic);
        }
        // rejection sampling: up to 6 (document, world) candidates, the first one in which enough
        // resolver occurrences actually run is kept (many random queries stop at a null or a fault)
        let want = if stream == "once" { 2 } else { *rng.pick(&[2usize, 3, 4, 4, 5, 6]) };
        let mut attempt = 0;
        let (mut parts, keys, d_acc) = loop {
            attempt += 1;
            let mut d_try = Dist::default();
            let (parts, keys) = {
                let dist = &mut d_try;
                let op_ty = match stream {
                    "once" => {
                        if rng.chance(1, 2) { "mutation" } else { "query" }
                    }
                    _ => "query",
                };
                dist.hit(&format!("op_{op_ty}"));
                let budget = match stream {
                    "once" => 6 + rng.below(6),
                    _ => *rng.pick(&[4usize, 5, 6, 8, 10, 12, 14]),
                };
                let directives = !dynamic && rng.chance(1, 4);
                let (mut doc, vars) = gen_request_b(sd, rng, dist, op_ty, directives, budget, 3);
                let root = if op_ty == "mutation" { sd.mutation.clone().unwrap() } else { sd.query.clone() };
                if stream == "once" || rng.chance(1, 4) {
                    let mut frags = std::mem::take(&mut doc.frags);
                    let chance = if stream == "once" { 9 } else { 4 };
                    add_repeats(sd, &mut doc.ops[0].sels, &root, &mut frags, rng, dist, chance);
                    doc.frags = frags;
                }
                let text = print_doc(&mut doc);
                let w = match stream {
                    "nonnull" => {
                        dist.hit("world_faults_anywhere");
                        let f = *rng.pick(&[2usize, 4]);
                        WorldGen { sd, fail_16: f, nonfinite: false }.generate(rng, &root, dist)
                    }
                    _ if dynamic => world_nullable_faults(sd, rng, &root, 0, dist),
                    "once" => {
                        let f = *rng.pick(&[0usize, 0, 1, 2]);
                        world_nullable_faults(sd, rng, &root, f, dist)
                    }
                    _ => {
                        let f = *rng.pick(&[0usize, 2, 4, 6]);
                        world_nullable_faults(sd, rng, &root, f, dist)
                    }
                };
                let parts = vec![
                    sd.to_sexp(),
                    doc.to_sexp(),
                    doc.ops[0].name.as_ref().map(|n| st(n.clone())).unwrap_or(atom("none")),
                    vars_sexp(&vars),
                    w.to_sexp(),
                    st(text),
                ];
                // discovery: which resolver occurrences run when every gate is open
                let probe = node("case", { let mut p = parts.clone(); p.push(node("scheds", vec![])); p.push(atom(kind)); p });
                let (_, pw) = execute(&probe, Some(Sched::default()));
                let mut keys: Vec<GateKey> = vec![];
                for e in pw.trace.lock().unwrap().iter() {
                    if !e.end && !keys.contains(&e.at) {
                        keys.push(e.at.clone());
                    }
                }
                (parts, keys)
            };
            if keys.len() >= want || attempt >= 6 {
                break (parts, keys, d_try);
            }
        };
        for (k, v) in d_acc.0.iter() {
            dist.add(k, *v);
        }
        dist.hit(&format!("candidates_drawn_{attempt}"));
        dist.hit(&format!("resolver_occurrences_{}", match keys.len() { 0 => "0", 1..=3 => "1-3", 4..=6 => "4-6", 7..=12 => "7-12", _ => "13+" }));
        let mut scheds = vec![sched_sexp(atom("none"), &[])];
        let exhaustive = stream != "once" && keys.len() <= 6 && keys.len() >= 2;
        if exhaustive {
            dist.hit("case_all_completion_orders");
            for perm in linear_extensions(&keys, 720) {
                let gates = gates_for(&keys, &perm);
                let intended = node("perm", perm.iter().map(|&x| key_sexp(&keys[x])).collect());
                scheds.push(sched_sexp(intended, &gates));
            }
        } else {
            dist.hit("case_random_schedules");
            let n = if stream == "once" { 7 } else { 11 };
            for _ in 0..n {
                let dense = rng.chance(1, 2);
                let gates: Vec<(GateKey, u32)> = keys
                    .iter()
                    .map(|k| (k.clone(), if dense || rng.chance(1, 2) { rng.below(5) as u32 } else { 0 }))
                    .collect();
                scheds.push(sched_sexp(atom("none"), &gates));
            }
        }
        parts.push(node("scheds", scheds));
        parts.push(atom(kind));
        node("case", parts)
    })
}

// ------------------------------------------------------------------ the witnesses of the two findings (corpus)

fn fld(name: &str, sels: Vec<SelN>) -> SelN {
    SelN::Field { alias: None, name: name.into(), args: vec![], dirs: vec![], sels, pos: (0, 0) }
}

/// 0: `mutation Op { num num }` (C04: one response key, two resolver runs);
/// 1: `{ a { name num } }` with both nullable fields of A failing, completing in either order (C05)
fn witness_case(sd: &SchemaD, i: usize, dynamic: bool) -> Sexp {
    let (op_ty, sels, entries, kind) = if dynamic {
        ("mutation", vec![fld("num", vec![]), fld("num", vec![])], vec![((0u32, "num".to_string()), RVal::Leaf(GV::Int(1)))], "dyn-once")
    } else if i % 2 == 0 {
        ("mutation", vec![fld("num", vec![]), fld("num", vec![])], vec![((0u32, "num".to_string()), RVal::Leaf(GV::Int(1)))], "once")
    } else {
        (
            "query",
            vec![fld("a", vec![fld("name", vec![]), fld("num", vec![])])],
            vec![
                ((0u32, "a".to_string()), RVal::Obj("A".into(), 1)),
                ((1u32, "name".to_string()), RVal::Fail("boom-name".into())),
                ((1u32, "num".to_string()), RVal::Fail("boom-num".into())),
            ],
            "order",
        )
    };
    let mut doc = DocN { ops: vec![OpN { ty: op_ty.into(), name: Some("Op".into()), vars: vec![], sels }], frags: vec![] };
    let text = print_doc(&mut doc);
    let mut scheds = vec![sched_sexp(atom("none"), &[])];
    if !dynamic && i % 2 == 1 {
        if let SelN::Field { sels, .. } = &doc.ops[0].sels[0] {
            if let SelN::Field { pos, .. } = &sels[0] {
                let k: GateKey = (vec![Seg::Key("a".into())], "name".into(), *pos);
                scheds.push(sched_sexp(atom("none"), &[(k, 1)]));
            }
        }
    }
    let w = World::new(entries);
    node(
        "case",
        vec![sd.to_sexp(), doc.to_sexp(), st("Op"), vars_sexp(&[]), w.to_sexp(), st(text), node("scheds", scheds), atom(kind)],
    )
}
