//! C35 — HTTP GET requests never execute mutations.
//!
//! Every case is one HTTP request sent in-process through one of the bundled web-framework
//! integrations (axum: `Router` as a tower `Service`; actix-web: `test::call_service`; poem:
//! `Endpoint::get_response`; warp: `warp::test::request`; rocket: local asynchronous client)
//! against a schema whose query and mutation roots log their invocations.
//!
//! Case
//!   (http INTEG ROUTE EXEC METHOD ACCEPT BODY)
//!     INTEG  = axum | actix | poem | warp | rocket
//!     ROUTE  = svc     the integration's ready-made `GraphQL` service/handler/endpoint (axum, actix, poem)
//!            | single  a user handler built from the single-request extractor/filter
//!            | batch   a user handler built from the batch extractor/filter
//!              (rocket GET: single = `GraphQLQuery::execute`, batch = `GraphQLRequest::from(query).execute`)
//!     EXEC   = static | dynamic          which `Executor` (derive-macro schema or dynamic schema)
//!     METHOD = get | post
//!     ACCEPT = plain | mixed             mixed: `Accept: multipart/mixed; subscriptionSpec="1.0"` …
//!     BODY   = (single REQ) | (batch REQ…)     GET sends the first REQ as query string
//!     REQ    = (r DOC OPNAME VARS QUIRK)
//!     DOC    = (doc OP…) | (raw "text")
//!     OP     = (op TYPE NAME (FIELD…))   TYPE = query | short | mutation | subscription, NAME = none | (some "X")
//!     FIELD  = a | b | fail   (query root)   inc | set | boom   (mutation root)   nope (nowhere)
//!     OPNAME = none | (some "X")         sent as operationName AND operation_name on GET
//!     VARS   = none | (v N)              variables {"v": N}
//!     QUIRK  = ok | noquery | badvars    GET only: no `query` key / `variables` is not JSON
//! Case, stream `getbody` (the body dimension: what a GET does with a request carried in its BODY)
//!   (httpb INTEG ROUTE EXEC METHOD ACCEPT QS CT CLEN BODY)
//!     METHOD = get | post | head | put
//!     QS     = noq          no `?` at all          (`GET /single`)
//!            | emptyq       an empty query string  (`GET /single?`)
//!            | junk         a query string without any GraphQL key (`?foo=1&bar`)
//!            | (qs REQ)     REQ rendered as query string (QUIRK noquery: no `query=` key)
//!     CT     = json | gqlresp | multipart | absent    Content-Type of the body: application/json,
//!              application/graphql-response+json, multipart/form-data (GraphQL multipart request:
//!              parts `operations` and `map`), no Content-Type header
//!     CLEN   = cl | nocl    with / without a Content-Length header
//!     BODY   = empty | (single REQ) | (batch REQ…)     what the body carries, encoded as CT says
//! Output
//!   (resp CLASS OUT (log ENTRY…))   CLASS = status / 100
//!     OUT   = (single R) | (batch R…) | (multi R…) | none      R = (r err|noerr)           has a non-empty `errors` member
//!     ENTRY = (q "a") | (m "inc") | (m "set" N|null)           resolver invocations in order

use std::sync::{Arc, Mutex};

use agvh::*;
use async_graphql::{
    BatchRequest, BatchResponse, Context, Data, Executor, Object, Request, Response, Schema, Subscription, dynamic,
    futures_util::stream::{self, BoxStream, Stream},
};

type Log = Arc<Mutex<Vec<Sexp>>>;

fn push(ctx_log: &Log, e: Sexp) {
    ctx_log.lock().unwrap().push(e);
}

// ------------------------------------------------------------------ static schema

struct Q;
#[Object]
impl Q {
    async fn a(&self, ctx: &Context<'_>) -> Option<i32> {
        push(ctx.data_unchecked::<Log>(), node("q", vec![st("a")]));
        Some(1)
    }
    async fn b(&self, ctx: &Context<'_>) -> Option<i32> {
        push(ctx.data_unchecked::<Log>(), node("q", vec![st("b")]));
        Some(2)
    }
    async fn fail(&self, ctx: &Context<'_>) -> async_graphql::Result<Option<i32>> {
        push(ctx.data_unchecked::<Log>(), node("q", vec![st("fail")]));
        Err("query field failed".into())
    }
}

struct M;
#[Object]
impl M {
    async fn inc(&self, ctx: &Context<'_>) -> Option<i32> {
        push(ctx.data_unchecked::<Log>(), node("m", vec![st("inc")]));
        Some(1)
    }
    async fn set(&self, ctx: &Context<'_>, v: Option<i32>) -> Option<i32> {
        push(
            ctx.data_unchecked::<Log>(),
            node("m", vec![st("set"), v.map(num).unwrap_or_else(|| atom("null"))]),
        );
        v
    }
    async fn boom(&self, ctx: &Context<'_>) -> async_graphql::Result<Option<i32>> {
        push(ctx.data_unchecked::<Log>(), node("m", vec![st("boom")]));
        Err("mutation field failed".into())
    }
}

/// A subscription root (never selected by a valid case: the cases' subscription operations
/// select query fields).  The dynamic schema's `execute_stream` refuses every request when
/// the schema has no subscription root, so both schemas get one.
struct S;
#[Subscription]
impl S {
    async fn tick(&self) -> impl Stream<Item = i32> {
        stream::empty()
    }
}

// ------------------------------------------------------------------ dynamic schema (same fields)

fn dyn_schema(log: Log) -> dynamic::Schema {
    use dynamic::{
        Field, FieldFuture, FieldValue, InputValue, Object, Subscription, SubscriptionField, SubscriptionFieldFuture,
        TypeRef,
    };
    fn plain(root: &'static str, name: &'static str, ok: bool, log: &Log) -> Field {
        let log = log.clone();
        Field::new(name, TypeRef::named(TypeRef::INT), move |_ctx| {
            let log = log.clone();
            FieldFuture::new(async move {
                push(&log, node(root, vec![st(name)]));
                if ok {
                    Ok(Some(FieldValue::value(1)))
                } else {
                    Err(async_graphql::Error::new("field failed"))
                }
            })
        })
    }
    let query = Object::new("Q")
        .field(plain("q", "a", true, &log))
        .field(plain("q", "b", true, &log))
        .field(plain("q", "fail", false, &log));
    let log2 = log.clone();
    let mutation = Object::new("M")
        .field(plain("m", "inc", true, &log))
        .field(
            Field::new("set", TypeRef::named(TypeRef::INT), move |ctx| {
                let log = log2.clone();
                FieldFuture::new(async move {
                    let v = match ctx.args.get("v") {
                        Some(x) if !x.is_null() => Some(x.i64()?),
                        _ => None,
                    };
                    push(&log, node("m", vec![st("set"), v.map(num).unwrap_or_else(|| atom("null"))]));
                    Ok(v.map(FieldValue::value))
                })
            })
            .argument(InputValue::new("v", TypeRef::named(TypeRef::INT))),
        )
        .field(plain("m", "boom", false, &log));
    let subscription = Subscription::new("S").field(SubscriptionField::new("tick", TypeRef::named(TypeRef::INT), |_| {
        SubscriptionFieldFuture::new(async { Ok(stream::empty::<async_graphql::Result<FieldValue>>()) })
    }));
    dynamic::Schema::build("Q", Some("M"), Some("S"))
        .register(query)
        .register(mutation)
        .register(subscription)
        .finish()
        .expect("dynamic schema")
}

// ------------------------------------------------------------------ one executor type for all integrations

#[derive(Clone)]
enum Exec {
    Static(Schema<Q, M, S>),
    Dynamic(dynamic::Schema),
}

impl Executor for Exec {
    async fn execute(&self, request: Request) -> Response {
        match self {
            Exec::Static(s) => Executor::execute(s, request).await,
            Exec::Dynamic(s) => Executor::execute(s, request).await,
        }
    }
    async fn execute_batch(&self, batch: BatchRequest) -> BatchResponse {
        match self {
            Exec::Static(s) => Executor::execute_batch(s, batch).await,
            Exec::Dynamic(s) => Executor::execute_batch(s, batch).await,
        }
    }
    fn execute_stream(&self, request: Request, session_data: Option<Arc<Data>>) -> BoxStream<'static, Response> {
        match self {
            Exec::Static(s) => Executor::execute_stream(s, request, session_data),
            Exec::Dynamic(s) => Executor::execute_stream(s, request, session_data),
        }
    }
}

fn make_exec(which: &str, log: &Log) -> Exec {
    match which {
        "dynamic" => Exec::Dynamic(dyn_schema(log.clone())),
        _ => Exec::Static(Schema::build(Q, M, S).data(log.clone()).finish()),
    }
}

// ------------------------------------------------------------------ rendering a case as an HTTP request

const FIELDS: &[&str] = &["a", "b", "fail", "inc", "set", "boom", "nope"];

fn render_doc(doc: &Sexp) -> String {
    match doc.tag() {
        Some("raw") => doc.args()[0].as_str().unwrap().to_string(),
        _ => {
            let mut parts = vec![];
            for op in doc.args() {
                let a = op.args();
                let ty = a[0].as_atom().unwrap();
                let name = match a[1].tag() {
                    Some("some") => Some(a[1].args()[0].as_str().unwrap().to_string()),
                    _ => None,
                };
                let fields: Vec<&str> = a[2].as_list().unwrap().iter().map(|f| f.as_atom().unwrap()).collect();
                let uses_v = fields.contains(&"set");
                let sel: Vec<String> = fields
                    .iter()
                    .map(|f| if *f == "set" { "set(v: $v)".to_string() } else { f.to_string() })
                    .collect();
                let mut s = String::new();
                if ty != "short" {
                    s.push_str(ty);
                    if let Some(n) = &name {
                        s.push(' ');
                        s.push_str(n);
                    }
                    if uses_v {
                        s.push_str("($v: Int)");
                    }
                    s.push(' ');
                }
                s.push_str("{ ");
                s.push_str(&sel.join(" "));
                s.push_str(" }");
                parts.push(s);
            }
            parts.join(" ")
        }
    }
}

struct Req {
    query: String,
    op: Option<String>,
    v: Option<i64>,
    quirk: String,
}

fn parse_req(r: &Sexp) -> Req {
    let a = r.args();
    Req {
        query: render_doc(&a[0]),
        op: match a[1].tag() {
            Some("some") => Some(a[1].args()[0].as_str().unwrap().to_string()),
            _ => None,
        },
        v: match a[2].tag() {
            Some("v") => a[2].args()[0].as_i64(),
            _ => None,
        },
        quirk: a[3].as_atom().unwrap_or("ok").to_string(),
    }
}

fn pct(s: &str) -> String {
    let mut o = String::new();
    for b in s.bytes() {
        if b.is_ascii_alphanumeric() || b == b'-' || b == b'_' || b == b'.' {
            o.push(b as char);
        } else {
            o.push_str(&format!("%{:02X}", b));
        }
    }
    o
}

fn query_string(r: &Req) -> String {
    let mut kv: Vec<(String, String)> = vec![];
    if r.quirk != "noquery" {
        kv.push(("query".into(), r.query.clone()));
    }
    if let Some(op) = &r.op {
        kv.push(("operationName".into(), op.clone()));
        kv.push(("operation_name".into(), op.clone()));
    }
    if r.quirk == "badvars" {
        kv.push(("variables".into(), "{v:".into()));
    } else if let Some(v) = r.v {
        kv.push(("variables".into(), format!("{{\"v\":{}}}", v)));
    }
    kv.iter().map(|(k, v)| format!("{}={}", k, pct(v))).collect::<Vec<_>>().join("&")
}

fn json_of(r: &Req) -> serde_json::Value {
    let mut m = serde_json::Map::new();
    m.insert("query".into(), r.query.clone().into());
    if let Some(op) = &r.op {
        m.insert("operationName".into(), op.clone().into());
    }
    if let Some(v) = r.v {
        m.insert("variables".into(), serde_json::json!({ "v": v }));
    }
    serde_json::Value::Object(m)
}

struct Wire {
    method: &'static str, // "GET" | "POST" | "HEAD" | "PUT"
    path: String,         // "/svc" | "/single" | "/batch"
    query: Option<String>,
    accept_mixed: bool,
    content_type: Option<String>,
    content_length: bool,
    body: String,
    /// label of the query-string shape, for the distribution counters
    qs_kind: &'static str,
}

const BOUNDARY: &str = "agvB";

/// GraphQL multipart request: parts `operations` (the JSON request or batch) and `map`
fn multipart_of(json: Option<&str>) -> String {
    let mut o = String::new();
    if let Some(j) = json {
        o.push_str(&format!("--{BOUNDARY}\r\nContent-Disposition: form-data; name=\"operations\"\r\n\r\n{j}\r\n"));
        o.push_str(&format!("--{BOUNDARY}\r\nContent-Disposition: form-data; name=\"map\"\r\n\r\n{{}}\r\n"));
    }
    o.push_str(&format!("--{BOUNDARY}--\r\n"));
    o
}

fn json_body(body: &Sexp) -> Option<String> {
    match body.tag() {
        Some("single") => Some(json_of(&parse_req(&body.args()[0])).to_string()),
        Some("batch") => Some(serde_json::Value::Array(body.args().iter().map(|r| json_of(&parse_req(r))).collect()).to_string()),
        _ => None,
    }
}

/// the `httpb` cases: method, query-string shape, content type, Content-Length and body vary freely
fn wire_of_b(case: &Sexp) -> (String, String, Wire) {
    let a = case.args();
    let integ = a[0].as_atom().unwrap().to_string();
    let route = a[1].as_atom().unwrap();
    let exec = a[2].as_atom().unwrap().to_string();
    let method = match a[3].as_atom().unwrap() {
        "get" => "GET",
        "post" => "POST",
        "head" => "HEAD",
        "put" => "PUT",
        m => panic!("unknown method {m}"),
    };
    let accept_mixed = a[4].as_atom().unwrap() == "mixed";
    let (query, qs_kind) = match (&a[5], a[5].as_atom()) {
        (_, Some("noq")) => (None, "noq"),
        (_, Some("emptyq")) => (Some(String::new()), "emptyq"),
        (_, Some("junk")) => (Some("foo=1&bar".to_string()), "junk"),
        (q, _) if q.tag() == Some("qs") => {
            let r = parse_req(&q.args()[0]);
            let kind = if r.quirk == "noquery" { "qs_noquery" } else { "qs_full" };
            (Some(query_string(&r)), kind)
        }
        _ => panic!("unknown query-string shape"),
    };
    let json = json_body(&a[8]);
    let (content_type, body) = match a[6].as_atom().unwrap() {
        "json" => (Some("application/json".to_string()), json.unwrap_or_default()),
        "gqlresp" => (Some("application/graphql-response+json".to_string()), json.unwrap_or_default()),
        "multipart" => (Some(format!("multipart/form-data; boundary={BOUNDARY}")), multipart_of(json.as_deref())),
        "absent" => (None, json.unwrap_or_default()),
        c => panic!("unknown content type {c}"),
    };
    let content_length = a[7].as_atom().unwrap() == "cl";
    (
        integ,
        exec,
        Wire { method, path: format!("/{}", route), query, accept_mixed, content_type, content_length, body, qs_kind },
    )
}

const MIXED: &str = "multipart/mixed; boundary=\"graphql\"; subscriptionSpec=\"1.0\", application/json";

fn wire_of(case: &Sexp) -> (String, String, Wire) {
    let a = case.args();
    let integ = a[0].as_atom().unwrap().to_string();
    let route = a[1].as_atom().unwrap();
    let exec = a[2].as_atom().unwrap().to_string();
    let get = a[3].as_atom().unwrap() == "get";
    let accept_mixed = a[4].as_atom().unwrap() == "mixed";
    let body = &a[5];
    let reqs: Vec<Req> = body.args().iter().map(parse_req).collect();
    let (query, text) = if get {
        (Some(reqs.first().map(query_string).unwrap_or_default()), String::new())
    } else if body.tag() == Some("single") {
        (None, json_of(&reqs[0]).to_string())
    } else {
        (None, serde_json::Value::Array(reqs.iter().map(json_of).collect()).to_string())
    };
    (
        integ,
        exec,
        Wire {
            method: if get { "GET" } else { "POST" },
            path: format!("/{}", route),
            query,
            accept_mixed,
            content_type: if get { None } else { Some("application/json".to_string()) },
            content_length: false,
            body: text,
            qs_kind: if get { "qs" } else { "noq" },
        },
    )
}

impl Wire {
    fn has_body(&self) -> bool {
        self.method != "GET" || !self.body.is_empty()
    }
    fn uri(&self) -> String {
        match &self.query {
            Some(q) => format!("{}?{}", self.path, q),
            None => self.path.clone(),
        }
    }
}

// ------------------------------------------------------------------ reading a response

fn resp_item(v: &serde_json::Value) -> Sexp {
    let err = v.get("errors").and_then(|e| e.as_array()).map(|e| !e.is_empty()).unwrap_or(false);
    node("r", vec![atom(if err { "err" } else { "noerr" })])
}

fn out_of(status: u16, content_type: &str, body: &[u8]) -> (Sexp, Sexp) {
    let class = num(status / 100);
    if !(200..300).contains(&status) {
        return (class, atom("none"));
    }
    let text = String::from_utf8_lossy(body).to_string();
    if content_type.starts_with("multipart/mixed") {
        let mut items = vec![];
        for line in text.split("\r\n") {
            if line.starts_with('{')
                && let Ok(v) = serde_json::from_str::<serde_json::Value>(line)
            {
                // incremental delivery wraps nothing here: each part is a plain response
                items.push(resp_item(v.get("payload").filter(|p| p.is_object()).unwrap_or(&v)));
            }
        }
        return (class, if items.len() == 1 { node("single", items) } else { node("multi", items) });
    }
    match serde_json::from_str::<serde_json::Value>(&text) {
        Ok(serde_json::Value::Array(xs)) => (class, node("batch", xs.iter().map(resp_item).collect())),
        Ok(v @ serde_json::Value::Object(_)) => (class, node("single", vec![resp_item(&v)])),
        _ => (class, atom("unreadable")),
    }
}

// ------------------------------------------------------------------ axum

mod via_axum {
    use super::*;
    use async_graphql_axum::{GraphQL, GraphQLBatchRequest, GraphQLRequest, GraphQLResponse};
    use axum::{Router, body::Body, extract::State, routing::get};
    use tower_service::Service;

    async fn single(State(exec): State<Exec>, req: GraphQLRequest) -> GraphQLResponse {
        exec.execute(req.into_inner()).await.into()
    }
    async fn batch(State(exec): State<Exec>, req: GraphQLBatchRequest) -> GraphQLResponse {
        exec.execute_batch(req.into_inner()).await.into()
    }

    pub async fn send(exec: Exec, w: &Wire) -> (u16, String, Vec<u8>) {
        let mut app: Router = Router::new()
            .route_service("/svc", GraphQL::new(exec.clone()))
            .route("/single", get(single).post(single))
            .route("/batch", get(batch).post(batch))
            .with_state(exec);
        let mut b = http::Request::builder().method(w.method).uri(w.uri());
        if let Some(ct) = &w.content_type {
            b = b.header("content-type", ct.as_str());
        }
        if w.content_length {
            b = b.header("content-length", w.body.len().to_string());
        }
        if w.accept_mixed {
            b = b.header("accept", MIXED);
        }
        let req = b.body(Body::from(w.body.clone())).unwrap();
        let resp = Service::call(&mut app, req).await.unwrap();
        let status = resp.status().as_u16();
        let ct = resp.headers().get("content-type").and_then(|v| v.to_str().ok()).unwrap_or("").to_string();
        let bytes = axum::body::to_bytes(resp.into_body(), usize::MAX).await.unwrap_or_default();
        (status, ct, bytes.to_vec())
    }
}

// ------------------------------------------------------------------ actix-web

mod via_actix {
    use super::*;
    use actix_web::{App, test, web};
    use async_graphql_actix_web::{GraphQL, GraphQLBatchRequest, GraphQLRequest, GraphQLResponse};

    async fn single(exec: web::Data<Exec>, req: GraphQLRequest) -> GraphQLResponse {
        exec.execute(req.into_inner()).await.into()
    }
    async fn batch(exec: web::Data<Exec>, req: GraphQLBatchRequest) -> GraphQLResponse {
        exec.execute_batch(req.into_inner()).await.into()
    }

    pub async fn send(exec: Exec, w: &Wire) -> (u16, String, Vec<u8>) {
        let app = test::init_service(
            App::new()
                .app_data(web::Data::new(exec.clone()))
                .service(web::resource("/svc").to(GraphQL::new(exec)))
                .service(web::resource("/single").to(single))
                .service(web::resource("/batch").to(batch)),
        )
        .await;
        let mut b = test::TestRequest::default()
            .method(actix_web::http::Method::from_bytes(w.method.as_bytes()).unwrap())
            .uri(&w.uri());
        if let Some(ct) = &w.content_type {
            b = b.insert_header(("content-type", ct.as_str()));
        }
        if w.content_length {
            b = b.insert_header(("content-length", w.body.len().to_string()));
        }
        if w.has_body() {
            b = b.set_payload(w.body.clone());
        }
        if w.accept_mixed {
            b = b.insert_header(("accept", MIXED));
        }
        let resp = test::call_service(&app, b.to_request()).await;
        let status = resp.status().as_u16();
        let ct = resp.headers().get("content-type").and_then(|v| v.to_str().ok()).unwrap_or("").to_string();
        let bytes = test::read_body(resp).await;
        (status, ct, bytes.to_vec())
    }
}

// ------------------------------------------------------------------ poem

mod via_poem {
    use super::*;
    use async_graphql_poem::{GraphQL, GraphQLBatchRequest, GraphQLBatchResponse, GraphQLRequest, GraphQLResponse};
    use poem::{Endpoint, EndpointExt, Route, handler, web::Data as PData};

    #[handler]
    async fn single(exec: PData<&Exec>, req: GraphQLRequest) -> GraphQLResponse {
        exec.0.execute(req.0).await.into()
    }
    #[handler]
    async fn batch(exec: PData<&Exec>, req: GraphQLBatchRequest) -> GraphQLBatchResponse {
        exec.0.execute_batch(req.0).await.into()
    }

    pub async fn send(exec: Exec, w: &Wire) -> (u16, String, Vec<u8>) {
        let app = Route::new()
            .at("/svc", GraphQL::new(exec.clone()))
            .at("/single", single)
            .at("/batch", batch)
            .data(exec);
        let mut b = poem::Request::builder()
            .method(poem::http::Method::from_bytes(w.method.as_bytes()).unwrap())
            .uri(w.uri().parse::<poem::http::Uri>().unwrap());
        if let Some(ct) = &w.content_type {
            b = b.header("content-type", ct.as_str());
        }
        if w.content_length {
            b = b.header("content-length", w.body.len().to_string());
        }
        if w.accept_mixed {
            b = b.header("accept", MIXED);
        }
        let resp = app.get_response(b.body(w.body.clone())).await;
        let status = resp.status().as_u16();
        let ct = resp.header("content-type").unwrap_or("").to_string();
        let bytes = resp.into_body().into_vec().await.unwrap_or_default();
        (status, ct, bytes)
    }
}

// ------------------------------------------------------------------ warp

mod via_warp {
    use std::convert::Infallible;

    use super::*;
    use async_graphql_warp::{GraphQLBatchResponse, GraphQLResponse, graphql, graphql_batch};
    use warp::Filter;

    pub async fn send(exec: Exec, w: &Wire) -> (u16, String, Vec<u8>) {
        let single = warp::path("single").and(graphql(exec.clone())).and_then(
            |(exec, request): (Exec, Request)| async move {
                Ok::<_, Infallible>(GraphQLResponse::from(exec.execute(request).await))
            },
        );
        let batch = warp::path("batch").and(graphql_batch(exec)).and_then(
            |(exec, request): (Exec, BatchRequest)| async move {
                Ok::<_, Infallible>(GraphQLBatchResponse::from(exec.execute_batch(request).await))
            },
        );
        let routes = single.or(batch);
        let mut b = warp::test::request().method(w.method).path(&w.uri());
        if let Some(ct) = &w.content_type {
            b = b.header("content-type", ct.as_str());
        }
        if w.content_length {
            b = b.header("content-length", w.body.len().to_string());
        }
        if w.has_body() {
            b = b.body(w.body.clone());
        }
        if w.accept_mixed {
            b = b.header("accept", MIXED);
        }
        let resp = b.reply(&routes).await;
        let status = resp.status().as_u16();
        let ct = resp.headers().get("content-type").and_then(|v| v.to_str().ok()).unwrap_or("").to_string();
        (status, ct, resp.body().to_vec())
    }
}

// ------------------------------------------------------------------ rocket

mod via_rocket {
    use super::*;
    use async_graphql_rocket::{GraphQLBatchRequest, GraphQLQuery, GraphQLRequest, GraphQLResponse};
    use rocket::{State, http::Header, local::asynchronous::Client, routes};

    #[rocket::get("/single?<query..>")]
    async fn get_single(exec: &State<Exec>, query: GraphQLQuery) -> GraphQLResponse {
        query.execute(exec.inner()).await
    }
    #[rocket::get("/batch?<query..>")]
    async fn get_converted(exec: &State<Exec>, query: GraphQLQuery) -> GraphQLResponse {
        GraphQLRequest::from(query).execute(exec.inner()).await
    }
    #[rocket::post("/single", data = "<request>")]
    async fn post_single(exec: &State<Exec>, request: GraphQLRequest) -> GraphQLResponse {
        request.execute(exec.inner()).await
    }
    #[rocket::post("/batch", data = "<request>")]
    async fn post_batch(exec: &State<Exec>, request: GraphQLBatchRequest) -> GraphQLResponse {
        request.execute(exec.inner()).await
    }

    pub async fn send(exec: Exec, w: &Wire) -> (u16, String, Vec<u8>) {
        let config = rocket::Config { log_level: rocket::config::LogLevel::Off, ..rocket::Config::debug_default() };
        let rocket = rocket::custom(config)
            .manage(exec)
            .mount("/", routes![get_single, get_converted, post_single, post_batch]);
        let client = Client::untracked(rocket).await.expect("rocket client");
        let uri = w.uri();
        let method = match w.method {
            "GET" => rocket::http::Method::Get,
            "POST" => rocket::http::Method::Post,
            "HEAD" => rocket::http::Method::Head,
            _ => rocket::http::Method::Put,
        };
        let mut b = client.req(method, uri);
        if let Some(ct) = &w.content_type {
            b = b.header(Header::new("content-type", ct.clone()));
        }
        if w.content_length {
            b = b.header(Header::new("content-length", w.body.len().to_string()));
        }
        if w.has_body() {
            b = b.body(w.body.clone());
        }
        if w.accept_mixed {
            b = b.header(Header::new("accept", MIXED));
        }
        let resp = b.dispatch().await;
        let status = resp.status().code;
        let ct = resp.headers().get_one("content-type").unwrap_or("").to_string();
        let bytes = resp.into_bytes().await.unwrap_or_default();
        (status, ct, bytes)
    }
}

// ------------------------------------------------------------------ run

fn run(case: &Sexp, dist: &mut Dist) -> Sexp {
    let extended = case.tag() == Some("httpb");
    let (integ, exec_kind, wire) = if extended { wire_of_b(case) } else { wire_of(case) };
    let log: Log = Default::default();
    let exec = make_exec(&exec_kind, &log);
    let (status, ct, body) = match integ.as_str() {
        "actix" => actix_web::rt::System::new().block_on(via_actix::send(exec, &wire)),
        other => {
            let rt = tokio::runtime::Builder::new_current_thread().enable_all().build().unwrap();
            rt.block_on(async {
                match other {
                    "axum" => via_axum::send(exec, &wire).await,
                    "poem" => via_poem::send(exec, &wire).await,
                    "warp" => via_warp::send(exec, &wire).await,
                    "rocket" => via_rocket::send(exec, &wire).await,
                    _ => panic!("unknown integration"),
                }
            })
        }
    };
    if std::env::var_os("AGV_DEBUG").is_some() {
        eprintln!("{} {} {:?}", status, ct, String::from_utf8_lossy(&body));
    }
    let (class, out) = if wire.method == "HEAD" && body.is_empty() {
        // the answer to a HEAD request has no body (axum, rocket strip it)
        (num(status / 100), atom("none"))
    } else {
        out_of(status, &ct, &body)
    };
    let entries = log.lock().unwrap().clone();
    let ran_mutation = entries.iter().any(|e| e.tag() == Some("m"));
    let ran_query = entries.iter().any(|e| e.tag() == Some("q"));
    let m = wire.method.to_ascii_lowercase();
    let ran = if ran_mutation { "ran_mutation" } else if ran_query { "ran_query" } else { "ran_nothing" };
    if extended {
        // did the mutation counter move?  per method, query-string shape and body content
        let carries = match case.args()[8].tag() {
            None => "body_empty",
            Some(_) if case.args()[8].to_string().contains("(op mutation") => "body_with_mutation",
            Some(_) => "body_without_mutation",
        };
        dist.hit(&format!("impl_{}_{}_{}_{}", m, wire.qs_kind, carries, ran));
    } else {
        dist.hit(&format!("impl_{}_{}", m, ran));
    }
    node("resp", vec![class, out, node("log", entries)])
}

// ------------------------------------------------------------------ generator

fn some(s: &str) -> Sexp {
    node("some", vec![st(s)])
}

fn routes_of(integ: &str) -> &'static [&'static str] {
    match integ {
        "warp" | "rocket" => &["single", "batch"],
        _ => &["svc", "single", "batch"],
    }
}

const NAMES: &[&str] = &["A", "B", "C"];

fn gen_fields(rng: &mut Rng, ty: &str, clean: bool) -> Vec<Sexp> {
    let (own, failing): (&[&str], &str) = match ty {
        "mutation" => (&["inc", "set"], "boom"),
        _ => (&["a", "b"], "fail"),
    };
    let mut pool: Vec<&str> = own.to_vec();
    if rng.chance(1, 4) {
        pool.push(failing);
    }
    if !clean && rng.chance(1, 6) {
        // a field of the other root, or of no root: a validation error for the whole document
        pool.push(*rng.pick(&["nope", if ty == "mutation" { "a" } else { "inc" }]));
    }
    rng.shuffle(&mut pool);
    let k = 1 + rng.below(pool.len().min(3));
    // a failing resolver goes last: whether the fields after a failed one still run is the
    // subject of C03/C05, not of this property
    let mut chosen: Vec<&str> = pool[..k].to_vec();
    chosen.sort_by_key(|f| *f == "fail" || *f == "boom");
    chosen.iter().map(|f| atom(*f)).collect()
}

fn gen_op(rng: &mut Rng, ty: &str, name: Sexp, clean: bool) -> Sexp {
    node("op", vec![atom(ty), name, list(gen_fields(rng, if ty == "short" { "query" } else { ty }, clean))])
}

/// (DOC, OPNAME, kind) — kind feeds the distribution counters
fn gen_doc(rng: &mut Rng) -> (Sexp, Sexp, &'static str) {
    let ty_of = |rng: &mut Rng| if rng.chance(3, 5) { "mutation" } else { "query" };
    match rng.below(20) {
        // lone anonymous operation
        0..=4 => {
            let ty = if rng.chance(2, 3) {
                "mutation"
            } else if rng.chance(1, 2) {
                "short"
            } else {
                "query"
            };
            let opn = if rng.chance(1, 10) { some("A") } else { atom("none") };
            (node("doc", vec![gen_op(rng, ty, atom("none"), false)]), opn, "doc_anonymous")
        }
        // lone named operation, selected by name, by default, or by a wrong name
        5..=8 => {
            let ty = ty_of(rng);
            let opn = match rng.below(6) {
                0 | 1 => atom("none"),
                2 => some("B"),
                _ => some("A"),
            };
            (node("doc", vec![gen_op(rng, ty, some("A"), false)]), opn, "doc_named")
        }
        // mixed document: 2-3 named operations of both kinds, selected by operationName
        9..=16 => {
            let k = 2 + rng.below(2);
            let mut ops = vec![];
            let mut has_mut = false;
            for (i, name) in NAMES.iter().enumerate().take(k) {
                let mut ty = ty_of(rng);
                if i == k - 1 && !has_mut {
                    ty = "mutation";
                }
                has_mut |= ty == "mutation";
                let clean = !rng.chance(1, 8);
                ops.push(gen_op(rng, ty, some(name), clean));
            }
            rng.shuffle(&mut ops);
            let opn = match rng.below(12) {
                0 => atom("none"),
                1 => some("Z"),
                _ => some(NAMES[rng.below(k)]),
            };
            (node("doc", ops), opn, "doc_mixed")
        }
        // ill-formed documents: anonymous among several, repeated name, subscription
        17 => {
            let mut ops = vec![gen_op(rng, "mutation", atom("none"), true), gen_op(rng, "query", some("A"), true)];
            rng.shuffle(&mut ops);
            (node("doc", ops), if rng.chance(1, 2) { some("A") } else { atom("none") }, "doc_anonymous_among_several")
        }
        18 => {
            if rng.chance(1, 2) {
                let ops = vec![gen_op(rng, "mutation", some("A"), true), gen_op(rng, "query", some("A"), true)];
                (node("doc", ops), some("A"), "doc_repeated_name")
            } else {
                let mut ops = vec![gen_op(rng, "subscription", some("A"), true), gen_op(rng, "mutation", some("B"), true)];
                rng.shuffle(&mut ops);
                (node("doc", ops), some(*rng.pick(&["A", "B"])), "doc_subscription")
            }
        }
        _ => {
            let raw = *rng.pick(&["mutation {", "mutation { inc", "", "mutation M { inc } }", "mutatio { inc }", "{ a } garbage"]);
            (node("raw", vec![st(raw)]), atom("none"), "doc_unparseable")
        }
    }
}

fn gen_req(rng: &mut Rng, dist: &mut Dist, get: bool) -> Sexp {
    let (doc, opn, kind) = gen_doc(rng);
    dist.hit(kind);
    let vars = if rng.chance(1, 2) { node("v", vec![num(rng.range(-9, 99))]) } else { atom("none") };
    let quirk = if get && rng.chance(1, 16) {
        if rng.chance(1, 2) { "noquery" } else { "badvars" }
    } else {
        "ok"
    };
    if quirk != "ok" {
        dist.hit(&format!("quirk_{}", quirk));
    }
    node("r", vec![doc, opn, vars, atom(quirk)])
}

/// stream `getbody`: the request travels in the BODY; method, query-string shape, content type
/// and Content-Length vary
fn gen_case_b(rng: &mut Rng, dist: &mut Dist) -> Sexp {
    let integ = *rng.pick(&["axum", "actix", "poem", "warp", "rocket"]);
    let route = *rng.pick(routes_of(integ));
    let exec = if rng.chance(1, 3) { "dynamic" } else { "static" };
    let method = match rng.below(20) {
        0..=13 => "get",
        14..=16 => "post",
        17..=18 => "head",
        _ => "put",
    };
    let safe_method = method == "get" || method == "head";
    let mixed = rng.chance(1, 5);
    let qs = match rng.below(20) {
        0..=6 if safe_method => atom("noq"),
        0..=13 if !safe_method => atom("noq"),
        7..=10 if safe_method => atom("emptyq"),
        11..=13 if safe_method => atom("junk"),
        14..=15 => atom("junk"),
        _ => {
            // a query string carrying a request; for GET/HEAD half of them without the `query` key
            let (doc, opn, kind) = gen_doc(rng);
            dist.hit(&format!("qs_{}", kind));
            let vars = if rng.chance(1, 2) { node("v", vec![num(rng.range(-9, 99))]) } else { atom("none") };
            let quirk = if rng.chance(1, 2) {
                "noquery"
            } else if rng.chance(1, 8) {
                "badvars"
            } else {
                "ok"
            };
            node("qs", vec![node("r", vec![doc, opn, vars, atom(quirk)])])
        }
    };
    let ct = match rng.below(20) {
        0..=7 => "json",
        8..=12 => "multipart",
        13..=16 => "gqlresp",
        _ => "absent",
    };
    let clen = if rng.chance(1, 2) { "cl" } else { "nocl" };
    let body = match rng.below(20) {
        0..=2 => atom("empty"),
        3..=12 => node("single", vec![gen_req(rng, dist, false)]),
        _ => {
            let k = 1 + rng.below(3);
            node("batch", (0..k).map(|_| gen_req(rng, dist, false)).collect())
        }
    };
    dist.hit(&format!("integ_{}", integ));
    dist.hit(&format!("route_{}", route));
    dist.hit(&format!("exec_{}", exec));
    dist.hit(&format!("method_{}", method));
    dist.hit(&format!("qs_{}", qs.tag().or(qs.as_atom()).unwrap_or("?")));
    dist.hit(&format!("ct_{}", ct));
    dist.hit(&format!("clen_{}", clen));
    dist.hit(&format!("body_{}", body.tag().or(body.as_atom()).unwrap_or("?")));
    if mixed {
        dist.hit("accept_multipart_mixed");
    }
    node(
        "httpb",
        vec![
            atom(integ),
            atom(route),
            atom(exec),
            atom(method),
            atom(if mixed { "mixed" } else { "plain" }),
            qs,
            atom(ct),
            atom(clen),
            body,
        ],
    )
}

fn gen_case(rng: &mut Rng, _i: usize, o: &Opts, dist: &mut Dist) -> Sexp {
    if o.stream == "getbody" {
        return gen_case_b(rng, dist);
    }
    let integ = *rng.pick(&["axum", "actix", "poem", "warp", "rocket"]);
    let route = *rng.pick(routes_of(integ));
    let exec = if rng.chance(1, 3) { "dynamic" } else { "static" };
    let get = rng.chance(7, 10);
    let mixed = rng.chance(1, 5);
    let body = if get || rng.chance(1, 2) {
        node("single", vec![gen_req(rng, dist, get)])
    } else {
        let k = 1 + rng.below(3);
        node("batch", (0..k).map(|_| gen_req(rng, dist, false)).collect())
    };
    dist.hit(&format!("integ_{}", integ));
    dist.hit(&format!("route_{}", route));
    dist.hit(&format!("exec_{}", exec));
    dist.hit(if get { "method_get" } else { "method_post" });
    dist.hit(if body.tag() == Some("batch") { "body_batch" } else { "body_single" });
    if mixed {
        dist.hit("accept_multipart_mixed");
    }
    node(
        "http",
        vec![atom(integ), atom(route), atom(exec), atom(if get { "get" } else { "post" }), atom(if mixed { "mixed" } else { "plain" }), body],
    )
}

fn main() {
    let _ = FIELDS;
    main_loop(&mut gen_case, &mut run);
}
