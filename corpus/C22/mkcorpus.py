import sys
def q(s):
    out='"'
    for ch in s:
        if ch=='"': out+='\\"'
        elif ch=='\\': out+='\\\\'
        elif ' '<=ch<='~': out+=ch
        else: out+='\\u{%x}'%ord(ch)
    return out+'"'
schema=open('/verif/corpus/C22/witness.case').readline()  # the schema description is taken from the existing first case
# (case SCHEMA DOC ...): extract the balanced schema sexp
i=schema.index('(schema')
depth=0;j=i;ins=False
while True:
    ch=schema[j]
    if ins:
        if ch=='\\': j+=1
        elif ch=='"': ins=False
    else:
        if ch=='"': ins=True
        elif ch=='(': depth+=1
        elif ch==')':
            depth-=1
            if depth==0: break
    j+=1
SCHEMA=schema[i:j+1]
def vtext(v):
    t=v[0]
    if t=='var': return '$'+v[1]
    if t=='int': return str(v[1])
    if t=='null': return 'null'
    if t=='str': return '"'+v[1]+'"'
    if t=='bool': return 'true' if v[1] else 'false'
    if t=='enum': return v[1]
    if t=='list': return '['+', '.join(vtext(x) for x in v[1])+']'
    if t=='obj': return '{'+', '.join(k+': '+vtext(x) for k,x in v[1])+'}'
def vsexp(v):
    t=v[0]
    if t=='var': return '(var %s)'%q(v[1])
    if t=='int': return str(v[1])
    if t=='null': return 'null'
    if t=='str': return q(v[1])
    if t=='bool': return 'true' if v[1] else 'false'
    if t=='enum': return '(e %s)'%q(v[1])
    if t=='list': return '(list'+''.join(' '+vsexp(x) for x in v[1])+')'
    if t=='obj': return '(obj'+''.join(' (%s %s)'%(q(k),vsexp(x)) for k,x in v[1])+')'
class P:
    def __init__(s): s.out=''
def dirs_text(p,ds):
    for n,v in ds: p.out+=' @%s(if: %s)'%(n,vtext(v))
def dirs_sexp(ds): return '('+' '.join('(dir %s (%s %s))'%(q(n),q('if'),vsexp(v)) for n,v in ds)+')'
def sels(p,ss):
    p.out+='{ '
    res=[]
    for s in ss:
        pos=len(p.out)+1
        if s[0]=='f':
            _,alias,name,args,ds,sub=s
            if alias: p.out+=alias+': '
            p.out+=name
            if args: p.out+='('+', '.join(k+': '+vtext(v) for k,v in args)+')'
            dirs_text(p,ds)
            subs='()'
            if sub:
                p.out+=' '
                subs=sels(p,sub)
            res.append('(field %s %s (%s) %s %s (1 %d))'%(q(alias) if alias else 'none',q(name),' '.join('(%s %s)'%(q(k),vsexp(v)) for k,v in args),dirs_sexp(ds),subs,pos))
        elif s[0]=='s':
            _,name,ds=s
            p.out+='...'+name
            dirs_text(p,ds)
            res.append('(spread %s %s (1 %d))'%(q(name),dirs_sexp(ds),pos))
        else:
            _,cond,ds,sub=s
            p.out+='...'
            if cond: p.out+=' on '+cond
            dirs_text(p,ds)
            p.out+=' '
            subs=sels(p,sub)
            res.append('(inline %s %s %s (1 %d))'%(q(cond) if cond else 'none',dirs_sexp(ds),subs,pos))
        p.out+=' '
    p.out+='}'
    return '('+' '.join(res)+')'
def tyt(t): return t
def tys(t):
    if t.endswith('!'): return '(nn %s)'%tys(t[:-1])
    return q(t)
def case(vardefs,opsels,frags,vars_,world):
    p=P()
    name='Op' if vardefs else None
    if vardefs:
        p.out+='query Op('+', '.join('$%s: %s'%(n,t)+(' = '+vtext(d) if d else '') for n,t,d in vardefs)+') '
    os_=sels(p,opsels); p.out+=' '
    fs=[]
    for fn,cond,ss in frags:
        p.out+='fragment %s on %s '%(fn,cond)
        x=sels(p,ss); p.out+=' '
        fs.append('(frag %s %s () %s)'%(q(fn),q(cond),x))
    vd=' '.join('(vardef %s %s %s)'%(q(n),tys(t),('(some %s)'%vsexp(d)) if d else 'none') for n,t,d in vardefs)
    doc='(doc ((op query %s (%s) () %s)) (%s))'%(q(name) if name else 'none',vd,os_,' '.join(fs))
    vs='(vars'+''.join(' (%s %s)'%(q(k),vsexp(v)) for k,v in vars_)+')'
    w='(world'+''.join(' ((%d %s) %s)'%(i,q(f),rv) for (i,f),rv in world)+')'
    return '(case %s %s %s %s %s %s)'%(SCHEMA,doc,q(name) if name else 'none',vs,w,q(p.out))
def F(name,sub=None,alias=None,args=None,dirs=None): return ('f',alias,name,args or [],dirs or [],sub or [])
def leaf(v): return '(leaf %s)'%v
W=[((0,'me'),'(o "Query" 0)'),((0,'a'),'(o "A" 1)'),((0,'b'),'(o "B" 4)'),((0,'c'),'(o "C" 7)'),((0,'i'),'(o "B" 4)'),((0,'pick'),'(o "A" 2)'),
   ((0,'is'),'(l (o "A" 1) null (o "B" 5))'),((0,'num'),leaf(3)),((0,'echo'),'(arg "x")'),
   ((1,'id'),leaf(1)),((1,'name'),leaf('"one"')),((1,'num'),leaf(7)),((1,'peer'),'(o "B" 4)'),((2,'id'),leaf(2)),((2,'name'),leaf('"two"')),
   ((4,'id'),leaf(4)),((4,'text'),leaf('"t"')),((4,'name'),'null'),((4,'num'),leaf(0)),((5,'id'),leaf(5)),((5,'text'),leaf('"u"')),((7,'id'),leaf(7))]
V=lambda n:('var',n)
out=[]
# 1 variable defaults decide @skip/@include (the finding C01-skip-ignores-variable-default seen through the views)
out.append(case([('s','Boolean',('bool',True)),('t','Boolean',('bool',False))],
  [F('me',[F('a',[F('id')],dirs=[('skip',V('s'))]),F('b',[F('id')],dirs=[('include',V('t'))]),F('c',[F('id')])])],[],[],W))
# 2 the same field several times + fragment: look-ahead over several fields
out.append(case([],[F('me',[F('a',[F('id')]),F('a',[F('name')]),('s','F',[])])],
  [('F','Query',[F('a',[F('num')]),F('a',[F('id')],alias='k')])],[],W))
# 3 type conditions are not evaluated by the views (over-listing is allowed), lists
out.append(case([],[F('me',[F('i',[('i','A',[],[F('num')]),('i','B',[],[F('text')]),('i','I',[],[F('id')])]),
   F('is',[F('id'),('i','B',[],[F('text',alias='t2')])])])],[],[],W))
# 4 arguments: variables supplied / omitted / defaulted, list slots, object entries
out.append(case([('i0','Int!',None),('i2','Int',None),('s1','String',('str','dflt'))],
  [F('me',[F('pick',[F('id')],alias='p0',args=[('x',V('i0')),('n',V('i2')),('s',V('s1')),('xs',('list',[('int',1),V('i2'),('null',)])),
      ('any',('obj',[('k',V('i2')),('l',('list',[V('i2'),('int',3)])),('m',('obj',[('k',V('i0'))]))]))]),
    F('pick',[F('id')],alias='p1'),F('echo',alias='echo_2',args=[('x',('int',2))]),F('echo',alias='echo_d')])],[],[('i0',('int',9))],W))
# 5 directives on spreads / inline fragments / inside fragment definitions, nested fragments
out.append(case([('v','Boolean!',None)],
  [F('me',[('s','F',[('skip',V('v'))]),('i',None,[('include',V('v'))],[F('num')])])],
  [('F','Query',[F('a',[('s','G',[])])]),('G','A',[F('id'),F('name',dirs=[('skip',('bool',True))]),F('peer',[F('id')],dirs=[('include',('bool',True))])])],
  [('v',('bool',False))],W))
open('/verif/corpus/C22/witness.case','w').write('\n'.join(out)+'\n')
