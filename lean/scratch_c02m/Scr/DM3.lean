import Scr.DM2

namespace AGV.Lemmas.ExecDynamicMerge
open AGV.Core AGV.Model.ExecDynamic AGV.Lemmas.ExecDynamic AGV.Lemmas.ExecDynamicData
open AGV.Spec.Exec (FieldOcc complete execSet group mapIdx serializeLeaf doesApply excluded argValue)
open AGV.Spec.ExecDyn (specSchema specWorld renameBase customScalar?)
open AGV.Model.ExecStatic (joinAll nnWrap insertKV zipMerge singleKV prune)
open AGV.Lemmas.ExecStaticData (selsInert spreads IsObj SchemaOK eraseSt execSet_succ fieldVal HasField kvs_fold
  all_congr_mem joinAll_all joinAll_eq_of_all groupKV mergeAll foldl_insertKV_group listDepth argsSame argsSame_eq rootOf
  prune_inert frag_mem spreads_cons)
open AGV.Lemmas.ExecStaticMerge (dedup mem_dedup dedup_nodup dedup_append group_char groupKV_char mem_group
  filter_key_ne_nil mergeO mergeO_none_left mergeO_none_right seqObj seqObj_merge complete_merge gVal HasFieldG gVal_single
  fieldRVal_congr gVal_erase execStep_fold_groups ite_val any_isNone_not_all execSet_val_shape mergeAllO mergeAllO_snoc
  mergeAllO_of_none mergeAllO_some filterMap_fieldVal filterMap_of_some snoc_ind selsInert_append selsInert_flatten
  spreads_append merge_scalar)

theorem dmkp_of_mergeableKeys (c : Model.ExecDynamic.Ctx) :
    ∀ (fuel : Nat) (rt : String) (sels : List Sel), mergeableKeys c fuel rt sels = true → DMKP c fuel rt sels := by
  intro fuel
  induction fuel with
  | zero => intro rt sels _; trivial
  | succ fuel ih =>
    intro rt sels h
    simp only [mergeableKeys, Bool.and_eq_true, decide_eq_true_eq, List.all_eq_true] at h
    refine ⟨h.1.1, h.1.2, ?_⟩
    intro g hg o rest hgo
    have hg' := h.2 g hg
    rw [hgo] at hg'
    simp only [Bool.and_eq_true, List.all_eq_true, decide_eq_true_eq, Bool.or_eq_true] at hg'
    refine ⟨fun o' ho' => ⟨(hg'.1 o' ho').1, argsSame_eq _ _ (hg'.1 o' ho').2⟩, ?_⟩
    rcases hg'.2 with ht | hf
    · exact Or.inl ht
    · right
      cases hfd : c.S.field? rt o.name with
      | none => rw [hfd] at hf; simp at hf
      | some fd =>
        rw [hfd] at hf
        simp only [Bool.and_eq_true, Bool.or_eq_true, List.isEmpty_iff, decide_eq_true_eq, List.all_eq_true] at hf
        exact ⟨fd, rfl, hf.1, fun ty hty => ih _ _ (hf.2 ty hty)⟩

/-- DATA EQUALITY with repeated response keys: executing every occurrence separately and deep-merging
    the results (`resolve_container` + `insert_value`) gives the data of the specification's single
    execution of the merged selection sets -/
theorem container_val_eq_mergeable (c : Model.ExecDynamic.Ctx) (H : DataHyps c) :
    ∀ (fuel : Nat) (rt : String) (id : Nat) (sels : List Sel) (path : List PathSeg),
      IsObj c.S rt → selsInert c.vars sels = true →
      DMKP c fuel rt sels →
      (resolveContainer c fuel rt id sels path).val = (execSet (sc c) fuel rt id sels path).val := by
  intro fuel
  induction fuel with
  | zero => intro rt id sels path _ _ _; simp [resolveContainer, execSet]
  | succ fuel ih =>
    intro rt id sels path hrt hin hmk
    have hinO := collect_inert c rt H.frags (fuel + 1) sels hin
    have hgrpO := dmkp_group_of_mem c fuel rt sels hmk
    rw [dexecSet_val_char c H fuel rt id sels path hrt hin hmk.1 hmk.2.1 (dmkp_hasFieldG c fuel rt _ hmk)]
    simp only [resolveContainer]
    generalize hO : Model.ExecDynamic.collect c rt (fuel + 1) sels = O at *
    -- every occurrence: the group it belongs to
    have hocc : ∀ occ ∈ O, (occ.name = "__typename" ∨ ∃ fd, c.S.field? rt occ.name = some fd) ∧
        (∀ fd, occ.name ≠ "__typename" → c.S.field? rt occ.name = some fd →
          ∀ ty ∈ c.S.possibleTypes fd.ty.base, DMKP c fuel ty occ.sels) := by
      intro occ hoccm
      obtain ⟨o0, rest, hfl, hsame, hfield⟩ := hgrpO occ.key (List.mem_map_of_mem hoccm)
      have hmem : occ ∈ o0 :: rest := by rw [← hfl]; exact List.mem_filter.2 ⟨hoccm, by simp⟩
      have hname : occ.name = o0.name := by
        simp only [List.mem_cons] at hmem
        rcases hmem with rfl | hm
        · rfl
        · exact (hsame occ hm).1
      refine ⟨?_, ?_⟩
      · rcases hfield with h | ⟨fd, hfd, _⟩
        · exact Or.inl (hname.trans h)
        · exact Or.inr ⟨fd, by rw [hname]; exact hfd⟩
      · intro fd hnt hfd ty hty
        rcases hfield with h | ⟨fd', hfd', _, hrec⟩
        · exact absurd (hname.trans h) hnt
        · rw [hname, hfd'] at hfd
          cases hfd
          exact dmkp_flatten_mem c fuel _ _ (hrec ty hty) occ.sels (List.mem_map_of_mem hmem)
    have hRF : ∀ occ ∈ O,
        (runField c (resolveContainer c fuel) rt id path occ).val =
          (fieldVal (cS c) fuel rt id path occ).map (fun v => GValue.obj [(occ.key, v)]) := by
      intro occ hoccm
      apply runField_val c H fuel rt id path occ ?_ (hocc occ hoccm).1
      intro fd hnt hfd ty id' p hty
      obtain ⟨hobj, _⟩ := H.schema.possible _ _ hty
      exact ih ty id' occ.sels p hobj (hinO occ hoccm) ((hocc occ hoccm).2 fd hnt hfd ty hty)
    -- the specification's value of a key = fold of merge over the occurrences' values
    have hN : 4 * fuel + 3 ≤ 4 * (fuel + 1) := by omega
    have hgv : ∀ k ∈ O.map (·.key), gVal (cS c) fuel rt id path k (O.filter (fun o => decide (o.key = k))) =
        mergeAllO (4 * (fuel + 1)) ((O.filter (fun o => decide (o.key = k))).map (fieldVal (cS c) fuel rt id path)) := by
      intro k hk
      obtain ⟨o0, rest, hfl, hsame, hfield⟩ := hgrpO k hk
      rw [hfl]
      apply dgVal_nary c H fuel rt id path k o0 _ hN rest ?_ hsame hfield ?_
      · intro o ho
        have := (List.mem_filter.1 (by rw [hfl]; exact ho : o ∈ O.filter (fun o => decide (o.key = k)))).2
        simpa using this
      · intro o ho
        exact hinO o (List.mem_filter.1 (by rw [hfl]; exact ho : o ∈ O.filter (fun o => decide (o.key = k)))).1
    have hall : (joinAll (O.map (fun occ => fun (_ : Unit) => runField c (resolveContainer c fuel) rt id path occ))).all (·.val.isSome) =
        O.all (fun o => (fieldVal (cS c) fuel rt id path o).isSome) := by
      rw [joinAll_all, List.all_map]
      apply all_congr_mem
      intro o ho
      simp [hRF o ho]
    rw [hall]
    cases hA : O.all (fun o => (fieldVal (cS c) fuel rt id path o).isSome) with
    | false =>
      -- some occurrence propagates an error: so does its key
      obtain ⟨o, ho, hn⟩ := List.all_eq_false.1 hA
      have hnone : fieldVal (cS c) fuel rt id path o = none := by
        cases h : fieldVal (cS c) fuel rt id path o <;> simp_all
      have hk : o.key ∈ O.map (·.key) := List.mem_map_of_mem ho
      have hgn : gVal (cS c) fuel rt id path o.key (O.filter (fun o' => decide (o'.key = o.key))) = none := by
        rw [hgv _ hk]
        apply mergeAllO_of_none
        simp only [List.mem_map]
        exact ⟨o, List.mem_filter.2 ⟨ho, by simp⟩, hnone⟩
      have : (dedup (O.map (·.key))).all (fun k => (gVal (cS c) fuel rt id path k (O.filter (fun o => decide (o.key = k)))).isSome) = false := by
        rw [List.all_eq_false]
        exact ⟨o.key, (mem_dedup _ _).2 hk, by rw [hgn]; simp⟩
      simp [seqObj, this]
    | true =>
      rw [List.all_eq_true] at hA
      let v : FieldOcc → GValue := fun o => (fieldVal (cS c) fuel rt id path o).getD .null
      have hv : ∀ o ∈ O, fieldVal (cS c) fuel rt id path o = some (v o) := by
        intro o ho
        have := hA o ho
        cases h : fieldVal (cS c) fuel rt id path o <;> simp_all [v]
      have hj := joinAll_eq_of_all (O.map (fun occ => fun (_ : Unit) => runField c (resolveContainer c fuel) rt id path occ)) (by
        rw [List.all_map, List.all_eq_true]
        intro o ho
        simp [hRF o ho, hv o ho])
      rw [hj, List.map_map]
      have hk := kvs_fold (fun occ => runField c (resolveContainer c fuel) rt id path occ) (fieldVal (cS c) fuel rt id path) O hRF
      have hcomp : ((fun f : Unit → Res => f ()) ∘ fun occ => fun (_ : Unit) => runField c (resolveContainer c fuel) rt id path occ) =
          (fun occ => runField c (resolveContainer c fuel) rt id path occ) := rfl
      have hkvs := filterMap_fieldVal (fieldVal (cS c) fuel rt id path) v O hv
      rw [hcomp, hk, hkvs, createValueObject_group, groupKV_char]
      have hD1 : c.D.nestedListMergeShallow = false := by rw [H.noDefect]; rfl
      have hD2 : c.D.mergeKeepsPartialOnNull = false := by rw [H.noDefect]; rfl
      rw [hD1, hD2, merge_eq_static]
      have hgs : ∀ k ∈ dedup (O.map (·.key)), gVal (cS c) fuel rt id path k (O.filter (fun o => decide (o.key = k))) =
          some (mergeAll (AGV.Model.ExecStatic.merge false (4 * (fuel + 1))) ((O.filter (fun o => decide (o.key = k))).map v)) := by
        intro k hk'
        have hk'' := (mem_dedup _ _).1 hk'
        rw [hgv k hk'']
        have : (O.filter (fun o => decide (o.key = k))).map (fieldVal (cS c) fuel rt id path) =
            ((O.filter (fun o => decide (o.key = k))).map v).map some := by
          rw [List.map_map]
          apply List.map_congr_left
          intro o ho
          exact hv o (List.mem_filter.1 ho).1
        rw [this]
        apply mergeAllO_some
        intro hc
        exact filter_key_ne_nil O k hk'' (by simpa using hc)
      unfold seqObj
      have hall2 : (dedup (O.map (·.key))).all (fun k => (gVal (cS c) fuel rt id path k (O.filter (fun o => decide (o.key = k)))).isSome) = true := by
        rw [List.all_eq_true]
        intro k hk'
        rw [hgs k hk']; rfl
      rw [if_pos hall2, if_pos (by rfl)]
      rw [filterMap_of_some _ _ (fun k => mergeAll (AGV.Model.ExecStatic.merge false (4 * (fuel + 1))) ((O.filter (fun o => decide (o.key = k))).map v)) hgs]
      simp only [List.map_map, Function.comp_def, Option.some.injEq, GValue.obj.injEq]
      apply List.map_congr_left
      intro k _
      simp only [Prod.mk.injEq, true_and]
      congr 1
      rw [List.filter_map, List.map_map]
      rfl

/-- DATA EQUALITY, request level, repeated response keys included -/
theorem run_val_eq_mergeable (S : Schema) (d : Doc) (opName : Option String) (raw : List (String × GValue)) (w : World)
    (fuel : Nat)
    (H : ∀ op, AGV.Spec.Exec.selectOp d opName = some op →
      IsObj S (rootOf S op) ∧ DataHyps (runCtx S d op raw w) ∧
      selsInert (AGV.Spec.Exec.coerceVars op.vars raw) op.sels = true ∧
      mergeableKeys (runCtx S d op raw w) fuel (rootOf S op) op.sels = true) :
    (Model.ExecDynamic.run Defects.none S d opName raw w fuel).val = (AGV.Spec.ExecDyn.run S d opName raw w fuel).val := by
  unfold Model.ExecDynamic.run AGV.Spec.ExecDyn.run AGV.Spec.Exec.run
  cases hop : AGV.Spec.Exec.selectOp d opName with
  | none => rfl
  | some op =>
    obtain ⟨hroot, hdata, hin, hmk⟩ := H op hop
    have hsv : skipVars Defects.none op.vars raw = AGV.Spec.Exec.coerceVars op.vars raw := rfl
    have hfr := hdata.frags
    have hd : ({ ops := d.ops, frags := d.frags.map (fun f =>
        { f with sels := prune (AGV.Spec.Exec.coerceVars op.vars raw) fuel f.sels }) } : Doc) = d := by
      have : d.frags.map (fun f => ({ f with sels := prune (AGV.Spec.Exec.coerceVars op.vars raw) fuel f.sels } : FragDef)) = d.frags := by
        conv => rhs; rw [← List.map_id d.frags]
        apply List.map_congr_left
        intro f hf
        have := prune_inert (AGV.Spec.Exec.coerceVars op.vars raw) fuel f.sels (hfr f hf)
        simp [this]
      rw [this]
    simp only [hsv, hd, prune_inert _ fuel op.sels hin]
    exact container_val_eq_mergeable (runCtx S d op raw w) hdata fuel (rootOf S op) 0 op.sels [] hroot
      hin (dmkp_of_mergeableKeys _ _ _ _ hmk)

end AGV.Lemmas.ExecDynamicMerge
