/-
  The MERGE LEMMA for C02 (dynamic executor), part 1: the port of Lemmas/ExecStaticMerge{,Exec}.lean.
-/
import AGV.Lemmas.ExecDynamicData
import AGV.Lemmas.ExecStaticMergeExec

namespace AGV.Lemmas.ExecDynamicMerge
open AGV.Core AGV.Model.ExecDynamic AGV.Lemmas.ExecDynamic AGV.Lemmas.ExecDynamicData
open AGV.Spec.Exec (FieldOcc complete execSet group mapIdx serializeLeaf doesApply excluded argValue)
open AGV.Spec.ExecDyn (specSchema specWorld renameBase customScalar?)
open AGV.Model.ExecStatic (joinAll nnWrap insertKV zipMerge singleKV prune)
open AGV.Lemmas.ExecStaticData (selsInert spreads IsObj SchemaOK eraseSt execSet_succ fieldVal HasField kvs_fold
  all_congr_mem joinAll_all joinAll_eq_of_all groupKV mergeAll foldl_insertKV_group listDepth argsSame argsSame_eq rootOf
  prune_inert frag_mem spreads_cons)
open AGV.Lemmas.ExecStaticMerge (dedup mem_dedup dedup_nodup dedup_append group_char groupKV_char mem_group
  filter_key_ne_nil mergeO mergeO_none_left mergeO_none_right seqObj seqObj_merge complete_merge gVal HasFieldG gVal_single
  fieldRVal_congr gVal_erase execStep_fold_groups ite_val any_isNone_not_all execSet_val_shape mergeAllO mergeAllO_snoc
  mergeAllO_of_none mergeAllO_some filterMap_fieldVal filterMap_of_some snoc_ind selsInert_append selsInert_flatten
  spreads_append merge_scalar)

-- ------------------------------------------------------------------ the repaired `merge_value` is the static model's

/-- with both merge toggles off, the dynamic model's `merge_value` is the static model's (shared code) -/
theorem merge_eq_static (keep : Bool) : ∀ n, merge false keep n = AGV.Model.ExecStatic.merge keep n := by
  intro n
  induction n with
  | zero => funext a b; cases a <;> cases b <;> rfl
  | succ n ih =>
    funext a b
    cases a <;> cases b <;> simp [merge, AGV.Model.ExecStatic.merge, ih]

/-- `create_value_object` = group the field results by response key (first-occurrence order), then
    fold `merge_value` over each key's values in occurrence order — for every list of results -/
theorem createValueObject_group (D : Defects) (fuel : Nat) (kvs : List (String × GValue)) :
    createValueObject D fuel kvs =
      .obj ((groupKV kvs).map (fun g =>
        (g.1, mergeAll (merge D.nestedListMergeShallow D.mergeKeepsPartialOnNull (4 * fuel)) g.2))) := by
  unfold createValueObject groupKV
  have := foldl_insertKV_group (merge D.nestedListMergeShallow D.mergeKeepsPartialOnNull (4 * fuel)) kvs [] (by simp)
  simpa using this

-- ------------------------------------------------------------------ collection over a union of selection sets

theorem collect_append (c : Model.ExecDynamic.Ctx) (rt : String) (fuel : Nat) (a b : List Sel) :
    Model.ExecDynamic.collect c rt fuel (a ++ b) =
      Model.ExecDynamic.collect c rt fuel a ++ Model.ExecDynamic.collect c rt fuel b := by
  cases fuel with
  | zero => simp [Model.ExecDynamic.collect]
  | succ fuel => simp [Model.ExecDynamic.collect]

theorem fieldsExist_append (c : Model.ExecDynamic.Ctx) (rt : String) (fuel : Nat) (a b : List Sel) :
    fieldsExist c rt fuel (a ++ b) = (fieldsExist c rt fuel a && fieldsExist c rt fuel b) := by
  cases fuel with
  | zero => simp [fieldsExist]
  | succ fuel => simp [fieldsExist]

-- ------------------------------------------------------------------ `mergeableKeys` as a proposition

/-- `mergeableKeys` as a proposition: at every selection set reached, no fragment name is spread twice,
    every selected field exists, and the occurrences `o :: rest` of each response key name one field (or
    `__typename`) with one argument list, of list depth ≤ 3 when the key repeats; recursively for the
    merged sub-selections -/
def DMKP (c : Model.ExecDynamic.Ctx) : Nat → String → List Sel → Prop
  | 0, _, _ => True
  | fuel + 1, rt, sels =>
    (spreads c.d (fuel + 1) sels).Nodup ∧ fieldsExist c rt (fuel + 1) sels = true ∧
    ∀ g ∈ group (Model.ExecDynamic.collect c rt (fuel + 1) sels), ∀ o rest, g.2 = o :: rest →
      (∀ o' ∈ rest, o'.name = o.name ∧ o'.args = o.args) ∧
      (o.name = "__typename" ∨ ∃ fd, c.S.field? rt o.name = some fd ∧ (rest = [] ∨ listDepth fd.ty ≤ 3) ∧
        ∀ ty ∈ c.S.possibleTypes fd.ty.base, DMKP c fuel ty ((o :: rest).map (·.sels)).flatten)

/-- mergeability of a union of selection sets gives mergeability of the parts -/
theorem dmkp_split (c : Model.ExecDynamic.Ctx) :
    ∀ (fuel : Nat) (rt : String) (a b : List Sel), DMKP c fuel rt (a ++ b) → DMKP c fuel rt a ∧ DMKP c fuel rt b := by
  intro fuel
  induction fuel with
  | zero => intro rt a b _; exact ⟨trivial, trivial⟩
  | succ fuel ih =>
    intro rt a b h
    obtain ⟨hsp, hfe, hg⟩ := h
    rw [spreads_append, List.nodup_append] at hsp
    rw [fieldsExist_append, Bool.and_eq_true] at hfe
    rw [collect_append] at hg
    -- the merged group of a key
    have key : ∀ k, k ∈ (Model.ExecDynamic.collect c rt (fuel + 1) a ++ Model.ExecDynamic.collect c rt (fuel + 1) b).map (·.key) →
        ∀ o rest, (Model.ExecDynamic.collect c rt (fuel + 1) a).filter (fun o => decide (o.key = k)) ++
          (Model.ExecDynamic.collect c rt (fuel + 1) b).filter (fun o => decide (o.key = k)) = o :: rest → _ :=
      fun k hk o rest hgo => hg (k, _) ((mem_group _ _).2 ⟨hk, by simp [List.filter_append]⟩) o rest hgo
    refine ⟨⟨hsp.1, hfe.1, ?_⟩, ⟨hsp.2.1, hfe.2, ?_⟩⟩
    · intro g hgm o rest hgo
      obtain ⟨hk, hg2⟩ := (mem_group _ _).1 hgm
      rw [hgo] at hg2
      have := key g.1 (by simp only [List.map_append, List.mem_append]; exact Or.inl hk) o
        (rest ++ (Model.ExecDynamic.collect c rt (fuel + 1) b).filter (fun o => decide (o.key = g.1)))
        (by rw [← hg2]; rfl)
      obtain ⟨h1, h2⟩ := this
      refine ⟨fun o' ho' => h1 o' (by simp [ho']), ?_⟩
      rcases h2 with ht | ⟨fd, hfd, hld, hrec⟩
      · exact Or.inl ht
      · refine Or.inr ⟨fd, hfd, ?_, ?_⟩
        · rcases hld with he | hl
          · left
            have := congrArg List.length he
            simp only [List.length_append, List.length_nil] at this
            exact List.eq_nil_of_length_eq_zero (by omega)
          · exact Or.inr hl
        · intro ty hty
          have := hrec ty hty
          rw [← List.cons_append, List.map_append, List.flatten_append] at this
          exact (ih _ _ _ this).1
    · intro g hgm ob restb hgo
      obtain ⟨hk, hg2⟩ := (mem_group _ _).1 hgm
      rw [hgo] at hg2
      cases hfa : (Model.ExecDynamic.collect c rt (fuel + 1) a).filter (fun o => decide (o.key = g.1)) with
      | nil =>
        have := key g.1 (by simp only [List.map_append, List.mem_append]; exact Or.inr hk) ob restb
          (by rw [hfa, ← hg2]; rfl)
        exact this
      | cons oa resta =>
        have := key g.1 (by simp only [List.map_append, List.mem_append]; exact Or.inr hk) oa (resta ++ ob :: restb)
          (by rw [hfa, ← hg2]; rfl)
        obtain ⟨h1, h2⟩ := this
        have hob := h1 ob (by simp)
        refine ⟨fun o' ho' => ?_, ?_⟩
        · have := h1 o' (by simp [ho'])
          exact ⟨this.1.trans hob.1.symm, this.2.trans hob.2.symm⟩
        · rcases h2 with ht | ⟨fd, hfd, hld, hrec⟩
          · exact Or.inl (hob.1.trans ht)
          · refine Or.inr ⟨fd, by rw [hob.1]; exact hfd, ?_, ?_⟩
            · rcases hld with he | hl
              · simp at he
              · exact Or.inr hl
            · intro ty hty
              have := hrec ty hty
              rw [← List.cons_append, List.map_append, List.flatten_append] at this
              exact (ih _ _ _ this).2

theorem dmkp_flatten_mem (c : Model.ExecDynamic.Ctx) (fuel : Nat) (rt : String) (ls : List (List Sel))
    (h : DMKP c fuel rt ls.flatten) : ∀ l ∈ ls, DMKP c fuel rt l := by
  induction ls with
  | nil => intro l hl; simp at hl
  | cons x xs ih =>
    intro l hl
    rw [List.flatten_cons] at h
    obtain ⟨h1, h2⟩ := dmkp_split c fuel rt _ _ h
    simp only [List.mem_cons] at hl
    rcases hl with rfl | hl
    · exact h1
    · exact ih h2 l hl

/-- what `DMKP` says about the group of a collected response key -/
theorem dmkp_group_of_mem (c : Model.ExecDynamic.Ctx) (f : Nat) (rt : String) (s : List Sel) (h : DMKP c (f + 1) rt s)
    (k : String) (hk : k ∈ (Model.ExecDynamic.collect c rt (f + 1) s).map (·.key)) :
    ∃ o0 rest, (Model.ExecDynamic.collect c rt (f + 1) s).filter (fun o => decide (o.key = k)) = o0 :: rest ∧
      (∀ o' ∈ rest, o'.name = o0.name ∧ o'.args = o0.args) ∧
      (o0.name = "__typename" ∨ ∃ fd, c.S.field? rt o0.name = some fd ∧ (rest = [] ∨ listDepth fd.ty ≤ 3) ∧
        ∀ ty ∈ c.S.possibleTypes fd.ty.base, DMKP c f ty ((o0 :: rest).map (·.sels)).flatten) := by
  have hne := filter_key_ne_nil _ k hk
  cases hfl : (Model.ExecDynamic.collect c rt (f + 1) s).filter (fun o => decide (o.key = k)) with
  | nil => exact absurd hfl hne
  | cons o rest =>
    have := h.2.2 (k, _) ((mem_group _ _).2 ⟨hk, rfl⟩) o rest hfl
    exact ⟨o, rest, rfl, this.1, this.2⟩

-- ------------------------------------------------------------------ the specification's schema: renamed field types

theorem listDepth_rename (S : Schema) : ∀ t : TypeRef, listDepth (renameBase S t) = listDepth t := by
  intro t
  induction t with
  | named n => obtain ⟨n', h⟩ := renameBase_named S n; rw [h]; rfl
  | list t ih => simp [renameBase, listDepth, ih]
  | nonNull t ih => simp [renameBase, listDepth, ih]

theorem base_rename (S : Schema) : ∀ t : TypeRef, (renameBase S t).base = (renameBase S (.named t.base)).base := by
  intro t
  induction t with
  | named n => rfl
  | list t ih => simpa [renameBase, TypeRef.base] using ih
  | nonNull t ih => simpa [renameBase, TypeRef.base] using ih

/-- the possible object types of a carrier type are among those of the declared type -/
theorem possible_rename (S : Schema) (hS : DynSchemaOK S) (t : TypeRef) (ty : String)
    (h : ty ∈ S.possibleTypes (renameBase S t).base) : ty ∈ S.possibleTypes t.base := by
  rw [base_rename] at h
  cases hcs : customScalar? S t.base with
  | none =>
    have : renameBase S (.named t.base) = .named t.base := by simp [renameBase, hcs]
    rw [this] at h
    exact h
  | some td =>
    have hfind : S.find? t.base = some td ∧ td.kind = .scalar := by
      unfold customScalar? at hcs
      cases hf : S.find? t.base with
      | none => rw [hf] at hcs; cases hcs
      | some t' =>
        rw [hf] at hcs
        simp only [] at hcs
        split at hcs
        · rename_i hc
          cases hcs
          simp only [Bool.and_eq_true] at hc
          exact ⟨rfl, by simpa [AGV.Lemmas.ExecStaticData.kind_beq] using hc.1⟩
        · cases hcs
    obtain ⟨n', hn'⟩ := renameBase_named S t.base
    rw [hn'] at h
    simp only [TypeRef.base] at h
    rw [possibleTypes_rename S hS t.base n' td hfind.1 (Or.inl hfind.2) hn'] at h
    simp at h

theorem field_cS (c : Model.ExecDynamic.Ctx) (rt n : String) (fd : FieldDef) (h : c.S.field? rt n = some fd) :
    (cS c).S.field? rt n = some (renameFD c.S fd) := by
  show (specSchema c.S).field? rt n = _
  rw [specSchema_field, h]; rfl

end AGV.Lemmas.ExecDynamicMerge
