import Scr.DM1

namespace AGV.Lemmas.ExecDynamicMerge
open AGV.Core AGV.Model.ExecDynamic AGV.Lemmas.ExecDynamic AGV.Lemmas.ExecDynamicData
open AGV.Spec.Exec (FieldOcc complete execSet group mapIdx serializeLeaf doesApply excluded argValue)
open AGV.Spec.ExecDyn (specSchema specWorld renameBase customScalar?)
open AGV.Model.ExecStatic (joinAll nnWrap insertKV zipMerge singleKV prune)
open AGV.Lemmas.ExecStaticData (selsInert spreads IsObj SchemaOK eraseSt execSet_succ fieldVal HasField kvs_fold
  all_congr_mem joinAll_all joinAll_eq_of_all groupKV mergeAll foldl_insertKV_group listDepth argsSame argsSame_eq rootOf
  prune_inert frag_mem spreads_cons)
open AGV.Lemmas.ExecStaticMerge (dedup mem_dedup dedup_nodup dedup_append group_char groupKV_char mem_group
  filter_key_ne_nil mergeO mergeO_none_left mergeO_none_right seqObj seqObj_merge complete_merge gVal HasFieldG gVal_single
  fieldRVal_congr gVal_erase execStep_fold_groups ite_val any_isNone_not_all execSet_val_shape mergeAllO mergeAllO_snoc
  mergeAllO_of_none mergeAllO_some filterMap_fieldVal filterMap_of_some snoc_ind selsInert_append selsInert_flatten
  spreads_append merge_scalar)

-- ------------------------------------------------------------------ ExecuteSelectionSet, group by group

/-- ExecuteSelectionSet (on `Spec.ExecDyn`'s reading of schema and world) as "one value per response
    key, in order of first occurrence", keys and occurrences as collected by the dynamic `collect_fields` -/
theorem dexecSet_val_char (c : Model.ExecDynamic.Ctx) (H : DataHyps c) (fuel : Nat) (rt : String) (id : Nat)
    (sels : List Sel) (path : List PathSeg) (hrt : IsObj c.S rt)
    (hin : selsInert c.vars sels = true) (hnd : (spreads c.d (fuel + 1) sels).Nodup)
    (hfe : fieldsExist c rt (fuel + 1) sels = true)
    (hHF : ∀ k ∈ (Model.ExecDynamic.collect c rt (fuel + 1) sels).map (·.key),
      HasFieldG (cS c) rt ((Model.ExecDynamic.collect c rt (fuel + 1) sels).filter (fun o => decide (o.key = k)))) :
    (execSet (sc c) (fuel + 1) rt id sels path).val =
      seqObj (dedup ((Model.ExecDynamic.collect c rt (fuel + 1) sels).map (·.key)))
        (fun k => gVal (cS c) fuel rt id path k ((Model.ExecDynamic.collect c rt (fuel + 1) sels).filter (fun o => decide (o.key = k)))) := by
  have hcol := (collect_agree c H.noDefect H.schema rt hrt H.frags (fuel + 1) sels [] hin hfe hnd
    (by intro n _; simp)).1
  generalize Model.ExecDynamic.collect c rt (fuel + 1) sels = O at *
  rw [execSet_succ, hcol, group_char]
  have hkeys : (O.map eraseSt).map (·.key) = O.map (·.key) := by
    rw [List.map_map]; rfl
  have hfilt : ∀ k, (O.map eraseSt).filter (fun o => decide (o.key = k)) = (O.filter (fun o => decide (o.key = k))).map eraseSt := by
    intro k
    rw [List.filter_map]
    rfl
  rw [hkeys]
  have hG : ∀ g ∈ (dedup (O.map (·.key))).map (fun k => (k, (O.map eraseSt).filter (fun o => decide (o.key = k)))),
      HasFieldG (cS c) rt g.2 := by
    intro g hg
    simp only [List.mem_map, mem_dedup] at hg
    obtain ⟨k, hk, rfl⟩ := hg
    obtain ⟨o, rest, e, hf⟩ := hHF k (by simpa using hk)
    simp only [hfilt, e, List.map_cons]
    exact ⟨eraseSt o, rest.map eraseSt, rfl, hf⟩
  obtain ⟨f1, f2⟩ := execStep_fold_groups (cS c) fuel rt id path _ hG ([], [], [], false)
  rw [sc_cS] at f1 f2
  simp only [ite_val]
  rw [f1, f2]
  simp only [List.nil_append, Bool.false_or, List.any_map, List.filterMap_map, Function.comp_def, hfilt, gVal_erase]
  unfold seqObj
  rw [any_isNone_not_all]
  cases (dedup (O.map (·.key))).all (fun k => (gVal (cS c) fuel rt id path k (O.filter (fun o => decide (o.key = k)))).isSome) <;> simp

/-- the induction hypothesis on fuel of `dexecSet_merge` -/
def DExecMerge (c : Model.ExecDynamic.Ctx) (f : Nat) : Prop :=
  ∀ (rt : String) (id : Nat) (a b : List Sel) (path : List PathSeg) (N : Nat),
    IsObj c.S rt → selsInert c.vars a = true → selsInert c.vars b = true →
    DMKP c f rt (a ++ b) → 4 * f ≤ N →
    (execSet (sc c) f rt id (a ++ b) path).val =
      mergeO N (execSet (sc c) f rt id a path).val (execSet (sc c) f rt id b path).val

theorem dmkp_hasFieldG (c : Model.ExecDynamic.Ctx) (f : Nat) (rt : String) (s : List Sel) (h : DMKP c (f + 1) rt s) :
    ∀ k ∈ (Model.ExecDynamic.collect c rt (f + 1) s).map (·.key),
      HasFieldG (cS c) rt ((Model.ExecDynamic.collect c rt (f + 1) s).filter (fun o => decide (o.key = k))) := by
  intro k hk
  obtain ⟨o, rest, hfl, _, hfield⟩ := dmkp_group_of_mem c f rt s h k hk
  refine ⟨o, rest, hfl, ?_⟩
  rcases hfield with ht | ⟨fd, hfd, _⟩
  · exact Or.inl ht
  · exact Or.inr ⟨_, field_cS c rt o.name fd hfd⟩

theorem dgVal_merge (c : Model.ExecDynamic.Ctx) (H : DataHyps c) (f : Nat) (IH : DExecMerge c f) (rt : String) (id : Nat)
    (path : List PathSeg) (k : String) (oa : FieldOcc) (ra : List FieldOcc) (ob : FieldOcc) (rb : List FieldOcc)
    (hsame : ∀ o' ∈ ra ++ ob :: rb, o'.name = oa.name ∧ o'.args = oa.args)
    (hfield : oa.name = "__typename" ∨ ∃ fd, c.S.field? rt oa.name = some fd ∧ ((ra ++ ob :: rb) = [] ∨ listDepth fd.ty ≤ 3) ∧
        ∀ ty ∈ c.S.possibleTypes fd.ty.base, DMKP c f ty ((oa :: (ra ++ ob :: rb)).map (·.sels)).flatten)
    (hinA : ∀ o ∈ oa :: ra, selsInert c.vars o.sels = true) (hinB : ∀ o ∈ ob :: rb, selsInert c.vars o.sels = true)
    (N : Nat) (hN : 4 * f + 3 ≤ N) :
    gVal (cS c) f rt id path k ((oa :: ra) ++ (ob :: rb)) =
      mergeO N (gVal (cS c) f rt id path k (oa :: ra)) (gVal (cS c) f rt id path k (ob :: rb)) := by
  have hob := hsame ob (by simp)
  by_cases ht : oa.name = "__typename"
  · have ht' : ob.name = "__typename" := hob.1.trans ht
    simp only [List.cons_append, gVal, ht, ht', if_true, mergeO]
    rw [merge_scalar _ _ _ _ rfl]
  · rcases hfield with h | ⟨fd0, hfd0, hld, hrec⟩
    · exact absurd h ht
    · have ht' : ¬ ob.name = "__typename" := by rw [hob.1]; exact ht
      have hfd : (cS c).S.field? rt oa.name = some (renameFD c.S fd0) := field_cS c rt _ fd0 hfd0
      have hfd' : (cS c).S.field? rt ob.name = some (renameFD c.S fd0) := by rw [hob.1]; exact hfd
      generalize hfdd : renameFD c.S fd0 = fd at hfd hfd'
      have hty : fd.ty = renameBase c.S fd0.ty := by rw [← hfdd]; rfl
      have hld' : listDepth fd.ty ≤ 3 := by
        rw [hty, listDepth_rename]
        rcases hld with h | h
        · simp at h
        · exact h
      have hrv : Model.ExecStatic.fieldRVal (cS c) id fd ob = Model.ExecStatic.fieldRVal (cS c) id fd oa :=
        fieldRVal_congr (cS c) id fd oa ob hob.1 hob.2
      have hflat : (((oa :: ra) ++ (ob :: rb)).map (·.sels)).flatten =
          ((oa :: ra).map (·.sels)).flatten ++ ((ob :: rb).map (·.sels)).flatten := by
        rw [List.map_append, List.flatten_append]
      have hinA' : selsInert c.vars ((oa :: ra).map (·.sels)).flatten = true := by
        apply selsInert_flatten
        intro l hl
        simp only [List.mem_map] at hl
        obtain ⟨o, ho, rfl⟩ := hl
        exact hinA o ho
      have hinB' : selsInert c.vars ((ob :: rb).map (·.sels)).flatten = true := by
        apply selsInert_flatten
        intro l hl
        simp only [List.mem_map] at hl
        obtain ⟨o, ho, rfl⟩ := hl
        exact hinB o ho
      have key := complete_merge (cS c).S (execSet (AGV.Lemmas.ExecStaticData.sc (cS c)) f)
        ((oa :: ra).map (·.sels)).flatten ((ob :: rb).map (·.sels)).flatten
        (4 * f) fd.ty.base
        (fun ty id' p v hv => by
          obtain ⟨h1, h2⟩ := execSet_val_shape _ _ _ _ _ _ _ hv
          exact ⟨h1, by omega⟩)
        (fun ty id' p hc => by
          obtain ⟨⟨o, ho⟩, _⟩ := execSet_val_shape _ _ _ _ _ _ _ hc
          simp at ho)
        (fun ty hty' id' p N' hN' => by
          have hty2 : ty ∈ c.S.possibleTypes fd0.ty.base := by
            have : ty ∈ c.S.possibleTypes fd.ty.base := by
              have h0 : ty ∈ (specSchema c.S).possibleTypes fd.ty.base := hty'
              rwa [specSchema_possibleTypes] at h0
            rw [hty] at this
            exact possible_rename c.S H.dyn fd0.ty ty this
          obtain ⟨hobj, _⟩ := H.schema.possible _ _ hty2
          rw [sc_cS]
          apply IH ty id' _ _ p N' hobj hinA' hinB' ?_ hN'
          have := hrec ty hty2
          rw [← List.cons_append, hflat] at this
          exact this)
        fd.ty rfl (Model.ExecStatic.fieldRVal (cS c) id fd oa) (path ++ [.key k]) oa.pos ob.pos oa.pos N (by omega)
      have hl : gVal (cS c) f rt id path k ((oa :: ra) ++ (ob :: rb)) =
          (complete (cS c).S (execSet (AGV.Lemmas.ExecStaticData.sc (cS c)) f) fd.ty (Model.ExecStatic.fieldRVal (cS c) id fd oa)
            (((oa :: ra).map (·.sels)).flatten ++ ((ob :: rb).map (·.sels)).flatten) (path ++ [.key k]) oa.pos).val := by
        rw [← hflat]
        simp only [List.cons_append, gVal, ht, hfd, if_false]
      have hx : gVal (cS c) f rt id path k (oa :: ra) =
          (complete (cS c).S (execSet (AGV.Lemmas.ExecStaticData.sc (cS c)) f) fd.ty (Model.ExecStatic.fieldRVal (cS c) id fd oa)
            ((oa :: ra).map (·.sels)).flatten (path ++ [.key k]) oa.pos).val := by
        simp only [gVal, ht, hfd, if_false]
      have hy : gVal (cS c) f rt id path k (ob :: rb) =
          (complete (cS c).S (execSet (AGV.Lemmas.ExecStaticData.sc (cS c)) f) fd.ty (Model.ExecStatic.fieldRVal (cS c) id fd oa)
            ((ob :: rb).map (·.sels)).flatten (path ++ [.key k]) ob.pos).val := by
        simp only [gVal, ht', hfd', if_false, hrv]
      rw [hl, hx, hy]
      exact key.1

/-- MERGE LEMMA (specification side, dynamic reading): executing the union `a ++ b` of two selection sets
    on an object gives the `merge_value` of the two separate executions (or propagates when either does) -/
theorem dexecSet_merge (c : Model.ExecDynamic.Ctx) (H : DataHyps c) : ∀ f, DExecMerge c f := by
  intro f
  induction f with
  | zero =>
    intro rt id a b path N _ _ _ _ _
    simp [execSet, mergeO]
  | succ f ih =>
    intro rt id a b path N hrt hina hinb hmk hN
    obtain ⟨mka, mkb⟩ := dmkp_split c (f + 1) rt a b hmk
    have hinab : selsInert c.vars (a ++ b) = true := by rw [selsInert_append, hina, hinb]; rfl
    rw [dexecSet_val_char c H f rt id (a ++ b) path hrt hinab hmk.1 hmk.2.1 (dmkp_hasFieldG c f rt _ hmk),
      dexecSet_val_char c H f rt id a path hrt hina mka.1 mka.2.1 (dmkp_hasFieldG c f rt _ mka),
      dexecSet_val_char c H f rt id b path hrt hinb mkb.1 mkb.2.1 (dmkp_hasFieldG c f rt _ mkb)]
    have hgrp := hmk.2.2
    have hinOa := collect_inert c rt H.frags (f + 1) a hina
    have hinOb := collect_inert c rt H.frags (f + 1) b hinb
    rw [collect_append] at hgrp ⊢
    generalize Model.ExecDynamic.collect c rt (f + 1) a = Oa at *
    generalize Model.ExecDynamic.collect c rt (f + 1) b = Ob at *
    obtain ⟨N', rfl⟩ : ∃ N', N = N' + 1 := ⟨N - 1, by omega⟩
    rw [List.map_append, dedup_append]
    have hfc : (dedup (Ob.map (·.key))).filter (fun k => decide (k ∉ Oa.map (·.key))) =
        (dedup (Ob.map (·.key))).filter (fun k => decide (k ∉ dedup (Oa.map (·.key)))) := by
      apply List.filter_congr
      intro k _
      simp [mem_dedup]
    rw [hfc]
    simp only [List.filter_append]
    apply seqObj_merge N' _ _ (dedup_nodup _)
    · -- the key occurs in both parts
      intro k hka hkb
      rw [mem_dedup] at hka hkb
      have hnea := filter_key_ne_nil _ k hka
      have hneb := filter_key_ne_nil _ k hkb
      cases hfa : Oa.filter (fun o => decide (o.key = k)) with
      | nil => exact absurd hfa hnea
      | cons oa ra =>
        cases hfb : Ob.filter (fun o => decide (o.key = k)) with
        | nil => exact absurd hfb hneb
        | cons ob rb =>
          have hg := hgrp (k, (Oa ++ Ob).filter (fun o => decide (o.key = k)))
            ((mem_group _ _).2 ⟨by simp only [List.map_append, List.mem_append]; exact Or.inl hka, rfl⟩)
            oa (ra ++ ob :: rb) (by simp only [List.filter_append, hfa, hfb]; rfl)
          apply dgVal_merge c H f ih rt id path k oa ra ob rb hg.1 hg.2 ?_ ?_ N' (by omega)
          · intro o ho
            exact hinOa o (List.mem_filter.1 (by rw [hfa]; exact ho)).1
          · intro o ho
            exact hinOb o (List.mem_filter.1 (by rw [hfb]; exact ho)).1
    · intro k _ hkb
      rw [mem_dedup] at hkb
      have : Ob.filter (fun o => decide (o.key = k)) = [] := by
        rw [List.filter_eq_nil_iff]
        intro o ho hc
        exact hkb (by simp only [List.mem_map]; exact ⟨o, ho, by simpa using hc⟩)
      simp only [this, List.append_nil]
    · intro k _ hka
      rw [mem_dedup] at hka
      have : Oa.filter (fun o => decide (o.key = k)) = [] := by
        rw [List.filter_eq_nil_iff]
        intro o ho hc
        exact hka (by simp only [List.mem_map]; exact ⟨o, ho, by simpa using hc⟩)
      simp only [this, List.nil_append]

-- ------------------------------------------------------------------ all occurrences of one key

/-- the specification's value for a key with several occurrences is the left fold of `merge_value` over the
    values of the single occurrences (each executed on its own sub-selections) -/
theorem dgVal_nary (c : Model.ExecDynamic.Ctx) (H : DataHyps c) (f : Nat) (rt : String) (id : Nat)
    (path : List PathSeg) (k : String) (o0 : FieldOcc) (N : Nat) (hN : 4 * f + 3 ≤ N) :
    ∀ (rest : List FieldOcc),
      (∀ o ∈ o0 :: rest, o.key = k) →
      (∀ o' ∈ rest, o'.name = o0.name ∧ o'.args = o0.args) →
      (o0.name = "__typename" ∨ ∃ fd, c.S.field? rt o0.name = some fd ∧ (rest = [] ∨ listDepth fd.ty ≤ 3) ∧
        ∀ ty ∈ c.S.possibleTypes fd.ty.base, DMKP c f ty ((o0 :: rest).map (·.sels)).flatten) →
      (∀ o ∈ o0 :: rest, selsInert c.vars o.sels = true) →
      gVal (cS c) f rt id path k (o0 :: rest) = mergeAllO N ((o0 :: rest).map (fieldVal (cS c) f rt id path)) := by
  intro rest
  induction rest using snoc_ind with
  | h0 =>
    intro hk _ _ _
    have := hk o0 (by simp)
    subst this
    simp [mergeAllO, gVal_single]
  | h1 r o ih =>
    intro hk hsame hfield hin
    have hko : o.key = k := hk o (by simp)
    have hstep := dgVal_merge c H f (dexecSet_merge c H f) rt id path k o0 r o [] hsame hfield
      (fun x hx => hin x (by simp only [List.mem_cons, List.mem_append] at hx ⊢; rcases hx with h | h; exact Or.inl h; exact Or.inr (Or.inl h)))
      (fun x hx => hin x (by simp only [List.mem_cons, List.mem_append, List.not_mem_nil, or_false] at hx ⊢; exact Or.inr (Or.inr hx)))
      N hN
    have hfield' : o0.name = "__typename" ∨ ∃ fd, c.S.field? rt o0.name = some fd ∧ (r = [] ∨ listDepth fd.ty ≤ 3) ∧
        ∀ ty ∈ c.S.possibleTypes fd.ty.base, DMKP c f ty ((o0 :: r).map (·.sels)).flatten := by
      rcases hfield with h | ⟨fd, hfd, hld, hrec⟩
      · exact Or.inl h
      · refine Or.inr ⟨fd, hfd, ?_, ?_⟩
        · rcases hld with h | h
          · simp at h
          · exact Or.inr h
        · intro ty hty
          have := hrec ty hty
          rw [← List.cons_append, List.map_append, List.flatten_append] at this
          exact (dmkp_split c f _ _ _ this).1
    have ih' := ih (fun x hx => hk x (by simp only [List.mem_cons, List.mem_append] at hx ⊢; rcases hx with h | h; exact Or.inl h; exact Or.inr (Or.inl h)))
      (fun x hx => hsame x (by simp [hx])) hfield'
      (fun x hx => hin x (by simp only [List.mem_cons, List.mem_append] at hx ⊢; rcases hx with h | h; exact Or.inl h; exact Or.inr (Or.inl h)))
    rw [← List.cons_append, hstep, ih', List.map_append, List.map_cons, List.map_cons, List.map_nil, mergeAllO_snoc,
      ← hko, gVal_single]

end AGV.Lemmas.ExecDynamicMerge
