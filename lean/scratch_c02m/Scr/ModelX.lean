/-
  Model of query execution for schemas assembled at run time (`async_graphql::dynamic`):
    src/schema.rs            prepare_request (operation selection, remove_skipped_selection) — shared
    src/dynamic/resolve.rs   collect_fields (type_condition_matched), collect_field (argument defaults),
                             resolve (by TypeRef), resolve_list, resolve_value (by registered Type),
                             resolve_container (+ the shared create_value_object / insert_value)
    src/dynamic/schema.rs    execute_once, update_interface_possible_types
    src/dynamic/scalar.rs    Scalar::validate (custom validator only)
  Resolvers are data-driven (`World`), all immediately ready: `try_join_all` (root query, list
  items) and the serial loop (mutations, every nested selection set) both visit their children in
  index order and stop at the first error.

  How a data-driven resolver hands its `RVal` to the library (harness/core/src/bin/c02.rs):
    null          -> Ok(None)                      leaf v -> FieldValue::value(v)   (leaf null = Value::Null)
    obj ty id     -> FieldValue::owned_any(id), `.with_type(ty)` when the declared type is abstract
    list xs       -> FieldValue::list(items); an item cannot be "no value": a null item is Value::Null
    fail m        -> Err(m)
  A parent value that is not an object identity (e.g. Value::Null handed to an object type) is seen
  by the child resolvers as identity `NOID`, for which the world has no entries (they answer None).

  Defect toggles (true = behaviour of the pinned tree):
    unionCondIgnored        `type_condition_matched` only knows the object's own name and its
                            `implements` set: a fragment on a union is never applied
    skipIgnoresVarDefault   (shared code) @skip/@include read the raw request variables
    builtinScalarUnchecked  Int/Float/String/Boolean/ID are registered as `Scalar::new(name)` without a
                            validator: any `Value` is passed through unchecked
    nullValueNotNull        `resolve` never looks for `Value::Null`: it passes through non-null positions,
                            runs the selection set of an object type on a null parent, and is an
                            error for list / enum / abstract types
    nestedListMergeShallow  (shared `insert_value`) when a response key occurs twice, list values are merged
                            item by item only where both items are objects: for a list of lists
                            (`[[T]]`) the fields selected by the later occurrence are lost
    mergeKeepsPartialOnNull (C03, shared `merge_value`, repaired by 09175af) when a response key occurs twice and a
                            LATER occurrence completed to null (an error below it was captured), the object
                            or list of the earlier occurrence is kept instead of null; not observable through
                            the dynamic executor as long as `noNullableCapture` holds (every error nulls the
                            whole response)
    noNullableCapture       (C03) nothing captures an error at a nullable position: every error
                            travels to the top and `data` becomes null
    resolverErrNoPath       (C03) an `Err` returned by a resolver is converted without a path
  Convention: when `val = none`, an error is travelling upwards.  Import-free.
-/
import AGV.Core.Types
import AGV.Spec.Exec
import AGV.Model.ExecStatic

namespace AGV.Model.ExecDynamicX
open AGV.Core
open AGV.Spec.Exec (FieldOcc Sel.key argValue mapIdx selectOp)
open AGV.Model.ExecStatic (joinAll nnWrap insertKV zipMerge singleKV prune)

structure Defects where
  unionCondIgnored : Bool := false
  skipIgnoresVarDefault : Bool := false
  builtinScalarUnchecked : Bool := false
  nullValueNotNull : Bool := false
  nestedListMergeShallow : Bool := false
  mergeKeepsPartialOnNull : Bool := false
  noNullableCapture : Bool := false
  resolverErrNoPath : Bool := false
  deriving Repr, Inhabited, DecidableEq

def Defects.none : Defects := {}

structure Ctx where
  D : Defects
  S : Schema
  d : Doc
  vars : List (String × GValue)
  w : World

/-- identity seen by child resolvers when the parent value is not an object identity -/
def NOID : Nat := 1000000

-- ------------------------------------------------------------------ collect_fields

/-- `type_condition_matched` (the `None => true` arm is in `collect`) -/
def condMatched (D : Defects) (S : Schema) (rt cond : String) : Bool :=
  cond = rt ||
  (match S.find? rt with
   | some o => o.implements.contains cond
   | none => false) ||
  (!D.unionCondIgnored &&
    (match S.find? cond with
     | some t => t.kind == .union && t.members.contains rt
     | none => false))

/-- `collect_fields` on the object type `rt`: `__typename` always, other fields only when the
    object defines them (anything else is silently skipped) -/
def collect (c : Ctx) (rt : String) : Nat → List Sel → List FieldOcc
  | 0, _ => []
  | fuel + 1, sels =>
    (sels.map (fun sel =>
      match sel with
      | .field al n args _ ss pos =>
        if n = "__typename" || (c.S.field? rt n).isSome then
          [{ key := Sel.key al n, name := n, args := args, sels := ss, pos := pos, st := rt }]
        else []
      | .spread n _ _ =>
        match c.d.frag? n with
        | none => []
        | some f => if condMatched c.D c.S rt f.cond then collect c rt fuel f.sels else []
      | .inline cond _ ss _ =>
        match cond with
        | some t => if condMatched c.D c.S rt t then collect c rt fuel ss else []
        | none => collect c rt fuel ss)).flatten

-- ------------------------------------------------------------------ create_value_object / insert_value

/-- `merge_value`: what `insert_value` does to an existing value `prev` when `new` arrives under the
    same key (shared with the static executor, src/resolver_utils/container.rs).
    `shallow` = `nestedListMergeShallow` (pinned): lists are merged item-wise only for object items;
    repaired: any two values are merged recursively (objects key-wise, lists item-wise).
    `keep` = `mergeKeepsPartialOnNull` (pinned): a `null` arriving for a key that holds an object or a
    list is ignored; repaired (fix 09175af): the key becomes `null`, which is what one execution of
    the merged selection set yields.  An earlier `null` always stays.
    With both toggles off this is `ExecStatic.merge false` (Lemmas/ExecDynamicMerge.lean, `merge_eq_static`). -/
def merge (shallow keep : Bool) : Nat → GValue → GValue → GValue
  | 0, prev, _ => prev
  | fuel + 1, .obj tm, .obj o => .obj (o.foldl (fun tm p => insertKV (merge shallow keep fuel) tm p.1 p.2) tm)
  | fuel + 1, .list tl, .list l =>
    .list (zipMerge (fun t v =>
      if shallow then
        match t, v with
        | .obj tm, .obj o => .obj (o.foldl (fun tm p => insertKV (merge shallow keep fuel) tm p.1 p.2) tm)
        | t, _ => t
      else merge shallow keep fuel t v) tl l)
  | _ + 1, .obj tm, .null => if keep then .obj tm else .null
  | _ + 1, .list tl, .null => if keep then .list tl else .null
  | _ + 1, prev, _ => prev

/-- `create_value_object`.  `fuel` = remaining selection depth; the merge gets four units per level
    (an object level plus up to three list levels around it), as in the static model. -/
def createValueObject (D : Defects) (fuel : Nat) (kvs : List (String × GValue)) : GValue :=
  .obj (kvs.foldl (fun m p => insertKV (merge D.nestedListMergeShallow D.mergeKeepsPartialOnNull (4 * fuel)) m p.1 p.2) [])

-- ------------------------------------------------------------------ resolve_value

def isBuiltin (n : String) : Bool := n = "Int" || n = "Float" || n = "String" || n = "Boolean" || n = "ID"

/-- how a `Value` that went through unchanged is printed in the response (enums as strings) -/
def jsonOf : GValue → GValue
  | .enum e => .str e
  | v => v

/-- the validator a custom scalar was registered with; the schema description carries it as
    `values = [carrier, predicate]` -/
def customValidate (t : TypeDef) (v : GValue) : Bool :=
  match t.values, v with
  | ["Int", "even"], .int i => i % 2 == 0
  | ["String", "nonempty"], .str s => s != ""
  | _, _ => false

def isNullV : GValue → Bool
  | .null => true
  | _ => false

/-- `(Type::Scalar(scalar), Value(v)) if scalar.validate(v)`; `none` = error.
    With the defect repaired the built-in scalars check their value like the specification says. -/
def scalarCheck (D : Defects) (S : Schema) (t : TypeDef) (v : GValue) : Option GValue :=
  if isBuiltin t.name then
    if D.builtinScalarUnchecked then some (jsonOf v)
    else if isNullV v then some .null   -- only reachable while `nullValueNotNull`: null is fine for every scalar
    else AGV.Spec.Exec.serializeLeaf S t.name v
  else if customValidate t v then some (jsonOf v) else none

/-- `Type::Enum`: `Value::Enum(name)` or `Value::String(name)` naming an item -/
def enumCheck (t : TypeDef) (v : GValue) : Option GValue :=
  match v with
  | .enum e => if t.values.contains e then some (.str e) else none
  | .str e => if t.values.contains e then some (.str e) else none
  | _ => none

def errAt (path : List PathSeg) (pos : Pos) : Res := { val := none, errs := [⟨path, pos⟩] }

/-- a nullable position: captures a propagating error (only when the defect is repaired) -/
def cap (D : Defects) (r : Res) : Res :=
  match r.val with
  | none => if D.noNullableCapture then r else { r with val := some .null }
  | some _ => r

/-- (repaired) `Value::Null` is "no value" -/
def normNull (D : Defects) : RVal → RVal
  | .leaf .null => if D.nullValueNotNull then .leaf .null else .null
  | rv => rv

/-- an item of `FieldValue::list` is always a value -/
def itemRV : RVal → RVal
  | .null => .leaf .null
  | rv => rv

/-- `resolve_value`: by the registered type of `n`; `val = none` = Err.
    `rec rt id sels path` = resolve_container(.., serial = true) on an object value. -/
def resolveNamed (c : Ctx) (rec : String → Nat → List Sel → List PathSeg → Res)
    (n : String) (rv : RVal) (ss : List Sel) (path : List PathSeg) (pos : Pos) : Res :=
  match c.S.find? n with
  | none => errAt path pos
  | some t =>
    match t.kind with
    | .scalar =>
      match rv with
      | .leaf v => match scalarCheck c.D c.S t v with
        | some v' => { val := some v' }
        | none => errAt path pos
      | _ => errAt path pos
    | .enum =>
      match rv with
      | .leaf v => match enumCheck t v with
        | some v' => { val := some v' }
        | none => errAt path pos
      | _ => errAt path pos
    | .object =>
      -- `(Type::Object(object), _)`: whatever the value is, the selection set runs on it
      match rv with
      | .obj _ id => rec n id ss path
      | _ => rec n NOID ss path
    | .interface =>
      match rv with
      | .obj ty id =>
        if (c.S.possibleTypes n).contains ty && c.S.kindOf ty == some .object then rec ty id ss path
        else errAt path pos
      | _ => errAt path pos
    | .union =>
      match rv with
      | .obj ty id =>
        if t.members.contains ty && c.S.kindOf ty == some .object then rec ty id ss path
        else errAt path pos
      | _ => errAt path pos
    | .input => errAt path pos

/-- `resolve` / `resolve_list` -/
def resolve (c : Ctx) (rec : String → Nat → List Sel → List PathSeg → Res) :
    TypeRef → RVal → List Sel → List PathSeg → Pos → Res
  | .nonNull t, rv, ss, path, pos =>
    match normNull c.D rv with
    | .null => errAt path pos            -- "non-null types require a return value"
    | rv' => nnWrap (resolve c rec t rv' ss path pos)
  | .list t, rv, ss, path, pos =>
    match normNull c.D rv with
    | .null => { val := some .null }
    | .list xs =>
      let rs := joinAll (mapIdx (fun i x => fun (_ : Unit) =>
        resolve c rec t (itemRV x) ss (path ++ [.idx i]) pos) xs 0)
      let errs := (rs.map (·.errs)).flatten
      let log := (rs.map (·.log)).flatten
      if rs.all (·.val.isSome) then { val := some (.list (rs.filterMap (·.val))), errs := errs, log := log }
      else cap c.D { val := none, errs := errs, log := log }
    | _ => cap c.D (errAt path pos)      -- "expects an array"
  | .named n, rv, ss, path, pos =>
    match normNull c.D rv with
    | .null => { val := some .null }
    | rv' => cap c.D (resolveNamed c rec n rv' ss path pos)

/-- what the resolver of field `occ` of object `id` returns -/
def fieldRVal (c : Ctx) (id : Nat) (fd : FieldDef) (occ : FieldOcc) : RVal :=
  match c.w.get id occ.name with
  | .arg a => RVal.leaf (argValue { S := c.S, d := c.d, vars := c.vars, w := c.w } fd occ a)
  | rv => rv

/-- the future built by `collect_field`: resolver, then `resolve` on its value -/
def completeField (c : Ctx) (rec : String → Nat → List Sel → List PathSeg → Res)
    (fd : FieldDef) (rv : RVal) (occ : FieldOcc) (fpath : List PathSeg) : Res :=
  match rv with
  | .fail _ =>
    -- `future.await.map_err(|err| err.into_server_error(field.pos))?`
    let e : Res := errAt (if c.D.resolverErrNoPath then [] else fpath) occ.pos
    if fd.ty.isNonNull then e else cap c.D e
  | _ => resolve c rec fd.ty rv occ.sels fpath occ.pos

def runField (c : Ctx) (rec : String → Nat → List Sel → List PathSeg → Res)
    (rt : String) (id : Nat) (path : List PathSeg) (occ : FieldOcc) : Res :=
  if occ.name = "__typename" then { val := some (.obj [(occ.key, .str rt)]) }
  else
    match c.S.field? rt occ.name with
    | none => { val := some (.obj []) }     -- not collected (see `collect`)
    | some fd =>
      let r := completeField c rec fd (fieldRVal c id fd occ) occ (path ++ [PathSeg.key occ.key])
      { r with val := r.val.map (fun v => .obj [(occ.key, v)]), log := ⟨id, occ.name, occ.key⟩ :: r.log }

/-- `resolve_container`: collect, run the field futures in order, `create_value_object` -/
def resolveContainer (c : Ctx) : Nat → String → Nat → List Sel → List PathSeg → Res
  | 0, _, _, _, path => { val := none, errs := [⟨path, ⟨0, 0⟩⟩] }   -- out of fuel (never with `fuelBound`)
  | fuel + 1, rt, id, sels, path =>
    let occs := collect c rt (fuel + 1) sels
    let rs := joinAll (occs.map (fun occ => fun (_ : Unit) => runField c (resolveContainer c fuel) rt id path occ))
    let errs := (rs.map (·.errs)).flatten
    let log := (rs.map (·.log)).flatten
    if rs.all (·.val.isSome) then
      { val := some (createValueObject c.D (fuel + 1) ((rs.filterMap (·.val)).filterMap singleKV)), errs := errs, log := log }
    else { val := none, errs := errs, log := log }

def skipVars (D : Defects) (defs : List VarDef) (raw : List (String × GValue)) : List (String × GValue) :=
  if D.skipIgnoresVarDefault then raw else AGV.Spec.Exec.coerceVars defs raw

def run (D : Defects) (S : Schema) (d : Doc) (opName : Option String) (raw : List (String × GValue)) (w : World)
    (fuel : Nat) : Res :=
  match selectOp d opName with
  | none => { val := none }
  | some op =>
    let sv := skipVars D op.vars raw
    let d' : Doc := { ops := d.ops, frags := d.frags.map (fun f => { f with sels := prune sv fuel f.sels }) }
    let c : Ctx := { D := D, S := S, d := d', vars := AGV.Spec.Exec.coerceVars op.vars raw, w := w }
    let root := match op.ty with
      | .query => S.query
      | .mutation => S.mutation.getD ""
      | .subscription => S.subscription.getD ""
    resolveContainer c fuel root 0 (prune sv fuel op.sels) []

end AGV.Model.ExecDynamicX
