import Scr.DM3
import AGV.Props.C02
namespace AGV.Props.C02
open AGV.Core AGV.Model.ExecDynamic AGV.Lemmas.ExecDynamic AGV.Lemmas.ExecDynamicData AGV.Lemmas.ExecDynamicMerge
open AGV.Lemmas.ExecStaticData (selsInert spreads IsObj SchemaOK eraseSt rootOf groupKV mergeAll schemaOK_of_wf)
open AGV.Lemmas.ExecStaticMerge (mergeO)

def f0 (al : Option String) (n : String) (ss : List Sel) : Sel := Sel.field al n [] [] ss Ex.p0
def opRep : OpDef := { ty := .query, name := none, vars := [], dirs := [], sels := [
  f0 none "obj" [f0 none "name" []],
  f0 none "obj" [f0 none "a" [], Sel.spread "F" [] Ex.p0],
  f0 (some "x") "obj" [f0 none "nn" []],
  f0 (some "x") "obj" [f0 none "a" []],
  f0 (some "y") "obj" [f0 none "a" []],
  f0 (some "y") "obj" [f0 none "nn" []],
  f0 none "items" [f0 none "a" []],
  f0 none "items" [f0 none "name" [], f0 none "nn" []],
  f0 none "node" [f0 none "__typename" []],
  f0 none "node" [Sel.inline (some "P") [] [f0 (some "nm") "name" []] Ex.p0],
  f0 none "grid" [], f0 none "grid" []] }
def docRep : Doc := { ops := [opRep], frags := [Ex.fragF] }

#eval (run Defects.none Ex.S1 docRep none [] Ex.w1 10).val.map (fun v => AGV.Sexp.render v.toSexp)
#eval (AGV.Spec.ExecDyn.run Ex.S1 docRep none [] Ex.w1 10).val.map (fun v => AGV.Sexp.render v.toSexp)
#eval (run { mergeKeepsPartialOnNull := true } Ex.S1 docRep none [] Ex.w1 10).val.map (fun v => AGV.Sexp.render v.toSexp)
#eval mergeableKeys (runCtx Ex.S1 docRep opRep [] Ex.w1) 10 "Query" opRep.sels
#eval noRepeatedKeys (runCtx Ex.S1 docRep opRep [] Ex.w1) 10 "Query" opRep.sels
end AGV.Props.C02
