import Scr.DM3
import AGV.Props.C02
namespace AGV.Props.C02
open AGV.Core AGV.Model.ExecDynamic AGV.Lemmas.ExecDynamic AGV.Lemmas.ExecDynamicData AGV.Lemmas.ExecDynamicMerge
open AGV.Lemmas.ExecStaticData (selsInert spreads IsObj SchemaOK eraseSt rootOf groupKV mergeAll schemaOK_of_wf)
open AGV.Lemmas.ExecStaticMerge (mergeO)

-- ------------------------------------------------------------------ stage 3: repeated response keys

/-- `{ o { a } o { nn } }` where `nn: Int!` receives `Value::Null`: the LATER occurrence of `o` completes to
    null (the error is captured at the nullable `o`).  `merge_value` as pinned keeps the object of the
    earlier occurrence; one execution of the merged selection set gives `{"o": null}`.  The code is shared
    with the static executor and was repaired there (fix 09175af, finding
    C03-repeated-key-error-keeps-partial-object); through the dynamic executor the deviation cannot be
    observed as long as `noNullableCapture` holds (every error nulls the whole response).  This is why the
    statement `c02_data_mergeable_full` was FALSE of the model as it stood before the toggle existed. -/
def wNullNN : World := { entries := [((0, "o"), .obj "O" 1), ((1, "a"), .leaf (.int 5)), ((1, "nn"), .leaf .null)] }
def docKeep : Doc := qdoc [fld "o" [fld "a"], fld "o" [fld "nn"]]

theorem c02_repeated_key_null_witness :
    (run { mergeKeepsPartialOnNull := true } S0 docKeep none [] wNullNN 30).val = some (.obj [("o", .obj [("a", .int 5)])]) ∧
    (AGV.Spec.ExecDyn.run S0 docKeep none [] wNullNN 30).val = some (.obj [("o", .null)]) ∧
    3 * AGV.Spec.Exec.fuelBound docKeep ≤ 30 := by
  refine ⟨by rfl, by rfl, by simp [AGV.Spec.Exec.fuelBound, AGV.Spec.Exec.selCount, docKeep, qdoc, fld]⟩

theorem c02_repeated_key_null_repaired_example :
    (run Defects.none S0 docKeep none [] wNullNN 30).val = (AGV.Spec.ExecDyn.run S0 docKeep none [] wNullNN 30).val := by rfl

/-- with both merge toggles off, the model's `merge_value` is the static model's (the code is shared) -/
theorem c02_merge_is_static (keep : Bool) (n : Nat) : merge false keep n = AGV.Model.ExecStatic.merge keep n :=
  merge_eq_static keep n

/-- first step of the merge lemma, for EVERY list of field results (no shape hypothesis): the object
    built by `create_value_object`/`insert_value` is "group the results by response key in order of
    first occurrence, then fold `merge_value` over each key's values in occurrence order" — the model's
    counterpart of the specification's grouping of field occurrences -/
theorem c02_create_value_object_groups (D : Defects) (fuel : Nat) (kvs : List (String × GValue)) :
    createValueObject D fuel kvs =
      .obj ((groupKV kvs).map (fun g =>
        (g.1, mergeAll (merge D.nestedListMergeShallow D.mergeKeepsPartialOnNull (4 * fuel)) g.2))) :=
  createValueObject_group D fuel kvs

/-- THE MERGE LEMMA (specification side, `Spec.ExecDyn`'s reading of schema and world).  Executing the
    union `a ++ b` of two selection sets on an object is the `merge_value` of executing `a` and executing `b`
    (objects key by key in order of first occurrence, lists item by item, a `null` on either side wins, a
    propagating error on either side propagates) — for every object, depth, path and every merge depth
    `N ≥ 4·fuel`, when the union is mergeable (`DMKP`, the proposition behind `mergeableKeys`: every selected
    field exists, occurrences of one response key name one field with one argument list, recursively on the
    merged sub-selections; no fragment spread twice) and no directive acts. -/
theorem c02_exec_union_is_merge (c : Model.ExecDynamic.Ctx) (H : DataHyps c) (fuel : Nat) (rt : String) (id : Nat)
    (a b : List Sel) (path : List PathSeg) (N : Nat) (hrt : IsObj c.S rt)
    (ha : selsInert c.vars a = true) (hb : selsInert c.vars b = true) (hmk : DMKP c fuel rt (a ++ b)) (hN : 4 * fuel ≤ N) :
    (AGV.Spec.Exec.execSet (sc c) fuel rt id (a ++ b) path).val =
      mergeO N (AGV.Spec.Exec.execSet (sc c) fuel rt id a path).val (AGV.Spec.Exec.execSet (sc c) fuel rt id b path).val :=
  dexecSet_merge c H fuel rt id a b path N hrt ha hb hmk hN

theorem c02_data_mergeable_fullX :
  ∀ (S : Schema) (d : Doc) (opName : Option String) (raw : List (String × GValue)) (w : World) (fuel : Nat),
    (∀ op, AGV.Spec.Exec.selectOp d opName = some op →
      IsObj S (rootOf S op) ∧ DataHyps (runCtx S d op raw w) ∧
      selsInert (AGV.Spec.Exec.coerceVars op.vars raw) op.sels = true ∧
      mergeableKeys (runCtx S d op raw w) fuel (rootOf S op) op.sels = true) →
    (Model.ExecDynamic.run Defects.none S d opName raw w fuel).val = (AGV.Spec.ExecDyn.run S d opName raw w fuel).val :=
  fun S d opName raw w fuel H => run_val_eq_mergeable S d opName raw w fuel H

def f0 (al : Option String) (n : String) (ss : List Sel) : Sel := Sel.field al n [] [] ss Ex.p0
def opRep : OpDef := { ty := .query, name := none, vars := [], dirs := [], sels := [
  f0 none "obj" [f0 none "name" []],
  f0 none "obj" [f0 none "a" [], Sel.spread "F" [] Ex.p0],
  f0 (some "x") "obj" [f0 none "nn" []],
  f0 (some "x") "obj" [f0 none "a" []],
  f0 (some "y") "obj" [f0 none "a" []],
  f0 (some "y") "obj" [f0 none "nn" []],
  f0 none "items" [f0 none "a" []],
  f0 none "items" [f0 none "name" [], f0 none "nn" []],
  f0 none "node" [f0 none "__typename" []],
  f0 none "node" [Sel.inline (some "P") [] [f0 (some "nm") "name" []] Ex.p0],
  f0 none "grid" [], f0 none "grid" []] }
def docRep : Doc := { ops := [opRep], frags := [Ex.fragF] }

theorem c02_data_mergeable_example :
    (∀ op, AGV.Spec.Exec.selectOp docRep none = some op →
      IsObj Ex.S1 (rootOf Ex.S1 op) ∧ DataHyps (runCtx Ex.S1 docRep op [] Ex.w1) ∧
      selsInert (AGV.Spec.Exec.coerceVars op.vars []) op.sels = true ∧
      mergeableKeys (runCtx Ex.S1 docRep op [] Ex.w1) 10 (rootOf Ex.S1 op) op.sels = true) ∧
    (∀ op, AGV.Spec.Exec.selectOp docRep none = some op →
      noRepeatedKeys (runCtx Ex.S1 docRep op [] Ex.w1) 10 (rootOf Ex.S1 op) op.sels = false) := by
  constructor
  · intro op hop
    have : op = opRep := by simpa [AGV.Spec.Exec.selectOp, docRep] using hop.symm
    subst this
    have hf := fields_of_wf Ex.S1 (by decide)
    have hw := world_of_ok (runCtx Ex.S1 docRep opRep [] Ex.w1) (by decide)
    exact ⟨⟨Ex.tQuery, rfl, rfl⟩,
      { noDefect := rfl
        schema := schemaOK_of_wf _ (by decide)
        dyn := dynSchemaOK_of_wf _ (by decide)
        frags := by decide
        family := hf.1
        registered := hf.2
        typed := hw.1
        args := hw.2 },
      by decide, by decide⟩
  · intro op hop
    have : op = opRep := by simpa [AGV.Spec.Exec.selectOp, docRep] using hop.symm
    subst this
    decide

example : (run Defects.none Ex.S1 docRep none [] Ex.w1 10).val = (AGV.Spec.ExecDyn.run Ex.S1 docRep none [] Ex.w1 10).val :=
  c02_data_mergeable_fullX Ex.S1 docRep none [] Ex.w1 10 c02_data_mergeable_example.1

example : (run Defects.none Ex.S1 docRep none [] Ex.w1 10).val = some (.obj [
    ("obj", .obj [("name", .str "x"), ("a", .int 5)]), ("x", .null), ("y", .null),
    ("items", .list [.obj [("a", .null), ("name", .null), ("nn", .int 7)], .obj [("a", .null), ("name", .null), ("nn", .int 7)]]),
    ("node", .obj [("__typename", .str "P"), ("nm", .str "p")]),
    ("grid", .list [.list [.int 1, .null], .null])]) := by rfl

end AGV.Props.C02
