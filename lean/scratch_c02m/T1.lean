import Scr.ModelX
open AGV.Core AGV.Model.ExecDynamicX
open AGV.Model.ExecStatic (insertKV zipMerge)

theorem merge_eq_static (keep : Bool) : ∀ n, merge false keep n = AGV.Model.ExecStatic.merge keep n := by
  intro n
  induction n with
  | zero => funext a b; cases a <;> cases b <;> rfl
  | succ n ih =>
    funext a b
    cases a <;> cases b <;> simp [merge, AGV.Model.ExecStatic.merge, ih]
