import AGV.Lemmas.ExecDynamicData
import AGV.Lemmas.ExecStaticMergeExec
import AGV.Lemmas.ExecStaticMergeErrs
#check AGV.Lemmas.ExecStaticMerge.execSet_merge
