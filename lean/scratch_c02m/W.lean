import AGV.Props.C02
open AGV.Core AGV.Model.ExecDynamic AGV.Props.C02 AGV.Lemmas.ExecDynamicData
open AGV.Lemmas.ExecStaticData (selsInert rootOf)

def wN : World := { entries := [((0, "o"), .obj "O" 1), ((1, "a"), .leaf (.int 5)), ((1, "nn"), .leaf .null)] }
def docN : Doc := qdoc [fld "o" [fld "a"], fld "o" [fld "nn"]]
#eval (run Defects.none S0 docN none [] wN 30).val.map (fun v => AGV.Sexp.render v.toSexp)
#eval (AGV.Spec.ExecDyn.run S0 docN none [] wN 30).val.map (fun v => AGV.Sexp.render v.toSexp)
#eval AGV.Spec.Exec.fuelBound docN
#eval mergeableKeys (runCtx S0 docN (docN.ops.head!) [] wN) 30 "Query" (docN.ops.head!).sels
