import AGV.Lemmas.SdlDirDefs
namespace AGV.Lemmas.SdlSkeleton
open AGV.Core AGV.Core.PAst AGV.Core.Sdl AGV.Model.Sdl AGV.Spec.Literal AGV.Spec.Lex AGV.Spec.Parse AGV.Spec.SdlParse AGV.Lemmas.SdlLex AGV.Lemmas.SdlValue AGV.Lemmas.SdlBlock

-- ------------------------------------------------------------------ decidable well-formedness

def attrsOk (a : Attrs) : Bool := a.dirs.all dirWf

def tyOk : PType → Bool
  | .named n _ => isName n
  | .listOf t _ => tyOk t

def ivOk (x : InputVal) : Bool :=
  isName x.name && tyOk x.ty && (match x.default with | some v => svWf v | none => true) && attrsOk x.a

def fieldOk (f : FieldDef) : Bool :=
  isName f.name && tyOk f.ty && attrsOk f.a && f.args.all ivOk && !startsWith2Underscores f.name

def enumValOk (v : Text × Attrs) : Bool :=
  isName v.1 && !(v.1 = kw "true") && !(v.1 = kw "false") && !(v.1 = kw "null") && attrsOk v.2

def depNo : Dep → Bool
  | .no => true
  | .yes _ => false

def typeAttrsOk (a : Attrs) : Bool := depNo a.dep && attrsOk a

def typeOk : TypeDef → Bool
  | .scalar n a _ => isName n && typeAttrsOk a
  | .object n a _ impls fs | .interface n a _ impls fs =>
    isName n && typeAttrsOk a && impls.all isName && !fs.isEmpty && fs.all fieldOk
  | .union n a ms => isName n && typeAttrsOk a && !ms.isEmpty && ms.all isName
  | .enum n a vs => isName n && typeAttrsOk a && !vs.isEmpty && vs.all enumValOk
  | .input n a _ fs => isName n && typeAttrsOk a && !fs.isEmpty && fs.all ivOk

def dirDefOk (d : DirDef) : Bool :=
  isName d.name && d.args.all (fun a => ivOk (bare a)) && !d.locs.isEmpty && d.locs.all directiveLocations.contains

/-- the well-formedness a plain export relies on (decidable): every name is a Name; enum values
    are not `true` / `false` / `null`; default values and directive arguments are printable
    (`svWf`); the lists the grammar wants non-empty are non-empty; no field name starts with `__`;
    a type itself carries no deprecation; directive locations are those of the specification -/
def schemaOk (S : Schema) : Bool :=
  isName S.query && (match S.mutation with | some m => isName m | none => true) &&
    S.types.all typeOk && S.ddefs.all dirDefOk

theorem attrsOk_sound {a : Attrs} (h : attrsOk a = true) : WfAttrs a :=
  ⟨fun d hd => List.all_eq_true.mp h d hd⟩

theorem tyOk_sound : ∀ {t : PType}, tyOk t = true → WfType t
  | .named _ _, h => h
  | .listOf t _, h => tyOk_sound (t := t) h

theorem ivOk_sound {x : InputVal} (h : ivOk x = true) : SkelIv x := by
  simp only [ivOk, Bool.and_eq_true] at h
  refine ⟨h.1.1.1, tyOk_sound h.1.1.2, ?_, attrsOk_sound h.2⟩
  intro v hv
  have := h.1.2
  rw [hv] at this
  exact this

theorem fieldOk_sound {f : FieldDef} (h : fieldOk f = true) : SkelField f ∧ startsWith2Underscores f.name = false := by
  simp only [fieldOk, Bool.and_eq_true, Bool.not_eq_true', List.all_eq_true] at h
  exact ⟨⟨h.1.1.1.1, tyOk_sound h.1.1.1.2, attrsOk_sound h.1.1.2, fun a ha => ivOk_sound (h.1.2 a ha)⟩, h.2⟩

theorem enumValOk_sound {v : Text × Attrs} (h : enumValOk v = true) : SkelEnumVal v := by
  simp only [enumValOk, Bool.and_eq_true, Bool.not_eq_true', decide_eq_false_iff_not] at h
  exact ⟨h.1.1.1.1, ⟨h.1.1.1.2, h.1.1.2, h.1.2⟩, attrsOk_sound h.2⟩

theorem typeAttrsOk_sound {a : Attrs} (h : typeAttrsOk a = true) : TypeAttrs a := by
  simp only [typeAttrsOk, Bool.and_eq_true] at h
  refine ⟨?_, (attrsOk_sound h.2).dirs⟩
  cases hd : a.dep with
  | no => rfl
  | yes r => rw [hd] at h; simp [depNo] at h

theorem typeOk_sound {t : TypeDef} (h : typeOk t = true) : SkelType t := by
  cases t with
  | scalar n a url =>
    simp only [typeOk, Bool.and_eq_true] at h
    exact ⟨h.1, typeAttrsOk_sound h.2⟩
  | object n a ext impls fs =>
    simp only [typeOk, Bool.and_eq_true, Bool.not_eq_true', List.all_eq_true, List.isEmpty_eq_false_iff] at h
    exact ⟨h.1.1.1.1, typeAttrsOk_sound h.1.1.1.2, h.1.1.2, h.1.2, fun f hf => fieldOk_sound (h.2 f hf)⟩
  | interface n a ext impls fs =>
    simp only [typeOk, Bool.and_eq_true, Bool.not_eq_true', List.all_eq_true, List.isEmpty_eq_false_iff] at h
    exact ⟨h.1.1.1.1, typeAttrsOk_sound h.1.1.1.2, h.1.1.2, h.1.2, fun f hf => fieldOk_sound (h.2 f hf)⟩
  | union n a ms =>
    simp only [typeOk, Bool.and_eq_true, Bool.not_eq_true', List.all_eq_true, List.isEmpty_eq_false_iff] at h
    exact ⟨h.1.1.1, typeAttrsOk_sound h.1.1.2, h.1.2, h.2⟩
  | «enum» n a vs =>
    simp only [typeOk, Bool.and_eq_true, Bool.not_eq_true', List.all_eq_true, List.isEmpty_eq_false_iff] at h
    exact ⟨h.1.1.1, typeAttrsOk_sound h.1.1.2, h.1.2, fun v hv => enumValOk_sound (h.2 v hv)⟩
  | input n a oneof fs =>
    simp only [typeOk, Bool.and_eq_true, Bool.not_eq_true', List.all_eq_true, List.isEmpty_eq_false_iff] at h
    exact ⟨h.1.1.1, typeAttrsOk_sound h.1.1.2, h.1.2, fun v hv => ivOk_sound (h.2 v hv)⟩

theorem dirDefOk_sound {d : DirDef} (h : dirDefOk d = true) : SkelDirDef d := by
  simp only [dirDefOk, Bool.and_eq_true, Bool.not_eq_true', List.isEmpty_eq_false_iff] at h
  exact ⟨h.1.1.1, fun a ha => ivOk_sound (List.all_eq_true.mp h.1.1.2 a ha), h.1.2, h.2⟩

theorem systemDirectives_ok : systemDirectives.all dirDefOk = true := by decide

end AGV.Lemmas.SdlSkeleton
