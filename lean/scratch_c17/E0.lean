import AGV.Props.C17
open AGV.Core AGV.Core.Sdl AGV.Model.Sdl AGV.Spec.SdlParse AGV.Props.C17
def S0 : Schema := { query := "Q".toList, mutation := none, ddefs := [], types := [.scalar "a b".toList {} none] }
def S1 : Schema := { query := "Q".toList, mutation := none, ddefs := [], types := [.scalar "%".toList {} none] }
def chk (k : Kind) (S : Schema) (o : Opts) : Bool × String :=
  let p := parseSchema (run Defects.none k S o)
  let present := match p with | some d => presentBuiltins d | none => []
  let want := AGV.Sexp.render (cDoc (describe o S (allDirectives S) (composeGroups (allDirectives S)) present))
  let got := AGV.Sexp.render (cResult p)
  (got == want, got ++ "\n" ++ want)
#eval chk .derived S0 {}
#eval chk .derived S1 {}
#eval String.ofList (run Defects.none .derived S1 {})
def dd : DirDef := DirDef.mk "cd".toList none [] false ["FIELD".toList] (some "http://x".toList)
def at2 : Attrs := {tags := ["t".toList], dirs := [⟨"cd".toList, []⟩]}
def fx : FieldDef := ⟨"x".toList, at2, .named "Int".toList true, []⟩
def S2 : Schema := { query := "Q".toList, mutation := none, ddefs := [dd], types := [.object "Q".toList {} false [] [fx]] }
#eval chk .derived S2 {federation := true, compose := true}
#eval String.ofList (run Defects.none .derived S2 {federation := true, compose := true})
