import AGV.Lemmas.SdlValue
import AGV.Lemmas.SdlDesc
namespace AGV.Lemmas.SdlValue
open AGV.Digits AGV.Core AGV.Core.PAst AGV.Core.Sdl AGV.Model.Sdl AGV.Spec.Literal AGV.Spec.Lex AGV.Spec.Parse AGV.Spec.SdlParse AGV.Lemmas.SdlLex
open AGV.Model.Print (print writeQuoted writeBody joinWith commaSp colonSp)

theorem writeBody_not_block (t rest : Text) (hr : ValEnd rest) : ∀ y, writeBody 16 t ++ '"' :: rest ≠ '"' :: '"' :: y := by
  intro y e
  cases t with
  | nil =>
    cases rest with
    | nil => simp [writeBody] at e
    | cons d r =>
      simp [writeBody] at e
      exact (valEnd_facts d (hr d r rfl)).2.2.2.1 e.1
  | cons c t =>
    obtain ⟨d, r, ed, hne⟩ := AGV.Lemmas.Literal.escChar_head c
    simp [writeBody, ed] at e
    exact hne e.1

/-- a string printed by the value printer is one string token -/
theorem Lx.qstr {t rest : Text} {ts} (hr : ValEnd rest) (h : Lx rest ts) :
    Lx (writeQuoted AGV.Model.Print.Defects.none t ++ rest) (.str t :: ts) := by
  obtain ⟨q1, q2, _⟩ := quote_facts
  have ht : lexToken ('"' :: (writeBody 16 t ++ '"' :: rest)) = some (.str t, rest) :=
    lexToken_quoted _ _ _ (writeBody_not_block t rest hr) (AGV.Lemmas.Literal.lexString_writeBody t rest)
  have := Lx.tok q1 q2 ht (by simp; omega) h
  simpa [writeQuoted, AGV.Model.Print.Defects.none, AGV.Model.Print.Defects.radix, List.append_assoc] using this

theorem print_list (xs : List LValue) : print .none (.list xs) = '[' :: joinWith commaSp (xs.map (print .none)) ++ [']'] := by
  rw [print]
theorem print_obj (fs : List (Text × LValue)) : print .none (.obj fs) =
    '{' :: joinWith commaSp (fs.map (fun kv => kv.1 ++ colonSp ++ print .none kv.2)) ++ ['}'] := by
  rw [print]

mutual
theorem Lx_value : ∀ (v : SValue), svWf v = true → ∀ (rest : Text) (ts : List Tok), ValEnd rest → Lx rest ts →
    Lx (printValue v ++ rest) (svToks v ++ ts)
  | .null, _, rest, ts, hr, h => by
    have := Lx.name (n := kw "null") (by decide) hr.nameEnd h
    simpa [printValue, SValue.toL, print, svToks, kw] using this
  | .int i, _, rest, ts, hr, h => by
    simpa [printValue, SValue.toL, print, svToks] using Lx.int (i := i) hr h
  | .str t, _, rest, ts, hr, h => by
    simpa [printValue, SValue.toL, print, svToks] using Lx.qstr (t := t) hr h
  | .bool b, _, rest, ts, hr, h => by
    cases b
    · have := Lx.name (n := kw "false") (by decide) hr.nameEnd h
      simpa [printValue, SValue.toL, print, svToks, kw] using this
    · have := Lx.name (n := kw "true") (by decide) hr.nameEnd h
      simpa [printValue, SValue.toL, print, svToks, kw] using this
  | .enum n, hw, rest, ts, hr, h => by
    simp only [svWf, Bool.and_eq_true] at hw
    simpa [printValue, SValue.toL, print, svToks] using Lx.name (n := n) hw.1.1.1 hr.nameEnd h
  | .list xs, hw, rest, ts, hr, h => by
    have := Lx.punct (c := '[') (by decide) (Lx_items xs (by simpa [svWf] using hw) rest ts h)
    simpa [printValue, SValue.toL, print_list, svToks, List.append_assoc] using this
  | .obj fs, hw, rest, ts, hr, h => by
    have := Lx.punct (c := '{') (by decide) (Lx_objFields fs (by simpa [svWf] using hw) rest ts h)
    simpa [printValue, SValue.toL, print_obj, svToks, List.append_assoc] using this
theorem Lx_items : ∀ (xs : List SValue), svsWf xs = true → ∀ (rest : Text) (ts : List Tok), Lx rest ts →
    Lx (joinWith commaSp ((SValue.toLs xs).map (print .none)) ++ ']' :: rest) (svsToks xs ++ .punct ']' :: ts)
  | [], _, rest, ts, h => by
    simpa [SValue.toLs, joinWith, svsToks] using Lx.punct (c := ']') (by decide) h
  | [x], hw, rest, ts, h => by
    simp only [svsWf, Bool.and_eq_true] at hw
    have := Lx_value x hw.1 (']' :: rest) (.punct ']' :: ts) (valEnd_punct _ _ (by decide)) (Lx.punct (by decide) h)
    simpa [SValue.toLs, joinWith, svsToks, printValue] using this
  | x :: y :: r, hw, rest, ts, h => by
    simp only [svsWf, Bool.and_eq_true] at hw
    have h1 := Lx_items (y :: r) (by simp [svsWf, hw.2]) rest ts h
    have h2 : Lx (',' :: ' ' :: (joinWith commaSp ((SValue.toLs (y :: r)).map (print .none)) ++ ']' :: rest))
        (svsToks (y :: r) ++ .punct ']' :: ts) := Lx.ign (by decide) (Lx.ign (by decide) h1)
    have := Lx_value x hw.1 _ _ (valEnd_ign ',' _ (by decide)) h2
    simpa [SValue.toLs, joinWith, svsToks, printValue, commaSp, List.append_assoc] using this
theorem Lx_objFields : ∀ (fs : List (Text × SValue)), sfWf fs = true → ∀ (rest : Text) (ts : List Tok), Lx rest ts →
    Lx (joinWith commaSp ((SValue.toLf fs).map (fun kv => kv.1 ++ colonSp ++ print .none kv.2)) ++ '}' :: rest)
      (sfToks fs ++ .punct '}' :: ts)
  | [], _, rest, ts, h => by
    simpa [SValue.toLf, joinWith, sfToks] using Lx.punct (c := '}') (by decide) h
  | [(k, v)], hw, rest, ts, h => by
    simp only [sfWf, Bool.and_eq_true] at hw
    have h1 := Lx_value v hw.1.2 ('}' :: rest) (.punct '}' :: ts) (valEnd_punct _ _ (by decide)) (Lx.punct (by decide) h)
    have h2 : Lx (' ' :: (printValue v ++ '}' :: rest)) (svToks v ++ .punct '}' :: ts) := Lx.ign (by decide) h1
    have := Lx.name (n := k) hw.1.1 (valEnd_punct ':' _ (by decide)).nameEnd (Lx.punct (c := ':') (by decide) h2)
    simpa [SValue.toLf, joinWith, sfToks, printValue, colonSp, List.append_assoc] using this
  | (k, v) :: kv2 :: r, hw, rest, ts, h => by
    rw [sfWf] at hw
    simp only [Bool.and_eq_true] at hw
    have h0 := Lx_objFields (kv2 :: r) hw.2 rest ts h
    have h0' : Lx (',' :: ' ' :: (joinWith commaSp ((SValue.toLf (kv2 :: r)).map (fun kv => kv.1 ++ colonSp ++ print .none kv.2)) ++ '}' :: rest))
        (sfToks (kv2 :: r) ++ .punct '}' :: ts) := Lx.ign (by decide) (Lx.ign (by decide) h0)
    have h1 := Lx_value v hw.1.2 _ _ (valEnd_ign ',' _ (by decide)) h0'
    have h2 := Lx.ign (c := ' ') (by decide) h1
    have := Lx.name (n := k) hw.1.1 (valEnd_punct ':' _ (by decide)).nameEnd (Lx.punct (c := ':') (by decide) h2)
    obtain ⟨k2, v2⟩ := kv2
    simpa [SValue.toLf, joinWith, sfToks, printValue, colonSp, commaSp, List.append_assoc] using this
end

end AGV.Lemmas.SdlValue
