import AGV.Lemmas.SdlValueLex
namespace AGV.Lemmas.SdlSkeleton
open AGV.Core AGV.Core.PAst AGV.Core.Sdl AGV.Model.Sdl AGV.Spec.Literal AGV.Spec.Lex AGV.Spec.Parse AGV.Spec.SdlParse AGV.Lemmas.SdlLex AGV.Lemmas.SdlValue

def typeToks : PType → List Tok
  | .named n nl => .name n :: (if nl then [] else [.punct '!'])
  | .listOf t nl => .punct '[' :: typeToks t ++ .punct ']' :: (if nl then [] else [.punct '!'])

def typeDepth : PType → Nat
  | .named _ _ => 0
  | .listOf t _ => typeDepth t + 1

theorem pType_toks (t : PType) : ∀ (f : Nat) (rest : List Tok), typeDepth t < f → (∀ r, rest ≠ .punct '!' :: r) →
    pType f (typeToks t ++ rest) = some (t, rest) := by
  induction t with
  | named n nl =>
    intro f rest hf h
    cases f with
    | zero => omega
    | succ f =>
      cases nl
      · simp [typeToks, pType]
      · simp only [typeToks, pType, if_true, List.cons_append, List.nil_append]
        split
        · exact absurd rfl (h _)
        · rfl
  | listOf t nl ih =>
    intro f rest hf h
    cases f with
    | zero => omega
    | succ f =>
      have := ih f (.punct ']' :: ((if nl then [] else [Tok.punct '!']) ++ rest)) (by simp [typeDepth] at hf; omega)
        (by intro r e; cases e)
      simp only [typeToks, List.cons_append, List.append_assoc, pType, this]
      cases nl
      · simp
      · simp only [if_true, List.nil_append]
        split
        · exact absurd rfl (h _)
        · rfl
end AGV.Lemmas.SdlSkeleton
