import AGV.Core.PAst
open AGV.Core.PAst
theorem nameLe_total (a b : Name) : (nameLe a b || nameLe b a) = true := by
  simp only [nameLe, Bool.or_eq_true, Bool.not_eq_true', decide_eq_false_iff_not]
  rcases List.le_total (α := Char) a b with h | h
  · exact Or.inl (List.not_lt.mpr h)
  · exact Or.inr (List.not_lt.mpr h)
theorem nameLe_trans (a b c : Name) (h1 : nameLe a b = true) (h2 : nameLe b c = true) : nameLe a c = true := by
  simp only [nameLe, Bool.not_eq_true', decide_eq_false_iff_not] at *
  have h1' : a ≤ b := List.not_lt.mp h1
  have h2' : b ≤ c := List.not_lt.mp h2
  exact List.not_lt.mpr (List.le_trans h1' h2')
open List in
#check @mergeSort_of_pairwise
#check @List.mergeSort_eq_self
