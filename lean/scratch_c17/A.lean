import AGV.Props.C17
open AGV.Core AGV.Core.Sdl AGV.Model.Sdl AGV.Spec.SdlParse AGV.Props.C17 AGV.Spec.Lex AGV.Lemmas.SdlLex

def percentWitness : Schema :=
  { query := "Q".toList, mutation := none, ddefs := [], types := [.scalar "%".toList {} none] }

theorem lexAll_percent0 (rest : Text) : ∀ f, lexAll f (' ' :: '%' :: rest) = none := by
  intro f
  rcases f with _ | _ | f
  · rfl
  · rw [lexAll_cons, if_pos (by decide)]; rfl
  · rw [lexAll_cons, if_pos (by decide), lexAll_cons, if_neg (by decide), if_neg (by decide)]
    have : lexToken ('%' :: rest) = none := by
      unfold lexToken
      simp only [show isPunct '%' = false by decide, show AGV.Spec.Literal.nameStart '%' = false by decide,
        show isDig '%' = false by decide, show ('%' = '.') = False by decide, show ('%' = '-') = False by decide,
        show ('%' = '"') = False by decide, if_false, Bool.false_eq_true, Bool.or_self, decide_false]
    rw [this]; rfl

theorem lexAll_percent (rest : Text) (f : Nat) : lexAll f ('s' :: 'c' :: 'a' :: 'l' :: 'a' :: 'r' :: ' ' :: '%' :: rest) = none := by
  cases f with
  | zero => rfl
  | succ f =>
    have hn := nameOf_append "calar".toList (' ' :: '%' :: rest) (by decide) (by intro c r e; cases e; decide)
    have e : 's' :: 'c' :: 'a' :: 'l' :: 'a' :: 'r' :: ' ' :: '%' :: rest = 's' :: ("calar".toList ++ ' ' :: '%' :: rest) := by simp
    rw [e, lexAll_cons, if_neg (by decide), if_neg (by decide), lexToken_name _ _ (by decide) (by decide) (by decide), hn]
    simp only [contTok, lexAll_percent0, Option.map_none]

theorem types_percent : (((sortByName TypeDef.name percentWitness.types).filter (typeExported {})).map (exportType Defects.none {})).flatten = ['s', 'c', 'a', 'l', 'a', 'r', ' ', '%', '\n', '\n'] := by
  have : sortByName TypeDef.name percentWitness.types = percentWitness.types := by simp [sortByName, percentWitness]
  rw [this]; decide

theorem c17_tokens_false : ¬ c17_tokens := by
  intro h
  obtain ⟨present, h⟩ := h .derived percentWitness {}
  have : parseSchema (run Defects.none .derived percentWitness {}) = none := by
    unfold run
    rw [register_none]
    unfold exportSdl
    rw [types_percent]
    unfold parseSchema tokens
    simp only [List.cons_append, List.nil_append]
    rw [lexAll_percent]
  rw [this] at h
  cases h
#print axioms c17_tokens_false
