import AGV.Lemmas.SdlLex
open AGV.Core AGV.Core.PAst AGV.Core.Sdl AGV.Spec.Lex AGV.Spec.Parse AGV.Spec.SdlParse
#check @pValue.items
#check @pValue.fields
#print pValue.items
#print axioms pValue
example (P : Params) (f : Nat) (r : List Tok) : pValue P true (f+1) (.punct '[' :: r) = (pValue.items P true f (pValue P true f) (r.length+1) r).map (fun x => (.list x.1, x.2)) := by
  rw [pValue]
example (P : Params) (f : Nat) (v) (r : List Tok) : pValue P true (f+1) (.str v :: r) = some (.str v, r) := by
  rw [pValue]
