import AGV.Lemmas.SdlSkeletonDoc
namespace AGV.Lemmas.SdlSkeleton
open AGV.Core AGV.Core.PAst AGV.Core.Sdl AGV.Model.Sdl AGV.Spec.Literal AGV.Spec.Lex AGV.Spec.Parse AGV.Spec.SdlParse AGV.Lemmas.SdlLex AGV.Lemmas.SdlValue AGV.Lemmas.SdlBlock

-- ------------------------------------------------------------------ directive definitions

/-- an argument of a directive definition as written: no description, no directive applications -/
def bare (x : InputVal) : InputVal := { x with a := {} }

theorem argumentSdl_bare (x : InputVal) : argumentSdl x = writeInputValue Defects.none (bare x) := by
  simp [argumentSdl, writeInputValue, bare, writeDeprecated]

theorem dIv_bare (o : Opts) (x : InputVal) : dIv o (bare x) = ⟨x.name, none, x.ty, x.default.map SValue.toP, []⟩ := by
  simp [dIv, bare, dDirs, dDeprecated, dFed]

/-- a well-formed directive definition: Names, printable default values, at least one location,
    all locations directive locations of the specification -/
structure SkelDirDef (d : DirDef) : Prop where
  name : isName d.name = true
  args : ∀ a ∈ d.args, SkelIv (bare a)
  locsNe : d.locs ≠ []
  locs : d.locs.all directiveLocations.contains = true

def dirDefToks (d : DirDef) : List Tok :=
  descToks d.desc ++ (.name (kw "directive") :: .punct '@' :: .name d.name ::
    ((if d.args.isEmpty then [] else .punct '(' :: ivsToks (d.args.map bare) ++ [.punct ')']) ++
     ((if d.repeatable then [.name (kw "repeatable")] else []) ++ (.name (kw "on") :: sepToks '|' d.locs))))

theorem pDef_dirDef (o : Opts) (ho : o.federation = false) (d : DirDef) (hd : SkelDirDef d) (rest : List Tok) (hr : DefEnd rest) :
    pDef (dirDefToks d ++ rest) = some (dDirective d, rest) := by
  have hn := pNamesAfter_toks '|' d.locs hd.locsNe rest (by intro r e; cases hr <;> cases e)
  have e1 : kw "directive" ≠ kw "extend" := by decide
  have e2 : kw "directive" ≠ kw "schema" := by decide
  have e3 : kw "on" ≠ kw "repeatable" := by decide
  have hmap : d.args.map (fun x => (⟨x.name, none, x.ty, x.default.map SValue.toP, []⟩ : SIv)) = (d.args.map bare).map (dIv o) := by
    simp [List.map_map, Function.comp_def, dIv_bare]
  by_cases he : d.args = []
  · cases hrep : d.repeatable <;>
    simp [dirDefToks, he, hrep, pDef, pDesc_descToks, e1, e2, e3, pArgsDef, hn, hd.locs, dDirective]
  · have hne : d.args.isEmpty = false := by simpa using he
    have hargs := fun R g hg => pInputValues_toks o ho ')' (Or.inl rfl) (d.args.map bare) (by simpa using he)
      (by intro x hx; obtain ⟨y, hy, rfl⟩ := List.mem_map.mp hx; exact hd.args y hy) R g hg
    have hlen := ivsToks_length (d.args.map bare)
    cases hrep : d.repeatable
    · simp only [dirDefToks, hne, hrep, Bool.false_eq_true, if_false, List.cons_append, List.append_assoc, List.nil_append,
        pDef, pDesc_descToks, e1, e2, if_true, pArgsDef]
      rw [hargs _ _ (by simp at hlen ⊢; omega)]
      simp [e3, hn, hd.locs, dDirective, hmap, hrep]
    · simp only [dirDefToks, hne, hrep, Bool.false_eq_true, if_false, List.cons_append, List.append_assoc, List.nil_append,
        pDef, pDesc_descToks, e1, e2, if_true, pArgsDef]
      rw [hargs _ _ (by simp at hlen ⊢; omega)]
      simp [e3, hn, hd.locs, dDirective, hmap, hrep]

end AGV.Lemmas.SdlSkeleton
