/-
  Property C17 — exported SDL is valid and describes exactly the schema.

  OBLIGATION c17_strings_escape
  OBLIGATION c17_strings_token
  OBLIGATION c17_strings_reason
  OBLIGATION c17_strings_tag
  OBLIGATION c17_strings_description_quoted
  OBLIGATION c17_description_style
  OBLIGATION c17_strings_block
  OBLIGATION c17_tokens_partial
  OBLIGATION c17_witness_reason_quote
  OBLIGATION c17_witness_single_line_backslash
  OBLIGATION c17_witness_tag_backslash
  OBLIGATION c17_witness_block_triple_quote
  OBLIGATION c17_witness_interface_order
  OBLIGATION c17_witness_dynamic_registration
  OPEN c17_tokens
  OPEN c17_chars

  All theorems are about the model with no defect toggle (`Defects.none` = the tree with the fix
  diffs applied); each toggle has a witness showing the statement fails with it.
-/
import AGV.Model.Sdl
import AGV.Spec.SdlParse
import AGV.Lemmas.SdlBlock
import AGV.Lemmas.SdlSkeletonDoc

namespace AGV.Props.C17
open AGV.Core.Sdl AGV.Model.Sdl AGV.Spec.Literal AGV.Spec.Lex AGV.Lemmas.SdlBlock

/-- Every text written by the repaired `escape_string` between two quotes is read back, by the
    specification's StringValue rule, as exactly that text — for all texts (all Unicode scalar
    values, any length), whatever follows the closing quote. -/
theorem c17_strings_escape (t rest : Text) :
    lexString (escapeString false t ++ '"' :: rest) = some (t, rest) :=
  lexString_escapeString t rest

/-- … and the quoted text is a StringValue token, not the start of a block string: after the
    opening quote the text never continues with two more quotes (the exporter never lets another
    quote follow the closing one), so the lexer takes the StringValue branch, which is
    `c17_strings_escape`. -/
theorem c17_strings_token (t rest : Text) (h : rest.head? ≠ some '"') :
    (∀ y, escapeString false t ++ '"' :: rest ≠ '"' :: '"' :: y) ∧
    lexString (escapeString false t ++ '"' :: rest) = some (t, rest) := by
  exact ⟨escapeString_not_block t rest h, c17_strings_escape t rest⟩

/-- the deprecation reason: `@deprecated(reason: "…")` carries the reason itself -/
theorem c17_strings_reason (r rest : Text) :
    writeDeprecated Defects.none (.yes (some r)) ++ rest =
      s " @deprecated(reason: " ++ '"' :: (escapeString false r ++ '"' :: ')' :: rest) ∧
    lexString (escapeString false r ++ '"' :: ')' :: rest) = some (r, ')' :: rest) := by
  refine ⟨?_, c17_strings_escape r _⟩
  simp [writeDeprecated, Defects.none, s, List.append_assoc]

/-- a federation tag / the specifiedBy URL -/
theorem c17_strings_tag (t rest : Text) :
    lexString (tagText Defects.none t ++ '"' :: ')' :: rest) = some (t, ')' :: rest) := by
  have h : tagText Defects.none t = escapeString false t := by simp [tagText, Defects.none]
  rw [h]; exact c17_strings_escape t _

/-- a description written in the quoted style (preferred single line, or the fallback for texts
    that a block string would change) is a StringValue denoting the description -/
theorem c17_strings_description_quoted (o : Opts) (level : Nat) (d rest : Text)
    (hq : ((o.singleLine && !d.contains '\n') || !blockPrintable d) = true) :
    writeDescription Defects.none o level d ++ rest = tabs o level ++ ('"' :: (escapeString false d ++ '"' :: '\n' :: rest)) ∧
    (∀ y, escapeString false d ++ '"' :: '\n' :: rest ≠ '"' :: '"' :: y) ∧
    lexString (escapeString false d ++ '"' :: '\n' :: rest) = some (d, '\n' :: rest) := by
  refine ⟨?_, (c17_strings_token d _ (by simp)).1, c17_strings_escape d _⟩
  have hq' : ((o.singleLine && !d.contains '\n') || (!false && !blockPrintable d)) = true := by simpa using hq
  simp only [writeDescription, Defects.none, hq', if_true]
  simp [List.append_assoc]

/-- which style the repaired exporter chooses: the block style exactly for block-printable texts
    not already written on a single line -/
theorem c17_description_style (o : Opts) (level : Nat) (d : Text)
    (hb : blockPrintable d = true) (hs : (o.singleLine && !d.contains '\n') = false) :
    writeDescription Defects.none o level d =
      tabs o level ++ quotes3 ++ '\n' :: tabs o level ++ indentLines (tabs o level) d ++ '\n' :: tabs o level ++ quotes3 ++ ['\n'] := by
  have hq' : ((o.singleLine && !d.contains '\n') || (!false && !blockPrintable d)) = false := by rw [hs, hb]; rfl
  simp only [writeDescription, Defects.none, hq']
  simp

example : blockPrintable "a\n b".toList = true := by decide

/-- a block-printable description written in the block style is ONE token denoting the
    description: the lexer takes the block-string branch, the token ends at the exporter's closing
    quotes, and `BlockStringValue` of the indented raw text is the description — all texts the
    repaired exporter prints as blocks, every indentation made of blanks, whatever follows -/
theorem c17_strings_block : ∀ (tb d rest : Text), tb.all isBlank = true → blockPrintable d = true →
    lexToken (quotes3 ++ '\n' :: tb ++ indentLines tb d ++ '\n' :: tb ++ quotes3 ++ '\n' :: rest) = some (.str d, '\n' :: rest) :=
  fun tb d rest htb hd => lexToken_block tb d rest htb hd

-- ------------------------------------------------------------------ witnesses of the toggles

/-- `"` alone: without the quote arm the token ends at the inner quote -/
theorem c17_witness_reason_quote :
    ∃ t rest, lexString (escapeString true t ++ '"' :: rest) ≠ some (t, rest) := by
  refine ⟨['"'], [], ?_⟩
  rw [show escapeString true ['"'] ++ ['"'] = ['"', '"'] from rfl, lexString.eq_def]
  simp

/-- a single-line description ending in a backslash swallows its closing quote -/
theorem c17_witness_single_line_backslash :
    ∃ d, lexString (replaceQuote d ++ ['"', '\n']) ≠ some (d, ['\n']) := by
  refine ⟨['\\'], ?_⟩
  rw [show replaceQuote ['\\'] ++ ['"', '\n'] = ['\\', '"', '\n'] from rfl, lexString.eq_def]
  simp [escaped]
  rw [lexString.eq_def]
  simp

theorem c17_witness_tag_backslash :
    ∃ t, lexString (tagText { tagQuoteOnly := true } t ++ ['"', '\n']) ≠ some (t, ['\n']) := by
  refine ⟨['\\'], ?_⟩
  rw [show tagText { tagQuoteOnly := true } ['\\'] ++ ['"', '\n'] = ['\\', '"', '\n'] from rfl, lexString.eq_def]
  simp [escaped]
  rw [lexString.eq_def]
  simp

/-- a block description containing `"""` ends there: the block string token stops inside the text -/
theorem c17_witness_block_triple_quote :
    ∃ d, lexBlock ('\n' :: indentLines [] d ++ '\n' :: quotes3) = some ("\na".toList, "b\n\"\"\"".toList) :=
  ⟨"a\"\"\"b".toList, by decide⟩

def ifaceWitness : TypeDef :=
  .interface "A".toList { dirs := [⟨"d".toList, []⟩] } false ["B".toList]
    [⟨"x".toList, {}, .named "Int".toList true, []⟩]

/-- `interface A @d implements B`: with the toggle the directive comes first -/
theorem c17_witness_interface_order :
    exportType { interfaceDirectivesFirst := true } {} ifaceWitness = "interface A @d implements B {\n\tx: Int\n}\n\n".toList ∧
    exportType Defects.none {} ifaceWitness = "interface A implements B @d {\n\tx: Int\n}\n\n".toList := by
  constructor <;> decide

def dynWitness : Schema :=
  { query := "Q".toList, mutation := none, ddefs := [],
    types := [.interface "A".toList {} false ["B".toList] [],
              .input "I".toList { tags := ["t".toList] } false [⟨"x".toList, {}, .named "Int".toList true, none⟩]] }

/-- dynamic registration: with the toggles `implements` is dropped and the input field inherits
    the object's tag; without them the registry holds what was built -/
theorem c17_witness_dynamic_registration :
    register Defects.none .dynamic dynWitness = dynWitness ∧
    (register { dynInterfaceImplementsDropped := true } .dynamic dynWitness).types.head? =
      some (.interface "A".toList {} false [] []) ∧
    (register { dynInputFieldAttrsFromObject := true } .dynamic dynWitness).types.getLast? =
      some (.input "I".toList { tags := ["t".toList] } false
        [⟨"x".toList, { tags := ["t".toList] }, .named "Int".toList true, none⟩]) := by
  refine ⟨rfl, rfl, rfl⟩

-- ------------------------------------------------------------------ the document: type-definition skeleton

section Skeleton
open AGV.Core AGV.Core.PAst AGV.Spec.SdlParse AGV.Lemmas.SdlLex AGV.Lemmas.SdlSkeleton

/-- the type definitions of the exported document: the first part of `exportSdl` -/
def typeDefsText (S : Schema) (o : Opts) : Text :=
  (((sortByName TypeDef.name S.types).filter (typeExported o)).map (exportType Defects.none o)).flatten

/-- the type definitions of the required document: the first part of `describe` -/
def typeDefsDoc (o : Opts) (S : Schema) : List SDef :=
  ((sorted true TypeDef.name S.types).filter
    (fun t => !startsDunder t.name && !(o.federation && (federationTypeNames.contains t.name || t.name = kwT "Any")))).filterMap (dType o)

theorem register_none (k : Kind) (S : Schema) : register Defects.none k S = S := by
  unfold register
  split
  · cases S with
    | mk q m tys dd =>
      simp only [Schema.mk.injEq, true_and, and_true]
      conv => rhs; rw [← List.map_id tys]
      apply List.map_congr_left
      intro t _
      cases t <;> rfl
  · rfl

theorem startsDunder_eq (n : Text) : startsDunder n = startsWith2Underscores n := by
  unfold startsDunder startsWith2Underscores
  split <;> simp_all

/-- PARTIAL `c17_tokens`: for a plain (non-federation) export of a schema whose types are skeletons
    (`SkelType`: names are Names; kinds, DESCRIPTIONS of types / fields / arguments / enum values /
    input fields in either style, fields, argument lists in both layouts, type references of any
    nesting, implements lists, union members, enum values, input fields — but no directive
    applications, deprecations, default values, specifiedBy URLs or @oneOf), under every sorting /
    indentation / description-style option: the type-definition part of the exported text — lexed by the
    specification's lexer, parsed by the reference parser — is exactly the type-definition part of
    the required document. -/
theorem c17_tokens_partial (k : Kind) (S : Schema) (o : Opts) (ho : o.federation = false)
    (hS : ∀ t ∈ S.types, SkelType t) (hne : typeDefsDoc o S ≠ []) :
    (∃ tail, run Defects.none k S o = typeDefsText S o ++ tail) ∧
    (∀ reg groups present, ∃ tail, describe o S reg groups present = typeDefsDoc o S ++ tail) ∧
    parseSchema (typeDefsText S o) = some (typeDefsDoc o S) := by
  refine ⟨⟨_, by rw [run, register_none]; unfold exportSdl typeDefsText; rw [List.append_assoc]⟩, fun reg groups present => ⟨_, by simp only [describe, typeDefsDoc, List.append_assoc]; rfl⟩, ?_⟩
  have hfilt : (sorted true TypeDef.name S.types).filter
      (fun t => !startsDunder t.name && !(o.federation && (federationTypeNames.contains t.name || t.name = kwT "Any"))) =
      (sortByName TypeDef.name S.types).filter (typeExported o) := by
    have : sorted true TypeDef.name S.types = sortByName TypeDef.name S.types := rfl
    rw [this]
    congr 1
    funext t
    simp [typeExported, ho, startsDunder_eq]
  unfold typeDefsDoc at hne ⊢
  rw [hfilt] at hne ⊢
  exact parse_typeDefs o ho _ (fun t ht => hS t ((List.mem_mergeSort.mp (List.mem_filter.mp ht).1))) hne


/-- a schema with an object (field with arguments, list / non-null wrappers, implements), an
    interface, a union, an enum, an input object and a custom scalar -/
def skeletonWitness : Schema :=
  { query := "Q".toList, mutation := none, ddefs := [],
    types :=
      [ .object "Q".toList { desc := some "the root\n  of all \"queries\"".toList } false ["Node".toList]
          [⟨"id".toList, {}, .named "ID".toList false, []⟩,
           ⟨"find".toList, { desc := some "search".toList }, .listOf (.named "Hit".toList false) true,
             [⟨"q".toList, { desc := some "what to look for".toList }, .named "Filter".toList false, none⟩,
              ⟨"n".toList, {}, .named "Int".toList true, none⟩]⟩],
        .interface "Node".toList {} false [] [⟨"id".toList, {}, .named "ID".toList false, []⟩],
        .union "Hit".toList {} ["Q".toList, "Other".toList],
        .object "Other".toList {} false [] [⟨"when".toList, {}, .named "Date".toList true, []⟩],
        .enum "Mode".toList {} [("FAST".toList, { desc := some " leading blank: quoted style".toList }), ("EXACT".toList, {})],
        .input "Filter".toList {} false [⟨"mode".toList, {}, .named "Mode".toList true, none⟩],
        .scalar "Date".toList {} none,
        .scalar "Int".toList {} none ] }

example : (∀ t ∈ skeletonWitness.types, SkelType t) ∧ typeDefsDoc {} skeletonWitness ≠ [] := by
  have pa : ∀ d : Option Text, PlainAttrs { desc := d } := fun _ => ⟨rfl, rfl⟩
  constructor
  · intro t ht
    simp only [skeletonWitness, List.mem_cons, List.mem_nil_iff, or_false] at ht
    rcases ht with rfl | rfl | rfl | rfl | rfl | rfl | rfl | rfl
    · refine ⟨by decide, pa _, by decide, by simp, ?_⟩
      intro f hf
      simp only [List.mem_cons, List.mem_nil_iff, or_false] at hf
      rcases hf with rfl | rfl
      · exact ⟨⟨by decide, by (simp only [WfType]; decide), pa _, by simp⟩, by decide⟩
      · refine ⟨⟨by decide, by (simp only [WfType]; decide), pa _, ?_⟩, by decide⟩
        intro a ha
        simp only [List.mem_cons, List.mem_nil_iff, or_false] at ha
        rcases ha with rfl | rfl <;> exact ⟨by decide, by (simp only [WfType]; decide), rfl, pa _⟩
    · refine ⟨by decide, pa _, by simp, by simp, ?_⟩
      intro f hf
      simp only [List.mem_cons, List.mem_nil_iff, or_false] at hf
      subst hf
      exact ⟨⟨by decide, by (simp only [WfType]; decide), pa _, by simp⟩, by decide⟩
    · exact ⟨by decide, pa _, by simp, by decide⟩
    · refine ⟨by decide, pa _, by simp, by simp, ?_⟩
      intro f hf
      simp only [List.mem_cons, List.mem_nil_iff, or_false] at hf
      subst hf
      exact ⟨⟨by decide, by (simp only [WfType]; decide), pa _, by simp⟩, by decide⟩
    · refine ⟨by decide, pa _, by simp, ?_⟩
      intro v hv
      simp only [List.mem_cons, List.mem_nil_iff, or_false] at hv
      rcases hv with rfl | rfl <;> exact ⟨by decide, by decide, pa _⟩
    · refine ⟨by decide, pa _, rfl, by simp, ?_⟩
      intro f hf
      simp only [List.mem_cons, List.mem_nil_iff, or_false] at hf
      subst hf
      exact ⟨by decide, by (simp only [WfType]; decide), rfl, pa _⟩
    · exact ⟨by decide, pa _, rfl⟩
    · exact ⟨by decide, pa _, rfl⟩
  · intro h
    have hm : TypeDef.union "Hit".toList {} ["Q".toList, "Other".toList] ∈
        (sorted true TypeDef.name skeletonWitness.types).filter
          (fun t => !startsDunder t.name && !(({} : Opts).federation && (federationTypeNames.contains t.name || t.name = kwT "Any"))) := by
      rw [List.mem_filter]
      refine ⟨?_, by decide⟩
      unfold sorted
      rw [if_pos rfl, List.mem_mergeSort]
      simp [skeletonWitness]
    have : SDef.type false "Hit".toList none (dDirs {} {}) (.union ["Q".toList, "Other".toList]) ∈
        typeDefsDoc {} skeletonWitness := List.mem_filterMap.mpr ⟨_, hm, rfl⟩
    rw [h] at this
    cases this

end Skeleton

-- ------------------------------------------------------------------ open

/-- OPEN: the whole document: the reference parser reads the exported text as the description of
    the registered schema (for schemas whose names are Names and whose values are well-formed).
    Proved for the type definitions of schemas without directive applications, deprecations and
    default values (descriptions included): `c17_tokens_partial`; missing: directive applications
    and deprecations in context (the token lemmas `c17_strings_reason` / `_tag` are proved),
    default values (C15's round trip), directive definitions, the schema block, federation
    exports. -/
def c17_tokens : Prop :=
  ∀ (k : Kind) (S : Schema) (o : Opts), ∃ present,
    (AGV.Spec.SdlParse.parseSchema (run Defects.none k S o)).map (fun d => cDoc d) =
      some (cDoc (AGV.Spec.SdlParse.describe o S (allDirectives S) (composeGroups (allDirectives S)) present))

/-- OPEN: the glue between characters and tokens for the exporter's separators -/
def c17_chars : Prop := c17_tokens

end AGV.Props.C17
