/-
  C17 — the type-definition skeleton, document level: the exported text of a list of skeleton type
  definitions lexes to the token sequence `defToks`, which the reference parser reads as the
  definitions `describe` requires.
-/
import AGV.Lemmas.SdlSkeletonLex
namespace AGV.Lemmas.SdlSkeleton
open AGV.Core AGV.Core.PAst AGV.Core.Sdl AGV.Model.Sdl AGV.Spec.Literal AGV.Spec.Lex AGV.Spec.Parse AGV.Spec.SdlParse AGV.Lemmas.SdlLex

-- ------------------------------------------------------------------ lexing a type definition

theorem Lx_enumValues (o : Opts) (ho : o.federation = false) (vs : List (Text × Attrs)) (hvs : ∀ v ∈ vs, SkelEnumVal v)
    (rest : Text) (ts : List Tok) (h : Lx rest ts) :
    Lx ((vs.map (exportEnumValue Defects.none o)).flatten ++ rest) (enumToks vs ++ ts) := by
  induction vs with
  | nil => simpa [enumToks] using h
  | cons v vs ih =>
    have hv := hvs v List.mem_cons_self
    have h1 := ih (fun x hx => hvs x (List.mem_cons_of_mem _ hx))
    have h2 := Lx_optDesc o 1 v.2.desc _ _ (Lx.ws (tab_ignored o) (Lx.nameI (n := v.1) (c := '\n') hv.name (by decide) h1))
    have e : exportEnumValue Defects.none o v = optDescription Defects.none o 1 v.2.desc ++ (tab o ++ (v.1 ++ ['\n'])) := by
      simp [exportEnumValue, hv.attrs.dep, writeDeprecated_no, hv.attrs.dirs, dirApps_nil,
        fedAttrs_off o ho]
    simpa [enumToks, enumValToks, e, List.append_assoc] using h2

theorem Lx_inputFields (o : Opts) (ho : o.federation = false) (fs : List InputVal) (hfs : ∀ f ∈ fs, SkelIv f)
    (rest : Text) (ts : List Tok) (h : Lx rest ts) :
    Lx ((fs.map (exportInputField Defects.none o)).flatten ++ rest) (ivsToks fs ++ ts) := by
  induction fs with
  | nil => simpa [ivsToks] using h
  | cons f fs ih =>
    have hf := hfs f List.mem_cons_self
    have h1 := ih (fun x hx => hfs x (List.mem_cons_of_mem _ hx))
    have h2 : Lx ('\n' :: ((fs.map (exportInputField Defects.none o)).flatten ++ rest)) (ivsToks fs ++ ts) :=
      Lx.ign (by decide) h1
    have h3 := Lx_optDesc o 1 f.a.desc _ _ (Lx.ws (tab_ignored o) (Lx_inputValue f hf _ _ (nameEnd_of_ignored '\n' _ (by decide)) h2))
    have e : exportInputField Defects.none o f = optDescription Defects.none o 1 f.a.desc ++ (tab o ++ (writeInputValue Defects.none f ++ ['\n'])) := by
      simp [exportInputField, hf.attrs.dirs, dirApps_nil, fedAttrs_off o ho]
    simpa [ivsToks, ivToks, e, List.append_assoc] using h3

/-- ` {\n` … `}\n\n` around a body -/
theorem Lx_braces (body rest : Text) (bt ts : List Tok) (hb : ∀ r t, Lx r t → Lx (body ++ r) (bt ++ t)) (h : Lx rest ts) :
    Lx (s " {\n" ++ body ++ s "}\n\n" ++ rest) (.punct '{' :: bt ++ .punct '}' :: ts) := by
  have h1 : Lx ('}' :: '\n' :: '\n' :: rest) (.punct '}' :: ts) :=
    Lx.punct (by decide) (Lx.ign (by decide) (Lx.ign (by decide) h))
  have h2 := hb _ _ h1
  have h3 : Lx (' ' :: '{' :: '\n' :: (body ++ '}' :: '\n' :: '\n' :: rest)) (.punct '{' :: (bt ++ .punct '}' :: ts)) :=
    Lx.ign (by decide) (Lx.punct (by decide) (Lx.ign (by decide) h2))
  simpa [s, List.append_assoc] using h3


/-- keyword, blank, type name -/
theorem Lx_head (k : String) (hk : isName (kw k) = true) (n : Text) (hn : isName n = true) (r : Text) (ts : List Tok)
    (hr : NameEnd r) (h : Lx r ts) : Lx (kw k ++ ' ' :: (n ++ r)) (.name (kw k) :: .name n :: ts) :=
  Lx.nameI hk (by decide) (Lx.name hn hr h)

theorem Lx_typeDef (o : Opts) (ho : o.federation = false) (t : TypeDef) (hs : SkelType t) (rest : Text) (ts : List Tok)
    (h : Lx rest ts) : Lx (exportType Defects.none o t ++ rest) (defToks o t ++ ts) := by
  cases t with
  | scalar n a url =>
    obtain ⟨hn, ha, hu⟩ := hs
    by_cases hsys : systemScalars.contains n = true
    · have hm : n ∈ systemScalars := by simpa using hsys
      simpa [exportType, defToks, isSystemScalar, hm] using h
    · have hsys' : systemScalars.contains n = false := by simpa using hsys
      have h1 : Lx ('\n' :: '\n' :: rest) ts := Lx.ign (by decide) (Lx.ign (by decide) h)
      have h2 := Lx_head "scalar" (by decide) n hn _ _ (nameEnd_of_ignored '\n' _ (by decide)) h1
      have e : exportType Defects.none o (.scalar n a url) ++ rest = optDescription Defects.none o 0 a.desc ++ (kw "scalar" ++ ' ' :: (n ++ '\n' :: '\n' :: rest)) := by
        simp only [exportType, hsys', ho, Bool.false_and, Bool.or_false, Bool.false_eq_true, if_false,
          hu, ha.dirs, dirApps_nil, fedAttrs_off o ho]
        cases o.specifiedBy <;> simp [s, kw, List.append_assoc]
      have hm : n ∉ systemScalars := by simpa using hsys'
      rw [e]
      simpa [defToks, isSystemScalar, hm, tdAttrs, defCore, List.append_assoc] using Lx_optDesc o 0 a.desc _ _ h2
  | object n a ext impls fs =>
    obtain ⟨hn, ha, himpl, _, hfs⟩ := hs
    have hb := Lx_braces (exportFields Defects.none o fs) rest (fieldsToks o (sorted o.sortedFields (·.name) fs)) ts
      (fun r t hrt => Lx_fields o ho fs hfs r t hrt) h
    have hne : NameEnd (s " {\n" ++ exportFields Defects.none o fs ++ s "}\n\n" ++ rest) := by
      simp only [s]; exact nameEnd_of_ignored ' ' _ (by decide)
    have hi := Lx_implements impls himpl _ _ hne hb
    have hne2 : NameEnd (writeImplements impls ++ (s " {\n" ++ exportFields Defects.none o fs ++ s "}\n\n" ++ rest)) := by
      unfold writeImplements; split
      · simpa using hne
      · simp only [s]; exact nameEnd_of_ignored ' ' _ (by decide)
    have h2 := Lx_head "type" (by decide) n hn _ _ hne2 hi
    have e : exportType Defects.none o (.object n a ext impls fs) ++ rest =
        optDescription Defects.none o 0 a.desc ++ (kw "type" ++ ' ' :: (n ++ (writeImplements impls ++ (s " {\n" ++ exportFields Defects.none o fs ++ s "}\n\n" ++ rest)))) := by
      simp only [exportType, ho, Bool.false_and, Bool.false_eq_true, if_false, ha.dirs,
        dirApps_nil, fedAttrs_off o ho]
      simp [s, kw, List.append_assoc]
    rw [e]
    simpa [defToks, isSystemScalar, tdAttrs, defCore, List.append_assoc] using Lx_optDesc o 0 a.desc _ _ h2
  | interface n a ext impls fs =>
    obtain ⟨hn, ha, himpl, _, hfs⟩ := hs
    have hb := Lx_braces (exportFields Defects.none o fs) rest (fieldsToks o (sorted o.sortedFields (·.name) fs)) ts
      (fun r t hrt => Lx_fields o ho fs hfs r t hrt) h
    have hne : NameEnd (s " {\n" ++ exportFields Defects.none o fs ++ s "}\n\n" ++ rest) := by
      simp only [s]; exact nameEnd_of_ignored ' ' _ (by decide)
    have hi := Lx_implements impls himpl _ _ hne hb
    have hne2 : NameEnd (writeImplements impls ++ (s " {\n" ++ exportFields Defects.none o fs ++ s "}\n\n" ++ rest)) := by
      unfold writeImplements; split
      · simpa using hne
      · simp only [s]; exact nameEnd_of_ignored ' ' _ (by decide)
    have h2 := Lx_head "interface" (by decide) n hn _ _ hne2 hi
    have e : exportType Defects.none o (.interface n a ext impls fs) ++ rest =
        optDescription Defects.none o 0 a.desc ++ (kw "interface" ++ ' ' :: (n ++ (writeImplements impls ++ (s " {\n" ++ exportFields Defects.none o fs ++ s "}\n\n" ++ rest)))) := by
      have hD : Defects.none.interfaceDirectivesFirst = false := rfl
      simp only [exportType, ho, Bool.false_and, Bool.false_eq_true, if_false, ha.dirs,
        dirApps_nil, fedAttrs_off o ho, hD]
      simp [s, kw, List.append_assoc]
    rw [e]
    simpa [defToks, isSystemScalar, tdAttrs, defCore, List.append_assoc] using Lx_optDesc o 0 a.desc _ _ h2
  | union n a ms =>
    obtain ⟨hn, ha, hne, hms⟩ := hs
    have h1 : Lx ('\n' :: '\n' :: rest) ts := Lx.ign (by decide) (Lx.ign (by decide) h)
    have hu := Lx_unionMembers ms hms _ _ (nameEnd_of_ignored '\n' _ (by decide)) h1 0
    have hu' : Lx (unionMembers 0 ms ++ '\n' :: '\n' :: rest) (sepToks '|' ms ++ ts) := by
      cases ms with
      | nil => exact absurd rfl hne
      | cons m ms => simpa using hu
    have h3 : Lx (' ' :: '=' :: (unionMembers 0 ms ++ '\n' :: '\n' :: rest)) (.punct '=' :: (sepToks '|' ms ++ ts)) :=
      Lx.ign (by decide) (Lx.punct (by decide) hu')
    have h4 := Lx_head "union" (by decide) n hn _ _ (nameEnd_of_ignored ' ' _ (by decide)) h3
    have e : exportType Defects.none o (.union n a ms) ++ rest =
        optDescription Defects.none o 0 a.desc ++ (kw "union" ++ ' ' :: (n ++ ' ' :: '=' :: (unionMembers 0 ms ++ '\n' :: '\n' :: rest))) := by
      simp only [exportType, ha.dirs, dirApps_nil, fedAttrs_off o ho]
      simp [s, kw, List.append_assoc]
    rw [e]
    simpa [defToks, isSystemScalar, tdAttrs, defCore, List.append_assoc] using Lx_optDesc o 0 a.desc _ _ h4
  | «enum» n a vs =>
    obtain ⟨hn, ha, _, hvs⟩ := hs
    have hb := Lx_braces ((sorted o.sortedEnum (·.1) vs).map (exportEnumValue Defects.none o)).flatten rest
      (enumToks (sorted o.sortedEnum (·.1) vs)) ts
      (fun r t hrt => Lx_enumValues o ho _ (fun v hv => hvs v ((sorted_mem _ _ _ _).mp hv)) r t hrt) h
    have hne : NameEnd (s " {\n" ++ ((sorted o.sortedEnum (·.1) vs).map (exportEnumValue Defects.none o)).flatten ++
        s "}\n\n" ++ rest) := by
      simp only [s]; exact nameEnd_of_ignored ' ' _ (by decide)
    have h2 := Lx_head "enum" (by decide) n hn _ _ hne hb
    have e : exportType Defects.none o (.enum n a vs) ++ rest =
        optDescription Defects.none o 0 a.desc ++ (kw "enum" ++ ' ' :: (n ++ (s " {\n" ++ ((sorted o.sortedEnum (·.1) vs).map (exportEnumValue Defects.none o)).flatten ++
          s "}\n\n" ++ rest))) := by
      simp only [exportType, ha.dirs, dirApps_nil, fedAttrs_off o ho, sortByName_sorted]
      simp [s, kw, List.append_assoc]
    rw [e]
    simpa [defToks, isSystemScalar, tdAttrs, defCore, List.append_assoc] using Lx_optDesc o 0 a.desc _ _ h2
  | input n a oneof fs =>
    obtain ⟨hn, ha, hone, _, hfs⟩ := hs
    have hb := Lx_braces ((sorted o.sortedFields (·.name) fs).map (exportInputField Defects.none o)).flatten rest
      (ivsToks (sorted o.sortedFields (·.name) fs)) ts
      (fun r t hrt => Lx_inputFields o ho _ (fun v hv => hfs v ((sorted_mem _ _ _ _).mp hv)) r t hrt) h
    have hne : NameEnd (s " {\n" ++ ((sorted o.sortedFields (·.name) fs).map (exportInputField Defects.none o)).flatten ++
        s "}\n\n" ++ rest) := by
      simp only [s]; exact nameEnd_of_ignored ' ' _ (by decide)
    have h2 := Lx_head "input" (by decide) n hn _ _ hne hb
    have e : exportType Defects.none o (.input n a oneof fs) ++ rest =
        optDescription Defects.none o 0 a.desc ++ (kw "input" ++ ' ' :: (n ++ (s " {\n" ++ ((sorted o.sortedFields (·.name) fs).map (exportInputField Defects.none o)).flatten ++
          s "}\n\n" ++ rest))) := by
      simp only [exportType, ha.dirs, dirApps_nil, fedAttrs_off o ho, sortByName_sorted, hone,
        Bool.false_eq_true, if_false]
      simp [s, kw, List.append_assoc]
    rw [e]
    simpa [defToks, isSystemScalar, tdAttrs, defCore, List.append_assoc] using Lx_optDesc o 0 a.desc _ _ h2


-- ------------------------------------------------------------------ a list of type definitions

theorem Lx_typeDefs (o : Opts) (ho : o.federation = false) (L : List TypeDef) (hL : ∀ t ∈ L, SkelType t) :
    Lx ((L.map (exportType Defects.none o)).flatten) (L.flatMap (defToks o)) := by
  induction L with
  | nil => exact Lx.nil
  | cons t L ih =>
    have := Lx_typeDef o ho t (hL t List.mem_cons_self) _ _ (ih (fun x hx => hL x (List.mem_cons_of_mem _ hx)))
    simpa using this

/-- the exported text of a list of skeleton type definitions IS (lexes and parses to) the list of
    definitions `describe` requires -/
theorem parse_typeDefs (o : Opts) (ho : o.federation = false) (L : List TypeDef) (hL : ∀ t ∈ L, SkelType t)
    (hne : L.filterMap (dType o) ≠ []) :
    parseSchema ((L.map (exportType Defects.none o)).flatten) = some (L.filterMap (dType o)) := by
  have hl := (Lx_typeDefs o ho L hL).tokens
  unfold parseSchema
  rw [hl]
  simp only [parseTokens]
  rcases pDefs_toks o ho L hL ((L.flatMap (defToks o)).length + 1)
    (by have := defs_le_toks o ho L hL; omega) with ⟨e1, _⟩ | ⟨_, e2⟩
  · exact absurd e1 hne
  · exact e2

end AGV.Lemmas.SdlSkeleton
