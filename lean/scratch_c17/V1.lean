import AGV.Lemmas.SdlLex
namespace AGV.Lemmas.SdlValue
open AGV.Digits AGV.Core AGV.Core.PAst AGV.Core.Sdl AGV.Model.Sdl AGV.Spec.Literal AGV.Spec.Lex AGV.Spec.Parse AGV.Spec.SdlParse AGV.Lemmas.SdlLex

mutual
/-- the tokens of a printed constant value -/
def svToks : SValue → List Tok
  | .null => [.name (kw "null")]
  | .int i => [.int (decide (i < 0)) (natDigits i.natAbs)]
  | .str s => [.str s]
  | .bool b => [.name (if b then kw "true" else kw "false")]
  | .enum n => [.name n]
  | .list xs => .punct '[' :: (svsToks xs ++ [.punct ']'])
  | .obj fs => .punct '{' :: (sfToks fs ++ [.punct '}'])
def svsToks : List SValue → List Tok
  | [] => []
  | x :: r => svToks x ++ svsToks r
def sfToks : List (Text × SValue) → List Tok
  | [] => []
  | (k, v) :: r => .name k :: .punct ':' :: (svToks v ++ sfToks r)
end

mutual
/-- a printable constant value: enum values are Names other than true / false / null, object keys
    are Names (strings and integers are unrestricted) -/
def svWf : SValue → Bool
  | .enum n => isName n && !(n = kw "true") && !(n = kw "false") && !(n = kw "null")
  | .list xs => svsWf xs
  | .obj fs => sfWf fs
  | _ => true
def svsWf : List SValue → Bool
  | [] => true
  | x :: r => svWf x && svsWf r
def sfWf : List (Text × SValue) → Bool
  | [] => true
  | (k, v) :: r => isName k && svWf v && sfWf r
end

theorem natOf_natDigits (n : Nat) : natOf (natDigits n) = n := parseNat_natDigits n

theorem svToks_head (v : SValue) : ∃ t tl, svToks v = t :: tl ∧ t ≠ .punct ']' ∧ t ≠ .punct '}' := by
  cases v <;> simp [svToks]

theorem svsToks_length : ∀ xs : List SValue, xs.length ≤ (svsToks xs).length
  | [] => by simp [svsToks]
  | x :: r => by
    obtain ⟨t, tl, e, _⟩ := svToks_head x
    have := svsToks_length r
    simp [svsToks, e]; omega

theorem sfToks_length : ∀ fs : List (Text × SValue), fs.length ≤ (sfToks fs).length
  | [] => by simp [sfToks]
  | (k, v) :: r => by
    have := sfToks_length r
    simp [sfToks]; omega

mutual
theorem pValue_toks : ∀ (v : SValue), svWf v = true → ∀ (f : Nat) (rest : List Tok), (svToks v).length ≤ f →
    pValue P true f (svToks v ++ rest) = some (v.toP, rest)
  | .null, _, f, rest, hf => by
    obtain ⟨g, rfl⟩ : ∃ g, f = g + 1 := ⟨f - 1, by simp [svToks] at hf; omega⟩
    simp only [svToks, List.cons_append, List.nil_append]; rw [pValue]
    simp [kw, SValue.toP]
  | .int i, _, f, rest, hf => by
    obtain ⟨g, rfl⟩ : ∃ g, f = g + 1 := ⟨f - 1, by simp [svToks] at hf; omega⟩
    simp only [svToks, List.cons_append, List.nil_append]; rw [pValue]
    simp only [natOf_natDigits, SValue.toP]
    by_cases h : i < 0
    · simp [h]; omega
    · simp [h]; omega
  | .str s, _, f, rest, hf => by
    obtain ⟨g, rfl⟩ : ∃ g, f = g + 1 := ⟨f - 1, by simp [svToks] at hf; omega⟩
    simp only [svToks, List.cons_append, List.nil_append]; rw [pValue]; rfl
  | .bool b, _, f, rest, hf => by
    obtain ⟨g, rfl⟩ : ∃ g, f = g + 1 := ⟨f - 1, by simp [svToks] at hf; omega⟩
    simp only [svToks, List.cons_append, List.nil_append]; rw [pValue]
    cases b <;> simp [kw, SValue.toP]
  | .enum n, hw, f, rest, hf => by
    obtain ⟨g, rfl⟩ : ∃ g, f = g + 1 := ⟨f - 1, by simp [svToks] at hf; omega⟩
    simp only [svWf, Bool.and_eq_true, Bool.not_eq_true', decide_eq_false_iff_not] at hw
    simp only [svToks, List.cons_append, List.nil_append]; rw [pValue]
    simp [hw.1.1.2, hw.1.2, hw.2, SValue.toP]
  | .list xs, hw, f, rest, hf => by
    obtain ⟨g, rfl⟩ : ∃ g, f = g + 1 := ⟨f - 1, by simp [svToks] at hf; omega⟩
    simp only [svToks, List.cons_append, List.append_assoc, List.nil_append]; rw [pValue]
    have := items_toks xs (by simpa [svWf] using hw) g ((svsToks xs ++ .punct ']' :: rest).length + 1) rest
      (by simp [svToks] at hf; omega) (by have := svsToks_length xs; simp; omega)
    rw [this]; simp [SValue.toP]
  | .obj fs, hw, f, rest, hf => by
    obtain ⟨g, rfl⟩ : ∃ g, f = g + 1 := ⟨f - 1, by simp [svToks] at hf; omega⟩
    simp only [svToks, List.cons_append, List.append_assoc, List.nil_append]; rw [pValue]
    have := fields_toks fs (by simpa [svWf] using hw) g ((sfToks fs ++ .punct '}' :: rest).length + 1) rest
      (by simp [svToks] at hf; omega) (by have := sfToks_length fs; simp; omega)
    rw [this]; simp [SValue.toP]
theorem items_toks : ∀ (xs : List SValue), svsWf xs = true → ∀ (f g : Nat) (rest : List Tok),
    (svsToks xs).length ≤ f → xs.length < g →
    pValue.items P true f g (svsToks xs ++ .punct ']' :: rest) = some (SValue.toPs xs, rest)
  | [], _, f, g, rest, hf, hg => by
    obtain ⟨g, rfl⟩ : ∃ g', g = g' + 1 := ⟨g - 1, by omega⟩
    simp only [svsToks, List.nil_append]; rw [pValue.items]; rfl
  | x :: r, hw, f, g, rest, hf, hg => by
    obtain ⟨g, rfl⟩ : ∃ g', g = g' + 1 := ⟨g - 1, by omega⟩
    simp only [svsWf, Bool.and_eq_true] at hw
    simp only [svsToks, List.length_append] at hf
    have h1 := pValue_toks x hw.1 f (svsToks r ++ .punct ']' :: rest) (by omega)
    have h2 := items_toks r hw.2 f g rest (by omega) (by simp at hg; omega)
    obtain ⟨t, tl, e, hne, _⟩ := svToks_head x
    simp only [svsToks, List.append_assoc]
    rw [e] at h1 ⊢
    simp only [List.cons_append] at h1 ⊢
    rw [pValue.items]
    · simp [h1, h2, SValue.toPs]
    · intro r' e'; cases e'; exact hne rfl
theorem fields_toks : ∀ (fs : List (Text × SValue)), sfWf fs = true → ∀ (f g : Nat) (rest : List Tok),
    (sfToks fs).length ≤ f → fs.length < g →
    pValue.fields P true f g (sfToks fs ++ .punct '}' :: rest) = some (SValue.toPf fs, rest)
  | [], _, f, g, rest, hf, hg => by
    obtain ⟨g, rfl⟩ : ∃ g', g = g' + 1 := ⟨g - 1, by omega⟩
    simp only [sfToks, List.nil_append]; rw [pValue.fields]; rfl
  | (k, v) :: r, hw, f, g, rest, hf, hg => by
    obtain ⟨g, rfl⟩ : ∃ g', g = g' + 1 := ⟨g - 1, by omega⟩
    simp only [sfWf, Bool.and_eq_true] at hw
    simp only [sfToks, List.length_cons, List.length_append] at hf
    have h1 := pValue_toks v hw.1.2 f (sfToks r ++ .punct '}' :: rest) (by omega)
    have h2 := fields_toks r hw.2 f g rest (by omega) (by simp at hg; omega)
    simp only [sfToks, List.cons_append, List.append_assoc]
    rw [pValue.fields]
    simp [h1, h2, SValue.toPf]
end

end AGV.Lemmas.SdlValue
