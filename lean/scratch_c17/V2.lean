import AGV.Lemmas.SdlLex
namespace AGV.Lemmas.SdlValue
open AGV.Digits AGV.Core AGV.Core.PAst AGV.Core.Sdl AGV.Model.Sdl AGV.Spec.Literal AGV.Spec.Lex AGV.Spec.Parse AGV.Spec.SdlParse AGV.Lemmas.SdlLex

mutual
/-- the tokens of a printed constant value -/
def svToks : SValue → List Tok
  | .null => [.name (kw "null")]
  | .int i => [.int (decide (i < 0)) (natDigits i.natAbs)]
  | .str s => [.str s]
  | .bool b => [.name (if b then kw "true" else kw "false")]
  | .enum n => [.name n]
  | .list xs => .punct '[' :: (svsToks xs ++ [.punct ']'])
  | .obj fs => .punct '{' :: (sfToks fs ++ [.punct '}'])
def svsToks : List SValue → List Tok
  | [] => []
  | x :: r => svToks x ++ svsToks r
def sfToks : List (Text × SValue) → List Tok
  | [] => []
  | (k, v) :: r => .name k :: .punct ':' :: (svToks v ++ sfToks r)
end

mutual
/-- a printable constant value: enum values are Names other than true / false / null, object keys
    are Names (strings and integers are unrestricted) -/
def svWf : SValue → Bool
  | .enum n => isName n && !(n = kw "true") && !(n = kw "false") && !(n = kw "null")
  | .list xs => svsWf xs
  | .obj fs => sfWf fs
  | _ => true
def svsWf : List SValue → Bool
  | [] => true
  | x :: r => svWf x && svsWf r
def sfWf : List (Text × SValue) → Bool
  | [] => true
  | (k, v) :: r => isName k && svWf v && sfWf r
end

theorem natOf_natDigits (n : Nat) : natOf (natDigits n) = n := parseNat_natDigits n

theorem svToks_head (v : SValue) : ∃ t tl, svToks v = t :: tl ∧ t ≠ .punct ']' ∧ t ≠ .punct '}' := by
  cases v <;> simp [svToks]

theorem svsToks_length : ∀ xs : List SValue, xs.length ≤ (svsToks xs).length
  | [] => by simp [svsToks]
  | x :: r => by
    obtain ⟨t, tl, e, _⟩ := svToks_head x
    have := svsToks_length r
    simp [svsToks, e]; omega

theorem sfToks_length : ∀ fs : List (Text × SValue), fs.length ≤ (sfToks fs).length
  | [] => by simp [sfToks]
  | (k, v) :: r => by
    have := sfToks_length r
    simp [sfToks]; omega

mutual
theorem pValue_toks : ∀ (v : SValue), svWf v = true → ∀ (f : Nat) (rest : List Tok), (svToks v).length ≤ f →
    pValue P true f (svToks v ++ rest) = some (v.toP, rest)
  | .null, _, f, rest, hf => by
    obtain ⟨g, rfl⟩ : ∃ g, f = g + 1 := ⟨f - 1, by simp [svToks] at hf; omega⟩
    simp only [svToks, List.cons_append, List.nil_append]; rw [pValue]
    simp [kw, SValue.toP]
  | .int i, _, f, rest, hf => by
    obtain ⟨g, rfl⟩ : ∃ g, f = g + 1 := ⟨f - 1, by simp [svToks] at hf; omega⟩
    simp only [svToks, List.cons_append, List.nil_append]; rw [pValue]
    simp only [natOf_natDigits, SValue.toP]
    by_cases h : i < 0
    · simp [h]; omega
    · simp [h]; omega
  | .str s, _, f, rest, hf => by
    obtain ⟨g, rfl⟩ : ∃ g, f = g + 1 := ⟨f - 1, by simp [svToks] at hf; omega⟩
    simp only [svToks, List.cons_append, List.nil_append]; rw [pValue]; rfl
  | .bool b, _, f, rest, hf => by
    obtain ⟨g, rfl⟩ : ∃ g, f = g + 1 := ⟨f - 1, by simp [svToks] at hf; omega⟩
    simp only [svToks, List.cons_append, List.nil_append]; rw [pValue]
    cases b <;> simp [kw, SValue.toP]
  | .enum n, hw, f, rest, hf => by
    obtain ⟨g, rfl⟩ : ∃ g, f = g + 1 := ⟨f - 1, by simp [svToks] at hf; omega⟩
    simp only [svWf, Bool.and_eq_true, Bool.not_eq_true', decide_eq_false_iff_not] at hw
    simp only [svToks, List.cons_append, List.nil_append]; rw [pValue]
    simp [hw.1.1.2, hw.1.2, hw.2, SValue.toP]
  | .list xs, hw, f, rest, hf => by
    obtain ⟨g, rfl⟩ : ∃ g, f = g + 1 := ⟨f - 1, by simp [svToks] at hf; omega⟩
    simp only [svToks, List.cons_append, List.append_assoc, List.nil_append]; rw [pValue]
    have := items_toks xs (by simpa [svWf] using hw) g ((svsToks xs ++ .punct ']' :: rest).length + 1) rest
      (by simp [svToks] at hf; omega) (by have := svsToks_length xs; simp; omega)
    rw [this]; simp [SValue.toP]
  | .obj fs, hw, f, rest, hf => by
    obtain ⟨g, rfl⟩ : ∃ g, f = g + 1 := ⟨f - 1, by simp [svToks] at hf; omega⟩
    simp only [svToks, List.cons_append, List.append_assoc, List.nil_append]; rw [pValue]
    have := fields_toks fs (by simpa [svWf] using hw) g ((sfToks fs ++ .punct '}' :: rest).length + 1) rest
      (by simp [svToks] at hf; omega) (by have := sfToks_length fs; simp; omega)
    rw [this]; simp [SValue.toP]
theorem items_toks : ∀ (xs : List SValue), svsWf xs = true → ∀ (f g : Nat) (rest : List Tok),
    (svsToks xs).length ≤ f → xs.length < g →
    pValue.items P true f g (svsToks xs ++ .punct ']' :: rest) = some (SValue.toPs xs, rest)
  | [], _, f, g, rest, hf, hg => by
    obtain ⟨g, rfl⟩ : ∃ g', g = g' + 1 := ⟨g - 1, by omega⟩
    simp only [svsToks, List.nil_append]; rw [pValue.items]; rfl
  | x :: r, hw, f, g, rest, hf, hg => by
    obtain ⟨g, rfl⟩ : ∃ g', g = g' + 1 := ⟨g - 1, by omega⟩
    simp only [svsWf, Bool.and_eq_true] at hw
    simp only [svsToks, List.length_append] at hf
    have h1 := pValue_toks x hw.1 f (svsToks r ++ .punct ']' :: rest) (by omega)
    have h2 := items_toks r hw.2 f g rest (by omega) (by simp at hg; omega)
    obtain ⟨t, tl, e, hne, _⟩ := svToks_head x
    simp only [svsToks, List.append_assoc]
    rw [e] at h1 ⊢
    simp only [List.cons_append] at h1 ⊢
    rw [pValue.items]
    · simp [h1, h2, SValue.toPs]
    · intro r' e'; cases e'; exact hne rfl
theorem fields_toks : ∀ (fs : List (Text × SValue)), sfWf fs = true → ∀ (f g : Nat) (rest : List Tok),
    (sfToks fs).length ≤ f → fs.length < g →
    pValue.fields P true f g (sfToks fs ++ .punct '}' :: rest) = some (SValue.toPf fs, rest)
  | [], _, f, g, rest, hf, hg => by
    obtain ⟨g, rfl⟩ : ∃ g', g = g' + 1 := ⟨g - 1, by omega⟩
    simp only [sfToks, List.nil_append]; rw [pValue.fields]; rfl
  | (k, v) :: r, hw, f, g, rest, hf, hg => by
    obtain ⟨g, rfl⟩ : ∃ g', g = g' + 1 := ⟨g - 1, by omega⟩
    simp only [sfWf, Bool.and_eq_true] at hw
    simp only [sfToks, List.length_cons, List.length_append] at hf
    have h1 := pValue_toks v hw.1.2 f (sfToks r ++ .punct '}' :: rest) (by omega)
    have h2 := fields_toks r hw.2 f g rest (by omega) (by simp at hg; omega)
    simp only [sfToks, List.cons_append, List.append_assoc]
    rw [pValue.fields]
    simp [h1, h2, SValue.toPf]
end



-- ------------------------------------------------------------------ directive applications

theorem toPf_map : ∀ fs : List (Text × SValue), SValue.toPf fs = fs.map (fun kv => (kv.1, kv.2.toP))
  | [] => rfl
  | (k, v) :: r => by simp [SValue.toPf, toPf_map r]

def dirToks (d : DirApp) : List Tok :=
  .punct '@' :: .name d.name :: (if d.args.isEmpty then [] else .punct '(' :: (sfToks d.args ++ [.punct ')']))

def dirsToks (ds : List DirApp) : List Tok := ds.flatMap dirToks

def dirWf (d : DirApp) : Bool := isName d.name && sfWf d.args

/-- what follows the directive applications of an item: not another `@`, not `(` -/
def DirEnd (ts : List Tok) : Prop := ∀ r, ts ≠ .punct '@' :: r ∧ ts ≠ .punct '(' :: r

theorem pArgList_toks : ∀ (fs : List (Text × SValue)), fs ≠ [] → sfWf fs = true → ∀ (g : Nat) (rest : List Tok),
    fs.length ≤ g → pArgList P true g (sfToks fs ++ .punct ')' :: rest) = some (SValue.toPf fs, rest)
  | [], h, _, _, _, _ => absurd rfl h
  | (k, v) :: r, _, hw, g, rest, hg => by
    obtain ⟨g, rfl⟩ : ∃ g', g = g' + 1 := ⟨g - 1, by simp at hg; omega⟩
    simp only [sfWf, Bool.and_eq_true] at hw
    have h1 := pValue_toks v hw.1.2 (valueFuel (svToks v ++ (sfToks r ++ .punct ')' :: rest))) (sfToks r ++ .punct ')' :: rest)
      (by simp [valueFuel]; omega)
    simp only [sfToks, List.cons_append, List.append_assoc]
    rw [pArgList]
    simp only [h1]
    cases r with
    | nil => simp [sfToks, SValue.toPf]
    | cons kv r' =>
      obtain ⟨k', v'⟩ := kv
      have h2 := pArgList_toks ((k', v') :: r') (by simp) hw.2 g rest (by simp at hg ⊢; omega)
      simp only [sfToks, List.cons_append, List.append_assoc] at h2 ⊢
      simp [h2, SValue.toPf]

theorem pOptArgs_toks (d : DirApp) (hw : dirWf d = true) (rest : List Tok) (hr : ∀ r, rest ≠ .punct '(' :: r) :
    pOptArgs P true ((if d.args.isEmpty then [] else .punct '(' :: (sfToks d.args ++ [.punct ')'])) ++ rest) =
      some (d.args.map (fun kv => (kv.1, kv.2.toP)), rest) := by
  simp only [dirWf, Bool.and_eq_true] at hw
  by_cases he : d.args = []
  · simp only [he, List.isEmpty_nil, if_true, List.nil_append, List.map_nil]
    unfold pOptArgs
    split
    · rename_i r; exact absurd rfl (hr r)
    · rfl
  · have hne : d.args.isEmpty = false := by simpa using he
    have := pArgList_toks d.args he hw.2 ((sfToks d.args ++ .punct ')' :: rest).length + 1) rest
      (by have := sfToks_length d.args; simp; omega)
    simp only [hne, Bool.false_eq_true, if_false, List.cons_append, List.append_assoc, List.nil_append, pOptArgs, this, toPf_map]

theorem dirsToks_end (ds : List DirApp) (rest : List Tok) (hr : ∀ r, rest ≠ .punct '(' :: r) :
    ∀ r, dirsToks ds ++ rest ≠ .punct '(' :: r := by
  cases ds with
  | nil => simpa [dirsToks] using hr
  | cons d ds => intro r; simp [dirsToks, dirToks]

theorem pDirectives_toks : ∀ (ds : List DirApp), (∀ d ∈ ds, dirWf d = true) → ∀ (g : Nat) (rest : List Tok),
    DirEnd rest → ds.length < g → pDirectives P true g (dirsToks ds ++ rest) = some (ds.map dDir, rest)
  | [], _, g, rest, hr, hg => by
    obtain ⟨g, rfl⟩ : ∃ g', g = g' + 1 := ⟨g - 1, by omega⟩
    simp only [dirsToks, List.flatMap_nil, List.nil_append, List.map_nil]
    unfold pDirectives
    split
    · rename_i n r; exact absurd rfl (hr _).1
    · rename_i r _; exact absurd rfl (hr _).1
    · rfl
  | d :: ds, hw, g, rest, hr, hg => by
    obtain ⟨g, rfl⟩ : ∃ g', g = g' + 1 := ⟨g - 1, by omega⟩
    have h1 := pOptArgs_toks d (hw d List.mem_cons_self) (dirsToks ds ++ rest) (dirsToks_end ds rest (fun r => (hr r).2))
    have h2 := pDirectives_toks ds (fun x hx => hw x (List.mem_cons_of_mem _ hx)) g rest hr (by simp at hg; omega)
    simp only [dirsToks, List.flatMap_cons, dirToks, List.cons_append, List.append_assoc] at h1 h2 ⊢
    rw [pDirectives, h1]
    simp [h2, dDir]

theorem dirsToks_length (ds : List DirApp) : ds.length ≤ (dirsToks ds).length := by
  induction ds with
  | nil => simp [dirsToks]
  | cons d ds ih => simp [dirsToks, dirToks] at ih ⊢; omega

theorem constDirs_toks (ds : List DirApp) (hw : ∀ d ∈ ds, dirWf d = true) (rest : List Tok) (hr : DirEnd rest) :
    constDirs (dirsToks ds ++ rest) = some (ds.map dDir, rest) := by
  unfold constDirs pDirs
  exact pDirectives_toks ds hw _ rest hr (by have := dirsToks_length ds; simp; omega)

end AGV.Lemmas.SdlValue
