import AGV.Lemmas.SdlLex
import AGV.Lemmas.Literal
namespace AGV.Lemmas.SdlValue
open AGV.Digits AGV.Core AGV.Core.PAst AGV.Core.Sdl AGV.Model.Sdl AGV.Spec.Literal AGV.Spec.Lex AGV.Spec.Parse AGV.Spec.SdlParse AGV.Lemmas.SdlLex

/-- what follows a printed value: nothing, an ignored character or a punctuator -/
def ValEnd (rest : Text) : Prop := ∀ c r, rest = c :: r → isIgnoredChar c = true ∨ isPunct c = true

theorem valEnd_facts (c : Char) (h : isIgnoredChar c = true ∨ isPunct c = true) :
    nameChar c = false ∧ isDig c = false ∧ c ≠ '.' ∧ c ≠ '"' ∧ c ≠ 'e' ∧ c ≠ 'E' ∧ nameStart c = false := by
  simp [← Char.toNat_inj, isIgnoredChar, isLineTerm, isPunct, nameChar, nameStart, isAlpha, isDigit, isDig] at *
  omega

theorem ValEnd.nameEnd {rest : Text} (h : ValEnd rest) : NameEnd rest := by
  intro c r e; exact (valEnd_facts c (h c r e)).1

theorem valEnd_ign (c : Char) (r : Text) (h : isIgnoredChar c = true) : ValEnd (c :: r) := by
  intro d r' e; cases e; exact Or.inl h
theorem valEnd_punct (c : Char) (r : Text) (h : isPunct c = true) : ValEnd (c :: r) := by
  intro d r' e; cases e; exact Or.inr h
theorem valEnd_nil : ValEnd [] := by intro c r e; cases e

theorem digitsOf_append (ds rest : Text) (hd : ∀ c ∈ ds, isDig c = true) (hr : ∀ c r, rest = c :: r → isDig c = false) :
    digitsOf (ds ++ rest) = (ds, rest) := by
  induction ds with
  | nil =>
    cases rest with
    | nil => rfl
    | cons c r => simp [digitsOf, hr c r rfl]
  | cons a ds ih =>
    have := ih (fun c hc => hd c (List.mem_cons_of_mem _ hc))
    simp [digitsOf, hd a List.mem_cons_self, this]

theorem isDig_eq (c : Char) : isDig c = isDigit c := rfl

theorem lexNumber_nat (neg : Bool) (n : Nat) (rest : Text) (hr : ValEnd rest) :
    lexNumber ((if neg then ['-'] else []) ++ natDigits n ++ rest) = some (.int neg (natDigits n), rest) := by
  have hdo : digitsOf (natDigits n ++ rest) = (natDigits n, rest) :=
    digitsOf_append _ _ (fun c hc => natDigits_all_digit n c hc) (fun c r e => (valEnd_facts c (hr c r e)).2.1)
  obtain ⟨c0, r0, e0, hm0, hd0⟩ := natDigits_head_ne_minus n
  have hbody : (if ((if neg then ['-'] else []) ++ natDigits n ++ rest).head? = some '-' then ((if neg then ['-'] else []) ++ natDigits n ++ rest).tail
      else ((if neg then ['-'] else []) ++ natDigits n ++ rest)) = natDigits n ++ rest ∧
      decide (((if neg then ['-'] else []) ++ natDigits n ++ rest).head? = some '-') = neg := by
    cases neg
    · simp [e0, hm0]
    · simp
  have hlead : ((natDigits n).isEmpty || ((natDigits n).head? = some '0' && decide ((natDigits n).length > 1))) = false := by
    by_cases h0 : n = 0
    · subst h0; rw [natDigits_zero]; rfl
    · obtain ⟨c, r, e, hc⟩ := natDigits_head_ne_zero n (by omega)
      simp [e, hc]
  unfold lexNumber
  simp only [hbody.1, hbody.2, hdo, hlead, Bool.false_eq_true, if_false]
  cases rest with
  | nil => simp [numFollowOk]
  | cons c r =>
    obtain ⟨_, f2, f3, _, f5, f6, f7⟩ := valEnd_facts c (hr c r rfl)
    simp [f2, f3, f5, f6, f7, numFollowOk]

theorem lexToken_int (i : Int) (rest : Text) (hr : ValEnd rest) :
    lexToken (intDigits i ++ rest) = some (.int (decide (i < 0)) (natDigits i.natAbs), rest) := by
  have key := lexNumber_nat (decide (i < 0)) i.natAbs rest hr
  have e : intDigits i = (if decide (i < 0) then ['-'] else []) ++ natDigits i.natAbs := by
    unfold intDigits
    by_cases h : i < 0
    · simp [h]
    · have : i.toNat = i.natAbs := by omega
      simp [h, this]
  rw [e]
  obtain ⟨c0, r0, e0, hm0, hd0⟩ := natDigits_head_ne_minus i.natAbs
  have hstart : ∃ c r, (if decide (i < 0) then ['-'] else []) ++ natDigits i.natAbs ++ rest = c :: r ∧ (c = '-' ∨ isDig c = true) := by
    by_cases h : i < 0
    · exact ⟨'-', natDigits i.natAbs ++ rest, by simp [h], Or.inl rfl⟩
    · exact ⟨c0, r0 ++ rest, by simp [h, e0], Or.inr hd0⟩
  obtain ⟨c, r, ec, hc⟩ := hstart
  rw [← key, ec]
  have hf : isPunct c = false ∧ c ≠ '.' ∧ nameStart c = false := by
    simp [← Char.toNat_inj, isPunct, nameStart, isAlpha, isDig] at *
    omega
  unfold lexToken
  have hc' : (decide (c = '-') || isDig c) = true := by rcases hc with h | h <;> simp [h]
  simp only [hf.1, hf.2.1, hf.2.2, Bool.false_eq_true, if_false, hc', if_true]

theorem Lx.int {i : Int} {rest ts} (hr : ValEnd rest) (h : Lx rest ts) :
    Lx (intDigits i ++ rest) (.int (decide (i < 0)) (natDigits i.natAbs) :: ts) := by
  have ht := lexToken_int i rest hr
  obtain ⟨_, c, r, e, hc⟩ := AGV.Lemmas.Literal.intDigits_numChars i
  rw [e] at ht ⊢
  have hf : isIgnoredChar c = false ∧ c ≠ '#' := by
    simp [← Char.toNat_inj, isIgnoredChar, isLineTerm, isDigit] at *
    omega
  exact Lx.tok hf.1 hf.2 ht (by simp) h

end AGV.Lemmas.SdlValue
