import AGV.Lemmas.SdlValue
import AGV.Lemmas.SdlDesc
namespace AGV.Lemmas.SdlValue
open AGV.Digits AGV.Core AGV.Core.PAst AGV.Core.Sdl AGV.Model.Sdl AGV.Spec.Literal AGV.Spec.Lex AGV.Spec.Parse AGV.Spec.SdlParse AGV.Lemmas.SdlLex AGV.Lemmas.SdlBlock
open AGV.Model.Print (print writeQuoted writeBody joinWith commaSp colonSp)

axiom Lx_value : ∀ (v : SValue), svWf v = true → ∀ (rest : Text) (ts : List Tok), ValEnd rest → Lx rest ts →
    Lx (printValue v ++ rest) (svToks v ++ ts)

-- ------------------------------------------------------------------ directive applications

theorem Lx_dirArgs : ∀ (fs : List (Text × SValue)), fs ≠ [] → sfWf fs = true → ∀ (rest : Text) (ts : List Tok), Lx rest ts →
    Lx (joinSep (s ", ") (fs.map (fun kv => kv.1 ++ s ": " ++ printValue kv.2)) ++ ')' :: rest)
      (sfToks fs ++ .punct ')' :: ts)
  | [], hne, _, _, _, _ => absurd rfl hne
  | [(k, v)], _, hw, rest, ts, h => by
    simp only [sfWf, Bool.and_eq_true] at hw
    have h1 := Lx_value v hw.1.2 (')' :: rest) (.punct ')' :: ts) (valEnd_punct _ _ (by decide)) (Lx.punct (by decide) h)
    have h2 : Lx (' ' :: (printValue v ++ ')' :: rest)) (svToks v ++ .punct ')' :: ts) := Lx.ign (by decide) h1
    have := Lx.name (n := k) hw.1.1 (valEnd_punct ':' _ (by decide)).nameEnd (Lx.punct (c := ':') (by decide) h2)
    simpa [joinSep, sfToks, s, List.append_assoc] using this
  | (k, v) :: kv2 :: r, _, hw, rest, ts, h => by
    rw [sfWf] at hw
    simp only [Bool.and_eq_true] at hw
    have h0 := Lx_dirArgs (kv2 :: r) (by simp) hw.2 rest ts h
    have h0' : Lx (',' :: ' ' :: (joinSep (s ", ") ((kv2 :: r).map (fun kv => kv.1 ++ s ": " ++ printValue kv.2)) ++ ')' :: rest))
        (sfToks (kv2 :: r) ++ .punct ')' :: ts) := Lx.ign (by decide) (Lx.ign (by decide) h0)
    have h1 := Lx_value v hw.1.2 _ _ (valEnd_ign ',' _ (by decide)) h0'
    have h2 := Lx.ign (c := ' ') (by decide) h1
    have := Lx.name (n := k) hw.1.1 (valEnd_punct ':' _ (by decide)).nameEnd (Lx.punct (c := ':') (by decide) h2)
    obtain ⟨k2, v2⟩ := kv2
    simpa [joinSep, sfToks, s, List.append_assoc] using this

theorem Lx_dirApp (d : DirApp) (hw : dirWf d = true) (rest : Text) (ts : List Tok) (hr : NameEnd rest) (h : Lx rest ts) :
    Lx (dirAppSdl d ++ rest) (dirToks d ++ ts) := by
  simp only [dirWf, Bool.and_eq_true] at hw
  by_cases he : d.args = []
  · have := Lx.punct (c := '@') (by decide) (Lx.name hw.1 hr h)
    simpa [dirAppSdl, dirToks, he] using this
  · have hne : d.args.isEmpty = false := by simpa using he
    have h1 := Lx.punct (c := '(') (by decide) (Lx_dirArgs d.args he hw.2 rest ts h)
    have := Lx.punct (c := '@') (by decide) (Lx.name hw.1 (valEnd_punct '(' _ (by decide)).nameEnd h1)
    simpa [dirAppSdl, dirToks, hne, List.append_assoc] using this

theorem dirApps_nameEnd (ds : List DirApp) (rest : Text) (hr : NameEnd rest) : NameEnd (dirApps ds ++ rest) := by
  cases ds with
  | nil => simpa [dirApps] using hr
  | cons d ds => simp only [dirApps, List.map_cons, List.flatten_cons, List.cons_append]; exact (valEnd_ign ' ' _ (by decide)).nameEnd

theorem Lx_dirApps (ds : List DirApp) (hw : ∀ d ∈ ds, dirWf d = true) (rest : Text) (ts : List Tok) (hr : NameEnd rest)
    (h : Lx rest ts) : Lx (dirApps ds ++ rest) (dirsToks ds ++ ts) := by
  induction ds with
  | nil => simpa [dirApps, dirsToks] using h
  | cons d ds ih =>
    have h1 := ih (fun x hx => hw x (List.mem_cons_of_mem _ hx))
    have h2 := Lx.ign (c := ' ') (by decide) (Lx_dirApp d (hw d List.mem_cons_self) _ _ (dirApps_nameEnd ds rest hr) h1)
    simpa [dirApps, dirsToks, List.append_assoc] using h2

-- ------------------------------------------------------------------ deprecation

/-- `@deprecated` / `@deprecated(reason: "…")` as a directive application -/
def depApps : Dep → List DirApp
  | .no => []
  | .yes none => [⟨kwT "deprecated", []⟩]
  | .yes (some r) => [⟨kwT "deprecated", [(kwT "reason", .str r)]⟩]

theorem depApps_dDir (d : Dep) : (depApps d).map dDir = dDeprecated d := by
  cases d with
  | no => rfl
  | yes r => cases r <;> simp [depApps, dDeprecated, dDir, SValue.toP]

theorem depApps_wf (d : Dep) : ∀ x ∈ depApps d, dirWf x = true := by
  cases d with
  | no => simp [depApps]
  | yes r =>
    cases r with
    | none => simp [depApps]; decide
    | some r => 
      intro x hx
      simp only [depApps, List.mem_singleton] at hx
      subst hx
      simp only [dirWf, sfWf, svWf, Bool.and_true]; decide

/-- a text written by the repaired `escape_string` between quotes, as a token -/
theorem Lx.estr {t rest : Text} {ts} (hr : rest.head? ≠ some '"') (h : Lx rest ts) :
    Lx ('"' :: (escapeString false t ++ '"' :: rest)) (.str t :: ts) := by
  obtain ⟨q1, q2, _⟩ := quote_facts
  have ht : lexToken ('"' :: (escapeString false t ++ '"' :: rest)) = some (.str t, rest) :=
    lexToken_quoted _ _ _ (escapeString_not_block t rest hr) (lexString_escapeString t rest)
  exact Lx.tok q1 q2 ht (by simp; omega) h

theorem Lx_deprecated (d : Dep) (rest : Text) (ts : List Tok) (hr : NameEnd rest) (h : Lx rest ts) :
    Lx (writeDeprecated Defects.none d ++ rest) (dirsToks (depApps d) ++ ts) := by
  cases d with
  | no => simpa [writeDeprecated, depApps, dirsToks] using h
  | yes r =>
    cases r with
    | none =>
      have := Lx.ign (c := ' ') (by decide) (Lx.punct (c := '@') (by decide) (Lx.name (n := kwT "deprecated") (by decide) hr h))
      simpa [writeDeprecated, depApps, dirsToks, dirToks, s, kwT] using this
    | some r =>
      have h1 : Lx ('"' :: (escapeString false r ++ '"' :: ')' :: rest)) (.str r :: .punct ')' :: ts) :=
        Lx.estr (by simp) (Lx.punct (by decide) h)
      have h2 := Lx.name (n := kwT "reason") (by decide) (valEnd_punct ':' _ (by decide)).nameEnd
        (Lx.punct (c := ':') (by decide) (Lx.ign (c := ' ') (by decide) h1))
      have h3 := Lx.ign (c := ' ') (by decide) (Lx.punct (c := '@') (by decide)
        (Lx.name (n := kwT "deprecated") (by decide) (valEnd_punct '(' _ (by decide)).nameEnd (Lx.punct (c := '(') (by decide) h2)))
      have hD : Defects.none.reasonQuoteRaw = false := rfl
      simpa [writeDeprecated, hD, depApps, dirsToks, dirToks, sfToks, svToks, s, kwT, List.append_assoc] using h3

end AGV.Lemmas.SdlValue
