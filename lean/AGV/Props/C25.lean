/-
  C25 — WebSocket sessions follow the graphql-ws and graphql-transport-ws protocols.
  Property theorems only (helper lemmas live in AGV/Lemmas/Ws.lean).

  Model: AGV/Model/Ws.lean (`poll` = one call of `WebSocket::poll_next`, `run` = a history of
  polls); specification: the protocol monitor `conforms` of AGV/Spec/WsProto.lean (handshake,
  liveness of ids, single completion, close-code table, silence after close).
  All theorems are about the model without defect toggles unless the name says otherwise.

  OBLIGATION c25_conforms
  OBLIGATION c25_closed_silent
  OBLIGATION c25_no_op_before_ack
  OBLIGATION c25_single_ack
  OBLIGATION c25_nothing_after_close
  OBLIGATION c25_live
  OBLIGATION c25_live_poll
  OBLIGATION c25_complete_once_trace
  OBLIGATION c25_complete_once_run
  OBLIGATION c25_codes
  OBLIGATION c25_code_table_new
  OBLIGATION c25_violated_by_dupIdReplaces
  OBLIGATION c25_violated_by_preAck1011
  OBLIGATION c25_violated_by_invalid1002

  Frames (the step from the bytes of a frame to a client message, `ClientMessage::from_bytes`;
  model AGV/Model/WsFrame.lean, grammar and message table AGV/Spec/WsFrame.lean, helper lemmas
  AGV/Lemmas/WsFrame.lean).  The theorems above are stated over decoded messages; these tie the
  decoding to them.

  OBLIGATION c25_frame_doc_exact
  OBLIGATION c25_message_table_exact
  OBLIGATION c25_decode_total_exact
  OBLIGATION c25_trailing_data_undecodable
  OBLIGATION c25_undecodable_handle
  OBLIGATION c25_undecodable_closes
  OBLIGATION c25_lenient_reader_accepts_trailing_data
  OBLIGATION c25_violated_by_lenientTail
  OBLIGATION c25_violated_by_seqFrame
  OBLIGATION c25_violated_by_seqPayload
-/
import AGV.Lemmas.Ws
import AGV.Lemmas.WsFrame

namespace AGV.Props.C25
set_option linter.unusedSimpArgs false
set_option linter.unusedVariables false
open AGV.Spec.WsProto AGV.Model.Ws AGV.Lemmas.Ws

/-- MAIN THEOREM.  For both protocols, every keep-alive interval and EVERY history of polls
    (any arrival pattern of client messages incl. malformed ones and end of input, any
    completion of the init / ping callbacks, any operation stream becoming ready or ending,
    any timer expiry), the session trace of the model is accepted by the protocol monitor:
    operations start only after the single `connection_ack`; every `next`/`data` carries a live
    id; an id gets at most one `complete` and nothing afterwards; every client violation is
    answered at once by the close required by the protocol's table; nothing is taken or sent
    after a close. -/
theorem c25_conforms (p : Proto) (ka : Nat) (h : List Env) :
    conforms p (run {} (State.init p ka) h) = true := by
  have := run_sim h (State.init p ka) {} (inv_init p ka) (by simp [Good, State.init, abs, ids])
  simpa [conforms, State.init] using this

example : conforms .new (run {} (State.init .new 2)
    [{ arrive := [.init], fut := .ok }, { arrive := [.start 0, .start 1] }, { str := .item 1 7 },
     { arrive := [.stop 1] }, { str := .fin 0 }, { arrive := [.start 0, .start 0] }]) = true := by decide

/-- Nothing is emitted after a close: a closed `WebSocket` only reports the end of the stream,
    whatever the environment offers (any defect toggles). -/
theorem c25_closed_silent (D : Defects) (s : State) (e : Env) (h : List Env) (hc : s.closed = true) :
    run D s (e :: h) = [.out .done] := by
  have hp := poll_closed D s e hc
  rcases hpp : poll D s e with ⟨s', taken, o⟩
  rw [hpp] at hp
  simp only [Prod.mk.injEq] at hp
  obtain ⟨rfl, rfl⟩ := hp
  simp [run, hpp, pollEvents]

/-- No operation stream exists before the connection is acknowledged: invariant of every
    reachable `WebSocket` state, for every defect setting. -/
theorem c25_no_op_before_ack (D : Defects) (p : Proto) (ka : Nat) (h : List Env) :
    (stateAfter D (State.init p ka) h).acked = false → (stateAfter D (State.init p ka) h).streams = [] :=
  (stateAfter_inv D h _ (inv_init p ka)).noOps

/-- At most one `connection_ack` in any session. -/
theorem c25_single_ack (p : Proto) (ka : Nat) (h : List Env) :
    (run {} (State.init p ka) h).count (.out .ack) ≤ 1 := by
  have hc := c25_conforms p ka h
  simp only [conforms, Option.isSome_iff_exists] at hc
  obtain ⟨m', hm⟩ := hc
  simpa using monitor_single_ack p _ {} m' hm

/-- Nothing is taken from or sent to the socket after a close frame or `connection_error`:
    whatever follows in the trace is "nothing now" or "end of stream". -/
theorem c25_nothing_after_close (p : Proto) (ka : Nat) (h : List Env) (pre post : List Ev) (o : Out)
    (ho : (∃ c r, o = .close c r) ∨ (∃ r, o = .connErr r))
    (hr : run {} (State.init p ka) h = pre ++ .out o :: post) :
    ∀ ev ∈ post, ev = .out .done ∨ ev = .out .pending := by
  have hc := c25_conforms p ka h
  simp only [conforms, Option.isSome_iff_exists, hr] at hc
  obtain ⟨m', hm⟩ := hc
  exact monitor_nothing_after_close p pre post o {} m' ho hm

example : run {} (State.init .new 0) [{ arrive := [.init, .init], fut := .ok }, {}, {}] =
    [.recv .init, .out .ack, .recv .init, .out (.close 4429 .tooMany), .out .done] := by decide

/-- Every `next`/`data` message carries an id that is live when it is sent: `next`/`data` is
    produced only by the stream-polling part of `poll_next` (`afterLoop`), from a stream that is
    in the `streams` map at that moment (after this poll's message loop), and the map is left
    unchanged (any defect setting).  The trace-level form — the monitor accepts `next`/`data`
    only for ids in its `live` set — is part of `c25_conforms`. -/
theorem c25_live (s : State) (e : Env) (s' : State) (id inst val : Nat) (o : Out)
    (ho : o = .next id inst val ∨ o = .data id inst val)
    (h : afterLoop s e = (s', o)) : hasId id s.streams = true ∧ s' = s := by
  unfold afterLoop at h
  cases hip : s.initPending <;> cases hpp : s.pingPending <;> cases hf : e.fut <;> cases hp : s.proto <;>
    simp [hip, hpp, hf, hp, refuse] at h <;>
    (try (rcases ho with rfl | rfl <;> simp at h)) <;>
    (cases hs : e.str <;> simp [hs] at h <;>
      (try (rcases ho with rfl | rfl <;> simp at h)) <;>
      (split at h <;> simp at h <;> rcases ho with rfl | rfl <;> simp at h <;>
        (try (obtain ⟨h1, h2, _, _⟩ := h; subst h2; exact ⟨idOfInst_has _ _ _ (by assumption), h1.symm⟩))))

/-- `c25_live` for a whole call of `poll_next` (any defect setting): whatever arrives, whichever
    callback completes and whichever timer fires, a returned `next`/`data` carries an id that
    is in the `streams` map of the state the poll leaves behind, and that id was in the map
    before the poll or was started by a message this poll took from the socket.  (The message
    loop, the keep-alive branch and the closed branch never return `next`/`data`.) -/
theorem c25_live_poll (D : Defects) (s : State) (e : Env) (s' : State) (taken : List CMsg)
    (id inst val : Nat) (o : Out) (ho : o = .next id inst val ∨ o = .data id inst val)
    (h : poll D s e = (s', taken, o)) :
    hasId id s'.streams = true ∧ (hasId id s.streams = true ∨ .start id ∈ taken) := by
  unfold poll at h
  generalize hs1 : ({ s with inbox := s.inbox ++ e.arrive, left := if e.tick then s.left - 1 else s.left } : State) = s1 at h
  have hst : s1.streams = s.streams := by subst hs1; rfl
  rw [← hst]
  clear hs1 hst
  simp only at h
  split at h
  · rcases ho with rfl | rfl <;> simp at h
  · split at h
    · cases hp : s1.proto <;> rcases ho with rfl | rfl <;> simp [refuse, hp] at h
    · split at h
      · rcases hl : loop D s1 s1.inbox with ⟨sl, rest, tk, ol⟩
        rw [hl] at h
        cases ol with
        | some o1 =>
          simp only [Prod.mk.injEq] at h
          obtain ⟨_, _, rfl⟩ := h
          exact (loop_ret_not_item D _ s1 sl rest tk o1 id inst val ho hl).elim
        | none =>
          simp only at h
          rcases hal : afterLoop { sl with inbox := rest } e with ⟨s2, o2⟩
          rw [hal] at h
          simp only [Prod.mk.injEq] at h
          obtain ⟨rfl, rfl, rfl⟩ := h
          obtain ⟨g1, g2⟩ := c25_live _ e s2 id inst val o2 ho hal
          subst g2
          exact ⟨g1, loop_streams D _ s1 sl rest tk id hl g1⟩
      · rcases hal : afterLoop s1 e with ⟨s2, o2⟩
        rw [hal] at h
        simp only [Prod.mk.injEq] at h
        obtain ⟨rfl, rfl, rfl⟩ := h
        obtain ⟨g1, g2⟩ := c25_live _ e s2 id inst val o2 ho hal
        subst g2
        exact ⟨g1, .inl g1⟩

example : (poll {} { proto := .new, onInit := false, acked := true, inbox := [.start 3] }
    { str := .item 0 9 }).2 = ([.start 3], .next 3 0 9) := by decide

/-- Close codes: whenever the specification classifies a client message as a violation in the
    current state, the message loop returns at once, marks the connection closed and returns
    the close the protocol's table demands (the table is `Spec.WsProto.expected`). -/
theorem c25_codes (s : State) (msg : CMsg) (v : Violation) (hr : Ready s)
    (hv : violation s.proto (abs s) msg = some v) :
    ∃ s' o, handle {} s msg = .ret s' o ∧ s'.closed = true ∧ (expected s.proto v).admits s.proto o = true := by
  obtain ⟨⟨_, _, _⟩, _, _, _⟩ := hr
  cases msg with
  | bad =>
    cases hp : s.proto <;>
    simp_all [violation, handle, expected, Expect.admits, abs, Gen.WsWire.codeUnparseable]
    all_goals (subst hv; exact ⟨_, _, ⟨rfl, rfl⟩, rfl, rfl⟩)
  | init =>
    cases ho : s.onInit <;> cases hp : s.proto <;>
    simp_all [violation, handle, rearm, refuse, expected, Expect.admits, abs, Gen.WsWire.codeTooManyInit]
    all_goals (subst hv; exact ⟨_, _, ⟨rfl, rfl⟩, rfl, rfl⟩)
  | start id =>
    cases hk : s.acked <;> cases hp : s.proto <;> cases hh : hasId id s.streams <;>
    simp_all [violation, handle, rearm, refuse, expected, Expect.admits, abs, ids_contains, ids_mem,
      Gen.WsWire.codeBeforeAck]
    all_goals (subst hv; exact ⟨_, _, ⟨rfl, rfl⟩, rfl, rfl⟩)
  | _ => simp [violation] at hv

/-- The four rows of the graphql-transport-ws table, spelled out on the model. -/
theorem c25_code_table_new (s : State) (id : Nat) (hr : Ready s) (hp : s.proto = .new) :
    (∃ s', handle {} s .bad = .ret s' (.close 4400 .other) ∧ s'.closed = true) ∧
    (s.acked = false → ∃ s', handle {} s (.start id) = .ret s' (.close 4401 .unauth) ∧ s'.closed = true) ∧
    (s.acked = true → hasId id s.streams = true →
        ∃ s', handle {} s (.start id) = .ret s' (.close 4409 .dupId) ∧ s'.closed = true) ∧
    (s.onInit = false → ∃ s', handle {} s .init = .ret s' (.close 4429 .tooMany) ∧ s'.closed = true) := by
  refine ⟨?_, ?_, ?_, ?_⟩ <;> intros <;>
  simp_all [handle, rearm, refuse, Gen.WsWire.codeTooManyInit]

/-- Witness (pinned tree): with `dupIdReplaces` a `subscribe` re-using a live id goes
    unanswered instead of closing with 4409. -/
theorem c25_violated_by_dupIdReplaces :
    ∃ p ka h, conforms p (run { dupIdReplaces := true } (State.init p ka) h) = false :=
  ⟨.new, 2, [{ arrive := [.init], fut := .ok }, { arrive := [.start 0] }, { arrive := [.start 0] }], by decide⟩

/-- Witness (pinned tree): `subscribe` before the acknowledgement closes with 1011, not 4401. -/
theorem c25_violated_by_preAck1011 :
    ∃ p ka h, conforms p (run { preAck1011 := true } (State.init p ka) h) = false :=
  ⟨.new, 2, [{ arrive := [.start 0] }], by decide⟩

/-- Witness (pinned tree): an unparseable message closes with 1002, not 4400. -/
theorem c25_violated_by_invalid1002 :
    ∃ p ka h, conforms p (run { invalid1002 := true } (State.init p ka) h) = false :=
  ⟨.new, 2, [{ arrive := [.bad] }], by decide⟩

/-- The trace-only reading of "each operation completes at most once and emits nothing
    afterwards", for EVERY trace the monitor accepts (not only the model's): after a
    `complete id` nothing about `id` (`next`/`data`/`complete`) is sent until the client starts
    `id` again.  Proof: the monitor invariant `stopped ∩ live = ∅` (`Lemmas.Ws.steps_disj`) makes
    `id` absent from both sets after its `complete`; absence is kept by every step other than
    `recv (start id)`; an event about an absent id is rejected. -/
theorem c25_complete_once_trace :
  ∀ (p : Proto) (pre mid : List Ev) (id : Nat) (o : Out),
    conforms p (pre ++ .out (.complete id) :: mid ++ [.out o]) = true →
    (o = .complete id ∨ (∃ i v, o = .next id i v) ∨ (∃ i v, o = .data id i v)) →
    .recv (.start id) ∈ mid := by
  intro p pre mid id o hc ho
  simp only [conforms, Option.isSome_iff_exists] at hc
  obtain ⟨m', hm⟩ := hc
  exact monitor_complete_once p pre mid id o {} m' disj_init hm ho

/-- … and therefore for every session of the model: between a `complete id` and the next
    message about `id` the server took a `start id` from the socket. -/
theorem c25_complete_once_run (p : Proto) (ka : Nat) (h : List Env) (pre mid post : List Ev)
    (id : Nat) (o : Out)
    (ho : o = .complete id ∨ (∃ i v, o = .next id i v) ∨ (∃ i v, o = .data id i v))
    (hr : run {} (State.init p ka) h = pre ++ .out (.complete id) :: mid ++ .out o :: post) :
    .recv (.start id) ∈ mid := by
  have hc := c25_conforms p ka h
  simp only [conforms, Option.isSome_iff_exists] at hc
  obtain ⟨m', hm⟩ := hc
  have e : pre ++ .out (.complete id) :: mid ++ .out o :: post
      = (pre ++ .out (.complete id) :: mid ++ [.out o]) ++ post := by simp
  rw [hr, e, steps_append] at hm
  cases h1 : steps p {} (pre ++ .out (.complete id) :: mid ++ [.out o]) with
  | none => rw [h1] at hm; simp at hm
  | some m1 => exact monitor_complete_once p pre mid id o {} m1 disj_init h1 ho

example : run {} (State.init .new 0)
    [{ arrive := [.init], fut := .ok }, { arrive := [.start 0] }, { str := .fin 0 },
     { arrive := [.start 0] }, { str := .fin 1 }] =
    [.recv .init, .out .ack, .recv (.start 0), .out .pending, .out (.complete 0),
     .recv (.start 0), .out .pending, .out (.complete 0)] := by decide

-- ------------------------------------------------------------------ frames

section Frames
open AGV.Spec.WsFrame (Str J WMsg WellFormed FrameDoc msgOf AllWs Val maxDepth)
open AGV.Model.WsFrame (decode decodeWith decodeSpec readDoc decodeMsg pv skipWs)
open AGV.Lemmas.WsFrame

/-- The JSON reader is EXACT for the grammar, for all character lists: `readDoc false` (one
    value, then white space only — `serde_json::from_slice`) returns the document `v` iff the
    text is `ws value ws` for a value text of the RFC 8259 grammar denoting `v` (strings with
    their escapes, numbers in range, nesting at most `maxDepth`). -/
theorem c25_frame_doc_exact (cs : Str) (v : J) : readDoc false cs = some v ↔ FrameDoc cs v := by
  unfold readDoc
  constructor
  · intro h
    cases hp : pv maxDepth cs with
    | none => simp [hp] at h
    | some p =>
      obtain ⟨v', r⟩ := p
      simp only [hp, Bool.false_or] at h
      by_cases he : (skipWs r).isEmpty = true
      · simp [he] at h
        subst h
        obtain ⟨w, t, rfl, hw, hv⟩ := pv_sound maxDepth cs v' r hp
        exact ⟨w, t, r, rfl, hw, (skipWs_nil_iff r).mp (by simpa using he), hv⟩
      · simp [he] at h
  · rintro ⟨w1, t, w2, rfl, hw1, hw2, hv⟩
    have h1 := pv_complete hv w2 (safe_ws w2 hw2)
    rw [pv_ws_append _ _ _ hw1, h1]
    simp [(skipWs_nil_iff w2).mpr hw2]

/-- serde's internally tagged enum with the derived visitors, driven by the variant table
    EXTRACTED from `enum ClientMessage` (names, aliases, members, member types) and the members of
    `Request`, is the message table of the protocol documents, for every JSON document: `type`
    exactly once and a string of the table, table members at most once and of the right type,
    other members ignored, nothing but an object is a message. -/
theorem c25_message_table_exact (v : J) : decodeMsg {} v = msgOf v := decodeMsg_eq v

/-- MAIN THEOREM OF THE DECODE STEP.  For ALL character lists: the frame decodes to `m` iff it
    is one well-formed message object of the wire table surrounded by white space only.  (The
    reader is the exact one because the body of `from_bytes`, extracted from the source, is
    `serde_json::from_slice(..)`: `Gen.WsWire.fromBytesExact`.) -/
theorem c25_decode_total_exact (cs : Str) (m : WMsg) :
    decode {} cs = some m ↔ WellFormed cs m := by
  have hx : decode {} cs = decodeWith false {} cs := rfl
  rw [hx]
  unfold decodeWith WellFormed
  constructor
  · intro h
    cases hd : readDoc false cs with
    | none => simp [hd] at h
    | some v =>
      simp only [hd] at h
      exact ⟨v, (c25_frame_doc_exact cs v).mp hd, by rw [← decodeMsg_eq]; exact h⟩
  · rintro ⟨v, hf, hm⟩
    rw [(c25_frame_doc_exact cs v).mpr hf]
    simp only [decodeMsg_eq, hm]

example : WellFormed ([' ', '{', '"', 't', 'y', 'p', 'e', '"', ' ', ':', ' ', '"', 'p', 'i', 'n', 'g', '"', '}', '\n'] : Str) (.ping none) :=
  (c25_decode_total_exact _ _).mp rfl

/-- The gap the seeded change opened, closed in general: a well-formed message followed by
    ANY text that is not all white space — another whole message, a truncated one, `}`, `x`,
    NUL, a scalar — is not a decodable frame. -/
theorem c25_trailing_data_undecodable (cs tail : Str) (m : WMsg) (h : WellFormed cs m)
    (ht : ¬ AllWs tail) : decode {} (cs ++ tail) = none := by
  obtain ⟨v, w2, hm, hw2, hp⟩ := msg_reads cs m h tail
  have hx : decode {} (cs ++ tail) = decodeWith false {} (cs ++ tail) := rfl
  rw [hx]
  unfold decodeWith readDoc
  rw [hp]
  have : (skipWs (w2 ++ tail)).isEmpty = false := by
    rw [skipWs_append_ws _ _ hw2]
    cases hs : skipWs tail with
    | nil => exact absurd ((skipWs_nil_iff tail).mp hs) ht
    | cons c r => rfl
  simp [this]

example : decode {} ((['{', '"', 't', 'y', 'p', 'e', '"', ':', '"', 'p', 'i', 'n', 'g', '"', '}'] : Str) ++ (['{', '"', 't', 'y', 'p', 'e', '"', ':', '"', 'p', 'i', 'n', 'g', '"', '}'] : Str)) = none :=
  c25_trailing_data_undecodable _ _ (.ping none) ((c25_decode_total_exact _ _).mp rfl) (by
    intro h; exact absurd (h '{' (by decide)) (by decide))

/-- the close an undecodable frame is answered with: the protocol's 4400 on
    graphql-transport-ws, the extracted code of the source (1002) on the legacy protocol (where
    any close is allowed) — and on both under the open finding `invalid1002` -/
def badClose (D : Defects) (p : Proto) : Out :=
  .close (if p == .new && !D.invalid1002 then 4400 else Gen.WsWire.codeUnparseable) .other

/-- A frame for which decoding fails is the `garbage` transition of the message loop: the loop
    returns at once with the close frame and the connection marked closed (any defect setting
    of the session and of the decoder). -/
theorem c25_undecodable_handle (D : Defects) (DF : AGV.Model.WsFrame.Defects) (ι : List Char → Nat)
    (s : State) (cs : Str) (hd : decode DF cs = none) :
    handleFrame D DF ι s cs = .ret { s with closed := true } (badClose D s.proto) := by
  simp [handleFrame, frameMsg, hd, cmsgOf, handle, badClose]

/-- … and for the whole session: when a poll that enters the message loop (connection open, no
    callback pending, nothing queued, keep-alive timer not expired) finds an undecodable frame,
    the session trace from there on is exactly: the frame is taken, the close frame is sent,
    end of stream — NOTHING ELSE is emitted whatever arrives or becomes ready afterwards. -/
theorem c25_undecodable_closes (D : Defects) (DF : AGV.Model.WsFrame.Defects) (ι : List Char → Nat)
    (s : State) (cs : Str) (e e' : Env) (h : List Env)
    (hd : decode DF cs = none)
    (hopen : s.closed = false) (hni : s.initPending = false) (hnp : s.pingPending = false)
    (hin : s.inbox = []) (htm : s.ka = 0 ∨ s.left ≠ 0)
    (he : e.arrive = [frameMsg DF ι cs]) (htk : e.tick = false) :
    run D s (e :: e' :: h) = [.recv .bad, .out (badClose D s.proto), .out .done] := by
  have hb : frameMsg DF ι cs = .bad := by simp [frameMsg, hd, cmsgOf]
  have htm' : (s.ka != 0 && s.left == 0) = false := by
    rcases htm with h0 | h1
    · simp [h0]
    · simp [h1]
  have hp : poll D s e = ({ s with inbox := [], closed := true }, [.bad], badClose D s.proto) := by
    simp [poll, he, hb, htk, hin, hopen, hni, hnp, htm', loop, handle, badClose]
  rw [run, hp]
  simp only [pollEvents, List.map, List.cons_append, List.nil_append]
  have hne : badClose D s.proto ≠ .done := by simp [badClose]
  rw [if_neg hne, c25_closed_silent D { s with inbox := [], closed := true } e' h rfl]

example : badClose {} .new = .close 4400 .other ∧ badClose {} .legacy = .close 1002 .other ∧
    badClose Defects.pinned .new = .close 1002 .other := by decide

/-- two whole messages glued into one frame -/
def gluedFrame : Str := (['{', '"', 't', 'y', 'p', 'e', '"', ':', '"', 'c', 'o', 'n', 'n', 'e', 'c', 't', 'i', 'o', 'n', '_', 'i', 'n', 'i', 't', '"', '}', '{', '"', 't', 'y', 'p', 'e', '"', ':', '"', 's', 'u', 'b', 's', 'c', 'r', 'i', 'b', 'e', '"', ',', '"', 'i', 'd', '"', ':', '"', '1', '"', ',', '"', 'p', 'a', 'y', 'l', 'o', 'a', 'd', '"', ':', '{', '"', 'q', 'u', 'e', 'r', 'y', '"', ':', '"', '{', ' ', 'v', 'a', 'l', 'u', 'e', ' ', '}', '"', '}', '}'] : Str)

example : run {} (State.init .new 0)
    [{ arrive := [frameMsg {} (fun _ => 0) gluedFrame], fut := .ok }, { str := .item 0 1 }, {}] =
    [.recv .bad, .out (.close 4400 .other), .out .done] :=
  c25_undecodable_closes {} {} _ _ gluedFrame _ _ _ (by decide) rfl rfl rfl rfl (.inl rfl) rfl rfl

/-- The seeded reader in general (a `Deserializer` whose `end()` is never called —
    `lenientTail`): EVERY well-formed message followed by ANY text is accepted as that message. -/
theorem c25_lenient_reader_accepts_trailing_data (cs tail : Str) (m : WMsg) (h : WellFormed cs m) :
    decode { lenientTail := true } (cs ++ tail) = some m := by
  obtain ⟨v, w2, hm, hw2, hp⟩ := msg_reads cs m h tail
  have hx : decode { lenientTail := true } (cs ++ tail) = decodeWith true { lenientTail := true } (cs ++ tail) := rfl
  rw [hx]
  unfold decodeWith readDoc
  rw [hp]
  simp only [Bool.true_or, if_true]
  exact (decodeMsg_eq v).trans hm

/-- Witness for the seeded lenient reader, at the session level: the glued frame is a protocol
    violation (`bad` under the exact decoder), the lenient decoder reads it as
    `connection_init`, the session acknowledges it — and the trace `bad, connection_ack` is
    rejected by the protocol monitor (a `Close` was due). -/
theorem c25_violated_by_lenientTail :
    ∃ (p : Proto) (cs : Str) (ι : List Char → Nat),
      frameMsg {} ι cs = .bad ∧
      run {} (State.init p 0) [{ arrive := [frameMsg { lenientTail := true } ι cs], fut := .ok }]
        = [.recv .init, .out .ack] ∧
      conforms p [.recv .bad, .out .ack] = false :=
  ⟨.new, gluedFrame, fun _ => 0, by decide, by decide, by decide⟩

/-- Witness (pinned tree): a JSON array is read as a message. -/
theorem c25_violated_by_seqFrame :
    ∃ cs : Str, (decode { seqFrame := true } cs).isSome = true ∧ (decode {} cs).isSome = false :=
  ⟨(['[', '"', 'c', 'o', 'n', 'n', 'e', 'c', 't', 'i', 'o', 'n', '_', 'i', 'n', 'i', 't', '"', ',', 'n', 'u', 'l', 'l', ']'] : Str), by decide, by decide⟩

/-- Witness (pinned tree): the payload of `subscribe` may be an array. -/
theorem c25_violated_by_seqPayload :
    ∃ cs : Str, (decode { seqPayload := true } cs).isSome = true ∧ (decode {} cs).isSome = false :=
  ⟨(['{', '"', 't', 'y', 'p', 'e', '"', ':', '"', 's', 'u', 'b', 's', 'c', 'r', 'i', 'b', 'e', '"', ',', '"', 'i', 'd', '"', ':', '"', 'a', '"', ',', '"', 'p', 'a', 'y', 'l', 'o', 'a', 'd', '"', ':', '[', '"', '{', ' ', 'v', 'a', 'l', 'u', 'e', ' ', '}', '"', ']', '}'] : Str), by decide, by decide⟩

end Frames

end AGV.Props.C25
