/-
  C25 — WebSocket sessions follow the graphql-ws and graphql-transport-ws protocols.
  Property theorems only (helper lemmas live in AGV/Lemmas/Ws.lean).

  Model: AGV/Model/Ws.lean (`poll` = one call of `WebSocket::poll_next`, `run` = a history of
  polls); specification: the protocol monitor `conforms` of AGV/Spec/WsProto.lean (handshake,
  liveness of ids, single completion, close-code table, silence after close).
  All theorems are about the model without defect toggles unless the name says otherwise.

  OBLIGATION c25_conforms
  OBLIGATION c25_closed_silent
  OBLIGATION c25_no_op_before_ack
  OBLIGATION c25_single_ack
  OBLIGATION c25_nothing_after_close
  OBLIGATION c25_live
  OBLIGATION c25_live_poll
  OBLIGATION c25_complete_once_trace
  OBLIGATION c25_complete_once_run
  OBLIGATION c25_codes
  OBLIGATION c25_code_table_new
  OBLIGATION c25_violated_by_dupIdReplaces
  OBLIGATION c25_violated_by_preAck1011
  OBLIGATION c25_violated_by_invalid1002
-/
import AGV.Lemmas.Ws

namespace AGV.Props.C25
set_option linter.unusedSimpArgs false
set_option linter.unusedVariables false
open AGV.Spec.WsProto AGV.Model.Ws AGV.Lemmas.Ws

/-- MAIN THEOREM.  For both protocols, every keep-alive interval and EVERY history of polls
    (any arrival pattern of client messages incl. malformed ones and end of input, any
    completion of the init / ping callbacks, any operation stream becoming ready or ending,
    any timer expiry), the session trace of the model is accepted by the protocol monitor:
    operations start only after the single `connection_ack`; every `next`/`data` carries a live
    id; an id gets at most one `complete` and nothing afterwards; every client violation is
    answered at once by the close required by the protocol's table; nothing is taken or sent
    after a close. -/
theorem c25_conforms (p : Proto) (ka : Nat) (h : List Env) :
    conforms p (run {} (State.init p ka) h) = true := by
  have := run_sim h (State.init p ka) {} (inv_init p ka) (by simp [Good, State.init, abs, ids])
  simpa [conforms, State.init] using this

example : conforms .new (run {} (State.init .new 2)
    [{ arrive := [.init], fut := .ok }, { arrive := [.start 0, .start 1] }, { str := .item 1 7 },
     { arrive := [.stop 1] }, { str := .fin 0 }, { arrive := [.start 0, .start 0] }]) = true := by decide

/-- Nothing is emitted after a close: a closed `WebSocket` only reports the end of the stream,
    whatever the environment offers (any defect toggles). -/
theorem c25_closed_silent (D : Defects) (s : State) (e : Env) (h : List Env) (hc : s.closed = true) :
    run D s (e :: h) = [.out .done] := by
  have hp := poll_closed D s e hc
  rcases hpp : poll D s e with ⟨s', taken, o⟩
  rw [hpp] at hp
  simp only [Prod.mk.injEq] at hp
  obtain ⟨rfl, rfl⟩ := hp
  simp [run, hpp, pollEvents]

/-- No operation stream exists before the connection is acknowledged: invariant of every
    reachable `WebSocket` state, for every defect setting. -/
theorem c25_no_op_before_ack (D : Defects) (p : Proto) (ka : Nat) (h : List Env) :
    (stateAfter D (State.init p ka) h).acked = false → (stateAfter D (State.init p ka) h).streams = [] :=
  (stateAfter_inv D h _ (inv_init p ka)).noOps

/-- At most one `connection_ack` in any session. -/
theorem c25_single_ack (p : Proto) (ka : Nat) (h : List Env) :
    (run {} (State.init p ka) h).count (.out .ack) ≤ 1 := by
  have hc := c25_conforms p ka h
  simp only [conforms, Option.isSome_iff_exists] at hc
  obtain ⟨m', hm⟩ := hc
  simpa using monitor_single_ack p _ {} m' hm

/-- Nothing is taken from or sent to the socket after a close frame or `connection_error`:
    whatever follows in the trace is "nothing now" or "end of stream". -/
theorem c25_nothing_after_close (p : Proto) (ka : Nat) (h : List Env) (pre post : List Ev) (o : Out)
    (ho : (∃ c r, o = .close c r) ∨ (∃ r, o = .connErr r))
    (hr : run {} (State.init p ka) h = pre ++ .out o :: post) :
    ∀ ev ∈ post, ev = .out .done ∨ ev = .out .pending := by
  have hc := c25_conforms p ka h
  simp only [conforms, Option.isSome_iff_exists, hr] at hc
  obtain ⟨m', hm⟩ := hc
  exact monitor_nothing_after_close p pre post o {} m' ho hm

example : run {} (State.init .new 0) [{ arrive := [.init, .init], fut := .ok }, {}, {}] =
    [.recv .init, .out .ack, .recv .init, .out (.close 4429 .tooMany), .out .done] := by decide

/-- Every `next`/`data` message carries an id that is live when it is sent: `next`/`data` is
    produced only by the stream-polling part of `poll_next` (`afterLoop`), from a stream that is
    in the `streams` map at that moment (after this poll's message loop), and the map is left
    unchanged (any defect setting).  The trace-level form — the monitor accepts `next`/`data`
    only for ids in its `live` set — is part of `c25_conforms`. -/
theorem c25_live (s : State) (e : Env) (s' : State) (id inst val : Nat) (o : Out)
    (ho : o = .next id inst val ∨ o = .data id inst val)
    (h : afterLoop s e = (s', o)) : hasId id s.streams = true ∧ s' = s := by
  unfold afterLoop at h
  cases hip : s.initPending <;> cases hpp : s.pingPending <;> cases hf : e.fut <;> cases hp : s.proto <;>
    simp [hip, hpp, hf, hp, refuse] at h <;>
    (try (rcases ho with rfl | rfl <;> simp at h)) <;>
    (cases hs : e.str <;> simp [hs] at h <;>
      (try (rcases ho with rfl | rfl <;> simp at h)) <;>
      (split at h <;> simp at h <;> rcases ho with rfl | rfl <;> simp at h <;>
        (try (obtain ⟨h1, h2, _, _⟩ := h; subst h2; exact ⟨idOfInst_has _ _ _ (by assumption), h1.symm⟩))))

/-- `c25_live` for a whole call of `poll_next` (any defect setting): whatever arrives, whichever
    callback completes and whichever timer fires, a returned `next`/`data` carries an id that
    is in the `streams` map of the state the poll leaves behind, and that id was in the map
    before the poll or was started by a message this poll took from the socket.  (The message
    loop, the keep-alive branch and the closed branch never return `next`/`data`.) -/
theorem c25_live_poll (D : Defects) (s : State) (e : Env) (s' : State) (taken : List CMsg)
    (id inst val : Nat) (o : Out) (ho : o = .next id inst val ∨ o = .data id inst val)
    (h : poll D s e = (s', taken, o)) :
    hasId id s'.streams = true ∧ (hasId id s.streams = true ∨ .start id ∈ taken) := by
  unfold poll at h
  generalize hs1 : ({ s with inbox := s.inbox ++ e.arrive, left := if e.tick then s.left - 1 else s.left } : State) = s1 at h
  have hst : s1.streams = s.streams := by subst hs1; rfl
  rw [← hst]
  clear hs1 hst
  simp only at h
  split at h
  · rcases ho with rfl | rfl <;> simp at h
  · split at h
    · cases hp : s1.proto <;> rcases ho with rfl | rfl <;> simp [refuse, hp] at h
    · split at h
      · rcases hl : loop D s1 s1.inbox with ⟨sl, rest, tk, ol⟩
        rw [hl] at h
        cases ol with
        | some o1 =>
          simp only [Prod.mk.injEq] at h
          obtain ⟨_, _, rfl⟩ := h
          exact (loop_ret_not_item D _ s1 sl rest tk o1 id inst val ho hl).elim
        | none =>
          simp only at h
          rcases hal : afterLoop { sl with inbox := rest } e with ⟨s2, o2⟩
          rw [hal] at h
          simp only [Prod.mk.injEq] at h
          obtain ⟨rfl, rfl, rfl⟩ := h
          obtain ⟨g1, g2⟩ := c25_live _ e s2 id inst val o2 ho hal
          subst g2
          exact ⟨g1, loop_streams D _ s1 sl rest tk id hl g1⟩
      · rcases hal : afterLoop s1 e with ⟨s2, o2⟩
        rw [hal] at h
        simp only [Prod.mk.injEq] at h
        obtain ⟨rfl, rfl, rfl⟩ := h
        obtain ⟨g1, g2⟩ := c25_live _ e s2 id inst val o2 ho hal
        subst g2
        exact ⟨g1, .inl g1⟩

example : (poll {} { proto := .new, onInit := false, acked := true, inbox := [.start 3] }
    { str := .item 0 9 }).2 = ([.start 3], .next 3 0 9) := by decide

/-- Close codes: whenever the specification classifies a client message as a violation in the
    current state, the message loop returns at once, marks the connection closed and returns
    the close the protocol's table demands (the table is `Spec.WsProto.expected`). -/
theorem c25_codes (s : State) (msg : CMsg) (v : Violation) (hr : Ready s)
    (hv : violation s.proto (abs s) msg = some v) :
    ∃ s' o, handle {} s msg = .ret s' o ∧ s'.closed = true ∧ (expected s.proto v).admits s.proto o = true := by
  obtain ⟨⟨_, _, _⟩, _, _, _⟩ := hr
  cases msg with
  | bad =>
    cases hp : s.proto <;>
    simp_all [violation, handle, expected, Expect.admits, abs, Gen.WsWire.codeUnparseable]
    all_goals (subst hv; exact ⟨_, _, ⟨rfl, rfl⟩, rfl, rfl⟩)
  | init =>
    cases ho : s.onInit <;> cases hp : s.proto <;>
    simp_all [violation, handle, rearm, refuse, expected, Expect.admits, abs, Gen.WsWire.codeTooManyInit]
    all_goals (subst hv; exact ⟨_, _, ⟨rfl, rfl⟩, rfl, rfl⟩)
  | start id =>
    cases hk : s.acked <;> cases hp : s.proto <;> cases hh : hasId id s.streams <;>
    simp_all [violation, handle, rearm, refuse, expected, Expect.admits, abs, ids_contains, ids_mem,
      Gen.WsWire.codeBeforeAck]
    all_goals (subst hv; exact ⟨_, _, ⟨rfl, rfl⟩, rfl, rfl⟩)
  | _ => simp [violation] at hv

/-- The four rows of the graphql-transport-ws table, spelled out on the model. -/
theorem c25_code_table_new (s : State) (id : Nat) (hr : Ready s) (hp : s.proto = .new) :
    (∃ s', handle {} s .bad = .ret s' (.close 4400 .other) ∧ s'.closed = true) ∧
    (s.acked = false → ∃ s', handle {} s (.start id) = .ret s' (.close 4401 .unauth) ∧ s'.closed = true) ∧
    (s.acked = true → hasId id s.streams = true →
        ∃ s', handle {} s (.start id) = .ret s' (.close 4409 .dupId) ∧ s'.closed = true) ∧
    (s.onInit = false → ∃ s', handle {} s .init = .ret s' (.close 4429 .tooMany) ∧ s'.closed = true) := by
  refine ⟨?_, ?_, ?_, ?_⟩ <;> intros <;>
  simp_all [handle, rearm, refuse, Gen.WsWire.codeTooManyInit]

/-- Witness (pinned tree): with `dupIdReplaces` a `subscribe` re-using a live id goes
    unanswered instead of closing with 4409. -/
theorem c25_violated_by_dupIdReplaces :
    ∃ p ka h, conforms p (run { dupIdReplaces := true } (State.init p ka) h) = false :=
  ⟨.new, 2, [{ arrive := [.init], fut := .ok }, { arrive := [.start 0] }, { arrive := [.start 0] }], by decide⟩

/-- Witness (pinned tree): `subscribe` before the acknowledgement closes with 1011, not 4401. -/
theorem c25_violated_by_preAck1011 :
    ∃ p ka h, conforms p (run { preAck1011 := true } (State.init p ka) h) = false :=
  ⟨.new, 2, [{ arrive := [.start 0] }], by decide⟩

/-- Witness (pinned tree): an unparseable message closes with 1002, not 4400. -/
theorem c25_violated_by_invalid1002 :
    ∃ p ka h, conforms p (run { invalid1002 := true } (State.init p ka) h) = false :=
  ⟨.new, 2, [{ arrive := [.bad] }], by decide⟩

/-- The trace-only reading of "each operation completes at most once and emits nothing
    afterwards", for EVERY trace the monitor accepts (not only the model's): after a
    `complete id` nothing about `id` (`next`/`data`/`complete`) is sent until the client starts
    `id` again.  Proof: the monitor invariant `stopped ∩ live = ∅` (`Lemmas.Ws.steps_disj`) makes
    `id` absent from both sets after its `complete`; absence is kept by every step other than
    `recv (start id)`; an event about an absent id is rejected. -/
theorem c25_complete_once_trace :
  ∀ (p : Proto) (pre mid : List Ev) (id : Nat) (o : Out),
    conforms p (pre ++ .out (.complete id) :: mid ++ [.out o]) = true →
    (o = .complete id ∨ (∃ i v, o = .next id i v) ∨ (∃ i v, o = .data id i v)) →
    .recv (.start id) ∈ mid := by
  intro p pre mid id o hc ho
  simp only [conforms, Option.isSome_iff_exists] at hc
  obtain ⟨m', hm⟩ := hc
  exact monitor_complete_once p pre mid id o {} m' disj_init hm ho

/-- … and therefore for every session of the model: between a `complete id` and the next
    message about `id` the server took a `start id` from the socket. -/
theorem c25_complete_once_run (p : Proto) (ka : Nat) (h : List Env) (pre mid post : List Ev)
    (id : Nat) (o : Out)
    (ho : o = .complete id ∨ (∃ i v, o = .next id i v) ∨ (∃ i v, o = .data id i v))
    (hr : run {} (State.init p ka) h = pre ++ .out (.complete id) :: mid ++ .out o :: post) :
    .recv (.start id) ∈ mid := by
  have hc := c25_conforms p ka h
  simp only [conforms, Option.isSome_iff_exists] at hc
  obtain ⟨m', hm⟩ := hc
  have e : pre ++ .out (.complete id) :: mid ++ .out o :: post
      = (pre ++ .out (.complete id) :: mid ++ [.out o]) ++ post := by simp
  rw [hr, e, steps_append] at hm
  cases h1 : steps p {} (pre ++ .out (.complete id) :: mid ++ [.out o]) with
  | none => rw [h1] at hm; simp at hm
  | some m1 => exact monitor_complete_once p pre mid id o {} m1 disj_init h1 ho

example : run {} (State.init .new 0)
    [{ arrive := [.init], fut := .ok }, { arrive := [.start 0] }, { str := .fin 0 },
     { arrive := [.start 0] }, { str := .fin 1 }] =
    [.recv .init, .out .ack, .recv (.start 0), .out .pending, .out (.complete 0),
     .recv (.start 0), .out .pending, .out (.complete 0)] := by decide

end AGV.Props.C25
