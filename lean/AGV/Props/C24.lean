/-
  C24 — multipart uploads bind files exactly as mapped and respect limits.
  Property theorems only (helper lemmas live in AGV/Lemmas/UploadBind.lean).  All theorems are
  about the model with no defect toggle (`Defects.none`) unless the toggle is named.

  Limits: an accepted body has at most `max_num_files` file parts, none larger than `max_file_size`
  OBLIGATION c24_limits
  OBLIGATION c24_over_limit_rejected
  Missing files: every key of the (last) map part names a file part of an accepted body
  OBLIGATION c24_missing
  OBLIGATION c24_missing_rejected
  Binding: a path that is set reads back as the marker of the file that was pushed, older uploads stay
  OBLIGATION c24_bind_step
  OBLIGATION c24_paths_all_resolve
  OBLIGATION c24_unresolvable_rejected
  Witnesses of the defect toggles (the reference semantics rejects, the pinned behaviour accepts)
  OBLIGATION c24_limits_violated_by_byte_budget
  OBLIGATION c24_bind_violated_by_ignored_path
  OPEN c24_refines_spec
-/
import AGV.Lemmas.UploadBind

namespace AGV.Props.C24
open AGV.Spec.UploadBind
open AGV.Model.UploadBind AGV.Lemmas.UploadBind

/-- an accepted body respects both limits, counted in file parts and in bytes per file part —
    whatever the order of the parts, whether or not the files are named by the map -/
theorem c24_limits (o : Opts) (len : Nat) (parts : List Part) (b : Batch)
    (h : receive Defects.none o len parts = .ok b) :
    (∀ n, o.maxNumFiles = some n → (fileParts parts).length ≤ n) ∧
    (∀ s, o.maxFileSize = some s → ∀ f ∈ fileParts parts, f.size ≤ s) := by
  simp only [receive] at h
  split at h
  · cases h
  · split at h
    · cases h
    · rename_i st hst
      have hf := scan_files hst
      have hl := scan_limits hst
      simp at hf
      refine ⟨?_, hl.1⟩
      intro n hn
      have := hl.2 n hn (by simp)
      rwa [hf] at this

/-- the same as a rejection: too many file parts, or one too large, is never accepted -/
theorem c24_over_limit_rejected (o : Opts) (len : Nat) (parts : List Part)
    (h : overCount o (fileParts parts) = true ∨ overSize o (fileParts parts) = true) :
    ∃ e, receive Defects.none o len parts = .error e := by
  cases hr : receive Defects.none o len parts with
  | error e => exact ⟨e, rfl⟩
  | ok b =>
    exfalso
    have hl := c24_limits o len parts b hr
    rcases h with h | h
    · simp only [overCount] at h
      split at h
      · rename_i n hn
        have := hl.1 n hn
        simp at h; omega
      · cases h
    · simp only [overSize] at h
      split at h
      · rename_i s hs
        simp only [List.any_eq_true, decide_eq_true_eq] at h
        obtain ⟨f, hf, hgt⟩ := h
        have := hl.2 s hs f hf
        omega
      · cases h

example : ∃ o len parts b, receive Defects.none o len parts = .ok b ∧ o.maxNumFiles = some 1 ∧ (fileParts parts).length = 1 :=
  ⟨⟨some 5, some 1⟩, 5,
   [.file ⟨['0'], ['a'], none, ['x'], 1, 0⟩, .ops (some (.single ⟨[(['a'], .null)], []⟩)) 5,
    .map (some [(['0'], [['v','a','r','i','a','b','l','e','s','.','a']])]) 5], _, rfl, rfl, rfl⟩

/-- accepted ⇒ every key of the map part (the last one, as the implementation keeps it) names a
    file part; holds with and without the defect toggles -/
theorem c24_missing (D : Defects) (o : Opts) (len : Nat) (parts : List Part) (b : Batch) (m : FileMap)
    (h : receive D o len parts = .ok b) (hm : (mapParts parts).getLast? = some (some m)) :
    ∀ k ∈ m.map (·.1), ∃ f ∈ fileParts parts, f.name = k := by
  intro k hk
  simp only [receive] at h
  split at h
  · cases h
  · split at h
    · cases h
    · rename_i st hst
      have hf := scan_files hst
      have hmap := (scan_map hst).1 m hm
      simp at hf
      split at h
      · cases h
      · split at h
        · cases h
        · rename_i m0 hm0
          split at h
          · cases h
          · rename_i b' m' hb
            split at h
            · rename_i hempty
              have hrest := bindFiles_rest hb
              rw [hm0] at hmap
              cases hmap
              have hk' : k ∈ (dedup m).map (·.1) := (dedup_keys m k).mpr hk
              obtain ⟨e, he, hek⟩ := List.mem_map.mp hk'
              -- e is not in the rest, so some file has its key
              have hnot : e ∉ m' := by
                have : m' = [] := by simpa using hempty
                simp [this]
              by_cases hx : ∃ f ∈ st.files, f.name = e.1
              · obtain ⟨f, hfm, hne⟩ := hx
                exact ⟨f, hf ▸ hfm, by rw [hne, hek]⟩
              · exfalso
                apply hnot
                rw [hrest]
                apply List.mem_filter.mpr
                refine ⟨he, ?_⟩
                simp only [List.all_eq_true, decide_eq_true_eq]
                intro f hfm heq
                exact hx ⟨f, hfm, heq⟩
            · cases h

/-- a map entry without a matching file part ⇒ the body is rejected -/
theorem c24_missing_rejected (D : Defects) (o : Opts) (len : Nat) (parts : List Part) (m : FileMap) (k : Str)
    (hm : (mapParts parts).getLast? = some (some m)) (hk : k ∈ m.map (·.1))
    (hno : ∀ f ∈ fileParts parts, f.name ≠ k) :
    ∃ e, receive D o len parts = .error e := by
  cases hr : receive D o len parts with
  | error e => exact ⟨e, rfl⟩
  | ok b =>
    obtain ⟨f, hf, hname⟩ := c24_missing D o len parts b m hr hm k hk
    exact absurd hname (hno f hf)

/-- one `set_upload` that finds its variable: the path reads back as the marker of exactly the
    upload that was pushed, which is the given file; uploads pushed before keep their index -/
theorem c24_bind_step (r r' : Req) (path : Str) (f : File) (h : setUpload r path f = some r') :
    ∃ parts, pathParts path = some parts ∧
      getAt (.obj r'.vars) parts = some (.ext r.uploads.length) ∧
      r'.uploads[r.uploads.length]? = some f ∧
      ∀ k, k < r.uploads.length → r'.uploads[k]? = r.uploads[k]? := by
  simp only [setUpload] at h
  split at h
  · cases h
  · rename_i parts hp
    split at h
    · cases h
    · rename_i t ht
      cases h
      refine ⟨parts, hp, ?_, by simp, ?_⟩
      · have hne : parts ≠ [] := by
          simp only [pathParts] at hp
          cases hs : stripPrefix variablesDot path with
          | none => simp [hs] at hp
          | some rest => simp [hs] at hp; rw [← hp]; exact splitDot_ne_nil rest
        cases parts with
        | nil => exact absurd rfl hne
        | cons p ps =>
          obtain ⟨kvs', rfl⟩ := setAt_obj _ _ _ _ _ ht
          simpa [membersOf] using getAt_setAt _ _ _ _ ht
      · intro k hk
        simp [List.getElem?_append_left hk]

example : ∃ r r' path f, setUpload r path f = some r' :=
  ⟨⟨[(['a'], .arr [.null, .null])], []⟩, _, ['v','a','r','i','a','b','l','e','s','.','a','.','1'],
   ⟨['0'], ['a'], none, ['x'], 1, 0⟩, rfl⟩

/-- with the repaired behaviour the paths of an entry are bound one after the other and each of
    them must address a variable: the entry is bound to all of its paths or the body is rejected -/
theorem c24_paths_all_resolve (f : File) (b b' : Batch) (ps : List Str) :
    bindPaths Defects.none f b ps = some b' ↔ ps.foldlM (fun b p => bindPath b p f) b = some b' := by
  rw [bindPaths_none_eq_foldlM]

/-- a first path that addresses nothing rejects the entry -/
theorem c24_unresolvable_rejected (f : File) (b : Batch) (p : Str) (ps : List Str)
    (h : bindPath b p f = none) : bindPaths Defects.none f b (p :: ps) = none := by
  simp [bindPaths, h, Defects.none]

-- ------------------------------------------------------------------ witnesses

def vA : Str := ['v','a','r','i','a','b','l','e','s','.','a']
def vB : Str := ['v','a','r','i','a','b','l','e','s','.','b']
def vNope : Str := ['v','a','r','i','a','b','l','e','s','.','n','o','p','e']
def file (n : Char) (pid : Nat) : File := ⟨[n], ['f'], none, ['x'], 1, pid⟩
def opsAB : Part := .ops (some (.single ⟨[(['a'], .null), (['b'], .null)], []⟩)) 40

/-- `max_num_files = 1`, two files of one byte each: the reference semantics rejects, the pinned
    behaviour (file count only used as a byte budget) accepts and binds both -/
theorem c24_limits_violated_by_byte_budget :
    ∃ o len parts,
      (match require o parts with | .reject => true | _ => false) = true ∧
      (match receive Defects.none o len parts with | .error _ => true | .ok _ => false) = true ∧
      (match receive { numFilesNotCounted := true } o len parts with
        | .ok (.single r) => r.uploads.length == 2 | _ => false) = true :=
  ⟨⟨some 1000, some 1⟩, 600,
   [opsAB, .map (some [(['0'], [vA]), (['1'], [vB])]) 40, .file (file '0' 2), .file (file '1' 3)],
   by decide, by decide, by decide⟩

/-- a map path that addresses no variable: the reference semantics rejects, the pinned behaviour
    accepts the body and silently drops the file (no upload, variables unchanged) -/
theorem c24_bind_violated_by_ignored_path :
    ∃ o len parts,
      (match require o parts with | .reject => true | _ => false) = true ∧
      (match receive Defects.none o len parts with | .error _ => true | .ok _ => false) = true ∧
      (match receive { ignoreUnresolvable := true } o len parts with
        | .ok (.single r) => r.uploads.length == 0 | _ => false) = true :=
  ⟨⟨none, none⟩, 400,
   [opsAB, .map (some [(['0'], [vNope])]) 40, .file (file '0' 2)],
   by decide, by decide, by decide⟩

/-- OPEN: full refinement of the reference semantics.  Whenever `Spec.require` determines the
    outcome, the repaired model produces it: `reject` ⇒ an error; `accept single reqs` ⇒ either the
    body is accepted with exactly these bindings (every addressed node holds its file, everything
    else unchanged) or it is refused as too large within `resourceBound`.  Needs the commutation of
    the sequential `set_upload`s with the parallel substitution for pairwise independent
    addresses (a frame lemma for `setAt`); `c24_bind_step`, `c24_paths_all_resolve`, `c24_limits`
    and `c24_missing` are the proved parts. -/
def c24_refines_spec : Prop :=
  ∀ (o : Opts) (len : Nat) (parts : List Part),
    match require o parts with
    | .unspecified => True
    | .reject => ∃ e, receive Defects.none o len parts = .error e
    | .accept single reqs =>
      (∃ b, receive Defects.none o len parts = .ok b ∧ Batch.isSingle b = single ∧ b.reqs.map viewReq = reqs) ∨
      (resourceBound o len parts = true ∧ receive Defects.none o len parts = .error .tooLarge)

end AGV.Props.C24
