/-
  C03 — a field error nulls only the nearest nullable position and is reported once
  (static flavour; the dynamic flavour is stated in Props/C02-family files).

  OBLIGATION c03_nullable_absorbs
  OBLIGATION c03_resolver_error_once
  OBLIGATION c03_list_item_isolation
  OBLIGATION c03_nonnull_propagates_with_error
  OBLIGATION c03_resolver_error_witness
  OBLIGATION c03_list_path_witness
  OBLIGATION c03_iface_path_witness
  OBLIGATION c03_full_needs_validity
  OBLIGATION c03_repeated_key_error_witness
  OBLIGATION c03_repeated_key_error_repaired_example
  OBLIGATION c03_partial_nodup
  OBLIGATION c03_partial_nodup_example
  OBLIGATION c03_mergeable_full_refuted
  OBLIGATION c03_spec_errors_monotone
  OBLIGATION c03_mergeable_paths_partial
  OBLIGATION c03_mergeable_paths_example
  OBLIGATION c03_fuelbound_full_refuted
  OBLIGATION c03_fuelbound_suffices
  OBLIGATION c03_fuelbound_acyclic_full
  OBLIGATION c03_mergeable_paths_full

  `c03_full` (first formulation, no hypotheses) is REFUTED (`c03_full_needs_validity`).  Restated with the
  validity hypotheses as `c03_mergeable_full`: REFUTED too (`c03_mergeable_full_refuted`) — with a repeated
  response key a failing field is reported once per occurrence, each with its own location.  PROVED:
  `c03_mergeable_paths_partial` (repeated keys included: the specification's data, and every reported error
  has the response path of one of the specification's errors) and `c03_partial_nodup` (distinct keys: exact
  errors).  `c03_fuelbound_full` is REFUTED (`c03_fuelbound_full_refuted`: cyclic fragments); with acyclic
  fragment spreads the drivers' fuel bound suffices (`c03_fuelbound_suffices`), which gives the two full
  statements `c03_fuelbound_acyclic_full` and `c03_mergeable_paths_full`.  Fourth deviation of the pinned tree: a
  repeated response key whose later occurrence is nulled by a propagating error keeps the earlier partial
  object (`c03_repeated_key_error_witness`, toggle `mergeKeepsPartialOnNull`).
-/
import AGV.Lemmas.ExecStatic
import AGV.Lemmas.ExecStaticData
import AGV.Lemmas.ExecStaticMergeErrs

namespace AGV.Props.C03
open AGV.Core AGV.Model.ExecStatic AGV.Lemmas.ExecStatic AGV.Spec.Exec

/-- First formulation (REFUTED below, `c03_full_needs_validity`; restated as `c03_mergeable_full`): for every valid document and every world with faults, the model
    without defects gives the specification's data, reports a sub-multiset of the
    specification's errors (siblings cancelled by a propagating error may stay silent), and
    exactly one error per resolver that ran and failed.  Checked per case by the judge. -/
def c03_full : Prop :=
  ∀ (S : Schema) (d : Doc) (op : Option String) (vars : List (String × GValue)) (w : World),
    ∀ fuel ≥ fuelBound d,
      (Model.ExecStatic.run Defects.none S d op vars w fuel).val = (AGV.Spec.Exec.run S d op vars w fuel).val ∧
      ∀ e ∈ (Model.ExecStatic.run Defects.none S d op vars w fuel).errs, e ∈ (AGV.Spec.Exec.run S d op vars w fuel).errs

/-- A nullable position absorbs every failure below it: completing against a type that is not
    `!` never lets an error travel further up — for every defect setting, value and depth. -/
theorem c03_nullable_absorbs (c : Model.ExecStatic.Ctx) (rec : String → String → Nat → List Sel → List PathSeg → Res)
    (t : TypeRef) (ht : t.isNonNull = false) (rv : RVal) (ss : List Sel) (path : List PathSeg) (pos : Pos) :
    (resolveValue c rec t rv ss path pos).val.isSome = true := by
  cases t with
  | nonNull t => simp [TypeRef.isNonNull] at ht
  | named n =>
    cases rv <;> simp [resolveValue]
    · split <;> simp
    · split
      · split <;> simp
      · simp
  | list t =>
    cases rv <;> simp [resolveValue]
    split <;> simp

/-- A resolver that fails is reported exactly once, with the field's response path and
    location; the field itself becomes null when its type is nullable, otherwise the error
    travels to the parent. -/
theorem c03_resolver_error_once (c : Model.ExecStatic.Ctx) (hD : c.D = Defects.none)
    (rec : String → String → Nat → List Sel → List PathSeg → Res)
    (fd : FieldDef) (m : String) (occ : FieldOcc) (fpath : List PathSeg) :
    (completeField c rec fd (.fail m) occ fpath).errs = [⟨fpath, occ.pos⟩] ∧
    ((completeField c rec fd (.fail m) occ fpath).val = if fd.ty.isNonNull then none else some .null) := by
  simp only [completeField, hD, Defects.none]
  cases h : fd.ty.isNonNull <;> simp

/-- An item of a list whose item type is nullable never takes the list (or its other items)
    down: the list keeps one entry per item. -/
theorem c03_list_item_isolation (c : Model.ExecStatic.Ctx) (rec : String → String → Nat → List Sel → List PathSeg → Res)
    (t : TypeRef) (ht : t.isNonNull = false) (xs : List RVal) (ss : List Sel) (path : List PathSeg) (pos : Pos) :
    ∃ vs, (resolveValue c rec (.list t) (.list xs) ss path pos).val = some (.list vs) := by
  simp only [resolveValue]
  split
  · exact ⟨_, rfl⟩
  · rename_i hall
    exfalso
    apply hall
    rw [List.all_eq_true]
    intro r hr
    obtain ⟨f, hf, rfl⟩ := joinAll_mem _ r hr
    obtain ⟨j, x, rfl⟩ := mapIdx_mem _ xs 0 f hf
    rw [itemWrap_val]
    exact c03_nullable_absorbs c rec t ht x ss _ pos

/-- What travels upwards is always accompanied by a recorded error (no silent `null` for
    `data` or for a parent): restated from the C01 lemma for arbitrary selection sets. -/
theorem c03_nonnull_propagates_with_error (c : Model.ExecStatic.Ctx) (hD : c.D.nanNullInNonNull = false) (fuel : Nat)
    (st rt : String) (id : Nat) (ss : List Sel) (p : List PathSeg) :
    (resolveContainer c fuel st rt id ss p).val = none → (resolveContainer c fuel st rt id ss p).errs ≠ [] :=
  (recOK_resolveContainer c hD fuel st rt id ss p).1

-- ------------------------------------------------------------------ witnesses (also in corpus/C03)

def p0 : Pos := ⟨1, 1⟩
def S0 : Schema := { query := "Query", types := [
  { name := "Query", kind := .object, fields := [{ name := "num", ty := .named "Int", args := [] },
                                                 { name := "items", ty := .list (.nonNull (.named "O")), args := [] },
                                                 { name := "node", ty := .named "N", args := [] }] },
  { name := "O", kind := .object, implements := ["N"], fields := [{ name := "req", ty := .nonNull (.named "Int"), args := [] }] },
  { name := "N", kind := .interface, fields := [{ name := "req", ty := .nonNull (.named "Int"), args := [] }] },
  { name := "Int", kind := .scalar }] }
def w0 : World := { entries := [((0, "num"), .fail "boom"), ((0, "items"), .list [.obj "O" 1]), ((0, "node"), .obj "O" 1),
                                ((1, "req"), .fail "boom")] }
def opOf (s : Sel) : Doc := { ops := [{ ty := .query, name := none, vars := [], dirs := [], sels := [s] }], frags := [] }
def selNum : Sel := Sel.field none "num" [] [] [] p0
def selReq : Sel := Sel.field none "req" [] [] [] p0
def selItems : Sel := Sel.field none "items" [] [] [selReq] p0
def selNode : Sel := Sel.field none "node" [] [] [selReq] p0

/-- `{ num }` with a failing resolver for the nullable `num`: the pinned code answers
    `"data": null` instead of `{"num": null}` -/
theorem c03_resolver_error_witness :
    (run { resolverErrPropagates := true } S0 (opOf selNum) none [] w0 10).val = none ∧
    (AGV.Spec.Exec.run S0 (opOf selNum) none [] w0 10).val = some (.obj [("num", .null)]) ∧
    (run Defects.none S0 (opOf selNum) none [] w0 10).val = some (.obj [("num", .null)]) := by
  refine ⟨by rfl, by rfl, by rfl⟩

/-- `{ items { req } }`: the error of `items[0].req` is reported with the path `items[0]` -/
theorem c03_list_path_witness :
    (run { listItemPathOverwrite := true } S0 (opOf selItems) none [] w0 10).errs = [⟨[.key "items", .idx 0], p0⟩] ∧
    (run Defects.none S0 (opOf selItems) none [] w0 10).errs = [⟨[.key "items", .idx 0, .key "req"], p0⟩] ∧
    (AGV.Spec.Exec.run S0 (opOf selItems) none [] w0 10).errs = [⟨[.key "items", .idx 0, .key "req"], p0⟩] := by
  refine ⟨by rfl, by rfl, by rfl⟩

/-- `{ node { req } }` through the interface `N`: the error carries no path -/
theorem c03_iface_path_witness :
    (run { ifaceErrNoPath := true } S0 (opOf selNode) none [] w0 10).errs = [⟨[], p0⟩] ∧
    (run Defects.none S0 (opOf selNode) none [] w0 10).errs = [⟨[.key "node", .key "req"], p0⟩] := by
  refine ⟨by rfl, by rfl⟩

-- ------------------------------------------------------------------ the full statement: refuted, restated, and what holds

/-- `c03_full` as first stated (no validity hypothesis) is FALSE: for a field the type does not have
    the model answers `{"zz": null}`, the specification skips the field (validation rejects such
    documents before execution) -/
theorem c03_full_needs_validity : ¬ c03_full := by
  intro h
  have h1 := (h S0 (opOf (Sel.field none "zz" [] [] [] p0)) none [] w0 3
    (by simp [fuelBound, selCount, opOf])).1
  have hm : (Model.ExecStatic.run Defects.none S0 (opOf (Sel.field none "zz" [] [] [] p0)) none [] w0 3).val =
      some (.obj [("zz", .null)]) := by rfl
  have hs : (AGV.Spec.Exec.run S0 (opOf (Sel.field none "zz" [] [] [] p0)) none [] w0 3).val = some (.obj []) := by rfl
  rw [hm, hs] at h1
  simp at h1

/-- `{ node { __typename }  node { req } }` — a VALID document (both occurrences of the response key
    `node` name the same field without arguments) in the world where `req: Int!` fails -/
def docRepeat : Doc := { ops := [{ ty := .query, name := none, vars := [], dirs := [], sels := [
  Sel.field none "node" [] [] [Sel.field none "__typename" [] [] [] p0] p0, selNode] }], frags := [] }

/-- the pinned `merge_value` (its `_ => {}` arm keeps the earlier value; reproduced on the real executor,
    corpus/C03/main-repeated-key-error.case) leaves the partial object of the first occurrence in place
    although the error of the second occurrence nulled the nullable position `node`: the error does
    NOT null the nearest nullable position.  The specification answers `{"node": null}`. -/
theorem c03_repeated_key_error_witness :
    (Model.ExecStatic.run { mergeKeepsPartialOnNull := true } S0 docRepeat none [] w0 10).val =
      some (.obj [("node", .obj [("__typename", .str "O")])]) ∧
    (AGV.Spec.Exec.run S0 docRepeat none [] w0 10).val = some (.obj [("node", .null)]) := by
  constructor <;> rfl

theorem c03_repeated_key_error_repaired_example :
    (Model.ExecStatic.run Defects.none S0 docRepeat none [] w0 10).val = (AGV.Spec.Exec.run S0 docRepeat none [] w0 10).val ∧
    (Model.ExecStatic.run Defects.none S0 docRepeat none [] w0 10).errs = (AGV.Spec.Exec.run S0 docRepeat none [] w0 10).errs := by
  constructor <;> rfl

open AGV.Lemmas.ExecStaticData in
/-- What holds: for every schema, document, variables, world with arbitrary faults and every fuel, under
    the hypotheses of `c01_data_partial_nodup` (`RunHyps`: consistent schema, inert directives, no
    repeated response keys, no `Int` leaf for `Float`) and `deepEnough` (the fuel is not exhausted),
    the model without defects gives the specification's data and every error it reports is one of the
    specification's errors (same path, same position). -/
theorem c03_partial_nodup (S : Schema) (d : Doc) (opName : Option String) (raw : List (String × GValue))
    (w : World) (fuel : Nat)
    (H : ∀ op, selectOp d opName = some op → RunHyps S d op raw w fuel ∧
      deepEnough (runCtx S d op raw w) fuel (rootOf S op) (rootOf S op) op.sels = true) :
    (Model.ExecStatic.run Defects.none S d opName raw w fuel).val = (AGV.Spec.Exec.run S d opName raw w fuel).val ∧
    ∀ e ∈ (Model.ExecStatic.run Defects.none S d opName raw w fuel).errs, e ∈ (AGV.Spec.Exec.run S d opName raw w fuel).errs :=
  ⟨run_val_eq S d opName raw w fuel (fun op hop => (H op hop).1), run_errs_sub S d opName raw w fuel H⟩

open AGV.Lemmas.ExecStaticData in
/-- a non-trivial instance (`Ex.doc1`: fragments on an interface and a union, inert directives, a list;
    world with a failing resolver and a NaN in a `Float!` position — two errors are reported) -/
theorem c03_partial_nodup_example :
    (Model.ExecStatic.run Defects.none Ex.S1 Ex.doc1 none [] Ex.w1 10).val = (AGV.Spec.Exec.run Ex.S1 Ex.doc1 none [] Ex.w1 10).val ∧
    ∀ e ∈ (Model.ExecStatic.run Defects.none Ex.S1 Ex.doc1 none [] Ex.w1 10).errs,
      e ∈ (AGV.Spec.Exec.run Ex.S1 Ex.doc1 none [] Ex.w1 10).errs :=
  c03_partial_nodup Ex.S1 Ex.doc1 none [] Ex.w1 10 Ex.runHyps

open AGV.Lemmas.ExecStaticData in
/-- `c03_full` restated with the validity hypotheses (`mergeableKeys`, as in `c01_data_mergeable_full`) and
    the exact-membership reading of "reports a subset of its errors".  REFUTED below
    (`c03_mergeable_full_refuted`): with a repeated response key the executor reports a failing field once
    per OCCURRENCE, each with that occurrence's location.  What holds: `c03_mergeable_paths_partial`. -/
def c03_mergeable_full : Prop :=
  ∀ (S : Schema) (d : Doc) (opName : Option String) (raw : List (String × GValue)) (w : World),
    ∀ fuel ≥ fuelBound d,
      (∀ op, selectOp d opName = some op →
        IsObj S (rootOf S op) ∧ DataHyps (runCtx S d op raw w) ∧
        selsInert (coerceVars op.vars raw) op.sels = true ∧
        mergeableKeys (runCtx S d op raw w) fuel (rootOf S op) (rootOf S op) op.sels = true) →
      (Model.ExecStatic.run Defects.none S d opName raw w fuel).val = (AGV.Spec.Exec.run S d opName raw w fuel).val ∧
      ∀ e ∈ (Model.ExecStatic.run Defects.none S d opName raw w fuel).errs, e ∈ (AGV.Spec.Exec.run S d opName raw w fuel).errs

open AGV.Lemmas.ExecStaticData in
/-- `c03_partial_nodup` with `deepEnough` replaced by the drivers' fuel bound.  REFUTED below
    (`c03_fuelbound_full_refuted`): the hypotheses do not exclude fragment cycles through a field, and on
    those every fuel is exhausted.  Restated with acyclicity and proved: `c03_fuelbound_acyclic_full`. -/
def c03_fuelbound_full : Prop :=
  ∀ (S : Schema) (d : Doc) (opName : Option String) (raw : List (String × GValue)) (w : World),
    ∀ fuel ≥ fuelBound d,
      (∀ op, selectOp d opName = some op → RunHyps S d op raw w fuel) →
      (Model.ExecStatic.run Defects.none S d opName raw w fuel).val = (AGV.Spec.Exec.run S d opName raw w fuel).val ∧
      ∀ e ∈ (Model.ExecStatic.run Defects.none S d opName raw w fuel).errs, e ∈ (AGV.Spec.Exec.run S d opName raw w fuel).errs

-- ------------------------------------------------------------------ repeated response keys: refutation and what holds

def p1 : Pos := ⟨1, 20⟩
/-- `{ node { req }  node { req } }` — VALID; the two `req` selections sit at different locations -/
def opTwice : OpDef := { ty := .query, name := none, vars := [], dirs := [], sels := [
  selNode, Sel.field none "node" [] [] [Sel.field none "req" [] [] [] p1] p0] }
def docTwice : Doc := { ops := [opTwice], frags := [] }

open AGV.Lemmas.ExecStaticData in
/-- `c03_mergeable_full` is FALSE: for `{ node { req } node { req } }` with `req: Int!` failing, the executor
    runs one field future per occurrence of `node`, so `req` fails twice and is reported twice — once with
    the location of each occurrence — where the specification (one execution of the merged selection set
    `{ req req }`) reports it once, with the location of the first.  The second error (path `node.req`,
    location 1:20) is not among the specification's errors.  Same on the real executor (replayed:
    `{ b { fltReq } b { fltReq } }` answers two errors `b.fltReq` at 1:16 and 1:29); the resolver running once
    per occurrence is the listed finding C04-repeated-key-resolved-per-occurrence. -/
theorem c03_mergeable_full_refuted : ¬ c03_mergeable_full := by
  intro h
  have h1 := (h S0 docTwice none [] w0 6 (by simp [fuelBound, selCount, docTwice, opTwice, selNode, selReq]) (by
    intro op hop
    have : op = opTwice := by simpa [selectOp, docTwice] using hop.symm
    subst this
    exact ⟨⟨_, rfl, rfl⟩,
      { noDefect := rfl
        schema := schemaOK_of_wf _ (by decide)
        builtins := by decide
        frags := by decide
        floats := floats_of_world _ (by decide) },
      by decide, by decide⟩)).2
  have hm : (Model.ExecStatic.run Defects.none S0 docTwice none [] w0 6).errs =
      [⟨[.key "node", .key "req"], p0⟩, ⟨[.key "node", .key "req"], p1⟩] := by rfl
  have hs : (AGV.Spec.Exec.run S0 docTwice none [] w0 6).errs = [⟨[.key "node", .key "req"], p0⟩] := by rfl
  rw [hm, hs] at h1
  have := h1 ⟨[.key "node", .key "req"], p1⟩ (by simp)
  simp [p0, p1] at this

open AGV.Lemmas.ExecStaticData AGV.Lemmas.ExecStaticMerge in
/-- The specification executes everything it collects (no short-circuit), so its errors for a part `a` (or
    `b`) of a selection set are, by response path, among its errors for the union `a ++ b` — the error
    half of the merge lemma (`c01_exec_union_is_merge` is the data half). -/
theorem c03_spec_errors_monotone (c : Model.ExecStatic.Ctx) (H : DataHyps c) (fuel : Nat) (st rt : String) (id : Nat)
    (a b : List Sel) (path : List PathSeg) (hrt : IsObj c.S rt) (hst : doesApply c.S rt st = true)
    (ha : selsInert c.vars a = true) (hb : selsInert c.vars b = true) (hmk : MKP c fuel st rt (a ++ b)) :
    PathSub (execSet (sc c) fuel rt id a path).errs (execSet (sc c) fuel rt id (a ++ b) path).errs ∧
    PathSub (execSet (sc c) fuel rt id b path).errs (execSet (sc c) fuel rt id (a ++ b) path).errs :=
  execSet_errs_mono c H fuel st rt id a b path hrt hst ha hb hmk

open AGV.Lemmas.ExecStaticData AGV.Lemmas.ExecStaticMerge in
/-- What holds with repeated response keys: for every schema, document, variables, world with arbitrary
    faults and every fuel, under the hypotheses of `c01_data_mergeable_full` (consistent schema, inert
    directives, `mergeableKeys`: occurrences of one response key name one field with one argument list,
    recursively; no `Int` leaf for `Float`) and `deepEnough` (the fuel is not exhausted), the model without
    defects gives the specification's data — so an error nulls exactly the nearest nullable position —
    and every error it reports has the response path of one of the specification's errors (`PathSub`;
    the location is that of the occurrence that was executed). -/
theorem c03_mergeable_paths_partial (S : Schema) (d : Doc) (opName : Option String) (raw : List (String × GValue))
    (w : World) (fuel : Nat)
    (H : ∀ op, selectOp d opName = some op →
      IsObj S (rootOf S op) ∧ DataHyps (runCtx S d op raw w) ∧
      selsInert (coerceVars op.vars raw) op.sels = true ∧
      mergeableKeys (runCtx S d op raw w) fuel (rootOf S op) (rootOf S op) op.sels = true ∧
      deepEnough (runCtx S d op raw w) fuel (rootOf S op) (rootOf S op) op.sels = true) :
    (Model.ExecStatic.run Defects.none S d opName raw w fuel).val = (AGV.Spec.Exec.run S d opName raw w fuel).val ∧
    ∀ e ∈ (Model.ExecStatic.run Defects.none S d opName raw w fuel).errs,
      ∃ e' ∈ (AGV.Spec.Exec.run S d opName raw w fuel).errs, e'.path = e.path :=
  ⟨run_val_eq_mergeable S d opName raw w fuel (fun op hop => ⟨(H op hop).1, (H op hop).2.1, (H op hop).2.2.1, (H op hop).2.2.2.1⟩),
   run_errs_paths_mergeable S d opName raw w fuel H⟩

open AGV.Lemmas.ExecStaticData in
/-- `{ x: obj { f } x: obj { a f }  items { a } items { a name } }` over `Ex.S1`/`Ex.w1` (`f: Float!` holds NaN on
    object 1, `a` fails on object 3): every key occurs twice, `f` and the failing `a` are executed twice -/
def opRep : OpDef := { ty := .query, name := none, vars := [], dirs := [], sels := [
  Sel.field (some "x") "obj" [] [] [Sel.field none "f" [] [] [] p0] p0,
  Sel.field (some "x") "obj" [] [] [Sel.field none "a" [] [] [] p1, Sel.field none "f" [] [] [] p1] p1,
  Sel.field none "items" [] [] [Sel.field none "a" [] [] [] p0] p0,
  Sel.field none "items" [] [] [Sel.field none "a" [] [] [] p1, Sel.field none "name" [] [] [] p1] p1] }
open AGV.Lemmas.ExecStaticData in
def docRep : Doc := { ops := [opRep], frags := [] }

open AGV.Lemmas.ExecStaticData in
/-- the hypotheses of `c03_mergeable_paths_partial` hold for `docRep` -/
theorem c03_mergeable_paths_example :
    ∀ op, selectOp docRep none = some op →
      IsObj Ex.S1 (rootOf Ex.S1 op) ∧ DataHyps (runCtx Ex.S1 docRep op [] Ex.w1) ∧
      selsInert (coerceVars op.vars []) op.sels = true ∧
      mergeableKeys (runCtx Ex.S1 docRep op [] Ex.w1) 10 (rootOf Ex.S1 op) (rootOf Ex.S1 op) op.sels = true ∧
      deepEnough (runCtx Ex.S1 docRep op [] Ex.w1) 10 (rootOf Ex.S1 op) (rootOf Ex.S1 op) op.sels = true := by
  intro op hop
  have : op = opRep := by simpa [selectOp, docRep] using hop.symm
  subst this
  exact ⟨⟨Ex.tQuery, rfl, rfl⟩,
    { noDefect := rfl
      schema := schemaOK_of_wf _ (by decide)
      builtins := by decide
      frags := by decide
      floats := floats_of_world _ (by decide) },
    by decide, by decide, by decide⟩

open AGV.Lemmas.ExecStaticData in
/-- the instance is not vacuous: the model reports four errors (two per failing field), the specification two -/
example : (Model.ExecStatic.run Defects.none Ex.S1 docRep none [] Ex.w1 10).errs =
      [⟨[.key "x", .key "f"], p0⟩, ⟨[.key "x", .key "f"], p1⟩,
       ⟨[.key "items", .idx 1, .key "a"], p0⟩, ⟨[.key "items", .idx 1, .key "a"], p1⟩] ∧
    (AGV.Spec.Exec.run Ex.S1 docRep none [] Ex.w1 10).errs =
      [⟨[.key "x", .key "f"], p0⟩, ⟨[.key "items", .idx 1, .key "a"], p0⟩] := by
  constructor <;> rfl

-- ------------------------------------------------------------------ the fuel bound: refutation, restated (open)

def Sc : Schema := { query := "Query", types := [
  { name := "Query", kind := .object, fields := [{ name := "me", ty := .named "Query", args := [] }] },
  { name := "Int", kind := .scalar }] }
def wc : World := { entries := [((0, "me"), .obj "Query" 0)] }
/-- `fragment F on Query { me { me { ...F } } }` — spreads itself below two fields -/
def fragC : FragDef := { name := "F", cond := "Query", dirs := [], sels := [
  Sel.field none "me" [] [] [Sel.field none "me" [] [] [Sel.spread "F" [] p0] p0] p0] }
def opC : OpDef := { ty := .query, name := none, vars := [], dirs := [], sels := [Sel.spread "F" [] p0] }
/-- `{ ...F }` with the cyclic `F` (rejected by validation rule NoFragmentCycles) -/
def docC : Doc := { ops := [opC], frags := [fragC] }

open AGV.Lemmas.ExecStaticData in
/-- `c03_fuelbound_full` is FALSE: `RunHyps` does not exclude a fragment that spreads itself below a field.
    On `{ ...F }`, `fragment F on Query { me { me { ...F } } }` with `me` returning the root object every
    fuel is exhausted; at fuel 8 ≥ `fuelBound` = 7 the model reports running out of fuel as an error where
    the specification executor reports none. -/
theorem c03_fuelbound_full_refuted : ¬ c03_fuelbound_full := by
  intro h
  have h1 := (h Sc docC none [] wc 8 (by simp [fuelBound, selCount, docC, opC, fragC]) (by
    intro op hop
    have : op = opC := by simpa [selectOp, docC] using hop.symm
    subst this
    exact {
      root := ⟨_, rfl, rfl⟩
      data := {
        noDefect := rfl
        schema := schemaOK_of_wf _ (by decide)
        builtins := by decide
        frags := by decide
        floats := floats_of_world _ (by decide) }
      opInert := by decide
      keys := by decide })).2
  have hs : (AGV.Spec.Exec.run Sc docC none [] wc 8).errs = [] := by rfl
  have hm : (Model.ExecStatic.run Defects.none Sc docC none [] wc 8).errs =
      [⟨[.key "me", .key "me", .key "me", .key "me", .key "me", .key "me", .key "me", .key "me"], ⟨0, 0⟩⟩] := by rfl
  rw [hm, hs] at h1
  have := h1 _ (List.mem_singleton.2 rfl)
  simp at this

open AGV.Lemmas.ExecStaticData AGV.Lemmas.ExecStaticMerge in
/-- On a document whose fragment spreads are acyclic (`FragsAcyclic`, validation rule NoFragmentCycles: the
    fragments can be ranked so that each only spreads fragments of smaller rank) the drivers' fuel bound
    `fuelBound d` is never exhausted, whatever the schema and the world: every collected occurrence's
    sub-selections are strictly lighter in "selections below + weight of the fragments still enterable". -/
theorem c03_fuelbound_suffices (S : Schema) (d : Doc) (op : OpDef) (raw : List (String × GValue)) (w : World)
    (hac : FragsAcyclic d) (hop : op ∈ d.ops) (fuel : Nat) (hf : fuel ≥ fuelBound d) (st rt : String) :
    deepEnough (runCtx S d op raw w) fuel st rt op.sels = true :=
  deepEnough_of_fuelBound (runCtx S d op raw w) hac op hop fuel hf st rt

open AGV.Lemmas.ExecStaticData AGV.Lemmas.ExecStaticMerge in
/-- `c03_partial_nodup` with `deepEnough` replaced by the drivers' fuel bound, for documents whose
    fragment spreads are acyclic: distinct response keys — the specification's data and exactly (path and
    location) a subset of the specification's errors, at every fuel ≥ `fuelBound d`. -/
theorem c03_fuelbound_acyclic_full :
  ∀ (S : Schema) (d : Doc) (opName : Option String) (raw : List (String × GValue)) (w : World),
    FragsAcyclic d →
    ∀ fuel ≥ fuelBound d,
      (∀ op, selectOp d opName = some op → RunHyps S d op raw w fuel) →
      (Model.ExecStatic.run Defects.none S d opName raw w fuel).val = (AGV.Spec.Exec.run S d opName raw w fuel).val ∧
      ∀ e ∈ (Model.ExecStatic.run Defects.none S d opName raw w fuel).errs, e ∈ (AGV.Spec.Exec.run S d opName raw w fuel).errs :=
  fun S d opName raw w hac fuel hf H =>
    c03_partial_nodup S d opName raw w fuel (fun op hop =>
      ⟨H op hop, c03_fuelbound_suffices S d op raw w hac (selectOp_mem d opName op hop) fuel hf _ _⟩)

open AGV.Lemmas.ExecStaticData AGV.Lemmas.ExecStaticMerge in
/-- THE FULL STATEMENT AS IT HOLDS: for every schema, document with acyclic fragment spreads, variables,
    world with arbitrary faults and every fuel ≥ the drivers' bound, under validity (`mergeableKeys`,
    consistent schema, inert directives, no `Int` leaf for `Float`): the model without defects gives the
    specification's data, and every error it reports has the response path of one of the
    specification's errors (repeated response keys: one report per occurrence). -/
theorem c03_mergeable_paths_full :
  ∀ (S : Schema) (d : Doc) (opName : Option String) (raw : List (String × GValue)) (w : World),
    FragsAcyclic d →
    ∀ fuel ≥ fuelBound d,
      (∀ op, selectOp d opName = some op →
        IsObj S (rootOf S op) ∧ DataHyps (runCtx S d op raw w) ∧
        selsInert (coerceVars op.vars raw) op.sels = true ∧
        mergeableKeys (runCtx S d op raw w) fuel (rootOf S op) (rootOf S op) op.sels = true) →
      (Model.ExecStatic.run Defects.none S d opName raw w fuel).val = (AGV.Spec.Exec.run S d opName raw w fuel).val ∧
      ∀ e ∈ (Model.ExecStatic.run Defects.none S d opName raw w fuel).errs,
        ∃ e' ∈ (AGV.Spec.Exec.run S d opName raw w fuel).errs, e'.path = e.path :=
  fun S d opName raw w hac fuel hf H =>
    c03_mergeable_paths_partial S d opName raw w fuel (fun op hop =>
      ⟨(H op hop).1, (H op hop).2.1, (H op hop).2.2.1, (H op hop).2.2.2,
        c03_fuelbound_suffices S d op raw w hac (selectOp_mem d opName op hop) fuel hf _ _⟩)

/-- the acyclicity hypothesis is satisfiable in a non-trivial way: `Ex.doc1` spreads `F` (which spreads nothing) -/
example : AGV.Lemmas.ExecStaticMerge.FragsAcyclic AGV.Lemmas.ExecStaticData.Ex.doc1 :=
  ⟨fun _ => 0, by decide⟩

end AGV.Props.C03
