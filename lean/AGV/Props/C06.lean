/-
  Property C06 — resolvers receive exactly the spec-coerced argument values.

  Model: AGV/Model/Coerce.lean (context.rs value resolution and parameter defaults,
  `InputType::parse` of Option / MaybeUndefined / Vec / scalars / enums / derived input objects
  and oneof objects, the validation pre-checks).  Spec: AGV/Spec/Coerce.lean (§3.5–3.13 input
  coercion, §6.1.2, §6.4.1, the Rust view of a coerced value).

  OBLIGATION c06_resolve_refines_subst
  OBLIGATION c06_null
  OBLIGATION c06_absent
  OBLIGATION c06_scalar
  OBLIGATION c06_enum
  OBLIGATION c06_leaf
  OBLIGATION c06_omission
  OBLIGATION c06_explicit_null_argument
  OBLIGATION c06_witness_omitted_variable_skips_default
  OBLIGATION c06_witness_null_becomes_singleton_list
  OBLIGATION c06_witness_variable_values_not_coerced
  OPEN c06_value
  OPEN c06_request
  OPEN c06_typed
-/
import AGV.Lemmas.Coerce

namespace AGV.Props.C06
open AGV.Core
open AGV.Spec.Coerce
open AGV.Model.Coerce
open AGV.Lemmas.Coerce

theorem none_d1 : Defects.none.omittedVarSkipsArgDefault = false := rfl

/-- **Omission is preserved exactly as the specification prescribes.**  Whenever the code's
    variable lookup (`var_value`: supplied value, else the definition's default) agrees with
    the specification's coerced variable values on which variables have a runtime value and
    what it is, `resolve_input_value` is the specification's substitution on every document
    value: a variable without runtime value makes an input-object field absent, a list item
    null, a whole argument absent. -/
theorem c06_resolve_refines_subst (defs : List VarDef) (raw vars : List (String × GValue))
    (h : ∀ n, varValue defs raw n = lookup vars n) (dv : DValue) :
    resolve defs raw dv = subst vars dv :=
  resolve_eq_subst defs raw vars h dv

/-- the hypothesis is met, e.g., by one supplied and one defaulted variable -/
example : ∀ n, varValue [⟨"a", .named "Int", none⟩, ⟨"b", .named "Int", some (.int 3)⟩, ⟨"c", .named "Int", none⟩]
    [("a", .int 1)] n = lookup [("a", .int 1), ("b", .int 3)] n := by
  intro n
  by_cases ha : n = "a"
  · subst ha; rfl
  · by_cases hb : n = "b"
    · subst hb; rfl
    · by_cases hc : n = "c"
      · subst hc; rfl
      · simp [varValue, lookup, List.find?, Ne.symm ha, Ne.symm hb, Ne.symm hc]

/-- **Explicit null** (repaired `Vec`): for every Rust type, `parse(Some(null))` succeeds
    exactly when the declared GraphQL type is nullable, and then yields the view of the
    specification's result (`None` / `MaybeUndefined::Null`). -/
theorem c06_null (T : Table) (json : Bool) (rty : RTy) :
    parseD Defects.none T rty .null = (coerce T json rty.gql .null).map (view T rty) := by
  simp only [parseD, parseWith, coerce, parseNull_repaired]
  split <;> simp [view]

/-- **Omission**: `parse(None)` succeeds exactly for nullable declared types and yields
    `Undefined` for `MaybeUndefined`, `None` for `Option`. -/
theorem c06_absent (rty : RTy) :
    parseAbsent Defects.none rty = if rty.gql.isNonNull then none else some (viewAbsent rty) := by
  cases rty with
  | mu t => simp [parseAbsent, viewAbsent, RTy.gql, gql_nullable_not_nonNull]
  | opt t => simp [parseAbsent, viewAbsent, parseNull_repaired]
  | vec t => simp [parseAbsent, viewAbsent, parseNull_repaired]
  | named n => simp [parseAbsent, viewAbsent, parseNull_repaired]

/-- **Built-in scalars**: the five scalar parsers accept exactly the values the specification
    coerces (Int: the 32-bit range, through C07's source-derived `i32` entry; Float from
    integers; ID from integers) and deliver the coerced value. -/
theorem c06_scalar (n : String) (v : GValue) :
    parseScalar n v = (coerceScalar n v).map leafView := by
  unfold parseScalar coerceScalar
  split
  · rw [parseInt_i32]; split <;> simp_all [leafView]
  all_goals simp_all [leafView]

/-- **Enums**: variable values arrive as JSON strings -/
theorem c06_enum (values : List String) (v : GValue) :
    parseEnum values v = (coerceEnum true values v).map leafView := by
  cases v <;> simp [parseEnum, coerceEnum, leafView] <;> split <;> simp_all [leafView]

/-- every non-null, non-list, non-object value at every named type of every table -/
theorem c06_leaf (T : Table) (n : String) (v : GValue) :
    parseLeaf T n v = (coerceLeaf T true n v).map leafView := by
  unfold parseLeaf coerceLeaf
  split <;> simp_all [c06_scalar, c06_enum]

/-- **Omitted argument / variable without runtime value** (repaired `get_param_value`): the
    resolver receives the argument default, or `None`/`Undefined` for a nullable argument, or
    the field fails for a non-null one — exactly §6.4.1; provided the default printed in the
    schema denotes the Rust default (`hd`, the harness cross-checks the table against the SDL). -/
theorem c06_omission (T : Table) (defs : List VarDef) (raw vars : List (String × GValue))
    (hv : ∀ n, varValue defs raw n = lookup vars n)
    (provided : List (String × DValue)) (a : InField)
    (hd : ∀ d, a.default = some d → parseD Defects.none T a.ty d = some (view T a.ty d))
    (h : lookup provided a.name = none ∨ ∃ n, lookup provided a.name = some (.var n) ∧ lookup vars n = none) :
    paramValue Defects.none T defs raw provided a
      = (coerceArg T vars provided a).map (viewArg T a.ty) := by
  rcases h with h | ⟨n, h, hn⟩
  · cases hdef : a.default with
    | some d => simp [paramValue, coerceArg, h, hdef, hd d hdef, viewArg]
    | none =>
      by_cases hnn : a.ty.gql.isNonNull = true <;>
        simp [paramValue, coerceArg, h, hdef, c06_absent, hnn, viewArg]
  · have hr : resolve defs raw (.var n) = none := by simp [resolve, hv, hn]
    cases hdef : a.default with
    | some d => simp [paramValue, coerceArg, h, hr, hn, hdef, hd d hdef, viewArg, none_d1]
    | none =>
      by_cases hnn : a.ty.gql.isNonNull = true <;>
        simp [paramValue, coerceArg, h, hr, hn, hdef, c06_absent, hnn, viewArg, none_d1]

/-- **Explicit null argument** (literal, or a variable whose value is null): never replaced
    by the default; fails for a non-null argument. -/
theorem c06_explicit_null_argument (T : Table) (defs : List VarDef) (raw vars : List (String × GValue))
    (hv : ∀ n, varValue defs raw n = lookup vars n)
    (provided : List (String × DValue)) (a : InField)
    (h : lookup provided a.name = some .null ∨ ∃ n, lookup provided a.name = some (.var n) ∧ lookup vars n = some .null) :
    paramValue Defects.none T defs raw provided a
      = if a.ty.gql.isNonNull then none else some RV.null := by
  rcases h with h | ⟨n, h, hn⟩
  · simp [paramValue, h, resolve, parseD, parseWith, parseNull_repaired]
  · have hr : resolve defs raw (.var n) = some .null := by simp [resolve, hv, hn]
    simp [paramValue, h, hr, parseD, parseWith, parseNull_repaired]

-- ------------------------------------------------------------------ defects of the pinned tree

def T0 : Table :=
  { types := [("Int", .scalar)],
    fields := [⟨"arg", [⟨"x", .named "Int", some (.int 7)⟩]⟩,
               ⟨"list", [⟨"xs", .vec (.opt (.named "Int")), some (.list [])⟩]⟩,
               ⟨"n", [⟨"x", .opt (.named "Int"), none⟩]⟩] }

def q (vd : VarDef) (field arg : String) : OpDef :=
  { ty := .query, name := none, vars := [vd], dirs := [],
    sels := [.field none field [(arg, .var "v")] [] [] ⟨0, 0⟩] }

/-- `query($v: Int){ arg(x: $v) }`, `v` omitted, `x: Int! = 7`: the specification passes 7, the
    pinned code fails the field (`Expected input type "Int", found null`) -/
theorem c06_witness_omitted_variable_skips_default :
    (run { omittedVarSkipsArgDefault := true } T0 (q ⟨"v", .named "Int", none⟩ "arg" "x") []).fields
        = [("arg", .err)]
    ∧ request T0 (q ⟨"v", .named "Int", none⟩ "arg" "x") [] = some [("arg", some [("x", .int 7)])]
    ∧ (run Defects.none T0 (q ⟨"v", .named "Int", none⟩ "arg" "x") []).fields
        = [("arg", .seen [("x", .int 7)])] := by
  refine ⟨rfl, rfl, rfl⟩

/-- `query($v: [Int]){ list(xs: $v) }`, `v` omitted, `xs: [Int]! = []`: the resolver is handed
    `[None]` -/
theorem c06_witness_null_becomes_singleton_list :
    (run { omittedVarSkipsArgDefault := true, nullToSingletonList := true } T0
        (q ⟨"v", .list (.named "Int"), none⟩ "list" "xs") []).fields
        = [("list", .seen [("xs", .list [.null])])]
    ∧ request T0 (q ⟨"v", .list (.named "Int"), none⟩ "list" "xs") []
        = some [("list", some [("xs", .list [])])] := by
  refine ⟨rfl, rfl⟩

/-- `query($v: Int!){ n(x: $v) }` without a value for the required `v`: the specification fails
    the request, the pinned code invokes the resolver with `None` -/
theorem c06_witness_variable_values_not_coerced :
    (run { varValueNotCoerced := true } T0 (q ⟨"v", .nonNull (.named "Int"), none⟩ "n" "x") []).fields
        = [("n", .seen [("x", .null)])]
    ∧ request T0 (q ⟨"v", .nonNull (.named "Int"), none⟩ "n" "x") [] = none
    ∧ (run Defects.none T0 (q ⟨"v", .nonNull (.named "Int"), none⟩ "n" "x") []).status = .reqerr := by
  refine ⟨rfl, rfl, rfl⟩

-- ------------------------------------------------------------------ open

/-- value-level refinement for lists and input objects (all values, every table whose defaults
    denote their Rust defaults): proved above for null, absent and leaf values; the inductive
    step through `Vec` wrapping, struct defaults and oneof objects is checked by the
    correspondence only -/
def c06_value : Prop :=
  ∀ (T : Table) (rty : RTy) (v : GValue),
    (∀ n o fs f d, T.find? n = some (.input o fs) → f ∈ fs → f.default = some d →
        fieldDefault Defects.none T f d = some (view T f.ty d)) →
    parseD Defects.none T rty v = (coerce T true rty.gql v).map (view T rty)

/-- request level: for a valid operation, a field whose specified coercion succeeds is invoked
    with exactly those arguments unless another field of the request fails; a field whose
    coercion fails is not invoked and the response has an error -/
def c06_request : Prop :=
  ∀ (T : Table) (op : OpDef) (raw : List (String × GValue)),
    (∀ vd ∈ op.vars, True) →
    match request T op raw with
    | none => (run Defects.none T op raw).status ≠ .ok ∧
        ∀ f ∈ (run Defects.none T op raw).fields, f.2 = .err ∨ f.2 = .notInvoked
    | some fs => ∀ p ∈ fs.zip (run Defects.none T op raw).fields,
        p.1.1 = p.2.1 ∧
        match p.1.2 with
        | some args => p.2.2 = .seen args ∨ (fs.any (·.2.isNone) ∧ (p.2.2 = .err ∨ p.2.2 = .notInvoked))
        | none => p.2.2 = .err ∨ p.2.2 = .notInvoked

/-- every value a resolver is handed is a value of the declared Rust type -/
def c06_typed : Prop :=
  ∀ (T : Table) (rty : RTy) (v : GValue) (r : RV),
    parseD Defects.none T rty v = some r → typed T rty r = true

end AGV.Props.C06
