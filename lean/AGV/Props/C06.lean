/-
  Property C06 — resolvers receive exactly the spec-coerced argument values.

  Model: AGV/Model/Coerce.lean (context.rs value resolution and parameter defaults,
  `InputType::parse` of Option / MaybeUndefined / Vec / scalars / enums / derived input objects
  and oneof objects, the validation pre-checks).  Spec: AGV/Spec/Coerce.lean (§3.5–3.13 input
  coercion, §6.1.2, §6.4.1, the Rust view of a coerced value).

  OBLIGATION c06_resolve_refines_subst
  OBLIGATION c06_null
  OBLIGATION c06_absent
  OBLIGATION c06_scalar
  OBLIGATION c06_enum
  OBLIGATION c06_leaf
  OBLIGATION c06_omission
  OBLIGATION c06_explicit_null_argument
  OBLIGATION c06_witness_omitted_variable_skips_default
  OBLIGATION c06_witness_null_becomes_singleton_list
  OBLIGATION c06_witness_variable_values_not_coerced
  OBLIGATION c06_witness_literal_unchecked_beside_unsupplied_variable
  OBLIGATION c06_witness_non_object_passes_input_object
  Value level (lists incl. single-value wrapping and nested lists, struct defaults, oneof objects),
  for well-formed tables (`wfTable`) and values whose object literals have distinct, declared keys
  (`shapeOk`, what `is_valid_input_value` checks on a map before anything is parsed):
  OBLIGATION c06_value_wf
  every value a resolver is handed is a value of the declared Rust type (well-formed tables):
  OBLIGATION c06_typed_wf
  The statements as first written (`c06_value`, `c06_typed`, `c06_request`, and the first
  correction `c06_request_wf`, all kept as `def … : Prop`) are REFUTED by kernel-checked
  counterexamples:
  OBLIGATION c06_value_false
  OBLIGATION c06_typed_false
  OBLIGATION c06_request_false
  OBLIGATION c06_request_wf_false
  OBLIGATION c06_witness_oneof_variant_registered_nonnull
  Request level for VALID documents (`docOk`: declared distinct arguments and keys, literals the
  specification accepts, variables in allowed positions) whose arguments are variables or
  variable-free literals (`flatOp`), over well-formed tables (`wfTable2`), for variable values
  that are maps with 32-bit integers:
  OBLIGATION c06_request_partial
  Variables INSIDE list / input-object literals.  There the code parses the literal with the RAW
  variable values in it, the specification coerces the literal with the COERCED values in it:
  the specification's coercion is idempotent up to the Rust value (a coerced value — single values
  wrapped into lists, input objects completed with defaults — coerces again, as a literal, to the
  same Rust value), for every declared type incl. input objects, provided the schema defaults of
  input fields are coerced values (`defaultsCoerced`):
  OBLIGATION c06_recoerce
  coercion commutes with substitution, for every valid literal with variables of any type
  (scalars, enums, lists, input objects, oneof objects) at any depth:
  OBLIGATION c06_subst_coerce
  The request-level statement without `flatOp` as first written (`c06_request_valid`, kept as
  `def … : Prop`) is REFUTED: nothing made the schema default of an input field a coerced value
  (`{x: 1, zzz: 2}` with an undeclared key is ignored by the generated `parse` and by `view`, but
  refused when the specification coerces the completed variable value again inside a literal):
  OBLIGATION c06_request_valid_false
  With that side condition the request level holds for ALL valid documents:
  OBLIGATION c06_request_valid_wf
  `ValidationMode::Fast` (`runMode true`): no rule looks at argument values, the generated `parse`
  functions alone decide.  The toggle-free `parse` of a supplied value (`parseK`: an object with
  an undeclared key is refused) refuses EXACTLY what the specification's input coercion refuses,
  for every table, type and value that is a map — no "declared keys" hypothesis any more:
  OBLIGATION c06_fast_mode_refines_spec
  an argument given as an arbitrary (valid or malformed) variable-free literal:
  OBLIGATION c06_fast_mode_argument
  in either mode every value handed to a resolver is a value of the declared Rust type:
  OBLIGATION c06_never_mistyped
  valid documents behave in Fast mode exactly as specified:
  OBLIGATION c06_fast_mode_request_valid
  the pinned generated struct `parse` ignores undeclared keys (toggle `undeclaredKeysIgnored`):
  OBLIGATION c06_witness_undeclared_keys_ignored
  what the check must notice — the seeded variant of the generated oneof `parse` (first declared
  variant present wins; /verif/seeded/C06-r3) accepts `{a: 1, b: "x"}`, the model and the
  specification refuse it, in Fast mode and beside a variable without runtime value:
  OBLIGATION c06_witness_oneof_first_present
-/
import AGV.Lemmas.CoerceTyped
import AGV.Lemmas.CoerceRequest
import AGV.Lemmas.CoerceReqProof
import AGV.Lemmas.CoerceNested
import AGV.Lemmas.CoerceFast

namespace AGV.Props.C06
open AGV.Core
open AGV.Spec.Coerce
open AGV.Model.Coerce
open AGV.Lemmas.Coerce

theorem none_d1 : Defects.none.omittedVarSkipsArgDefault = false := rfl

/-- **Omission is preserved exactly as the specification prescribes.**  Whenever the code's
    variable lookup (`var_value`: supplied value, else the definition's default) agrees with
    the specification's coerced variable values on which variables have a runtime value and
    what it is, `resolve_input_value` is the specification's substitution on every document
    value: a variable without runtime value makes an input-object field absent, a list item
    null, a whole argument absent. -/
theorem c06_resolve_refines_subst (defs : List VarDef) (raw vars : List (String × GValue))
    (h : ∀ n, varValue defs raw n = lookup vars n) (dv : DValue) :
    resolve defs raw dv = subst vars dv :=
  resolve_eq_subst defs raw vars h dv

/-- the hypothesis is met, e.g., by one supplied and one defaulted variable -/
example : ∀ n, varValue [⟨"a", .named "Int", none⟩, ⟨"b", .named "Int", some (.int 3)⟩, ⟨"c", .named "Int", none⟩]
    [("a", .int 1)] n = lookup [("a", .int 1), ("b", .int 3)] n := by
  intro n
  by_cases ha : n = "a"
  · subst ha; rfl
  · by_cases hb : n = "b"
    · subst hb; rfl
    · by_cases hc : n = "c"
      · subst hc; rfl
      · simp [varValue, lookup, List.find?, Ne.symm ha, Ne.symm hb, Ne.symm hc]

/-- **Explicit null** (repaired `Vec`): for every Rust type, `parse(Some(null))` succeeds
    exactly when the declared GraphQL type is nullable, and then yields the view of the
    specification's result (`None` / `MaybeUndefined::Null`). -/
theorem c06_null (T : Table) (json : Bool) (rty : RTy) :
    parseD Defects.none T rty .null = (coerce T json rty.gql .null).map (view T rty) := by
  simp only [parseD, parseWith, coerce, parseNull_repaired]
  split <;> simp [view]

/-- **Omission**: `parse(None)` succeeds exactly for nullable declared types and yields
    `Undefined` for `MaybeUndefined`, `None` for `Option`. -/
theorem c06_absent (rty : RTy) :
    parseAbsent Defects.none rty = if rty.gql.isNonNull then none else some (viewAbsent rty) := by
  cases rty with
  | mu t => simp [parseAbsent, viewAbsent, RTy.gql, gql_nullable_not_nonNull]
  | opt t => simp [parseAbsent, viewAbsent, parseNull_repaired]
  | vec t => simp [parseAbsent, viewAbsent, parseNull_repaired]
  | named n => simp [parseAbsent, viewAbsent, parseNull_repaired]

/-- **Built-in scalars**: the five scalar parsers accept exactly the values the specification
    coerces (Int: the 32-bit range, through C07's source-derived `i32` entry; Float from
    integers; ID from integers) and deliver the coerced value. -/
theorem c06_scalar (n : String) (v : GValue) :
    parseScalar n v = (coerceScalar n v).map leafView := by
  unfold parseScalar coerceScalar
  split
  · rw [parseInt_i32]; split <;> simp_all [leafView]
  all_goals simp_all [leafView]

/-- **Enums**: variable values arrive as JSON strings -/
theorem c06_enum (values : List String) (v : GValue) :
    parseEnum values v = (coerceEnum true values v).map leafView := by
  cases v <;> simp [parseEnum, coerceEnum, leafView] <;> split <;> simp_all [leafView]

/-- every non-null, non-list, non-object value at every named type of every table -/
theorem c06_leaf (T : Table) (n : String) (v : GValue) :
    parseLeaf T n v = (coerceLeaf T true n v).map leafView := by
  unfold parseLeaf coerceLeaf
  split <;> simp_all [c06_scalar, c06_enum]

/-- **Omitted argument / variable without runtime value** (repaired `get_param_value`): the
    resolver receives the argument default, or `None`/`Undefined` for a nullable argument, or
    the field fails for a non-null one — exactly §6.4.1; provided the default printed in the
    schema denotes the Rust default (`hd`, the harness cross-checks the table against the SDL). -/
theorem c06_omission (T : Table) (defs : List VarDef) (raw vars : List (String × GValue))
    (hv : ∀ n, varValue defs raw n = lookup vars n)
    (provided : List (String × DValue)) (a : InField)
    (hd : ∀ d, a.default = some d → parseD Defects.none T a.ty d = some (view T a.ty d))
    (h : lookup provided a.name = none ∨ ∃ n, lookup provided a.name = some (.var n) ∧ lookup vars n = none) :
    paramValue Defects.none T defs raw provided a
      = (coerceArg T vars provided a).map (viewArg T a.ty) := by
  rcases h with h | ⟨n, h, hn⟩
  · cases hdef : a.default with
    | some d => simp [paramValue, coerceArg, h, hdef, hd d hdef, viewArg]
    | none =>
      by_cases hnn : a.ty.gql.isNonNull = true <;>
        simp [paramValue, coerceArg, h, hdef, c06_absent, hnn, viewArg]
  · have hr : resolve defs raw (.var n) = none := by simp [resolve, hv, hn]
    cases hdef : a.default with
    | some d => simp [paramValue, coerceArg, h, hr, hn, hdef, hd d hdef, viewArg, none_d1]
    | none =>
      by_cases hnn : a.ty.gql.isNonNull = true <;>
        simp [paramValue, coerceArg, h, hr, hn, hdef, c06_absent, hnn, viewArg, none_d1]

/-- **Explicit null argument** (literal, or a variable whose value is null): never replaced
    by the default; fails for a non-null argument. -/
theorem c06_explicit_null_argument (T : Table) (defs : List VarDef) (raw vars : List (String × GValue))
    (hv : ∀ n, varValue defs raw n = lookup vars n)
    (provided : List (String × DValue)) (a : InField)
    (h : lookup provided a.name = some .null ∨ ∃ n, lookup provided a.name = some (.var n) ∧ lookup vars n = some .null) :
    paramValue Defects.none T defs raw provided a
      = if a.ty.gql.isNonNull then none else some RV.null := by
  rcases h with h | ⟨n, h, hn⟩
  · simp [paramValue, h, resolve, parseK_null, parseD, parseWith, parseNull_repaired]
  · have hr : resolve defs raw (.var n) = some .null := by simp [resolve, hv, hn]
    simp [paramValue, h, hr, parseK_null, parseD, parseWith, parseNull_repaired]

-- ------------------------------------------------------------------ defects of the pinned tree

def T0 : Table :=
  { types := [("Int", .scalar)],
    fields := [⟨"arg", [⟨"x", .named "Int", some (.int 7)⟩]⟩,
               ⟨"list", [⟨"xs", .vec (.opt (.named "Int")), some (.list [])⟩]⟩,
               ⟨"n", [⟨"x", .opt (.named "Int"), none⟩]⟩] }

def q (vd : VarDef) (field arg : String) : OpDef :=
  { ty := .query, name := none, vars := [vd], dirs := [],
    sels := [.field none field [(arg, .var "v")] [] [] ⟨0, 0⟩] }

/-- `query($v: Int){ arg(x: $v) }`, `v` omitted, `x: Int! = 7`: the specification passes 7, the
    pinned code fails the field (`Expected input type "Int", found null`) -/
theorem c06_witness_omitted_variable_skips_default :
    (run { omittedVarSkipsArgDefault := true } T0 (q ⟨"v", .named "Int", none⟩ "arg" "x") []).fields
        = [("arg", .err)]
    ∧ request T0 (q ⟨"v", .named "Int", none⟩ "arg" "x") [] = some [("arg", some [("x", .int 7)])]
    ∧ (run Defects.none T0 (q ⟨"v", .named "Int", none⟩ "arg" "x") []).fields
        = [("arg", .seen [("x", .int 7)])] := by
  refine ⟨rfl, rfl, rfl⟩

/-- `query($v: [Int]){ list(xs: $v) }`, `v` omitted, `xs: [Int]! = []`: the resolver is handed
    `[None]` -/
theorem c06_witness_null_becomes_singleton_list :
    (run { omittedVarSkipsArgDefault := true, nullToSingletonList := true } T0
        (q ⟨"v", .list (.named "Int"), none⟩ "list" "xs") []).fields
        = [("list", .seen [("xs", .list [.null])])]
    ∧ request T0 (q ⟨"v", .list (.named "Int"), none⟩ "list" "xs") []
        = some [("list", some [("xs", .list [])])] := by
  refine ⟨rfl, rfl⟩

/-- `query($v: Int!){ n(x: $v) }` without a value for the required `v`: the specification fails
    the request, the pinned code invokes the resolver with `None` -/
theorem c06_witness_variable_values_not_coerced :
    (run { varValueNotCoerced := true } T0 (q ⟨"v", .nonNull (.named "Int"), none⟩ "n" "x") []).fields
        = [("n", .seen [("x", .null)])]
    ∧ request T0 (q ⟨"v", .nonNull (.named "Int"), none⟩ "n" "x") [] = none
    ∧ (run Defects.none T0 (q ⟨"v", .nonNull (.named "Int"), none⟩ "n" "x") []).status = .reqerr := by
  refine ⟨rfl, rfl, rfl⟩

-- ------------------------------------------------------------------ values: lists, structs, oneof objects

/-- value-level refinement as first stated, for ALL tables and values.  FALSE (`c06_value_false`):
    the generated struct `parse` ignores undeclared keys (and later duplicates of a key), which
    the specification's input coercion rejects; `is_valid_input_value` refuses them before
    anything is parsed, so the statement needs that shape as a hypothesis (`c06_value_wf`). -/
def c06_value : Prop :=
  ∀ (T : Table) (rty : RTy) (v : GValue),
    (∀ n o fs f d, T.find? n = some (.input o fs) → f ∈ fs → f.default = some d →
        fieldDefault Defects.none T f d = some (view T f.ty d)) →
    parseD Defects.none T rty v = (coerce T true rty.gql v).map (view T rty)

/-- **Value-level refinement.**  For every well-formed table (field names of an input object
    pairwise distinct, a oneof variant of non-null type), every Rust type and every value whose
    object literals carry pairwise distinct, declared keys: the repaired `InputType::parse`
    (`Vec` incl. the single-value rule and nested lists, `Option`, `MaybeUndefined`, derived input
    objects with field defaults, oneof objects) succeeds exactly when the specification's input
    coercion for the declared GraphQL type does, and then delivers the Rust view of the coerced
    value — provided the schema defaults of input fields denote their Rust defaults (`hd`). -/
theorem c06_value_wf (T : Table) (rty : RTy) (v : GValue) (hwf : wfTable T = true)
    (hd : ∀ n o fs f d, T.find? n = some (.input o fs) → f ∈ fs → f.default = some d →
        fieldDefault Defects.none T f d = some (view T f.ty d))
    (hs : shapeOk T rty.gql v = true) :
    parseD Defects.none T rty v = (coerce T true rty.gql v).map (view T rty) :=
  parse_value T (fieldDefault Defects.none T) hwf hd v rty hs

theorem find_mem {T : Table} {n : String} {d : NDef} (h : T.find? n = some d) : (n, d) ∈ T.types := by
  simp only [Table.find?, Option.map_eq_some_iff] at h
  obtain ⟨nd, hnd, rfl⟩ := h
  have h1 := List.mem_of_find?_eq_some hnd
  have h2 : nd.1 = n := by simpa using List.find?_some hnd
  rw [← h2]; exact h1

/-- a struct with an optional field, a defaulted field and a nested list field; a oneof object -/
def T2 : Table :=
  { types := [("Int", .scalar),
              ("I", .input false [⟨"a", .opt (.named "Int"), none⟩, ⟨"b", .named "Int", some (.int 5)⟩,
                                  ⟨"c", .vec (.vec (.named "Int")), none⟩]),
              ("O", .input true [⟨"x", .opt (.named "Int"), none⟩, ⟨"y", .opt (.named "I"), none⟩])],
    fields := [⟨"f", [⟨"x", .opt (.named "I"), none⟩]⟩] }

/-- the hypotheses of `c06_value_wf` are met by `T2` and the value `{y: {c: 1}}` at `[O!]!`: the
    single value is wrapped into a list, `c: 1` into `[[1]]`, `b` takes its default, `a` is `None` -/
theorem T2_defaults : ∀ n o fs f d, T2.find? n = some (.input o fs) → f ∈ fs → f.default = some d →
    fieldDefault Defects.none T2 f d = some (view T2 f.ty d) := by
  intro n o fs f d hfind hf hdef
  have hmem := find_mem hfind
  simp only [T2, List.mem_cons, Prod.mk.injEq, reduceCtorEq, and_false, false_or, List.mem_nil_iff, or_false,
    NDef.input.injEq] at hmem
  rcases hmem with ⟨rfl, rfl, rfl⟩ | ⟨rfl, rfl, rfl⟩
  · simp only [List.mem_cons, List.mem_nil_iff, or_false] at hf
    rcases hf with rfl | rfl | rfl
    · cases hdef
    · cases hdef; rfl
    · cases hdef
  · simp only [List.mem_cons, List.mem_nil_iff, or_false] at hf
    rcases hf with rfl | rfl <;> cases hdef

example : wfTable T2 = true ∧
    shapeOk T2 (RTy.vec (.named "O")).gql (.obj [("y", .obj [("c", .int 1)])]) = true ∧
    parseD Defects.none T2 (.vec (.named "O")) (.obj [("y", .obj [("c", .int 1)])]) =
      some (.list [.obj [("y", .obj [("a", .null), ("b", .int 5), ("c", .list [.list [.int 1]])])]]) :=
  ⟨by decide, by decide, by rfl⟩

/-- `c06_value` fails on the well-formed table `T2`: `{c: [], z: 1}` at the struct `I` (which has
    no field `z`) is parsed to `I { a: None, b: 5, c: [] }`, the specification rejects the
    undeclared key -/
theorem c06_value_false : ¬ c06_value := by
  intro h
  have h := h T2 (.named "I") (.obj [("c", .list []), ("z", .int 1)]) T2_defaults
  have h1 : parseD Defects.none T2 (.named "I") (.obj [("c", .list []), ("z", .int 1)]) =
      some (.obj [("a", .null), ("b", .int 5), ("c", .list [])]) := by rfl
  have h2 : (coerce T2 true (RTy.named "I").gql (.obj [("c", .list []), ("z", .int 1)])).map
      (view T2 (.named "I")) = none := by rfl
  rw [h1, h2] at h
  cases h

-- ------------------------------------------------------------------ typed

/-- every value a resolver is handed is a value of the declared Rust type — as first stated, for
    ALL tables.  FALSE (`c06_typed_false`) for a table no derive macro produces: a oneof variant of
    nullable type (`MaybeUndefined<T>`) lets `null` through; see `c06_typed_wf`. -/
def c06_typed : Prop :=
  ∀ (T : Table) (rty : RTy) (v : GValue) (r : RV),
    parseD Defects.none T rty v = some r → typed T rty r = true

/-- **Well-typedness.**  For every well-formed table, every Rust type and EVERY value (no shape
    hypothesis): whatever the repaired `InputType::parse` returns — for an argument, a list
    item, a struct field incl. its default and the `None`/`Undefined` of an absent field, a oneof
    variant — is a value of the Rust type it was parsed for. -/
theorem c06_typed_wf (T : Table) (hwf : wfTable T = true) (rty : RTy) (v : GValue) (r : RV)
    (h : parseD Defects.none T rty v = some r) : typed T rty r = true :=
  parseD_typed T hwf rty v r h

example : wfTable T2 = true ∧ ∃ r, parseD Defects.none T2 (.vec (.named "O")) (.obj [("y", .obj [("c", .int 1)])]) = some r :=
  ⟨by decide, _, rfl⟩

def T3 : Table :=
  { types := [("Int", .scalar), ("O", .input true [⟨"m", .mu (.named "Int"), none⟩])], fields := [] }

theorem c06_typed_false : ¬ c06_typed := by
  intro h
  have h := h T3 (.named "O") (.obj [("m", .null)]) (.obj [("m", .null)]) (by rfl)
  have h2 : typed T3 (.named "O") (.obj [("m", .null)]) = false := by rfl
  rw [h2] at h
  cases h

-- ------------------------------------------------------------------ request level

/-- request level, as first stated: for every operation, a field whose specified coercion
    succeeds is invoked with exactly those arguments unless another field of the request fails; a
    field whose coercion fails is not invoked and the response has an error.
    FALSE (`c06_request_false`) because nothing restricts the document: a string literal at an
    enum position (`f(x: "RED")`) is accepted by `is_valid_input_value` and by `parse_enum`, while
    the specification accepts a string for an enum only from JSON variables.  Documents like this
    are invalid (§5.6.1) and outside the property's quantifier; the corrected statement is
    `c06_request_wf`. -/
def c06_request : Prop :=
  ∀ (T : Table) (op : OpDef) (raw : List (String × GValue)),
    (∀ vd ∈ op.vars, True) →
    match request T op raw with
    | none => (run Defects.none T op raw).status ≠ .ok ∧
        ∀ f ∈ (run Defects.none T op raw).fields, f.2 = .err ∨ f.2 = .notInvoked
    | some fs => ∀ p ∈ fs.zip (run Defects.none T op raw).fields,
        p.1.1 = p.2.1 ∧
        match p.1.2 with
        | some args => p.2.2 = .seen args ∨ (fs.any (·.2.isNone) ∧ (p.2.2 = .err ∨ p.2.2 = .notInvoked))
        | none => p.2.2 = .err ∨ p.2.2 = .notInvoked

/-- one enum, one root field `f(x: Option<Color>)` -/
def T5 : Table :=
  { types := [("Color", .enum ["RED"])],
    fields := [⟨"f", [⟨"x", .opt (.named "Color"), none⟩]⟩] }

/-- `{ f(x: "RED") }` -/
def opEnumString : OpDef :=
  { ty := .query, name := none, vars := [], dirs := [], sels := [.field none "f" [("x", .str "RED")] [] [] ⟨0, 0⟩] }

theorem c06_request_false : ¬ c06_request := by
  intro h
  have h := h T5 opEnumString [] (fun _ _ => trivial)
  have hreq : request T5 opEnumString [] = some [("f", none)] := by rfl
  have hrun : (run Defects.none T5 opEnumString []).fields =
      [("f", .seen [("x", .enum "RED")])] := by rfl
  rw [hreq] at h
  simp only [hrun] at h
  have h := (h (("f", none), ("f", .seen [("x", .enum "RED")])) (by simp)).2
  rcases h with h | h <;> cases h

/-- one struct `I { a: Option<i32> }`, one root field `f(x: Option<I>)` -/
def T4 : Table :=
  { types := [("Int", .scalar), ("I", .input false [⟨"a", .opt (.named "Int"), none⟩])],
    fields := [⟨"f", [⟨"x", .opt (.named "I"), none⟩]⟩] }

/-- `query($v: Int){ f(x: {a: $v, zzz: 1}) }` without a value for `v` -/
def opUnknownKey : OpDef :=
  { ty := .query, name := none, vars := [⟨"v", .named "Int", none⟩], dirs := [], sels := [.field none "f" [("x", .obj [("a", .var "v"), ("zzz", .int 1)])] [] [] ⟨0, 0⟩] }

/-- ArgumentsOfCorrectType skips an argument literal that mentions a variable without supplied
    value (`into_const_with` fails), so nothing checks the keys of `{a: $v, zzz: 1}`; the
    generated `parse` ignores the undeclared key and the resolver is invoked, where the
    specification fails the field.  Repaired: the literal is checked around the variable and the
    request is refused.  (With the rule's gap alone and a generated `parse` that refuses undeclared
    keys, the field fails during execution.) -/
theorem c06_witness_literal_unchecked_beside_unsupplied_variable :
    (run { literalUncheckedBesideVar := true, undeclaredKeysIgnored := true } T4 opUnknownKey []).fields
        = [("f", .seen [("x", .obj [("a", .null)])])]
    ∧ request T4 opUnknownKey [] = some [("f", none)]
    ∧ (run { literalUncheckedBesideVar := true } T4 opUnknownKey []).fields = [("f", .err)]
    ∧ (run Defects.none T4 opUnknownKey []).status = .reqerr
    ∧ (run Defects.none T4 opUnknownKey []).fields = [("f", .notInvoked)] := by
  refine ⟨rfl, rfl, rfl, rfl, rfl⟩

/-- the table's schema defaults denote the Rust defaults -/
def defaultsOk (T : Table) : Prop :=
  (∀ n o fs f d, T.find? n = some (.input o fs) → f ∈ fs → f.default = some d →
      fieldDefault Defects.none T f d = some (view T f.ty d))
  ∧ (∀ sig ∈ T.fields, ∀ a ∈ sig.args, ∀ d, a.default = some d →
      parseD Defects.none T a.ty d = some (view T a.ty d))

/-- request level, first correction: for every well-formed table whose defaults denote the Rust
    defaults, every VALID query operation (`docOk`) and every assignment of variable values whose
    integers are 32-bit: if variable coercion fails nothing is invoked and the response has an
    error; otherwise a root field whose specified argument coercion succeeds is invoked with exactly
    the specified arguments unless some field of the request fails, and a field whose coercion
    fails is not invoked and the response has an error.  About the repaired model (all toggles off).
    FALSE (`c06_request_wf_false`): `wfTable` lets a oneof variant be registered non-null;
    `is_valid_input_value` then demands every variant as a required field and refuses `{x: 1}`,
    which the specification coerces (`c06_witness_oneof_variant_registered_nonnull`).  (The first
    refutation went through a non-object value at an input-object type, since repaired in the
    code and now the toggle `nonObjectPassesInputObject`:
    `c06_witness_non_object_passes_input_object`.)  Corrected: `c06_request_partial` (proved),
    `c06_request_valid` (refuted once more: schema defaults),
    `c06_request_valid_wf` (proved, all valid documents). -/
def c06_request_wf : Prop :=
  ∀ (T : Table) (op : OpDef) (raw : List (String × GValue)),
    wfTable T = true → defaultsOk T → docOk T op = true →
    (∀ p ∈ raw, intsSmall p.2 = true) →
    match request T op raw with
    | none => (run Defects.none T op raw).status ≠ .ok ∧
        ∀ f ∈ (run Defects.none T op raw).fields, f.2 = .err ∨ f.2 = .notInvoked
    | some fs =>
      ((run Defects.none T op raw).status = .ok ↔ fs.all (·.2.isSome) = true) ∧
      ∀ p ∈ fs.zip (run Defects.none T op raw).fields,
        p.1.1 = p.2.1 ∧
        match p.1.2 with
        | some args => p.2.2 = .seen args ∨ (fs.any (·.2.isNone) ∧ (p.2.2 = .err ∨ p.2.2 = .notInvoked))
        | none => p.2.2 = .err ∨ p.2.2 = .notInvoked

/-- the hypotheses are satisfiable: the witness tables are well formed, and
    `query($v: Int){ f(x: {a: $v}) }` is a valid document over `T4` -/
example : wfTable T4 = true ∧ docOk T4 { opUnknownKey with
    sels := [.field none "f" [("x", .obj [("a", .var "v")])] [] [] ⟨0, 0⟩] } = true
    ∧ docOk T4 opUnknownKey = false ∧ docOk T5 opEnumString = false := by
  refine ⟨rfl, rfl, rfl, rfl⟩

-- ------------------------------------------------------------------ request level, second correction

/-- one struct, `f(x: Option<I>)` and an argument-less root field `g` -/
def T6 : Table :=
  { types := [("Int", .scalar), ("I", .input false [⟨"a", .opt (.named "Int"), none⟩])],
    fields := [⟨"f", [⟨"x", .opt (.named "I"), none⟩]⟩, ⟨"g", []⟩] }

/-- `query($v: I){ g f(x: $v) }` -/
def opHole : OpDef :=
  { ty := .query, name := none, vars := [⟨"v", .named "I", none⟩], dirs := [],
    sels := [.field none "g" [] [] [] ⟨0, 0⟩, .field none "f" [("x", .var "v")] [] [] ⟨0, 0⟩] }

theorem T6_defaults : defaultsOk T6 := by
  constructor
  · intro n o fs f d hfind hf hdef
    have hmem := find_mem hfind
    simp only [T6, List.mem_cons, Prod.mk.injEq, reduceCtorEq, and_false, false_or, List.mem_nil_iff, or_false,
      NDef.input.injEq] at hmem
    obtain ⟨rfl, rfl, rfl⟩ := hmem
    simp only [List.mem_cons, List.mem_nil_iff, or_false] at hf
    subst hf; cases hdef
  · intro sig hsig a ha d hdef
    simp only [T6, List.mem_cons, List.mem_nil_iff, or_false] at hsig
    rcases hsig with rfl | rfl
    · simp only [List.mem_cons, List.mem_nil_iff, or_false] at ha
      subst ha; cases hdef
    · simp at ha

/-- `{ g f(x: 5) }`: an invalid document (§5.6.1) -/
def opHoleLit : OpDef :=
  { ty := .query, name := none, vars := [], dirs := [],
    sels := [.field none "g" [] [] [] ⟨0, 0⟩, .field none "f" [("x", .int 5)] [] [] ⟨0, 0⟩] }

/-- `is_valid_input_value` returned no error for a non-object value where an input object is
    expected (`_ => None`): with `{"v": 5}` for `$v: I` (checked against the declared type) and for
    the literal `f(x: 5)` the request passed validation, `g` ran and only `f` failed; the
    specification fails variable coercion (the whole request) resp. the document is invalid.
    Repaired: the request is refused before anything runs. -/
theorem c06_witness_non_object_passes_input_object :
    (run { nonObjectPassesInputObject := true } T6 opHole [("v", .int 5)]).fields
        = [("g", .seen []), ("f", .err)]
    ∧ request T6 opHole [("v", .int 5)] = none
    ∧ (run Defects.none T6 opHole [("v", .int 5)]).status = .reqerr
    ∧ (run Defects.none T6 opHole [("v", .int 5)]).fields = [("g", .notInvoked), ("f", .notInvoked)]
    ∧ (run { nonObjectPassesInputObject := true } T6 opHoleLit []).fields = [("g", .seen []), ("f", .err)]
    ∧ docOk T6 opHoleLit = false
    ∧ (run Defects.none T6 opHoleLit []).status = .reqerr
    ∧ (run { nonObjectPassesInputObject := true } T6 opHole [("v", .list [])]).fields
        = [("g", .seen []), ("f", .err)]
    ∧ (run Defects.none T6 opHole [("v", .list [])]).status = .reqerr := by
  refine ⟨rfl, rfl, rfl, rfl, rfl, rfl, rfl, rfl, rfl⟩

/-- a oneof object whose variants are registered non-null (no derive macro produces it) -/
def T7 : Table :=
  { types := [("Int", .scalar), ("O", .input true [⟨"x", .named "Int", none⟩, ⟨"y", .named "Int", none⟩])],
    fields := [⟨"f", [⟨"p", .opt (.named "O"), none⟩]⟩] }

/-- `{ f(p: {x: 1}) }` -/
def opOneof : OpDef :=
  { ty := .query, name := none, vars := [], dirs := [],
    sels := [.field none "f" [("p", .obj [("x", .int 1)])] [] [] ⟨0, 0⟩] }

/-- why `c06_request_wf` fails: `wfTable` lets a oneof variant be registered with a
    non-null type; `is_valid_input_value` then demands every variant as a required field and
    refuses `{x: 1}`, which the specification coerces.  The derive macro registers variants as
    `Option<T>` (`wfTable2`). -/
theorem c06_witness_oneof_variant_registered_nonnull :
    wfTable T7 = true ∧ docOk T7 opOneof = true ∧ wfTable2 T7 = false
    ∧ request T7 opOneof [] = some [("f", some [("p", .obj [("x", .int 1)])])]
    ∧ (run Defects.none T7 opOneof []).status = .reqerr := by
  refine ⟨rfl, rfl, rfl, rfl, rfl⟩

theorem T7_defaults : defaultsOk T7 := by
  constructor
  · intro n o fs f d hfind hf hdef
    have hmem := find_mem hfind
    simp only [T7, List.mem_cons, Prod.mk.injEq, reduceCtorEq, and_false, false_or, List.mem_nil_iff, or_false,
      NDef.input.injEq] at hmem
    obtain ⟨rfl, rfl, rfl⟩ := hmem
    simp only [List.mem_cons, List.mem_nil_iff, or_false] at hf
    rcases hf with rfl | rfl <;> cases hdef
  · intro sig hsig a ha d hdef
    simp only [T7, List.mem_cons, List.mem_nil_iff, or_false] at hsig
    subst hsig
    simp only [List.mem_cons, List.mem_nil_iff, or_false] at ha
    subst ha; cases hdef

theorem c06_request_wf_false : ¬ c06_request_wf := by
  intro h
  have h := h T7 opOneof [] (by rfl) T7_defaults (by rfl) (by intro p hp; cases hp)
  have hreq : request T7 opOneof [] = some [("f", some [("p", .obj [("x", .int 1)])])] := by rfl
  have hrun : (run Defects.none T7 opOneof []).status = .reqerr := by rfl
  rw [hreq] at h
  have h1 := h.1.mpr (by rfl)
  rw [hrun] at h1
  cases h1

/-- **Request level, flat arguments.**  For every well-formed table (`wfTable2`: as `wfTable`, oneof
    variants registered nullable, argument names of a root field pairwise distinct) whose defaults
    denote the Rust defaults, every VALID query operation (`docOk`) in which every argument is a
    variable or a literal without variables (`flatOp`), and every assignment of variable values
    that are maps (`distinctKeys`) and have 32-bit integers (`intsSmall`): if variable coercion fails nothing is invoked and
    the response has an error; otherwise a root field whose specified argument coercion succeeds is
    invoked with exactly the specified arguments — through list coercion of variable values and
    literals, input-object defaults, oneof objects, variable and argument defaults — unless some
    field of the request fails, and a field whose coercion fails is not invoked and the response
    has an error.  About the repaired model (all toggles off). -/
theorem c06_request_partial (T : Table) (op : OpDef) (raw : List (String × GValue))
    (hwf : wfTable2 T = true) (hdef : defaultsOk T) (hdoc : docOk T op = true) (hflat : flatOp op = true)
    (hsmall : ∀ p ∈ raw, intsSmall p.2 = true) (hkeys : ∀ p ∈ raw, distinctKeys p.2 = true) :
    match request T op raw with
    | none => (run Defects.none T op raw).status ≠ .ok ∧
        ∀ f ∈ (run Defects.none T op raw).fields, f.2 = .err ∨ f.2 = .notInvoked
    | some fs =>
      ((run Defects.none T op raw).status = .ok ↔ fs.all (·.2.isSome) = true) ∧
      ∀ p ∈ fs.zip (run Defects.none T op raw).fields,
        p.1.1 = p.2.1 ∧
        match p.1.2 with
        | some args => p.2.2 = .seen args ∨ (fs.any (·.2.isNone) ∧ (p.2.2 = .err ∨ p.2.2 = .notInvoked))
        | none => p.2.2 = .err ∨ p.2.2 = .notInvoked := by
  have H : ReqHyp T op raw := ⟨hwf, hdef.1, hdef.2, hdoc, hflat, hsmall, hkeys⟩
  cases hcv : coerceVars T op.vars raw with
  | none =>
    have hreq : request T op raw = none := by simp [request, hcv]
    obtain ⟨h1, h2⟩ := H.request_none hcv
    rw [hreq]
    simp only [h1, h2]
    refine ⟨by simp, ?_⟩
    intro f hf
    simp only [List.mem_map] at hf
    obtain ⟨r, _, rfl⟩ := hf
    exact Or.inr rfl
  | some vars =>
    obtain ⟨h1, h2⟩ := H.request_some vars hcv
    rw [request_eq T op raw vars hcv]
    refine ⟨h1, ?_⟩
    intro p hp
    obtain ⟨ha, hb, hc⟩ := h2 p hp
    refine ⟨ha, ?_⟩
    split
    · rename_i args hargs; exact hb args hargs
    · rename_i hnone; exact hc hnone

/-- the hypotheses are met by the table `T2` (struct with optional, defaulted and nested-list
    fields), `query($v: I, $n: Int = 3){ f(x: $v) k: f(x: {c: 1, a: 7}) }` and `v = {c: [2], b: 4}`:
    both resolvers are invoked, `c: [2]` arrives as `[[2]]`, `c: 1` as `[[1]]`, the missing `b` as 5 -/
def opFlat : OpDef :=
  { ty := .query, name := none, vars := [⟨"v", .named "I", none⟩, ⟨"n", .named "Int", some (.int 3)⟩], dirs := [],
    sels := [.field none "f" [("x", .var "v")] [] [] ⟨0, 0⟩,
             .field (some "k") "f" [("x", .obj [("c", .int 1), ("a", .int 7)])] [] [] ⟨0, 0⟩] }

theorem T2_defaultsOk : defaultsOk T2 := by
  refine ⟨T2_defaults, ?_⟩
  intro sig hsig a ha d hdef
  simp only [T2, List.mem_cons, List.mem_nil_iff, or_false] at hsig
  subst hsig
  simp only [List.mem_cons, List.mem_nil_iff, or_false] at ha
  subst ha; cases hdef

example : wfTable2 T2 = true ∧ defaultsOk T2 ∧ docOk T2 opFlat = true ∧ flatOp opFlat = true
    ∧ (∀ p ∈ [("v", GValue.obj [("c", .list [.int 2]), ("b", .int 4)])], intsSmall p.2 = true ∧ distinctKeys p.2 = true)
    ∧ (run Defects.none T2 opFlat [("v", .obj [("c", .list [.int 2]), ("b", .int 4)])]).fields =
        [("f", .seen [("x", .obj [("a", .null), ("b", .int 4), ("c", .list [.list [.int 2]])])]),
         ("k", .seen [("x", .obj [("a", .int 7), ("b", .int 5), ("c", .list [.list [.int 1]])])])] := by
  refine ⟨rfl, T2_defaultsOk, rfl, rfl, ?_, rfl⟩
  intro p hp
  simp only [List.mem_cons, List.mem_nil_iff, or_false] at hp
  subst hp; exact ⟨rfl, rfl⟩

-- ------------------------------------------------------------------ variables inside literals

/-- **The specification's input coercion is idempotent up to the Rust value.**  For every
    well-formed table whose input-field defaults are coerced values (`defaultsCoerced`: the
    specification's coercion accepts the default at the field's type and the result denotes the
    same Rust value), every declared type and every value — a JSON variable value or a literal —
    that coerces at it: the coerced value coerces again, as a literal, at that type, and the result
    denotes the same Rust value.  (Not always the same value: an input object that received a
    default gets the default coerced the second time.) -/
theorem c06_recoerce (T : Table) (hwf : wfTable T = true) (hdc : defaultsCoerced T) (j : Bool)
    (v : GValue) (rty : RTy) (c : GValue) (h : coerce T j rty.gql v = some c) :
    ∃ c', coerce T false rty.gql c = some c' ∧ view T rty c' = view T rty c :=
  coerce_reco T hwf hdc j v rty c h

/-- `T2` with a second root field taking the oneof object -/
def T8 : Table :=
  { types := [("Int", .scalar),
              ("I", .input false [⟨"a", .opt (.named "Int"), none⟩, ⟨"b", .named "Int", some (.int 5)⟩,
                                  ⟨"c", .vec (.vec (.named "Int")), none⟩]),
              ("O", .input true [⟨"x", .opt (.named "Int"), none⟩, ⟨"y", .opt (.named "I"), none⟩])],
    fields := [⟨"f", [⟨"x", .opt (.named "I"), none⟩]⟩, ⟨"g", [⟨"o", .named "O", none⟩]⟩] }

theorem T8_fields : ∀ n o fs f d, T8.find? n = some (.input o fs) → f ∈ fs → f.default = some d →
    d = .int 5 ∧ f.ty = .named "Int" := by
  intro n o fs f d hfind hf hdef
  have hmem := find_mem hfind
  simp only [T8, List.mem_cons, Prod.mk.injEq, reduceCtorEq, and_false, false_or, List.mem_nil_iff, or_false,
    NDef.input.injEq] at hmem
  rcases hmem with ⟨rfl, rfl, rfl⟩ | ⟨rfl, rfl, rfl⟩
  · simp only [List.mem_cons, List.mem_nil_iff, or_false] at hf
    rcases hf with rfl | rfl | rfl
    · cases hdef
    · cases hdef; exact ⟨rfl, rfl⟩
    · cases hdef
  · simp only [List.mem_cons, List.mem_nil_iff, or_false] at hf
    rcases hf with rfl | rfl <;> cases hdef

theorem T8_defaultsOk : defaultsOk T8 := by
  constructor
  · intro n o fs f d hfind hf hdef
    obtain ⟨rfl, hty⟩ := T8_fields n o fs f d hfind hf hdef
    simp only [fieldDefault, hty]; rfl
  · intro sig hsig a ha d hdef
    simp only [T8, List.mem_cons, List.mem_nil_iff, or_false] at hsig
    rcases hsig with rfl | rfl <;>
    · simp only [List.mem_cons, List.mem_nil_iff, or_false] at ha
      subst ha; cases hdef

theorem T8_defaultsCoerced : defaultsCoerced T8 := by
  intro n o fs f d hfind hf hdef
  obtain ⟨rfl, hty⟩ := T8_fields n o fs f d hfind hf hdef
  rw [hty]
  exact ⟨.int 5, rfl, rfl⟩

/-- e.g. `{c: 2}` at `[I!]!` coerces to `[{b: 5, c: [[2]]}]`, which coerces again to itself -/
example : wfTable T8 = true ∧ defaultsCoerced T8 ∧
    coerce T8 true (RTy.vec (.named "I")).gql (.obj [("c", .int 2)]) =
      some (.list [.obj [("b", .int 5), ("c", .list [.list [.int 2]])]]) :=
  ⟨rfl, T8_defaultsCoerced, rfl⟩

/-- **Coercion commutes with substitution.**  For every well-formed table whose defaults denote
    the Rust defaults and are coerced values, every set of variable definitions with pairwise
    distinct names whose values coerce (`coerceVars … = some vars`; values and defaults are maps),
    every declared type and every literal that is valid at it (`litOk`: variables of ANY type —
    scalars, enums, lists, input objects, oneof objects — at any depth in allowed positions):
    the literal with the RAW variable values in it (`resolve`, what the code parses) vanishes
    exactly when the literal with the COERCED values in it (`subst`, what the specification
    coerces) does, and otherwise the repaired `InputType::parse` of the former succeeds exactly
    when the specification's coercion of the latter does and delivers the Rust view of the coerced
    value. -/
theorem c06_subst_coerce (T : Table) (hwf : wfTable2 T = true) (hdef : defaultsOk T) (hdc : defaultsCoerced T)
    (defs : List VarDef) (raw vars : List (String × GValue))
    (hnd : nodupB (defs.map (·.name)) = true) (hcv : coerceVars T defs raw = some vars)
    (hkeys : ∀ p ∈ raw, distinctKeys p.2 = true)
    (hdk : ∀ vd ∈ defs, ∀ d, vd.default = some d → distinctKeys d = true)
    (dv : DValue) (rty : RTy) (hd : Bool) (hlit : litOk T defs rty.gql hd dv = true) :
    (resolve defs raw dv = none → subst vars dv = none) ∧
    (∀ x, resolve defs raw dv = some x → ∃ y, subst vars dv = some y ∧
      parseK Defects.none T rty x = (coerce T false rty.gql y).map (view T rty)) := by
  have C : VarCtx T defs raw vars := ⟨hnd, hcv, hkeys, hdk⟩
  refine ⟨(lit_sim T hwf hdc defs raw vars C dv rty hd hlit).1, ?_⟩
  intro x hx
  obtain ⟨y, hy, hp, _⟩ := lit_parse T hwf hdef.1 hdc defs raw vars C dv rty hd hlit x hx
  exact ⟨y, hy, hp⟩

/-- `query($v: I!, $n: Int = 1, $m: Int){ g(o: {y: $v}) f(x: {a: $m, c: [[$n, 3]]}) }` -/
def opNested : OpDef :=
  { ty := .query, name := none,
    vars := [⟨"v", .nonNull (.named "I"), none⟩, ⟨"n", .named "Int", some (.int 1)⟩, ⟨"m", .named "Int", none⟩],
    dirs := [],
    sels := [.field none "g" [("o", .obj [("y", .var "v")])] [] [] ⟨0, 0⟩,
             .field none "f" [("x", .obj [("a", .var "m"), ("c", .list [.list [.var "n", .int 3]])])] [] [] ⟨0, 0⟩] }

/-- the hypotheses are met by `T8`, the variables of `opNested`, `v = {c: 2}` and the literal
    `{y: $v}` at the oneof object `O`: the code parses `{y: {c: 2}}`, the specification coerces
    `{y: {b: 5, c: [[2]]}}` -/
example : wfTable2 T8 = true ∧ defaultsOk T8 ∧ defaultsCoerced T8
    ∧ nodupB (opNested.vars.map (·.name)) = true
    ∧ coerceVars T8 opNested.vars [("v", .obj [("c", .int 2)])] =
        some [("v", .obj [("b", .int 5), ("c", .list [.list [.int 2]])]), ("n", .int 1)]
    ∧ litOk T8 opNested.vars (RTy.named "O").gql false (.obj [("y", .var "v")]) = true
    ∧ resolve opNested.vars [("v", .obj [("c", .int 2)])] (.obj [("y", .var "v")]) =
        some (.obj [("y", .obj [("c", .int 2)])])
    ∧ subst [("v", .obj [("b", .int 5), ("c", .list [.list [.int 2]])]), ("n", .int 1)] (.obj [("y", .var "v")]) =
        some (.obj [("y", .obj [("b", .int 5), ("c", .list [.list [.int 2]])])]) :=
  ⟨rfl, T8_defaultsOk, T8_defaultsCoerced, rfl, rfl, rfl, rfl, rfl⟩

/-- **Request level, second correction as first written**: `c06_request_partial` without `flatOp`,
    i.e. also for variables INSIDE list and input-object literals.  FALSE
    (`c06_request_valid_false`): `defaultsOk` only says that the schema default of an input field
    is parsed to its own `view`; both ignore an undeclared key inside the default
    (`{x: 1, zzz: 2}`).  The specification completes a variable value of that input type with the
    default as it stands (§3.10), and when the completed value is coerced again inside a literal
    (`g(xs: [$v])`) the undeclared key fails the field, while the code parses the raw value and
    invokes the resolver.  No derive macro registers such a default (`to_value` of the Rust value);
    with the side condition `defaultsCoerced` the statement holds: `c06_request_valid_wf`. -/
def c06_request_valid : Prop :=
  ∀ (T : Table) (op : OpDef) (raw : List (String × GValue)),
    wfTable2 T = true → defaultsOk T → docOk T op = true →
    (∀ p ∈ raw, intsSmall p.2 = true) → (∀ p ∈ raw, distinctKeys p.2 = true) →
    match request T op raw with
    | none => (run Defects.none T op raw).status ≠ .ok ∧
        ∀ f ∈ (run Defects.none T op raw).fields, f.2 = .err ∨ f.2 = .notInvoked
    | some fs =>
      ((run Defects.none T op raw).status = .ok ↔ fs.all (·.2.isSome) = true) ∧
      ∀ p ∈ fs.zip (run Defects.none T op raw).fields,
        p.1.1 = p.2.1 ∧
        match p.1.2 with
        | some args => p.2.2 = .seen args ∨ (fs.any (·.2.isNone) ∧ (p.2.2 = .err ∨ p.2.2 = .notInvoked))
        | none => p.2.2 = .err ∨ p.2.2 = .notInvoked

/-- `I { f: J = {x: 1, zzz: 2} }` where `J` has no field `zzz`; `g(xs: Vec<I>)` -/
def T9 : Table :=
  { types := [("Int", .scalar),
              ("J", .input false [⟨"x", .opt (.named "Int"), none⟩]),
              ("I", .input false [⟨"f", .named "J", some (.obj [("x", .int 1), ("zzz", .int 2)])⟩])],
    fields := [⟨"g", [⟨"xs", .vec (.named "I"), none⟩]⟩] }

/-- `query($v: I!){ g(xs: [$v]) }` -/
def opDefaultKey : OpDef :=
  { ty := .query, name := none, vars := [⟨"v", .nonNull (.named "I"), none⟩], dirs := [],
    sels := [.field none "g" [("xs", .list [.var "v"])] [] [] ⟨0, 0⟩] }

theorem T9_defaults : defaultsOk T9 := by
  constructor
  · intro n o fs f d hfind hf hdef
    have hmem := find_mem hfind
    simp only [T9, List.mem_cons, Prod.mk.injEq, reduceCtorEq, and_false, false_or, List.mem_nil_iff, or_false,
      NDef.input.injEq] at hmem
    rcases hmem with ⟨rfl, rfl, rfl⟩ | ⟨rfl, rfl, rfl⟩
    · simp only [List.mem_cons, List.mem_nil_iff, or_false] at hf
      subst hf; cases hdef
    · simp only [List.mem_cons, List.mem_nil_iff, or_false] at hf
      subst hf; cases hdef; rfl
  · intro sig hsig a ha d hdef
    simp only [T9, List.mem_cons, List.mem_nil_iff, or_false] at hsig
    subst hsig
    simp only [List.mem_cons, List.mem_nil_iff, or_false] at ha
    subst ha; cases hdef

theorem c06_request_valid_false : ¬ c06_request_valid := by
  intro h
  have h := h T9 opDefaultKey [("v", .obj [])] (by rfl) T9_defaults (by rfl)
    (by intro p hp; simp only [List.mem_cons, List.mem_nil_iff, or_false] at hp; subst hp; rfl)
    (by intro p hp; simp only [List.mem_cons, List.mem_nil_iff, or_false] at hp; subst hp; rfl)
  have hreq : request T9 opDefaultKey [("v", .obj [])] = some [("g", none)] := by rfl
  have hrun : (run Defects.none T9 opDefaultKey [("v", .obj [])]).status = .ok := by rfl
  rw [hreq] at h
  have h1 := h.1.mp hrun
  cases h1

/-- the default of `T9` is not a coerced value -/
example : ¬ defaultsCoerced T9 := by
  intro h
  obtain ⟨c, hc, _⟩ := h "I" false _ ⟨"f", .named "J", some (.obj [("x", .int 1), ("zzz", .int 2)])⟩ _
    (by rfl) (by simp) rfl
  have : coerce T9 false (RTy.named "J").gql (.obj [("x", .int 1), ("zzz", .int 2)]) = none := by rfl
  rw [this] at hc
  cases hc

/-- **Request level, all valid documents.**  For every well-formed table (`wfTable2`) whose
    defaults denote the Rust defaults (`defaultsOk`) and whose input-field defaults are coerced
    values (`defaultsCoerced`), every VALID query operation (`docOk`) — variables as arguments and
    INSIDE list and input-object literals at any depth — and every assignment of variable values
    that are maps (`distinctKeys`) and have 32-bit integers (`intsSmall`): if variable coercion
    fails nothing is invoked and the response has an error; otherwise a root field whose
    specified argument coercion succeeds is invoked with exactly the specified arguments unless
    some field of the request fails, and a field whose coercion fails is not invoked and the
    response has an error.  About the repaired model (all toggles off). -/
theorem c06_request_valid_wf (T : Table) (op : OpDef) (raw : List (String × GValue))
    (hwf : wfTable2 T = true) (hdef : defaultsOk T) (hdc : defaultsCoerced T) (hdoc : docOk T op = true)
    (hsmall : ∀ p ∈ raw, intsSmall p.2 = true) (hkeys : ∀ p ∈ raw, distinctKeys p.2 = true) :
    match request T op raw with
    | none => (run Defects.none T op raw).status ≠ .ok ∧
        ∀ f ∈ (run Defects.none T op raw).fields, f.2 = .err ∨ f.2 = .notInvoked
    | some fs =>
      ((run Defects.none T op raw).status = .ok ↔ fs.all (·.2.isSome) = true) ∧
      ∀ p ∈ fs.zip (run Defects.none T op raw).fields,
        p.1.1 = p.2.1 ∧
        match p.1.2 with
        | some args => p.2.2 = .seen args ∨ (fs.any (·.2.isNone) ∧ (p.2.2 = .err ∨ p.2.2 = .notInvoked))
        | none => p.2.2 = .err ∨ p.2.2 = .notInvoked := by
  have H : ReqBase T op raw := ⟨hwf, hdef.1, hdef.2, hdoc, hsmall, hkeys⟩
  cases hcv : coerceVars T op.vars raw with
  | none =>
    have hreq : request T op raw = none := by simp [request, hcv]
    obtain ⟨h1, h2⟩ := H.request_none hcv
    rw [hreq]
    simp only [h1, h2]
    refine ⟨by simp, ?_⟩
    intro f hf
    simp only [List.mem_map] at hf
    obtain ⟨r, _, rfl⟩ := hf
    exact Or.inr rfl
  | some vars =>
    obtain ⟨h1, h2⟩ := H.request_some vars hcv (H.root_eq hdc vars hcv) (H.root_invalid hdc vars hcv)
    rw [request_eq T op raw vars hcv]
    refine ⟨h1, ?_⟩
    intro p hp
    obtain ⟨ha, hb, hc⟩ := h2 p hp
    refine ⟨ha, ?_⟩
    split
    · rename_i args hargs; exact hb args hargs
    · rename_i hnone; exact hc hnone

/-- the hypotheses are met by `T8`, `opNested` and `v = {c: 2}`: both resolvers are invoked; the
    object variable inside the oneof literal arrives completed (`b` = 5, `c: 2` as `[[2]]`), the
    variable without runtime value leaves `a` as `None`, `$n` contributes its default inside the
    nested list -/
example : wfTable2 T8 = true ∧ defaultsOk T8 ∧ defaultsCoerced T8 ∧ docOk T8 opNested = true ∧ flatOp opNested = false
    ∧ (∀ p ∈ [("v", GValue.obj [("c", .int 2)])], intsSmall p.2 = true ∧ distinctKeys p.2 = true)
    ∧ (run Defects.none T8 opNested [("v", .obj [("c", .int 2)])]).fields =
        [("g", .seen [("o", .obj [("y", .obj [("a", .null), ("b", .int 5), ("c", .list [.list [.int 2]])])])]),
         ("f", .seen [("x", .obj [("a", .null), ("b", .int 5), ("c", .list [.list [.int 1, .int 3]])])])] := by
  refine ⟨rfl, T8_defaultsOk, T8_defaultsCoerced, rfl, rfl, ?_, rfl⟩
  intro p hp
  simp only [List.mem_cons, List.mem_nil_iff, or_false] at hp
  subst hp; exact ⟨rfl, rfl⟩

-- ------------------------------------------------------------------ ValidationMode::Fast

/-- **Fast mode: `parse` alone is the specification's input coercion.**  For every well-formed
    table whose schema defaults denote the Rust defaults, every Rust type and EVERY raw value that
    is a map (object literals with pairwise distinct keys — nothing else is assumed: unknown
    keys, missing fields, wrong leaf kinds, oneof objects with 0, 2, 3 members or a null member,
    wrong list elements, at any depth): the toggle-free `InputType::parse` of a supplied value,
    with no validation before it, succeeds exactly when the specification's input coercion for
    the declared GraphQL type does, and then delivers the Rust view of the coerced value. -/
theorem c06_fast_mode_refines_spec (T : Table) (rty : RTy) (v : GValue) (hwf : wfTable T = true)
    (hd : ∀ n o fs f d, T.find? n = some (.input o fs) → f ∈ fs → f.default = some d →
        fieldDefault Defects.none T f d = some (view T f.ty d))
    (hk : distinctKeys v = true) :
    parseK Defects.none T rty v = (coerce T true rty.gql v).map (view T rty) :=
  parseK_value T hwf hd rty v hk

/-- the hypotheses are met by `T2`; an undeclared key at depth 2, a oneof object with two members
    and one with a null member are refused by `parse` and by the specification alike, the
    well-formed value is parsed to its view -/
example : wfTable T2 = true ∧
    distinctKeys (.obj [("y", .obj [("c", .int 1), ("z", .int 1)])]) = true ∧
    parseK Defects.none T2 (.named "O") (.obj [("y", .obj [("c", .int 1), ("z", .int 1)])]) = none ∧
    parseK Defects.none T2 (.named "O") (.obj [("x", .int 1), ("y", .obj [("c", .int 1)])]) = none ∧
    parseK Defects.none T2 (.named "O") (.obj [("x", .null)]) = none ∧
    parseK Defects.none T2 (.named "O") (.obj [("y", .obj [("c", .int 1)])]) =
      some (.obj [("y", .obj [("a", .null), ("b", .int 5), ("c", .list [.list [.int 1]])])]) :=
  ⟨by decide, by decide, by rfl, by rfl, by rfl, by rfl⟩

/-- **Fast mode, one argument.**  An argument given as ANY variable-free literal whose object
    literals have distinct keys — valid or malformed: `get_param_value` (toggle-free) succeeds
    exactly when the specification's input coercion of the literal does and hands the resolver
    the Rust view of the coerced value; otherwise the field fails and is not invoked.  (`coerce`
    in its lenient form that also takes a string naming an enum value, as the library does in
    document literals too: `c06_request_false`.) -/
theorem c06_fast_mode_argument (T : Table) (hwf : wfTable T = true)
    (hd : ∀ n o fs f d, T.find? n = some (.input o fs) → f ∈ fs → f.default = some d →
        fieldDefault Defects.none T f d = some (view T f.ty d))
    (defs : List VarDef) (raw : List (String × GValue)) (provided : List (String × DValue)) (a : InField)
    (dv : DValue) (hl : lookup provided a.name = some dv) (hnv : noVars dv = true)
    (hk : distinctKeysD dv = true) :
    paramValue Defects.none T defs raw provided a =
      (coerce T true a.ty.gql (constOf dv)).map (view T a.ty) :=
  paramValue_const T hwf hd defs raw provided a dv hl hnv hk

/-- **A value that does not match the declared type is never passed to a resolver** — in
    either validation mode, for every well-formed table, EVERY operation (valid or not) and all
    variable values: whenever the toggle-free model invokes a root field, it does so with one
    value per declared argument, in order, each a value of the argument's Rust type (`typed`:
    32-bit integers, enum values of the enum, exactly one non-null member for a oneof object,
    all fields of a struct, `null`/`undef` only under `Option`/`MaybeUndefined`). -/
theorem c06_never_mistyped (T : Table) (hwf : wfTable T = true) (fast : Bool) (op : OpDef)
    (raw : List (String × GValue)) (key : String) (vs : List (String × RV))
    (h : (key, Outcome.seen vs) ∈ (runMode fast Defects.none T op raw).fields) :
    ∃ name args sig, (key, name, args) ∈ rootFields op ∧ T.field? name = some sig ∧ argsTyped T sig.args vs :=
  runMode_typed T hwf fast op raw key vs h

/-- `{ f(x: {a: 1, zzz: 2}) }` — an undeclared key, nothing else wrong -/
def opUnknownKeyConst : OpDef :=
  { ty := .query, name := none, vars := [], dirs := [],
    sels := [.field none "f" [("x", .obj [("a", .int 1), ("zzz", .int 2)])] [] [] ⟨0, 0⟩] }

/-- a resolver is invoked in Fast mode (non-vacuity of `c06_never_mistyped`) -/
example : wfTable T4 = true ∧
    (runMode true Defects.none T4 { opUnknownKeyConst with
        sels := [.field none "f" [("x", .obj [("a", .int 1)])] [] [] ⟨0, 0⟩] } []).fields
      = [("f", .seen [("x", .obj [("a", .int 1)])])] := ⟨by decide, rfl⟩

/-- **The pinned generated struct `parse` ignores undeclared keys** (`obj.get(name)` per declared
    field).  Strict validation refuses `{a: 1, zzz: 2}`; in `ValidationMode::Fast` nothing stands
    before `parse` and the resolver is invoked with `{a: 1}`, where the specification fails the
    field.  Toggle-free: `parse` refuses the object, the field fails, the resolver is not invoked. -/
theorem c06_witness_undeclared_keys_ignored :
    (runMode true { undeclaredKeysIgnored := true } T4 opUnknownKeyConst []).fields
        = [("f", .seen [("x", .obj [("a", .int 1)])])]
    ∧ request T4 opUnknownKeyConst [] = some [("f", none)]
    ∧ (runMode true Defects.none T4 opUnknownKeyConst []).fields = [("f", .err)]
    ∧ (runMode false { undeclaredKeysIgnored := true } T4 opUnknownKeyConst []).fields = [("f", .notInvoked)] := by
  refine ⟨rfl, rfl, rfl, rfl⟩

/-- **Fast mode, valid documents.**  Under the hypotheses of `c06_request_valid_wf`, the
    toggle-free model in `ValidationMode::Fast` meets the same request-level statement: skipping
    the validation rules loses nothing on a valid document. -/
theorem c06_fast_mode_request_valid (T : Table) (op : OpDef) (raw : List (String × GValue))
    (hwf : wfTable2 T = true) (hdef : defaultsOk T) (hdc : defaultsCoerced T) (hdoc : docOk T op = true)
    (hsmall : ∀ p ∈ raw, intsSmall p.2 = true) (hkeys : ∀ p ∈ raw, distinctKeys p.2 = true) :
    match request T op raw with
    | none => (runMode true Defects.none T op raw).status ≠ .ok ∧
        ∀ f ∈ (runMode true Defects.none T op raw).fields, f.2 = .err ∨ f.2 = .notInvoked
    | some fs =>
      ((runMode true Defects.none T op raw).status = .ok ↔ fs.all (·.2.isSome) = true) ∧
      ∀ p ∈ fs.zip (runMode true Defects.none T op raw).fields,
        p.1.1 = p.2.1 ∧
        match p.1.2 with
        | some args => p.2.2 = .seen args ∨ (fs.any (·.2.isNone) ∧ (p.2.2 = .err ∨ p.2.2 = .notInvoked))
        | none => p.2.2 = .err ∨ p.2.2 = .notInvoked := by
  have H : ReqBase T op raw := ⟨hwf, hdef.1, hdef.2, hdoc, hsmall, hkeys⟩
  have hrm : runMode true Defects.none T op raw = runFast Defects.none T op raw := rfl
  rw [hrm]
  cases hcv : coerceVars T op.vars raw with
  | none =>
    have hreq : request T op raw = none := by simp [request, hcv]
    obtain ⟨h1, h2⟩ := H.fast_none hcv
    rw [hreq]
    simp only [h1, h2]
    refine ⟨by simp, ?_⟩
    intro f hf
    simp only [List.mem_map] at hf
    obtain ⟨r, _, rfl⟩ := hf
    exact Or.inr rfl
  | some vars =>
    obtain ⟨h1, h2⟩ := H.fast_some vars hcv (H.root_eq hdc vars hcv)
    rw [request_eq T op raw vars hcv]
    refine ⟨h1, ?_⟩
    intro p hp
    obtain ⟨ha, hb, hc⟩ := h2 p hp
    refine ⟨ha, ?_⟩
    split
    · rename_i args hargs; exact hb args hargs
    · rename_i hnone; exact hc hnone

/-- the hypotheses are met by `T8`, `opNested` and `v = {c: 2}` (as for `c06_request_valid_wf`) -/
example : (runMode true Defects.none T8 opNested [("v", .obj [("c", .int 2)])]).fields =
    (run Defects.none T8 opNested [("v", .obj [("c", .int 2)])]).fields := rfl

-- ------------------------------------------------------------------ the seeded oneof parse

/-- `Pick { A(i32), B(String) }`, a struct `Outer { pick: Pick, tag: Option<String> }`, root
    fields `pick(input: Pick)` and `outer(input: Outer)` — the schema of /verif/seeded/C06-r3/demo.rs -/
def TP : Table :=
  { types := [("Int", .scalar), ("String", .scalar),
              ("Pick", .input true [⟨"a", .opt (.named "Int"), none⟩, ⟨"b", .opt (.named "String"), none⟩]),
              ("Outer", .input false [⟨"pick", .named "Pick", none⟩, ⟨"tag", .opt (.named "String"), none⟩])],
    fields := [⟨"pick", [⟨"input", .named "Pick", none⟩]⟩, ⟨"outer", [⟨"input", .named "Outer", none⟩]⟩] }

/-- `{ pick(input: {a: 1, b: "x"}) }` -/
def opTwoMembers : OpDef :=
  { ty := .query, name := none, vars := [], dirs := [],
    sels := [.field none "pick" [("input", .obj [("a", .int 1), ("b", .str "x")])] [] [] ⟨0, 0⟩] }

/-- `query($t: String){ outer(input: {pick: {a: 1, b: "x"}, tag: $t}) }` without a value for `t` -/
def opTwoMembersBesideVar : OpDef :=
  { ty := .query, name := none, vars := [⟨"t", .named "String", none⟩], dirs := [],
    sels := [.field none "outer" [("input", .obj [("pick", .obj [("a", .int 1), ("b", .str "x")]), ("tag", .var "t")])]
      [] [] ⟨0, 0⟩] }

/-- **What the check must notice.**  The seeded variant of the generated `OneofObject::parse`
    (`oneofFirstPresent`: the exactly-one-member test dropped) accepts `{a: 1, b: "x"}` as `A(1)`;
    the specification refuses the object, and so does the model of the generated `parse` — with
    ALL pinned toggles on — both where nothing stands before it: in `ValidationMode::Fast`, and in
    Strict mode beside a variable without runtime value (ArgumentsOfCorrectType skips the
    argument).  An implementation that invokes the resolver there differs from the model and
    from the specification: VIOLATION. -/
theorem c06_witness_oneof_first_present :
    oneofFirstPresent (parseD Defects.none TP)
        [⟨"a", .opt (.named "Int"), none⟩, ⟨"b", .opt (.named "String"), none⟩]
        [("a", .int 1), ("b", .str "x")] = some (.obj [("a", .int 1)])
    ∧ coerce TP true (RTy.named "Pick").gql (.obj [("a", .int 1), ("b", .str "x")]) = none
    ∧ parseD Defects.pinned TP (.named "Pick") (.obj [("a", .int 1), ("b", .str "x")]) = none
    ∧ request TP opTwoMembers [] = some [("pick", none)]
    ∧ (runMode true Defects.pinned TP opTwoMembers []).fields = [("pick", .err)]
    ∧ (runMode false Defects.pinned TP opTwoMembers []).fields = [("pick", .notInvoked)]
    ∧ request TP opTwoMembersBesideVar [] = some [("outer", none)]
    ∧ (runMode false Defects.pinned TP opTwoMembersBesideVar []).fields = [("outer", .err)]
    ∧ (runMode true Defects.pinned TP opTwoMembersBesideVar []).fields = [("outer", .err)] := by
  refine ⟨rfl, rfl, rfl, rfl, rfl, rfl, rfl, rfl, rfl⟩

end AGV.Props.C06
