/-
  C05 — responses do not depend on the order in which concurrent resolvers complete.

  Statements are about the scheduler model (Model/Sched.lean): a schedule is a gate function
  (parent path, response key, source position) ↦ number of polls a resolver stays pending;
  all completion orders of concurrently running resolvers arise from gate functions.

  OBLIGATION c05_sim
  OBLIGATION c05_data
  OBLIGATION c05_errors
  OBLIGATION c05_fault_at_nullable_is_local
  OBLIGATION c05_errors_violated_by_resolverErrPropagates
  OBLIGATION c05_errors_repaired_on_witness
  OPEN c05_errors_static
-/
import AGV.Lemmas.Sched

namespace AGV.Props.C05
open AGV.Core AGV.Model AGV.Model.Sched AGV.Lemmas.Sched
open AGV.Spec.Exec (FieldOcc selectOp)

/-- Core statement, for both executors (`ns = false`: derive-built schemas, nested selection sets
    joined concurrently; `ns = true`: dynamic schemas, nested selection sets serial), EVERY defect setting, schema, document, variables, world and fuel, and any
    two schedules: the two runs have the same data, agree on whether some error reached a
    selection set / list (a join, where siblings can be cancelled), and — if none did — report
    the same travelling error and the same captured errors up to order. -/
theorem c05_sim (ns : Bool) (D : ExecStatic.Defects) (perOcc : Bool) (σ τ : Gate) (S : Schema) (d : Doc) (opName : Option String)
    (raw : List (String × GValue)) (w : World) (fuel : Nat) :
    Sim (runWith ns D perOcc σ S d opName raw w fuel) (runWith ns D perOcc τ S d opName raw w fuel) := by
  unfold runWith
  split
  · exact Sim.rfl' _
  · apply resolveContainerT_sim <;> rfl

/-- The response DATA is the same under every schedule — with every defect toggle, also when
    errors propagate and siblings are cancelled (output order is index order, never completion
    order; whether a selection set fails does not depend on which child fails first). -/
theorem c05_data (ns : Bool) (D : ExecStatic.Defects) (perOcc : Bool) (σ τ : Gate) (S : Schema) (d : Doc) (opName : Option String)
    (raw : List (String × GValue)) (w : World) (fuel : Nat) :
    (runWith ns D perOcc σ S d opName raw w fuel).val = (runWith ns D perOcc τ S d opName raw w fuel).val :=
  (c05_sim ns D perOcc σ τ S d opName raw w fuel).1

/-- The multiset of ERRORS (path, location) is the same under every schedule, provided no error
    reaches a selection set or a list under ONE schedule (then it does under none): this is the
    situation "faults at nullable positions only" in the repaired executor, see
    `c05_fault_at_nullable_is_local`. -/
theorem c05_errors (ns : Bool) (D : ExecStatic.Defects) (perOcc : Bool) (σ τ : Gate) (S : Schema) (d : Doc) (opName : Option String)
    (raw : List (String × GValue)) (w : World) (fuel : Nat)
    (hlocal : (runWith ns D perOcc σ S d opName raw w fuel).prop = false) :
    (runWith ns D perOcc τ S d opName raw w fuel).prop = false ∧
    ((runWith ns D perOcc σ S d opName raw w fuel).errors).Perm ((runWith ns D perOcc τ S d opName raw w fuel).errors) := by
  have h := c05_sim ns D perOcc σ τ S d opName raw w fuel
  refine ⟨h.2.1 ▸ hlocal, ?_⟩
  have := h.2.2 hlocal
  unfold TRes.errors
  rw [this.1]
  exact this.2.append_left _

/-- A resolver that fails at a NULLABLE position stays local in the repaired executor: the field
    becomes null, the error is captured there, nothing reaches the parent selection set. -/
theorem c05_fault_at_nullable_is_local (c : ExecStatic.Ctx) (hD : c.D.resolverErrPropagates = false)
    (rec : String → String → Nat → List Sel → List PathSeg → Nat → TRes) (fd : FieldDef) (hn : fd.ty.isNonNull = false)
    (m : String) (occ : FieldOcc) (fpath : List PathSeg) (s : Nat) :
    (completeFieldT c rec fd (.fail m) occ fpath s).val = some .null ∧
    (completeFieldT c rec fd (.fail m) occ fpath s).prop = false ∧
    (completeFieldT c rec fd (.fail m) occ fpath s).up = none := by
  simp [completeFieldT, hD, hn]

/-- OPEN: the static form of the hypothesis of `c05_errors` — for a world whose values fit the
    declared types and whose failing resolvers sit at nullable fields only, no error reaches a
    join in the repaired model.  (Needs a well-typedness predicate for worlds; the per-case
    check evaluates `prop`-freeness implicitly by comparing all schedules.) -/
def c05_errors_static : Prop :=
  ∀ (S : Schema) (d : Doc) (opName : Option String) (raw : List (String × GValue)) (w : World) (σ : Gate) (fuel : Nat),
    (∀ e ∈ w.entries, (∃ m, e.2 = .fail m) → ∀ t ∈ S.types, ∀ f ∈ t.fields, f.name = e.1.2 → f.ty.isNonNull = false) →
    (run ExecStatic.Defects.none false (fun _ _ _ => 0) S d opName raw w fuel).val.isSome = true →
    (run ExecStatic.Defects.none false σ S d opName raw w fuel).prop = false

-- ------------------------------------------------------------------ witness (also corpus/C05)

def pX : Pos := ⟨1, 3⟩
def pA : Pos := ⟨1, 7⟩
def pB : Pos := ⟨1, 9⟩
def S0 : Schema := { query := "Query", types := [
  { name := "Query", kind := .object, fields := [{ name := "x", ty := .named "O", args := [] }] },
  { name := "O", kind := .object, fields := [{ name := "a", ty := .named "Int", args := [] },
                                             { name := "b", ty := .named "Int", args := [] }] },
  { name := "Int", kind := .scalar }] }
def w0 : World := { entries := [((0, "x"), .obj "O" 1), ((1, "a"), .fail "boom"), ((1, "b"), .fail "boom")] }
/-- `{ x { a b } }` -/
def selX : Sel := Sel.field none "x" [] [] [Sel.field none "a" [] [] [] pA, Sel.field none "b" [] [] [] pB] pX
def doc0 : Doc := { ops := [{ ty := .query, name := none, vars := [], dirs := [], sels := [selX] }], frags := [] }
/-- everything completes at once -/
def sched1 : Gate := fun _ _ _ => 0
/-- `a` completes one round after `b` -/
def sched2 : Gate := fun _ _ pos => if pos.col = 7 then 1 else 0

/-- Two failing NULLABLE siblings: on the pinned tree a resolver's `Err` propagates even from a
    nullable field (the C03 finding), the first sibling to fail cancels the other, and WHICH
    error is reported depends on the completion order. -/
theorem c05_errors_violated_by_resolverErrPropagates :
    (run { resolverErrPropagates := true } true sched1 S0 doc0 none [] w0 10).errors = [⟨[.key "x", .key "a"], pA⟩] ∧
    (run { resolverErrPropagates := true } true sched2 S0 doc0 none [] w0 10).errors = [⟨[.key "x", .key "b"], pB⟩] ∧
    (run { resolverErrPropagates := true } true sched1 S0 doc0 none [] w0 10).val = some (.obj [("x", .null)]) ∧
    (run { resolverErrPropagates := true } true sched2 S0 doc0 none [] w0 10).val = some (.obj [("x", .null)]) := by
  refine ⟨by rfl, by rfl, by rfl, by rfl⟩

/-- the repaired model reports both errors under both schedules (in completion order) -/
theorem c05_errors_repaired_on_witness :
    (run ExecStatic.Defects.none false sched1 S0 doc0 none [] w0 10).errors = [⟨[.key "x", .key "a"], pA⟩, ⟨[.key "x", .key "b"], pB⟩] ∧
    (run ExecStatic.Defects.none false sched2 S0 doc0 none [] w0 10).errors = [⟨[.key "x", .key "b"], pB⟩, ⟨[.key "x", .key "a"], pA⟩] ∧
    (run ExecStatic.Defects.none false sched1 S0 doc0 none [] w0 10).prop = false := by
  refine ⟨by rfl, by rfl, by rfl⟩

end AGV.Props.C05
