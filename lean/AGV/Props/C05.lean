/-
  C05 — responses do not depend on the order in which concurrent resolvers complete.

  Statements are about the scheduler model (Model/Sched.lean): a schedule is a gate function
  (parent path, response key, source position) ↦ number of polls a resolver stays pending;
  all completion orders of concurrently running resolvers arise from gate functions.

  OBLIGATION c05_sim
  OBLIGATION c05_data
  OBLIGATION c05_errors
  OBLIGATION c05_fault_at_nullable_is_local
  OBLIGATION c05_errors_violated_by_resolverErrPropagates
  OBLIGATION c05_errors_repaired_on_witness
  OBLIGATION c05_errors_static_unqualified_false
  OBLIGATION c05_errors_static
  OBLIGATION c05_errors_all_schedules
  OBLIGATION c05_errors_static_example

  `c05_errors_static` as first written (failing resolvers at nullable fields + data present under the
  all-at-once schedule) is REFUTED (`c05_errors_static_unqualified_false`: a null in a non-null
  position reaches a join and is captured above it).  Proved instead, under the name
  `c05_errors_static`: the schedule-free condition `StaticOK` (well-typed world over a closed set of
  object identities, failures at nullable fields only, enough fuel) implies that no error reaches a
  join under ANY gate function, for both executors and every defect setting with
  `resolverErrPropagates` off; `c05_errors_all_schedules` is the resulting order-independence of the
  error multiset.  (Lemmas: AGV/Lemmas/SchedClean.lean.)
-/
import AGV.Lemmas.Sched
import AGV.Lemmas.SchedClean

namespace AGV.Props.C05
open AGV.Core AGV.Model AGV.Model.Sched AGV.Lemmas.Sched AGV.Lemmas.SchedClean
open AGV.Spec.Exec (FieldOcc selectOp)

/-- Core statement, for both executors (`ns = false`: derive-built schemas, nested selection sets
    joined concurrently; `ns = true`: dynamic schemas, nested selection sets serial), EVERY defect setting, schema, document, variables, world and fuel, and any
    two schedules: the two runs have the same data, agree on whether some error reached a
    selection set / list (a join, where siblings can be cancelled), and — if none did — report
    the same travelling error and the same captured errors up to order. -/
theorem c05_sim (ns : Bool) (D : ExecStatic.Defects) (perOcc : Bool) (σ τ : Gate) (S : Schema) (d : Doc) (opName : Option String)
    (raw : List (String × GValue)) (w : World) (fuel : Nat) :
    Sim (runWith ns D perOcc σ S d opName raw w fuel) (runWith ns D perOcc τ S d opName raw w fuel) := by
  unfold runWith
  split
  · exact Sim.rfl' _
  · apply resolveContainerT_sim <;> rfl

/-- The response DATA is the same under every schedule — with every defect toggle, also when
    errors propagate and siblings are cancelled (output order is index order, never completion
    order; whether a selection set fails does not depend on which child fails first). -/
theorem c05_data (ns : Bool) (D : ExecStatic.Defects) (perOcc : Bool) (σ τ : Gate) (S : Schema) (d : Doc) (opName : Option String)
    (raw : List (String × GValue)) (w : World) (fuel : Nat) :
    (runWith ns D perOcc σ S d opName raw w fuel).val = (runWith ns D perOcc τ S d opName raw w fuel).val :=
  (c05_sim ns D perOcc σ τ S d opName raw w fuel).1

/-- The multiset of ERRORS (path, location) is the same under every schedule, provided no error
    reaches a selection set or a list under ONE schedule (then it does under none): this is the
    situation "faults at nullable positions only" in the repaired executor, see
    `c05_fault_at_nullable_is_local`. -/
theorem c05_errors (ns : Bool) (D : ExecStatic.Defects) (perOcc : Bool) (σ τ : Gate) (S : Schema) (d : Doc) (opName : Option String)
    (raw : List (String × GValue)) (w : World) (fuel : Nat)
    (hlocal : (runWith ns D perOcc σ S d opName raw w fuel).prop = false) :
    (runWith ns D perOcc τ S d opName raw w fuel).prop = false ∧
    ((runWith ns D perOcc σ S d opName raw w fuel).errors).Perm ((runWith ns D perOcc τ S d opName raw w fuel).errors) := by
  have h := c05_sim ns D perOcc σ τ S d opName raw w fuel
  refine ⟨h.2.1 ▸ hlocal, ?_⟩
  have := h.2.2 hlocal
  unfold TRes.errors
  rw [this.1]
  exact this.2.append_left _

/-- A resolver that fails at a NULLABLE position stays local in the repaired executor: the field
    becomes null, the error is captured there, nothing reaches the parent selection set. -/
theorem c05_fault_at_nullable_is_local (c : ExecStatic.Ctx) (hD : c.D.resolverErrPropagates = false)
    (rec : String → String → Nat → List Sel → List PathSeg → Nat → TRes) (fd : FieldDef) (hn : fd.ty.isNonNull = false)
    (m : String) (occ : FieldOcc) (fpath : List PathSeg) (s : Nat) :
    (completeFieldT c rec fd (.fail m) occ fpath s).val = some .null ∧
    (completeFieldT c rec fd (.fail m) occ fpath s).prop = false ∧
    (completeFieldT c rec fd (.fail m) occ fpath s).up = none := by
  simp [completeFieldT, hD, hn]

/-- The static form of the hypothesis of `c05_errors` AS FIRST WRITTEN: failing resolvers sit at
    nullable fields only and the all-at-once schedule delivers data.  FALSE
    (`c05_errors_static_unqualified_false` at the end of this file): data being present does not
    exclude an error that reached a join below a nullable position.  The corrected statement is
    `c05_errors_static`. -/
def c05_errors_static_unqualified : Prop :=
  ∀ (S : Schema) (d : Doc) (opName : Option String) (raw : List (String × GValue)) (w : World) (σ : Gate) (fuel : Nat),
    (∀ e ∈ w.entries, (∃ m, e.2 = .fail m) → ∀ t ∈ S.types, ∀ f ∈ t.fields, f.name = e.1.2 → f.ty.isNonNull = false) →
    (run ExecStatic.Defects.none false (fun _ _ _ => 0) S d opName raw w fuel).val.isSome = true →
    (run ExecStatic.Defects.none false σ S d opName raw w fuel).prop = false

/-- STATIC CONDITION ⇒ NO ERROR REACHES A JOIN, under every schedule.  `StaticOK` mentions no gate
    function: there is a set `I` of object identities containing the root value such that the world
    maps every field of every member to a WELL-TYPED value (`wt`: a resolver failure only where the
    declared type is nullable; no null, ill-typed leaf, non-list or inadmissible runtime type in a
    non-null position; every list item delivered; object identities in `I` again — anything goes AT a
    nullable named position: that fault is captured there), and the fuel covers the document
    (`deepT`).  Then, with `resolverErrPropagates` off (any other defect toggle, derive-built or
    dynamic executor, one future per occurrence or per key), for EVERY gate function no error reaches
    a selection set or a list — so `c05_errors` applies (`c05_errors_all_schedules`).
    Lifts `c05_fault_at_nullable_is_local` by induction over the execution
    (`resolveContainerT_clean`); `closedB` is a decidable form of the world condition. -/
theorem c05_errors_static (ns : Bool) (D : ExecStatic.Defects) (hD : D.resolverErrPropagates = false) (perOcc : Bool)
    (σ : Gate) (S : Schema) (d : Doc) (opName : Option String) (raw : List (String × GValue)) (w : World) (fuel : Nat)
    (H : ∀ op, selectOp d opName = some op → StaticOK D perOcc S d op raw w fuel) :
    (runWith ns D perOcc σ S d opName raw w fuel).prop = false :=
  runWith_clean ns D hD perOcc σ S d opName raw w fuel H

/-- … hence the multiset of errors is the same under any two schedules -/
theorem c05_errors_all_schedules (ns : Bool) (D : ExecStatic.Defects) (hD : D.resolverErrPropagates = false) (perOcc : Bool)
    (σ τ : Gate) (S : Schema) (d : Doc) (opName : Option String) (raw : List (String × GValue)) (w : World) (fuel : Nat)
    (H : ∀ op, selectOp d opName = some op → StaticOK D perOcc S d op raw w fuel) :
    ((runWith ns D perOcc σ S d opName raw w fuel).errors).Perm ((runWith ns D perOcc τ S d opName raw w fuel).errors) :=
  (c05_errors ns D perOcc σ τ S d opName raw w fuel (c05_errors_static ns D hD perOcc σ S d opName raw w fuel H)).2

-- ------------------------------------------------------------------ witness (also corpus/C05)

def pX : Pos := ⟨1, 3⟩
def pA : Pos := ⟨1, 7⟩
def pB : Pos := ⟨1, 9⟩
def S0 : Schema := { query := "Query", types := [
  { name := "Query", kind := .object, fields := [{ name := "x", ty := .named "O", args := [] }] },
  { name := "O", kind := .object, fields := [{ name := "a", ty := .named "Int", args := [] },
                                             { name := "b", ty := .named "Int", args := [] }] },
  { name := "Int", kind := .scalar }] }
def w0 : World := { entries := [((0, "x"), .obj "O" 1), ((1, "a"), .fail "boom"), ((1, "b"), .fail "boom")] }
/-- `{ x { a b } }` -/
def selX : Sel := Sel.field none "x" [] [] [Sel.field none "a" [] [] [] pA, Sel.field none "b" [] [] [] pB] pX
def doc0 : Doc := { ops := [{ ty := .query, name := none, vars := [], dirs := [], sels := [selX] }], frags := [] }
/-- everything completes at once -/
def sched1 : Gate := fun _ _ _ => 0
/-- `a` completes one round after `b` -/
def sched2 : Gate := fun _ _ pos => if pos.col = 7 then 1 else 0

/-- Two failing NULLABLE siblings: on the pinned tree a resolver's `Err` propagates even from a
    nullable field (the C03 finding), the first sibling to fail cancels the other, and WHICH
    error is reported depends on the completion order. -/
theorem c05_errors_violated_by_resolverErrPropagates :
    (run { resolverErrPropagates := true } true sched1 S0 doc0 none [] w0 10).errors = [⟨[.key "x", .key "a"], pA⟩] ∧
    (run { resolverErrPropagates := true } true sched2 S0 doc0 none [] w0 10).errors = [⟨[.key "x", .key "b"], pB⟩] ∧
    (run { resolverErrPropagates := true } true sched1 S0 doc0 none [] w0 10).val = some (.obj [("x", .null)]) ∧
    (run { resolverErrPropagates := true } true sched2 S0 doc0 none [] w0 10).val = some (.obj [("x", .null)]) := by
  refine ⟨by rfl, by rfl, by rfl, by rfl⟩

/-- the repaired model reports both errors under both schedules (in completion order) -/
theorem c05_errors_repaired_on_witness :
    (run ExecStatic.Defects.none false sched1 S0 doc0 none [] w0 10).errors = [⟨[.key "x", .key "a"], pA⟩, ⟨[.key "x", .key "b"], pB⟩] ∧
    (run ExecStatic.Defects.none false sched2 S0 doc0 none [] w0 10).errors = [⟨[.key "x", .key "b"], pB⟩, ⟨[.key "x", .key "a"], pA⟩] ∧
    (run ExecStatic.Defects.none false sched1 S0 doc0 none [] w0 10).prop = false := by
  refine ⟨by rfl, by rfl, by rfl⟩

-- ------------------------------------------------------------------ the static condition: counterexample, instance

def S2 : Schema := { query := "Query", types := [
  { name := "Query", kind := .object, fields := [{ name := "x", ty := .named "O", args := [] }] },
  { name := "O", kind := .object, fields := [{ name := "a", ty := .nonNull (.named "Int"), args := [] }] },
  { name := "Int", kind := .scalar }] }
/-- object 1 has no value for `a: Int!` -/
def w2 : World := { entries := [((0, "x"), .obj "O" 1)] }
/-- `{ x { a } }` -/
def doc2 : Doc := { ops := [{ ty := .query, name := none, vars := [], dirs := [], sels :=
  [Sel.field none "x" [] [] [Sel.field none "a" [] [] [] pA] pX] }], frags := [] }

/-- `c05_errors_static` as first written is FALSE: no resolver fails at all and the response has data
    (`{"x": null}`), but the null in `a: Int!` is an error that reaches the selection set of `x`
    (a join, where siblings could be cancelled) before it is captured at the nullable `x`. -/
theorem c05_errors_static_unqualified_false : ¬ c05_errors_static_unqualified := by
  intro h
  have h1 := h S2 doc2 none [] w2 sched1 10
    (by
      intro e he hm
      simp only [w2, List.mem_singleton] at he
      subst he
      obtain ⟨m, hm⟩ := hm
      cases hm)
    (by rfl)
  have h2 : (run ExecStatic.Defects.none false sched1 S2 doc2 none [] w2 10).prop = true := by rfl
  rw [h2] at h1
  cases h1

def S3 : Schema := { query := "Query", types := [
  { name := "Query", kind := .object, fields := [
      { name := "x", ty := .named "O", args := [] },
      { name := "xs", ty := .nonNull (.list (.nonNull (.named "O"))), args := [] },
      { name := "n", ty := .named "Int", args := [] }] },
  { name := "O", kind := .object, fields := [{ name := "a", ty := .named "Int", args := [] },
                                             { name := "b", ty := .nonNull (.named "Int"), args := [] }] },
  { name := "Int", kind := .scalar }] }
/-- two failing nullable resolvers (objects 1 and 2), an ill-typed leaf at the nullable `n`,
    well-typed values in the non-null positions `xs`, its items and `b` -/
def w3 : World := { entries := [
  ((0, "x"), .obj "O" 1), ((0, "xs"), .list [.obj "O" 1, .obj "O" 2]), ((0, "n"), .leaf (.str "bad")),
  ((1, "a"), .fail "boom"), ((1, "b"), .leaf (.int 1)), ((2, "a"), .fail "boom"), ((2, "b"), .leaf (.int 2))] }
/-- `{ x { a b } xs { a b } n }` -/
def op3 : OpDef := { ty := .query, name := none, vars := [], dirs := [], sels := [
  Sel.field none "x" [] [] [Sel.field none "a" [] [] [] pA, Sel.field none "b" [] [] [] pB] pX,
  Sel.field none "xs" [] [] [Sel.field none "a" [] [] [] pA, Sel.field none "b" [] [] [] pB] pX,
  Sel.field none "n" [] [] [] pX] }
def doc3 : Doc := { ops := [op3], frags := [] }
def ids3 : List (String × Nat) := [("Query", 0), ("O", 1), ("O", 2)]

/-- the static condition holds for `doc3` in `w3` (decided, no schedule involved) … -/
theorem c05_errors_static_example :
    ∀ op, selectOp doc3 none = some op → StaticOK ExecStatic.Defects.none false S3 doc3 op [] w3 10 := by
  intro op hop
  have : op = op3 := by simpa [selectOp, doc3] using hop.symm
  subst this
  exact ⟨fun ty id => ids3.contains (ty, id), by decide, closed_of_closedB _ ids3 (by decide), by decide⟩

/-- … so under EVERY schedule no error reaches a join and the four errors are reported, in some order -/
example (σ : Gate) : (run ExecStatic.Defects.none false σ S3 doc3 none [] w3 10).prop = false :=
  c05_errors_static false _ rfl false σ S3 doc3 none [] w3 10 c05_errors_static_example

example (σ : Gate) : ((run ExecStatic.Defects.none false σ S3 doc3 none [] w3 10).errors).Perm
    [⟨[.key "n"], pX⟩, ⟨[.key "x", .key "a"], pA⟩, ⟨[.key "xs", .idx 0, .key "a"], pA⟩, ⟨[.key "xs", .idx 1, .key "a"], pA⟩] := by
  have h := c05_errors_all_schedules false _ rfl false σ sched1 S3 doc3 none [] w3 10 c05_errors_static_example
  refine h.trans ?_
  have : (runWith false ExecStatic.Defects.none false sched1 S3 doc3 none [] w3 10).errors =
      [⟨[.key "x", .key "a"], pA⟩, ⟨[.key "xs", .idx 0, .key "a"], pA⟩, ⟨[.key "xs", .idx 1, .key "a"], pA⟩, ⟨[.key "n"], pX⟩] := by rfl
  rw [this]
  exact (List.perm_append_comm (l₁ := [_, _, _]) (l₂ := [_]))

end AGV.Props.C05
