/-
  C02 — query results follow spec field collection and completion (dynamic schemas).
  Property theorems only (lemmas: AGV/Lemmas/ExecDynamic.lean, AGV/Lemmas/ExecDynamicData.lean,
  AGV/Lemmas/ExecDynamicMerge.lean, AGV/Lemmas/ExecDynamicMergeExec.lean, AGV/Lemmas/ExecStatic.lean,
  AGV/Lemmas/ExecStaticData.lean, AGV/Lemmas/ExecStaticMerge.lean, AGV/Lemmas/ExecStaticMergeExec.lean).

  OBLIGATION c02_key_order
  OBLIGATION c02_type_condition
  OBLIGATION c02_nonnull_position
  OBLIGATION c02_errors_never_lost
  OBLIGATION c02_builtin_leaf_checked
  OBLIGATION c02_union_condition_witness
  OBLIGATION c02_union_condition_repaired_example
  OBLIGATION c02_skip_default_witness
  OBLIGATION c02_builtin_scalar_witness
  OBLIGATION c02_null_value_nonnull_witness
  OBLIGATION c02_null_item_object_witness
  OBLIGATION c02_nested_list_merge_witness
  OBLIGATION c02_nested_list_merge_repaired_example
  OBLIGATION c03dyn_no_capture_witness
  OBLIGATION c03dyn_error_path_witness
  OBLIGATION c02_data_full_needs_validity
  OBLIGATION c02_data_full_needs_typed_world
  OBLIGATION c02_collect_spread_once
  OBLIGATION c02_data_partial_nodup
  OBLIGATION c02_data_partial_nodup_example
  OBLIGATION c02_repeated_key_null_witness
  OBLIGATION c02_repeated_key_null_repaired_example
  OBLIGATION c02_merge_is_static
  OBLIGATION c02_create_value_object_groups
  OBLIGATION c02_exec_union_is_merge
  OBLIGATION c02_data_mergeable_full
  OBLIGATION c02_data_mergeable_example

  `c02_data_full` (the statement as first written, without hypotheses) is REFUTED, twice:
  `c02_data_full_needs_validity` (an unknown field under a repeated response key) and
  `c02_data_full_needs_typed_world` (a scalar value handed to an object-typed field).  What holds:
  `c02_data_mergeable_full` — the full statement restated with the validity hypotheses, repeated
  response keys included (all worlds whose object-typed positions receive object identities — resolver
  failures, `Value::Null`, nulls in non-null positions, ill-typed leaves, rejected custom scalars
  included — at every fuel); its core is the MERGE LEMMA `c02_exec_union_is_merge`.
  `c02_data_partial_nodup` is the earlier special case of distinct keys.  The model of the shared
  `merge_value` follows the repaired code (a later `null` occurrence nulls the key, toggle
  `mergeKeepsPartialOnNull`; witness `c02_repeated_key_null_witness`).
-/
import AGV.Lemmas.ExecDynamic
import AGV.Lemmas.ExecDynamicData
import AGV.Lemmas.ExecDynamicMerge
import AGV.Lemmas.ExecDynamicMergeExec
import AGV.Spec.ExecDyn

namespace AGV.Props.C02
open AGV.Core AGV.Model.ExecDynamic AGV.Lemmas.ExecDynamic AGV.Lemmas.ExecDynamicData AGV.Lemmas.ExecDynamicMerge
open AGV.Lemmas.ExecStatic (newKeys keys_foldl_insertKV)
open AGV.Lemmas.ExecStaticData (selsInert spreads IsObj SchemaOK eraseSt rootOf groupKV mergeAll schemaOK_of_wf)
open AGV.Lemmas.ExecStaticMerge (mergeO)

/-- The statement as first written: for every run-time assembled schema, document, variables and data
    world, the data of the executor model with no defect equals the data of the specification's
    execution algorithm (resolver values read as in Spec/ExecDyn.lean).  It carries no validity or
    typing hypothesis and is FALSE (`c02_data_full_needs_validity`, `c02_data_full_needs_typed_world`
    below).  Proved instead: `c02_data_partial_nodup` and, restated with hypotheses,
    `c02_data_mergeable_full`.  The equation itself is still checked per generated case by the judge. -/
def c02_data_full : Prop :=
  ∀ (S : Schema) (d : Doc) (op : Option String) (vars : List (String × GValue)) (w : World),
    (∀ fuel ≥ AGV.Spec.Exec.fuelBound d,
      (Model.ExecDynamic.run Defects.none S d op vars w fuel).val = (AGV.Spec.ExecDyn.run S d op vars w fuel).val)

/-- "exactly the collected response keys in document order": whatever the field futures returned,
    the object built by `create_value_object` has each response key once, in order of first
    occurrence — for every list of key/value pairs, merge depth and merge flavour. -/
theorem c02_key_order (D : Defects) (fuel : Nat) (kvs : List (String × GValue)) :
    ∃ fs, createValueObject D fuel kvs = .obj fs ∧ fs.map (·.1) = newKeys [] (kvs.map (·.1)) := by
  refine ⟨_, rfl, ?_⟩
  simpa using keys_foldl_insertKV (merge D.nestedListMergeShallow D.mergeKeepsPartialOnNull (4 * fuel)) kvs []

/-- "fragments applied exactly when the runtime object type satisfies their type condition":
    on a schema where the runtime type is an object whose `implements` names interfaces only, the
    repaired `type_condition_matched` is the specification's DoesFragmentTypeApply, for every
    type condition that names a type of the schema. -/
theorem c02_type_condition (S : Schema) (rt cond : String) (o t : TypeDef)
    (ho : S.find? rt = some o) (hobj : o.kind = .object)
    (ht : S.find? cond = some t)
    (himpl : ∀ i ∈ o.implements, S.kindOf i = some .interface) :
    condMatched Defects.none S rt cond = AGV.Spec.Exec.doesApply S rt cond := by
  have hk : S.kindOf cond = some t.kind := by simp [Schema.kindOf, ht]
  have hself : cond = rt → t.kind = .object := by
    intro e; subst e; rw [ho] at ht; cases ht; exact hobj
  have hmem : cond ∈ o.implements → t.kind = .interface := by
    intro h
    have := himpl cond h
    rw [hk] at this
    exact Option.some.inj this
  have k1 : (Kind.scalar == Kind.union) = false := rfl
  have k2 : (Kind.object == Kind.union) = false := rfl
  have k3 : (Kind.interface == Kind.union) = false := rfl
  have k4 : (Kind.union == Kind.union) = true := rfl
  have k5 : (Kind.enum == Kind.union) = false := rfl
  have k6 : (Kind.input == Kind.union) = false := rfl
  unfold condMatched AGV.Spec.Exec.doesApply
  simp only [ho, ht, Defects.none, Bool.not_false, Bool.true_and]
  cases hkind : t.kind
  all_goals simp only []
  all_goals
    by_cases e : cond = rt
    · have := hself e; rw [hkind] at this
      first
        | exact absurd this (by decide)
        | (by_cases m : cond ∈ o.implements
           · have := hmem m; rw [hkind] at this; exact absurd this (by decide)
           · simp [e, k2])
    · by_cases m : cond ∈ o.implements
      · have := hmem m; rw [hkind] at this
        first
          | exact absurd this (by decide)
          | simp [e, m, k3]
      · simp [e, m, k1, k2, k3, k4, k5, k6]

/-- "a position whose type is non-null never holds null": once `Value::Null` is read as null,
    completing any resolver result against a non-null type gives a non-null value or propagates —
    for every schema, type, result, sub-selection and depth, whatever the other toggles are. -/
theorem c02_nonnull_position (c : Model.ExecDynamic.Ctx) (hD : c.D.nullValueNotNull = false) (fuel : Nat)
    (t : TypeRef) (rv : RVal) (ss : List Sel) (path : List PathSeg) (pos : Pos) :
    (resolve c (resolveContainer c fuel) (.nonNull t) rv ss path pos).val ≠ some .null := by
  intro h
  have hrec := recOK_resolveContainer c hD fuel
  by_cases hn : normNull c.D rv = .null
  · simp [resolve, hn, errAt] at h
  · rw [resolve_nonNull _ _ _ _ _ _ _ hn] at h
    have h2 := (resolve_props c hD _ hrec t (normNull c.D rv) ss path pos).2
    rw [normNull_idem] at h2
    unfold AGV.Model.ExecStatic.nnWrap at h
    split at h
    · rename_i hnull
      split at h
      · rename_i hemp
        exact hn (h2 hnull (by simpa using hemp))
      · simp at h
    · rename_i hnn
      exact hnn h

/-- whenever a selection set gives up (`val = none`: the error travels to the parent), an error
    has been recorded — so `"data": null` never comes without an error; and an object value is
    never `null` by itself. -/
theorem c02_errors_never_lost (c : Model.ExecDynamic.Ctx) (hD : c.D.nullValueNotNull = false) (fuel : Nat) :
    RecOK (resolveContainer c fuel) :=
  recOK_resolveContainer c hD fuel

/-- "leaf values checked and serialized according to their declared type": with no defect, what
    `resolve_value` does with a value at a built-in scalar type is exactly the specification's
    result coercion (same value on success, a field error otherwise) — every schema, value, path. -/
theorem c02_builtin_leaf_checked (c : Model.ExecDynamic.Ctx) (hD : c.D.builtinScalarUnchecked = false)
    (rec : String → Nat → List Sel → List PathSeg → Res) (n : String) (t : TypeDef) (v : GValue)
    (ht : c.S.find? n = some t) (hk : t.kind = .scalar) (hn : t.name = n) (hb : isBuiltin n = true) (hv : v ≠ .null)
    (ss : List Sel) (path : List PathSeg) (pos : Pos) :
    resolveNamed c rec n (.leaf v) ss path pos =
      match AGV.Spec.Exec.serializeLeaf c.S n v with
      | some v' => { val := some v' }
      | none => { val := none, errs := [⟨path, pos⟩] } := by
  unfold resolveNamed
  have hv' : isNullV v = false := by cases v <;> simp_all [isNullV]
  simp only [ht, hk, scalarCheck, hn, hb, hD, hv', if_true, Bool.false_eq_true, if_false]
  cases AGV.Spec.Exec.serializeLeaf c.S n v <;> simp [errAt]

-- ------------------------------------------------------------------ witnesses (also in corpus/C02, known_findings.json)

def p0 : Pos := ⟨1, 1⟩
def S0 : Schema := { query := "Query", types := [
  { name := "Query", kind := .object, fields := [
      { name := "o", ty := .named "O", args := [] }, { name := "os", ty := .list (.named "O"), args := [] },
      { name := "oss", ty := .list (.list (.named "O")), args := [] },
      { name := "n", ty := .nonNull (.named "Int"), args := [] },
      { name := "ok", ty := .named "Int", args := [] }, { name := "bad", ty := .named "Int", args := [] }] },
  { name := "O", kind := .object, fields := [{ name := "a", ty := .named "Int", args := [] },
                                             { name := "nn", ty := .nonNull (.named "Int"), args := [] }] },
  { name := "U", kind := .union, members := ["O"] },
  { name := "Int", kind := .scalar }, { name := "Boolean", kind := .scalar }] }

def fld (n : String) (ss : List Sel := []) (ds : List Dir := []) : Sel := Sel.field none n [] ds ss p0
def qdoc (ss : List Sel) (vs : List VarDef := []) : Doc :=
  { ops := [{ ty := .query, name := none, vars := vs, dirs := [], sels := ss }], frags := [] }

def wU : World := { entries := [((0, "o"), .obj "O" 1), ((1, "a"), .leaf (.int 5))] }
def docU : Doc := qdoc [fld "o" [Sel.inline (some "U") [] [fld "__typename"] p0]]

/-- `{ o { ... on U { __typename } } }`: the pinned executor drops the union-conditioned fragment -/
theorem c02_union_condition_witness :
    (run { unionCondIgnored := true } S0 docU none [] wU 10).val = some (.obj [("o", .obj [])]) ∧
    (AGV.Spec.ExecDyn.run S0 docU none [] wU 10).val = some (.obj [("o", .obj [("__typename", .str "O")])]) := by
  constructor <;> rfl

theorem c02_union_condition_repaired_example :
    (run Defects.none S0 docU none [] wU 10).val = (AGV.Spec.ExecDyn.run S0 docU none [] wU 10).val := by rfl

def docSkip : Doc :=
  qdoc [fld "o" [fld "a" [] [{ name := "skip", args := [("if", .var "s")] }]]]
    [VarDef.mk "s" (.named "Boolean") (some (.bool true))]

/-- `query($s: Boolean = true) { o { a @skip(if: $s) } }` with `s` not supplied (shared code, repaired
    upstream by 97ef034: the toggle stays for trees without that commit) -/
theorem c02_skip_default_witness :
    (run { skipIgnoresVarDefault := true } S0 docSkip none [] wU 10).val = some (.obj [("o", .obj [("a", .int 5)])]) ∧
    (AGV.Spec.ExecDyn.run S0 docSkip none [] wU 10).val = some (.obj [("o", .obj [])]) := by
  constructor <;> rfl

def wStr : World := { entries := [((0, "o"), .obj "O" 1), ((1, "a"), .leaf (.str "x"))] }
def docA : Doc := qdoc [fld "o" [fld "a"]]

/-- a string handed over for `a: Int` goes through unchecked -/
theorem c02_builtin_scalar_witness :
    (run { builtinScalarUnchecked := true } S0 docA none [] wStr 10).val = some (.obj [("o", .obj [("a", .str "x")])]) ∧
    (AGV.Spec.ExecDyn.run S0 docA none [] wStr 10).val = some (.obj [("o", .obj [("a", .null)])]) ∧
    (run Defects.none S0 docA none [] wStr 10).val = (AGV.Spec.ExecDyn.run S0 docA none [] wStr 10).val := by
  refine ⟨?_, ?_, ?_⟩ <;> rfl

def wNull : World := { entries := [((0, "n"), .leaf .null), ((0, "os"), .list [.null])] }

/-- `Value::Null` for `n: Int!`: null in a non-null position, no error -/
theorem c02_null_value_nonnull_witness :
    (run { nullValueNotNull := true, builtinScalarUnchecked := true } S0 (qdoc [fld "n"]) none [] wNull 10).val
      = some (.obj [("n", .null)]) ∧
    (run { nullValueNotNull := true, builtinScalarUnchecked := true } S0 (qdoc [fld "n"]) none [] wNull 10).errs = [] ∧
    (AGV.Spec.ExecDyn.run S0 (qdoc [fld "n"]) none [] wNull 10).val = none := by
  refine ⟨?_, ?_, ?_⟩ <;> rfl

/-- a null item of `os: [O]`: the selection set runs on the null parent -/
theorem c02_null_item_object_witness :
    (run { nullValueNotNull := true } S0 (qdoc [fld "os" [fld "__typename"]]) none [] wNull 10).val
      = some (.obj [("os", .list [.obj [("__typename", .str "O")]])]) ∧
    (AGV.Spec.ExecDyn.run S0 (qdoc [fld "os" [fld "__typename"]]) none [] wNull 10).val
      = some (.obj [("os", .list [.null])]) ∧
    (run Defects.none S0 (qdoc [fld "os" [fld "__typename"]]) none [] wNull 10).val
      = some (.obj [("os", .list [.null])]) := by
  refine ⟨?_, ?_, ?_⟩ <;> rfl

def wOss : World := { entries := [((0, "oss"), .list [.list [.obj "O" 1]]), ((1, "a"), .leaf (.int 5)), ((1, "nn"), .leaf (.int 6))] }
def docOss : Doc := qdoc [fld "oss" [fld "a"], fld "oss" [fld "nn"]]

/-- `{ oss { a } oss { nn } }` over `oss: [[O]]`: the second occurrence's fields are lost -/
theorem c02_nested_list_merge_witness :
    (run { nestedListMergeShallow := true } S0 docOss none [] wOss 10).val
      = some (.obj [("oss", .list [.list [.obj [("a", .int 5)]]])]) ∧
    (AGV.Spec.ExecDyn.run S0 docOss none [] wOss 10).val
      = some (.obj [("oss", .list [.list [.obj [("a", .int 5), ("nn", .int 6)]]])]) := by
  constructor <;> rfl

theorem c02_nested_list_merge_repaired_example :
    (run Defects.none S0 docOss none [] wOss 10).val = (AGV.Spec.ExecDyn.run S0 docOss none [] wOss 10).val := by rfl

-- ------------------------------------------------------------------ C03, dynamic flavour (for the integrator of C03)

def wBad : World := { entries := [((0, "ok"), .leaf (.int 1)), ((0, "bad"), .fail "boom")] }
def docBad : Doc := qdoc [fld "ok", fld "bad"]

/-- `{ ok bad }` with a failing nullable `bad`: the pinned executor answers `"data": null` -/
theorem c03dyn_no_capture_witness :
    (run { noNullableCapture := true } S0 docBad none [] wBad 10).val = none ∧
    (AGV.Spec.ExecDyn.run S0 docBad none [] wBad 10).val = some (.obj [("ok", .int 1), ("bad", .null)]) ∧
    (run Defects.none S0 docBad none [] wBad 10).val = some (.obj [("ok", .int 1), ("bad", .null)]) := by
  refine ⟨?_, ?_, ?_⟩ <;> rfl

/-- … and the error of the failing resolver has no path -/
theorem c03dyn_error_path_witness :
    (run { resolverErrNoPath := true } S0 docBad none [] wBad 10).errs = [⟨[], p0⟩] ∧
    (AGV.Spec.ExecDyn.run S0 docBad none [] wBad 10).errs = [⟨[.key "bad"], p0⟩] ∧
    (run Defects.none S0 docBad none [] wBad 10).errs = [⟨[.key "bad"], p0⟩] := by
  refine ⟨?_, ?_, ?_⟩ <;> rfl

-- ------------------------------------------------------------------ the full statement needs hypotheses

/-- `{ x: zz  x: ok }`: the first occurrence of the response key `x` names a field the root type does
    not have (rejected by validation rule 5.3.1) -/
def docShadow : Doc := qdoc [Sel.field (some "x") "zz" [] [] [] p0, Sel.field (some "x") "ok" [] [] [] p0]

/-- `c02_data_full` as first stated (no validity hypothesis) is FALSE.  An unknown field ALONE is
    harmless here (the dynamic `collect_fields` skips it, the specification's executor finds no field
    definition and skips it too), but when it shares its response key with a later, existing field the
    specification's grouping looks at the first occurrence and drops the whole key, while the executor
    model answers `{"x": 1}`.  Such documents never reach the executor (validation rejects them). -/
theorem c02_data_full_needs_validity : ¬ c02_data_full := by
  intro h
  have h1 := h S0 docShadow none [] wBad 4 (by simp [AGV.Spec.Exec.fuelBound, AGV.Spec.Exec.selCount, docShadow, qdoc])
  have hm : (run Defects.none S0 docShadow none [] wBad 4).val = some (.obj [("x", .int 1)]) := by rfl
  have hs : (AGV.Spec.ExecDyn.run S0 docShadow none [] wBad 4).val = some (.obj []) := by rfl
  rw [hm, hs] at h1
  simp at h1

/-- the resolver of `o: O` hands over the scalar `5` -/
def wLeafObj : World := { entries := [((0, "o"), .leaf (.int 5))] }
def docTn : Doc := qdoc [fld "o" [fld "__typename"]]

/-- … and validity alone is not enough either: the statement quantifies over ALL data worlds.  For a
    VALID document, when a resolver hands a non-null scalar to an object-typed field, `resolve_value`'s
    arm `(Type::Object(object), _)` runs the selection set on it whatever the value is — the model
    answers `{"o": {"__typename": "O"}}`, the specification (an internal value that is no object of
    type `O`) `{"o": null}`.  The generator never builds such worlds (props/C02.json, assumptions);
    `c02_data_partial_nodup` asks for `rvOK` instead. -/
theorem c02_data_full_needs_typed_world :
    (run Defects.none S0 docTn none [] wLeafObj 10).val = some (.obj [("o", .obj [("__typename", .str "O")])]) ∧
    (AGV.Spec.ExecDyn.run S0 docTn none [] wLeafObj 10).val = some (.obj [("o", .null)]) ∧
    AGV.Spec.Exec.fuelBound docTn ≤ 10 := by
  refine ⟨by rfl, by rfl, by simp [AGV.Spec.Exec.fuelBound, AGV.Spec.Exec.selCount, docTn, qdoc, fld]⟩

-- ------------------------------------------------------------------ stage 1: field collection

/-- CollectFields: with the union-condition defect repaired, on a consistent schema, when every
    selected field exists on the runtime type, no directive acts and no fragment name is spread twice
    within the selection set, the dynamic `collect_fields` collects exactly the specification's
    occurrences (type conditions on objects, interfaces and unions; named and inline fragments; any
    nesting) — the specification being run on `Spec.ExecDyn.specSchema` -/
theorem c02_collect_spread_once (c : Model.ExecDynamic.Ctx) (hD : c.D = Defects.none) (hok : SchemaOK c.S)
    (rt : String) (hrt : IsObj c.S rt) (hfr : ∀ f ∈ c.d.frags, selsInert c.vars f.sels = true)
    (fuel : Nat) (sels : List Sel) (hin : selsInert c.vars sels = true)
    (hfe : fieldsExist c rt fuel sels = true) (hnd : (spreads c.d fuel sels).Nodup) :
    (AGV.Spec.Exec.collect (sc c) rt fuel sels []).1 = (Model.ExecDynamic.collect c rt fuel sels).map eraseSt :=
  (collect_agree c hD hok rt hrt hfr fuel sels [] hin hfe hnd (by intro n _; simp)).1

-- ------------------------------------------------------------------ stage 2: data, distinct response keys

/-- DATA EQUALITY for documents without repeated response keys.  For every schema, document,
    variables, world and every fuel: if, for the selected operation,
      * the schema is consistent (`SchemaOK`, implied by the decidable `schemaWF`), the built-in scalar
        names are plain scalars and custom scalars carry one of the described validators or none
        (`DynSchemaOK` ⇐ `dynSchemaWF`), a field name has one base type and every field type is
        registered (⇐ `fieldsWF`),
      * no `@skip`/`@include` acts (`selsInert`; present-but-inert directives are allowed),
      * object-typed positions receive nothing, `Value::Null` or an object identity of the declared
        type, through the list structure of the declared type (`rvOK`; anything may fail, and anything
        goes at scalar, enum, interface and union positions: ill-typed leaves, values the validator
        rejects, unknown enum items, enum items by string, runtime types the abstract type does not
        allow, non-lists for lists, `Value::Null` in non-null positions), echoed arguments are
        internal values already (⇐ `worldOK`),
      * `noRepeatedKeys`: at every selection set reached, for every possible runtime type, the
        collected response keys are pairwise distinct, no fragment name is spread twice and every
        selected field exists,
    then the executor model without defects returns exactly the data of the specification's executor
    run on `Spec.ExecDyn`'s reading of schema and world. -/
theorem c02_data_partial_nodup (S : Schema) (d : Doc) (opName : Option String) (raw : List (String × GValue))
    (w : World) (fuel : Nat)
    (H : ∀ op, AGV.Spec.Exec.selectOp d opName = some op → RunHyps S d op raw w fuel) :
    (Model.ExecDynamic.run Defects.none S d opName raw w fuel).val = (AGV.Spec.ExecDyn.run S d opName raw w fuel).val :=
  run_val_eq S d opName raw w fuel H

/-- the hypotheses of `c02_data_partial_nodup` hold for `Ex.doc1`:
    `{ obj { ...F ... on U { nn } } node { __typename ... on P { nm: name } ... on O { a } }
       items { a @include(if: true) nn } e ev tok grid }`
    with `fragment F on I { name ... @skip(if: false) { a } }` over a schema with an interface, a union,
    an enum, two custom scalars with validators and a nested list, in a world with a failing resolver,
    a `Value::Null` in an `Int!` position, an enum item named by a string and a rejected custom scalar -/
theorem c02_data_partial_nodup_example :
    ∀ op, AGV.Spec.Exec.selectOp Ex.doc1 none = some op → RunHyps Ex.S1 Ex.doc1 op [] Ex.w1 10 :=
  Ex.runHyps

example : (run Defects.none Ex.S1 Ex.doc1 none [] Ex.w1 10).val = (AGV.Spec.ExecDyn.run Ex.S1 Ex.doc1 none [] Ex.w1 10).val :=
  c02_data_partial_nodup Ex.S1 Ex.doc1 none [] Ex.w1 10 c02_data_partial_nodup_example

/-- the instance is not vacuous: `obj` is nulled by the `Value::Null` in `nn: Int!`, `items[i].a` by the
    failing resolver, `ev` by the validator -/
example : (run Defects.none Ex.S1 Ex.doc1 none [] Ex.w1 10).val = some (.obj [("obj", .null),
    ("node", .obj [("__typename", .str "P"), ("nm", .str "p")]),
    ("items", .list [.obj [("a", .null), ("nn", .int 7)], .obj [("a", .null), ("nn", .int 7)]]),
    ("e", .str "X"), ("ev", .null), ("tok", .str "t"),
    ("grid", .list [.list [.int 1, .null], .null])]) := by rfl

-- ------------------------------------------------------------------ stage 3: repeated response keys

/-- `{ o { a } o { nn } }` where `nn: Int!` receives `Value::Null`: the LATER occurrence of `o` completes to
    null (the error is captured at the nullable `o`).  `merge_value` as pinned keeps the object of the
    earlier occurrence; one execution of the merged selection set gives `{"o": null}`.  The code is shared
    with the static executor and was repaired there (fix 09175af, finding
    C03-repeated-key-error-keeps-partial-object); through the dynamic executor the deviation cannot be
    observed as long as `noNullableCapture` holds (every error nulls the whole response).  This is why the
    statement `c02_data_mergeable_full` was FALSE of the model as it stood before the toggle existed. -/
def wNullNN : World := { entries := [((0, "o"), .obj "O" 1), ((1, "a"), .leaf (.int 5)), ((1, "nn"), .leaf .null)] }
def docKeep : Doc := qdoc [fld "o" [fld "a"], fld "o" [fld "nn"]]

theorem c02_repeated_key_null_witness :
    (run { mergeKeepsPartialOnNull := true } S0 docKeep none [] wNullNN 30).val = some (.obj [("o", .obj [("a", .int 5)])]) ∧
    (AGV.Spec.ExecDyn.run S0 docKeep none [] wNullNN 30).val = some (.obj [("o", .null)]) ∧
    3 * AGV.Spec.Exec.fuelBound docKeep ≤ 30 := by
  refine ⟨by rfl, by rfl, by simp [AGV.Spec.Exec.fuelBound, AGV.Spec.Exec.selCount, docKeep, qdoc, fld]⟩

theorem c02_repeated_key_null_repaired_example :
    (run Defects.none S0 docKeep none [] wNullNN 30).val = (AGV.Spec.ExecDyn.run S0 docKeep none [] wNullNN 30).val := by rfl

/-- with both merge toggles off, the model's `merge_value` is the static model's (the code is shared) -/
theorem c02_merge_is_static (keep : Bool) (n : Nat) : merge false keep n = AGV.Model.ExecStatic.merge keep n :=
  merge_eq_static keep n

/-- first step of the merge lemma, for EVERY list of field results (no shape hypothesis): the object
    built by `create_value_object`/`insert_value` is "group the results by response key in order of
    first occurrence, then fold `merge_value` over each key's values in occurrence order" — the model's
    counterpart of the specification's grouping of field occurrences -/
theorem c02_create_value_object_groups (D : Defects) (fuel : Nat) (kvs : List (String × GValue)) :
    createValueObject D fuel kvs =
      .obj ((groupKV kvs).map (fun g =>
        (g.1, mergeAll (merge D.nestedListMergeShallow D.mergeKeepsPartialOnNull (4 * fuel)) g.2))) :=
  createValueObject_group D fuel kvs

/-- THE MERGE LEMMA (specification side, `Spec.ExecDyn`'s reading of schema and world).  Executing the
    union `a ++ b` of two selection sets on an object is the `merge_value` of executing `a` and executing `b`
    (objects key by key in order of first occurrence, lists item by item, a `null` on either side wins, a
    propagating error on either side propagates) — for every object, depth, path and every merge depth
    `N ≥ 4·fuel`, when the union is mergeable (`DMKP`, the proposition behind `mergeableKeys`: every selected
    field exists, occurrences of one response key name one field with one argument list, recursively on the
    merged sub-selections; no fragment spread twice) and no directive acts. -/
theorem c02_exec_union_is_merge (c : Model.ExecDynamic.Ctx) (H : DataHyps c) (fuel : Nat) (rt : String) (id : Nat)
    (a b : List Sel) (path : List PathSeg) (N : Nat) (hrt : IsObj c.S rt)
    (ha : selsInert c.vars a = true) (hb : selsInert c.vars b = true) (hmk : DMKP c fuel rt (a ++ b)) (hN : 4 * fuel ≤ N) :
    (AGV.Spec.Exec.execSet (sc c) fuel rt id (a ++ b) path).val =
      mergeO N (AGV.Spec.Exec.execSet (sc c) fuel rt id a path).val (AGV.Spec.Exec.execSet (sc c) fuel rt id b path).val :=
  dexecSet_merge c H fuel rt id a b path N hrt ha hb hmk hN

/-- DATA EQUALITY, the full statement restated with the hypotheses found necessary (validity in the sense
    of `mergeableKeys`: every selected field exists, occurrences of one response key name the same field
    with the same arguments — `argsSame`, structural equality —, recursively on the merged sub-selections,
    list depth ≤ 3 for repeated keys (the depth `merge_value` is modelled to: four units of merge fuel per
    selection level); a consistent schema description; directives that do not act; object-typed positions
    receive object identities): the executor model without defects returns the specification's data, in
    every such world (resolver failures, `Value::Null` incl. non-null positions, ill-typed leaves, values a
    validator rejects included) and at EVERY fuel.  The statement as first restated (`o'.args == o.args`,
    `fuel ≥ 3 * fuelBound d`, merge fuel = selection depth, no `null` arm in the model of `merge_value`)
    was vacuous in its argument hypothesis and false of the model then: `c02_repeated_key_null_witness`.
    `c02_data_partial_nodup` is the case of pairwise distinct keys. -/
theorem c02_data_mergeable_full :
  ∀ (S : Schema) (d : Doc) (opName : Option String) (raw : List (String × GValue)) (w : World) (fuel : Nat),
    (∀ op, AGV.Spec.Exec.selectOp d opName = some op →
      IsObj S (rootOf S op) ∧ DataHyps (runCtx S d op raw w) ∧
      selsInert (AGV.Spec.Exec.coerceVars op.vars raw) op.sels = true ∧
      mergeableKeys (runCtx S d op raw w) fuel (rootOf S op) op.sels = true) →
    (Model.ExecDynamic.run Defects.none S d opName raw w fuel).val = (AGV.Spec.ExecDyn.run S d opName raw w fuel).val :=
  fun S d opName raw w fuel H => run_val_eq_mergeable S d opName raw w fuel H

def f0 (al : Option String) (n : String) (ss : List Sel) : Sel := Sel.field al n [] [] ss Ex.p0
def opRep : OpDef := { ty := .query, name := none, vars := [], dirs := [], sels := [
  f0 none "obj" [f0 none "name" []],
  f0 none "obj" [f0 none "a" [], Sel.spread "F" [] Ex.p0],
  f0 (some "x") "obj" [f0 none "nn" []],
  f0 (some "x") "obj" [f0 none "a" []],
  f0 (some "y") "obj" [f0 none "a" []],
  f0 (some "y") "obj" [f0 none "nn" []],
  f0 none "items" [f0 none "a" []],
  f0 none "items" [f0 none "name" [], f0 none "nn" []],
  f0 none "node" [f0 none "__typename" []],
  f0 none "node" [Sel.inline (some "P") [] [f0 (some "nm") "name" []] Ex.p0],
  f0 none "grid" [], f0 none "grid" []] }
def docRep : Doc := { ops := [opRep], frags := [Ex.fragF] }

/-- `{ obj { name } obj { a ...F } x: obj { nn } x: obj { a } y: obj { a } y: obj { nn } items { a } items { name nn }
       node { __typename } node { ... on P { nm: name } } grid grid }` over `Ex.S1`/`Ex.w1`: every top-level key
    occurs twice (an object with a fragment; an aliased object whose FIRST occurrence is nulled by the
    `Value::Null` in `nn: Int!`, one whose LATER occurrence is; a list of non-null objects with a failing
    resolver below; an interface with a type-conditioned fragment; a nested list of scalars), `name` and `a`
    repeat inside the merged `obj`.  The hypotheses of `c02_data_mergeable_full` hold (and `noRepeatedKeys`
    does not) -/
theorem c02_data_mergeable_example :
    (∀ op, AGV.Spec.Exec.selectOp docRep none = some op →
      IsObj Ex.S1 (rootOf Ex.S1 op) ∧ DataHyps (runCtx Ex.S1 docRep op [] Ex.w1) ∧
      selsInert (AGV.Spec.Exec.coerceVars op.vars []) op.sels = true ∧
      mergeableKeys (runCtx Ex.S1 docRep op [] Ex.w1) 10 (rootOf Ex.S1 op) op.sels = true) ∧
    (∀ op, AGV.Spec.Exec.selectOp docRep none = some op →
      noRepeatedKeys (runCtx Ex.S1 docRep op [] Ex.w1) 10 (rootOf Ex.S1 op) op.sels = false) := by
  constructor
  · intro op hop
    have : op = opRep := by simpa [AGV.Spec.Exec.selectOp, docRep] using hop.symm
    subst this
    have hf := fields_of_wf Ex.S1 (by decide)
    have hw := world_of_ok (runCtx Ex.S1 docRep opRep [] Ex.w1) (by decide)
    exact ⟨⟨Ex.tQuery, rfl, rfl⟩,
      { noDefect := rfl
        schema := schemaOK_of_wf _ (by decide)
        dyn := dynSchemaOK_of_wf _ (by decide)
        frags := by decide
        family := hf.1
        registered := hf.2
        typed := hw.1
        args := hw.2 },
      by decide, by decide⟩
  · intro op hop
    have : op = opRep := by simpa [AGV.Spec.Exec.selectOp, docRep] using hop.symm
    subst this
    decide

example : (run Defects.none Ex.S1 docRep none [] Ex.w1 10).val = (AGV.Spec.ExecDyn.run Ex.S1 docRep none [] Ex.w1 10).val :=
  c02_data_mergeable_full Ex.S1 docRep none [] Ex.w1 10 c02_data_mergeable_example.1

/-- the instance is not vacuous: merged objects, keys nulled by their first / by a later occurrence, merged list items -/
example : (run Defects.none Ex.S1 docRep none [] Ex.w1 10).val = some (.obj [
    ("obj", .obj [("name", .str "x"), ("a", .int 5)]), ("x", .null), ("y", .null),
    ("items", .list [.obj [("a", .null), ("name", .null), ("nn", .int 7)], .obj [("a", .null), ("name", .null), ("nn", .int 7)]]),
    ("node", .obj [("__typename", .str "P"), ("nm", .str "p")]),
    ("grid", .list [.list [.int 1, .null], .null])]) := by rfl

end AGV.Props.C02
