/-
  C02 — query results follow spec field collection and completion (dynamic schemas).
  Property theorems only (lemmas: AGV/Lemmas/ExecDynamic.lean, AGV/Lemmas/ExecStatic.lean).

  OBLIGATION c02_key_order
  OBLIGATION c02_type_condition
  OBLIGATION c02_nonnull_position
  OBLIGATION c02_errors_never_lost
  OBLIGATION c02_builtin_leaf_checked
  OBLIGATION c02_union_condition_witness
  OBLIGATION c02_union_condition_repaired_example
  OBLIGATION c02_skip_default_witness
  OBLIGATION c02_builtin_scalar_witness
  OBLIGATION c02_null_value_nonnull_witness
  OBLIGATION c02_null_item_object_witness
  OBLIGATION c02_nested_list_merge_witness
  OBLIGATION c02_nested_list_merge_repaired_example
  OBLIGATION c03dyn_no_capture_witness
  OBLIGATION c03dyn_error_path_witness
  OPEN c02_data_full
-/
import AGV.Lemmas.ExecDynamic
import AGV.Spec.ExecDyn

namespace AGV.Props.C02
open AGV.Core AGV.Model.ExecDynamic AGV.Lemmas.ExecDynamic
open AGV.Lemmas.ExecStatic (newKeys keys_foldl_insertKV)

/-- FULL STATEMENT (open): for every run-time assembled schema, document, variables and data
    world, the data of the executor model with no defect equals the data of the specification's
    execution algorithm (resolver values read as in Spec/ExecDyn.lean).  Tied by the correspondence
    check only: the judge evaluates both sides on every generated case. -/
def c02_data_full : Prop :=
  ∀ (S : Schema) (d : Doc) (op : Option String) (vars : List (String × GValue)) (w : World),
    (∀ fuel ≥ AGV.Spec.Exec.fuelBound d,
      (Model.ExecDynamic.run Defects.none S d op vars w fuel).val = (AGV.Spec.ExecDyn.run S d op vars w fuel).val)

/-- "exactly the collected response keys in document order": whatever the field futures returned,
    the object built by `create_value_object` has each response key once, in order of first
    occurrence — for every list of key/value pairs, merge depth and merge flavour. -/
theorem c02_key_order (D : Defects) (fuel : Nat) (kvs : List (String × GValue)) :
    ∃ fs, createValueObject D fuel kvs = .obj fs ∧ fs.map (·.1) = newKeys [] (kvs.map (·.1)) := by
  refine ⟨_, rfl, ?_⟩
  simpa using keys_foldl_insertKV (merge D.nestedListMergeShallow fuel) kvs []

/-- "fragments applied exactly when the runtime object type satisfies their type condition":
    on a schema where the runtime type is an object whose `implements` names interfaces only, the
    repaired `type_condition_matched` is the specification's DoesFragmentTypeApply, for every
    type condition that names a type of the schema. -/
theorem c02_type_condition (S : Schema) (rt cond : String) (o t : TypeDef)
    (ho : S.find? rt = some o) (hobj : o.kind = .object)
    (ht : S.find? cond = some t)
    (himpl : ∀ i ∈ o.implements, S.kindOf i = some .interface) :
    condMatched Defects.none S rt cond = AGV.Spec.Exec.doesApply S rt cond := by
  have hk : S.kindOf cond = some t.kind := by simp [Schema.kindOf, ht]
  have hself : cond = rt → t.kind = .object := by
    intro e; subst e; rw [ho] at ht; cases ht; exact hobj
  have hmem : cond ∈ o.implements → t.kind = .interface := by
    intro h
    have := himpl cond h
    rw [hk] at this
    exact Option.some.inj this
  have k1 : (Kind.scalar == Kind.union) = false := rfl
  have k2 : (Kind.object == Kind.union) = false := rfl
  have k3 : (Kind.interface == Kind.union) = false := rfl
  have k4 : (Kind.union == Kind.union) = true := rfl
  have k5 : (Kind.enum == Kind.union) = false := rfl
  have k6 : (Kind.input == Kind.union) = false := rfl
  unfold condMatched AGV.Spec.Exec.doesApply
  simp only [ho, ht, Defects.none, Bool.not_false, Bool.true_and]
  cases hkind : t.kind
  all_goals simp only []
  all_goals
    by_cases e : cond = rt
    · have := hself e; rw [hkind] at this
      first
        | exact absurd this (by decide)
        | (by_cases m : cond ∈ o.implements
           · have := hmem m; rw [hkind] at this; exact absurd this (by decide)
           · simp [e, k2])
    · by_cases m : cond ∈ o.implements
      · have := hmem m; rw [hkind] at this
        first
          | exact absurd this (by decide)
          | simp [e, m, k3]
      · simp [e, m, k1, k2, k3, k4, k5, k6]

/-- "a position whose type is non-null never holds null": once `Value::Null` is read as null,
    completing any resolver result against a non-null type gives a non-null value or propagates —
    for every schema, type, result, sub-selection and depth, whatever the other toggles are. -/
theorem c02_nonnull_position (c : Model.ExecDynamic.Ctx) (hD : c.D.nullValueNotNull = false) (fuel : Nat)
    (t : TypeRef) (rv : RVal) (ss : List Sel) (path : List PathSeg) (pos : Pos) :
    (resolve c (resolveContainer c fuel) (.nonNull t) rv ss path pos).val ≠ some .null := by
  intro h
  have hrec := recOK_resolveContainer c hD fuel
  by_cases hn : normNull c.D rv = .null
  · simp [resolve, hn, errAt] at h
  · rw [resolve_nonNull _ _ _ _ _ _ _ hn] at h
    have h2 := (resolve_props c hD _ hrec t (normNull c.D rv) ss path pos).2
    rw [normNull_idem] at h2
    unfold AGV.Model.ExecStatic.nnWrap at h
    split at h
    · rename_i hnull
      split at h
      · rename_i hemp
        exact hn (h2 hnull (by simpa using hemp))
      · simp at h
    · rename_i hnn
      exact hnn h

/-- whenever a selection set gives up (`val = none`: the error travels to the parent), an error
    has been recorded — so `"data": null` never comes without an error; and an object value is
    never `null` by itself. -/
theorem c02_errors_never_lost (c : Model.ExecDynamic.Ctx) (hD : c.D.nullValueNotNull = false) (fuel : Nat) :
    RecOK (resolveContainer c fuel) :=
  recOK_resolveContainer c hD fuel

/-- "leaf values checked and serialized according to their declared type": with no defect, what
    `resolve_value` does with a value at a built-in scalar type is exactly the specification's
    result coercion (same value on success, a field error otherwise) — every schema, value, path. -/
theorem c02_builtin_leaf_checked (c : Model.ExecDynamic.Ctx) (hD : c.D.builtinScalarUnchecked = false)
    (rec : String → Nat → List Sel → List PathSeg → Res) (n : String) (t : TypeDef) (v : GValue)
    (ht : c.S.find? n = some t) (hk : t.kind = .scalar) (hn : t.name = n) (hb : isBuiltin n = true) (hv : v ≠ .null)
    (ss : List Sel) (path : List PathSeg) (pos : Pos) :
    resolveNamed c rec n (.leaf v) ss path pos =
      match AGV.Spec.Exec.serializeLeaf c.S n v with
      | some v' => { val := some v' }
      | none => { val := none, errs := [⟨path, pos⟩] } := by
  unfold resolveNamed
  have hv' : isNullV v = false := by cases v <;> simp_all [isNullV]
  simp only [ht, hk, scalarCheck, hn, hb, hD, hv', if_true, Bool.false_eq_true, if_false]
  cases AGV.Spec.Exec.serializeLeaf c.S n v <;> simp [errAt]

-- ------------------------------------------------------------------ witnesses (also in corpus/C02, known_findings.json)

def p0 : Pos := ⟨1, 1⟩
def S0 : Schema := { query := "Query", types := [
  { name := "Query", kind := .object, fields := [
      { name := "o", ty := .named "O", args := [] }, { name := "os", ty := .list (.named "O"), args := [] },
      { name := "oss", ty := .list (.list (.named "O")), args := [] },
      { name := "n", ty := .nonNull (.named "Int"), args := [] },
      { name := "ok", ty := .named "Int", args := [] }, { name := "bad", ty := .named "Int", args := [] }] },
  { name := "O", kind := .object, fields := [{ name := "a", ty := .named "Int", args := [] },
                                             { name := "nn", ty := .nonNull (.named "Int"), args := [] }] },
  { name := "U", kind := .union, members := ["O"] },
  { name := "Int", kind := .scalar }, { name := "Boolean", kind := .scalar }] }

def fld (n : String) (ss : List Sel := []) (ds : List Dir := []) : Sel := Sel.field none n [] ds ss p0
def qdoc (ss : List Sel) (vs : List VarDef := []) : Doc :=
  { ops := [{ ty := .query, name := none, vars := vs, dirs := [], sels := ss }], frags := [] }

def wU : World := { entries := [((0, "o"), .obj "O" 1), ((1, "a"), .leaf (.int 5))] }
def docU : Doc := qdoc [fld "o" [Sel.inline (some "U") [] [fld "__typename"] p0]]

/-- `{ o { ... on U { __typename } } }`: the pinned executor drops the union-conditioned fragment -/
theorem c02_union_condition_witness :
    (run { unionCondIgnored := true } S0 docU none [] wU 10).val = some (.obj [("o", .obj [])]) ∧
    (AGV.Spec.ExecDyn.run S0 docU none [] wU 10).val = some (.obj [("o", .obj [("__typename", .str "O")])]) := by
  constructor <;> rfl

theorem c02_union_condition_repaired_example :
    (run Defects.none S0 docU none [] wU 10).val = (AGV.Spec.ExecDyn.run S0 docU none [] wU 10).val := by rfl

def docSkip : Doc :=
  qdoc [fld "o" [fld "a" [] [{ name := "skip", args := [("if", .var "s")] }]]]
    [VarDef.mk "s" (.named "Boolean") (some (.bool true))]

/-- `query($s: Boolean = true) { o { a @skip(if: $s) } }` with `s` not supplied (shared code, repaired
    upstream by 97ef034: the toggle stays for trees without that commit) -/
theorem c02_skip_default_witness :
    (run { skipIgnoresVarDefault := true } S0 docSkip none [] wU 10).val = some (.obj [("o", .obj [("a", .int 5)])]) ∧
    (AGV.Spec.ExecDyn.run S0 docSkip none [] wU 10).val = some (.obj [("o", .obj [])]) := by
  constructor <;> rfl

def wStr : World := { entries := [((0, "o"), .obj "O" 1), ((1, "a"), .leaf (.str "x"))] }
def docA : Doc := qdoc [fld "o" [fld "a"]]

/-- a string handed over for `a: Int` goes through unchecked -/
theorem c02_builtin_scalar_witness :
    (run { builtinScalarUnchecked := true } S0 docA none [] wStr 10).val = some (.obj [("o", .obj [("a", .str "x")])]) ∧
    (AGV.Spec.ExecDyn.run S0 docA none [] wStr 10).val = some (.obj [("o", .obj [("a", .null)])]) ∧
    (run Defects.none S0 docA none [] wStr 10).val = (AGV.Spec.ExecDyn.run S0 docA none [] wStr 10).val := by
  refine ⟨?_, ?_, ?_⟩ <;> rfl

def wNull : World := { entries := [((0, "n"), .leaf .null), ((0, "os"), .list [.null])] }

/-- `Value::Null` for `n: Int!`: null in a non-null position, no error -/
theorem c02_null_value_nonnull_witness :
    (run { nullValueNotNull := true, builtinScalarUnchecked := true } S0 (qdoc [fld "n"]) none [] wNull 10).val
      = some (.obj [("n", .null)]) ∧
    (run { nullValueNotNull := true, builtinScalarUnchecked := true } S0 (qdoc [fld "n"]) none [] wNull 10).errs = [] ∧
    (AGV.Spec.ExecDyn.run S0 (qdoc [fld "n"]) none [] wNull 10).val = none := by
  refine ⟨?_, ?_, ?_⟩ <;> rfl

/-- a null item of `os: [O]`: the selection set runs on the null parent -/
theorem c02_null_item_object_witness :
    (run { nullValueNotNull := true } S0 (qdoc [fld "os" [fld "__typename"]]) none [] wNull 10).val
      = some (.obj [("os", .list [.obj [("__typename", .str "O")]])]) ∧
    (AGV.Spec.ExecDyn.run S0 (qdoc [fld "os" [fld "__typename"]]) none [] wNull 10).val
      = some (.obj [("os", .list [.null])]) ∧
    (run Defects.none S0 (qdoc [fld "os" [fld "__typename"]]) none [] wNull 10).val
      = some (.obj [("os", .list [.null])]) := by
  refine ⟨?_, ?_, ?_⟩ <;> rfl

def wOss : World := { entries := [((0, "oss"), .list [.list [.obj "O" 1]]), ((1, "a"), .leaf (.int 5)), ((1, "nn"), .leaf (.int 6))] }
def docOss : Doc := qdoc [fld "oss" [fld "a"], fld "oss" [fld "nn"]]

/-- `{ oss { a } oss { nn } }` over `oss: [[O]]`: the second occurrence's fields are lost -/
theorem c02_nested_list_merge_witness :
    (run { nestedListMergeShallow := true } S0 docOss none [] wOss 10).val
      = some (.obj [("oss", .list [.list [.obj [("a", .int 5)]]])]) ∧
    (AGV.Spec.ExecDyn.run S0 docOss none [] wOss 10).val
      = some (.obj [("oss", .list [.list [.obj [("a", .int 5), ("nn", .int 6)]]])]) := by
  constructor <;> rfl

theorem c02_nested_list_merge_repaired_example :
    (run Defects.none S0 docOss none [] wOss 10).val = (AGV.Spec.ExecDyn.run S0 docOss none [] wOss 10).val := by rfl

-- ------------------------------------------------------------------ C03, dynamic flavour (for the integrator of C03)

def wBad : World := { entries := [((0, "ok"), .leaf (.int 1)), ((0, "bad"), .fail "boom")] }
def docBad : Doc := qdoc [fld "ok", fld "bad"]

/-- `{ ok bad }` with a failing nullable `bad`: the pinned executor answers `"data": null` -/
theorem c03dyn_no_capture_witness :
    (run { noNullableCapture := true } S0 docBad none [] wBad 10).val = none ∧
    (AGV.Spec.ExecDyn.run S0 docBad none [] wBad 10).val = some (.obj [("ok", .int 1), ("bad", .null)]) ∧
    (run Defects.none S0 docBad none [] wBad 10).val = some (.obj [("ok", .int 1), ("bad", .null)]) := by
  refine ⟨?_, ?_, ?_⟩ <;> rfl

/-- … and the error of the failing resolver has no path -/
theorem c03dyn_error_path_witness :
    (run { resolverErrNoPath := true } S0 docBad none [] wBad 10).errs = [⟨[], p0⟩] ∧
    (AGV.Spec.ExecDyn.run S0 docBad none [] wBad 10).errs = [⟨[.key "bad"], p0⟩] ∧
    (run Defects.none S0 docBad none [] wBad 10).errs = [⟨[.key "bad"], p0⟩] := by
  refine ⟨?_, ?_, ?_⟩ <;> rfl

end AGV.Props.C02
