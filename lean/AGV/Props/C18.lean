/-
  C18 — introspection is consistent and matches the schema actually served.

  OBLIGATION c18_wrappers
  OBLIGATION c18_wrappers_fields
  OBLIGATION c18_closed
  OBLIGATION c18_hidden_type
  OBLIGATION c18_hidden_elements
  OBLIGATION c18_possible_interface
  OBLIGATION c18_possible_union
  OBLIGATION c18_probe_hidden
  OBLIGATION c18_witness_hidden_type_referenced
  OBLIGATION c18_witness_interfaces_null
  OBLIGATION c18_witness_possible_lists_interfaces
  OBLIGATION c18_witness_dyn_implements_dropped
  OBLIGATION c18_visible_complete
  OBLIGATION c18_visible_closed
  OBLIGATION c18_roundtrip_wf
  OBLIGATION c18_roundtrip_refuted
  OBLIGATION c18_single_pass_differs
  OBLIGATION c18_container_wrappers
  OBLIGATION c18_container_registered_text
  OBLIGATION c18_container_hashset_variant_differs
  OBLIGATION c18_witness_pointer_option_in_list

  `c18_roundtrip` as first stated (ALL descriptions) is refuted (`c18_roundtrip_refuted`: a union
  over a scalar); the law is proved for well-formed descriptions (`c18_roundtrip_wf`).

  All theorems are about the model with the relevant defect toggle OFF (the repaired behaviour);
  the remaining toggles are universally quantified where they do not matter.
-/
import AGV.Lemmas.Introspect
import AGV.Lemmas.RustTy
import AGV.Model.RustTyRef

namespace AGV.Props.C18
open AGV AGV.Core AGV.Model.Introspect AGV.Spec.Introspect AGV.Lemmas.Introspect

/-- wrapper chains: the `ofType` chain served for a declared type decodes to exactly that type
    (all registries, all type references) -/
theorem c18_wrappers (ts : List IType) (ty : TypeRef) : decodeRef (refT ts ty) = ty :=
  decodeRef_refT ts ty

/-- …and every field listed for a type is a declared field with its declared type and the
    declared types of its listed arguments -/
theorem c18_wrappers_fields (D : Defects) (ts : List IType) (vn : List String) (c : Nat) (inc : Bool)
    (fs : List IField) (ft : FieldT) (h : ft ∈ fieldsT D ts vn c inc fs) :
    ∃ f ∈ fs, ft.name = f.name ∧ decodeRef ft.ty = f.ty ∧
      ∀ at' ∈ ft.args, ∃ a ∈ f.args, at'.name = a.name ∧ decodeRef at'.ty = a.ty := by
  simp only [fieldsT, List.mem_map, List.mem_filter] at h
  obtain ⟨f, ⟨hf, _⟩, rfl⟩ := h
  refine ⟨f, hf, rfl, decodeRef_refT _ _, ?_⟩
  intro at' hat
  simp only [fieldT, inputsT, List.mem_map, List.mem_filter] at hat
  obtain ⟨a, ⟨ha, _⟩, rfl⟩ := hat
  exact ⟨a, ha, rfl, decodeRef_refT _ _⟩

/-- closedness: with the hidden-type filter in place, every type name mentioned by any listed
    type (field types, argument types, input field types, interfaces, possible types) and by the
    root operation types is itself listed in `types` — for every registry, context and
    includeDeprecated flag, whatever the other toggles -/
theorem c18_closed (D : Defects) (hD : D.hiddenTypeReferenced = false) (R : Registry) (c : Nat) (inc : Bool)
    (hq : R.query ∈ visibleNames D R c) :
    let s := introspect D R c inc
    (∀ t ∈ s.types, ∀ n ∈ typeRefs t, n ∈ listed s) ∧ s.query.2 ∈ listed s ∧
      (∀ r, s.mutation = some r → r.2 ∈ listed s) ∧ (∀ r, s.subscription = some r → r.2 ∈ listed s) := by
  intro s
  have hl : ∀ n, n ∈ listed s ↔ n ∈ visibleNames D R c := mem_listed_introspect D R c inc
  refine ⟨?_, ?_, ?_, ?_⟩
  · intro t ht n hn
    rw [hl]
    simp only [s, introspect, List.mem_map, List.mem_filter] at ht
    obtain ⟨t0, _, rfl⟩ := ht
    simp only [typeRefs, typeT, List.mem_append] at hn
    rcases hn with ((hn | hn) | hn) | hn
    · -- field types and argument types
      split at hn
      · simp only [Option.getD_some, fieldRefs, List.mem_flatMap, fieldsT, List.mem_map, List.mem_filter] at hn
        obtain ⟨ft, ⟨f, ⟨_, hf⟩, rfl⟩, hn⟩ := hn
        simp only [fieldT, List.mem_cons] at hn
        rcases hn with rfl | hn
        · simp [tyListed, hD] at hf
          simpa [refBase_refT] using hf.2
        · simp only [inputRefs, inputsT, List.mem_map, List.mem_filter] at hn
          obtain ⟨_, ⟨a, ⟨_, ha⟩, rfl⟩, rfl⟩ := hn
          simp [tyListed, hD] at ha
          simpa [inputT, refBase_refT] using ha.2
      · simp [fieldRefs] at hn
    · split at hn
      · simp only [Option.getD_some, inputRefs, inputsT, List.mem_map, List.mem_filter] at hn
        obtain ⟨_, ⟨a, ⟨_, ha⟩, rfl⟩, rfl⟩ := hn
        simp [tyListed, hD] at ha
        simpa [inputT, refBase_refT] using ha.2
      · simp [inputRefs] at hn
    · split at hn
      · simp only [Option.getD_some, namedRefs, List.mem_map, List.mem_filter] at hn
        obtain ⟨_, ⟨m, ⟨_, hm⟩, rfl⟩, rfl⟩ := hn
        simpa [refBase_refT, TypeRef.base] using hm
      · simp at hn
    · split at hn
      · simp only [Option.getD_some, namedRefs, List.mem_map, List.mem_filter] at hn
        obtain ⟨_, ⟨m, ⟨_, hm⟩, rfl⟩, rfl⟩ := hn
        simpa [refBase_refT, TypeRef.base] using hm
      · simp at hn
  · rw [hl]; simpa [s, introspect, rootRef] using hq
  · intro r hr
    rw [hl]
    simp only [s, introspect, Option.map_eq_some_iff, Option.filter_eq_some_iff] at hr
    obtain ⟨m, ⟨_, hm⟩, rfl⟩ := hr
    simpa [rootRef] using hm
  · intro r hr
    rw [hl]
    simp only [s, introspect, Option.map_eq_some_iff, Option.filter_eq_some_iff] at hr
    obtain ⟨m, ⟨_, hm⟩, rfl⟩ := hr
    simpa [rootRef] using hm

/-- a type whose own rule fails in the context is absent from the result: not listed, and (with
    the hidden-type filter) mentioned by no listed type -/
theorem c18_hidden_type (D : Defects) (hD : D.hiddenTypeReferenced = false) (R : Registry) (c : Nat) (inc : Bool)
    (hq : R.query ∈ visibleNames D R c)
    (t0 : IType) (hl : lookup R.types t0.name = some t0) (hsys : isSystem t0.name = false)
    (hv : t0.vis.holds c = false) :
    let s := introspect D R c inc
    t0.name ∉ listed s ∧ ∀ t ∈ s.types, t0.name ∉ typeRefs t := by
  intro s
  have hnot : t0.name ∉ listed s := by
    rw [mem_listed_introspect]
    intro h
    simp only [visibleNames, List.mem_map, List.mem_filter] at h
    obtain ⟨t, ⟨_, hp⟩, hn⟩ := h
    rw [hn, hsys] at hp
    simp at hp
    obtain ⟨t', hl', hv'⟩ := visibleSet_sound D R c _ hp
    rw [hl] at hl'
    cases hl'
    rw [hv] at hv'
    cases hv'
  exact ⟨hnot, fun t ht hn => hnot ((c18_closed D hD R c inc hq).1 t ht _ hn)⟩

/-- fields, arguments, input fields and enum values whose own rule fails are not listed -/
theorem c18_hidden_elements (D : Defects) (ts : List IType) (vn : List String) (c : Nat) (inc : Bool) :
    (∀ fs : List IField, ∀ ft ∈ fieldsT D ts vn c inc fs, ∃ f ∈ fs, f.name = ft.name ∧ f.vis.holds c = true) ∧
    (∀ as : List IInput, ∀ at' ∈ inputsT D ts vn c inc as, ∃ a ∈ as, a.name = at'.name ∧ a.vis.holds c = true) ∧
    (∀ vs : List IEnumVal, ∀ vt ∈ enumValsT c inc vs, ∃ v ∈ vs, v.name = vt.name ∧ v.vis.holds c = true) := by
  refine ⟨?_, ?_, ?_⟩
  · intro fs ft h
    simp only [fieldsT, List.mem_map, List.mem_filter] at h
    obtain ⟨f, ⟨hf, hp⟩, rfl⟩ := h
    simp at hp
    exact ⟨f, hf, rfl, hp.1.1.1⟩
  · intro as at' h
    simp only [inputsT, List.mem_map, List.mem_filter] at h
    obtain ⟨a, ⟨ha, hp⟩, rfl⟩ := h
    simp at hp
    exact ⟨a, ha, rfl, hp.1.2⟩
  · intro vs vt h
    simp only [enumValsT, List.mem_map, List.mem_filter] at h
    obtain ⟨v, ⟨hv, hp⟩, rfl⟩ := h
    simp at hp
    exact ⟨v, hv, rfl, hp.1⟩

/-- possible types of an interface, as registered from a description and served: exactly the
    visible OBJECT types that declare it -/
theorem c18_possible_interface (D : Defects) (hD : D.possibleListsInterfaces = false) (fl : Flavour)
    (all ts : List IType) (vn : List String) (c : Nat) (inc : Bool) (t : IType) (hk : t.kind = .interface) (n : String) :
    n ∈ ((typeT D ts vn c inc (register D fl all t)).possible.getD []).map refBase ↔
      n ∈ vn ∧ ∃ u ∈ all, u.name = n ∧ u.kind = .object ∧ t.name ∈ u.implements := by
  have e1 : (Kind.interface == Kind.interface) = true := by decide
  simp [register, hk, typeT, namedRefs, sortNames, refBase_refT, TypeRef.base, isPossibleOf, hD,
    List.mem_mergeSort, Function.comp_def, e1]
  have kb : ∀ a : Kind, (a == Kind.object) = true ↔ a = Kind.object := by intro a; cases a <;> decide
  constructor
  · rintro ⟨⟨u, ⟨hu, hi, hko⟩, rfl⟩, hv⟩
    exact ⟨hv, u, hu, rfl, (kb _).mp hko, hi⟩
  · rintro ⟨hv, u, hu, rfl, hko, hi⟩
    exact ⟨⟨u, ⟨hu, hi, (kb _).mpr hko⟩, rfl⟩, hv⟩

/-- possible types of a union: exactly its visible members, in declaration order -/
theorem c18_possible_union (D : Defects) (fl : Flavour) (all ts : List IType) (vn : List String) (c : Nat) (inc : Bool)
    (t : IType) (hk : t.kind = .union) :
    ((typeT D ts vn c inc (register D fl all t)).possible.getD []).map refBase = t.members.filter vn.contains := by
  have e1 : (Kind.union == Kind.union) = true := by decide
  have e2 : (Kind.union == Kind.interface) = false := by decide
  simp [register, hk, typeT, namedRefs, refBase_refT, TypeRef.base, Function.comp_def, e1, e2]

/-- `__type(name:)` answers `null` for a type hidden in the context -/
theorem c18_probe_hidden (D : Defects) (R : Registry) (c : Nat) (inc : Bool)
    (t0 : IType) (hl : lookup R.types t0.name = some t0) (hsys : isSystem t0.name = false)
    (hv : t0.vis.holds c = false) : probe D R c inc t0.name = none := by
  have hnot : t0.name ∉ visibleNames D R c := by
    intro h
    simp only [visibleNames, List.mem_map, List.mem_filter] at h
    obtain ⟨t, ⟨_, hp⟩, hn⟩ := h
    rw [hn, hsys] at hp
    simp at hp
    obtain ⟨t', hl', hv'⟩ := visibleSet_sound D R c _ hp
    rw [hl] at hl'
    cases hl'
    rw [hv] at hv'
    cases hv'
  simp [probe, hl, hnot]

-- hypotheses of `c18_hidden_type` are satisfiable: a one-type registry and a never-visible type
example : lookup [({ name := "Ghost", kind := .object, vis := .never } : IType)] "Ghost"
    = some { name := "Ghost", kind := .object, vis := .never } ∧ isSystem "Ghost" = false := by decide

-- ------------------------------------------------------------------ witnesses of the pinned behaviour

private def ghostField : IField :=
  { name := "ghost", desc := none, ty := .named "Ghost", dep := .no, vis := .always, args := [] }

/-- pinned: a visible field of a hidden type is listed (here: nothing is visible, `vn = []`) -/
theorem c18_witness_hidden_type_referenced :
    fieldsT { hiddenTypeReferenced := true } [] [] 0 true [ghostField] ≠
      fieldsT Defects.none [] [] 0 true [ghostField] := by decide

private def ifaceJ : IType := { name := "J", kind := .interface, implements := ["I"] }

/-- pinned: `interfaces` of an INTERFACE is `null` although it implements `I` -/
theorem c18_witness_interfaces_null :
    (typeT { interfacesNull := true } [] ["I", "J"] 0 true ifaceJ).interfaces = none ∧
    (typeT Defects.none [] ["I", "J"] 0 true ifaceJ).interfaces ≠ none := by decide

/-- pinned (static): an interface variant is registered as a possible type of the outer interface -/
theorem c18_witness_possible_lists_interfaces :
    isPossibleOf { possibleListsInterfaces := true } .static "I" ifaceJ = true ∧
    isPossibleOf Defects.none .static "I" ifaceJ = false := by decide

/-- pinned (dynamic): the declared `implements` of an interface is not registered -/
theorem c18_witness_dyn_implements_dropped :
    (register { dynIfaceImplDropped := true } .dynamic [] ifaceJ).implements = [] ∧
    (register Defects.none .dynamic [] ifaceJ).implements = ["I"] := by
  constructor <;> simp [register, ifaceJ, Defects.none]

-- ------------------------------------------------------------------ open

/-- the round-trip statement over ALL descriptions: FALSE (`c18_roundtrip_refuted`); true and
    proved under well-formedness (`c18_roundtrip_wf`).  Also evaluated by the judge on every
    generated case (verdict TIE when it fails). -/
def c18_roundtrip : Prop :=
  ∀ (fl : Flavour) (d : Desc) (c : Nat),
    d.query ∈ visibleNames Defects.none (mkRegistry Defects.none fl d) c →
    buildClient (introspect Defects.none (mkRegistry Defects.none fl d) c true) =
      some (restrict d (visibleNames Defects.none (mkRegistry Defects.none fl d) c) c)

-- ------------------------------------------------------------------ completeness of the visibility search

/-- `find_visible_types` (with the iterated final loop) computes EXACTLY the declaratively
    reachable names (`Reach`: least set containing the passing roots — directive argument types
    and root operation types —, closed under passing children of members and under "a passing
    interface with a member among its possible types"); for every registry, duplicate names
    included.  Left-to-right is soundness, right-to-left is completeness of the work-list search
    and of the fixed-point pass (`R.types.length` iterations suffice). -/
theorem c18_visible_complete (D : Defects) (hD : D.singlePass = false) (R : Registry) (c : Nat) (n : String) :
    n ∈ visibleSet D R c ↔ Reach R.types c (searchRoots R c) n :=
  visibleSet_iff D hD R c n

/-- the three closure properties, spelled out -/
theorem c18_visible_closed (D : Defects) (hD : D.singlePass = false) (R : Registry) (c : Nat) :
    (∀ n ∈ searchRoots R c, Passes R.types c n → n ∈ visibleSet D R c) ∧
    (∀ n ∈ visibleSet D R c, ∀ t, lookup R.types n = some t → ∀ m ∈ children c t, Passes R.types c m →
        m ∈ visibleSet D R c) ∧
    (∀ t ∈ R.types, t.kind = .interface → t.vis.holds c = true → Passes R.types c t.name →
        ∀ p ∈ t.possible, p ∈ visibleSet D R c → t.name ∈ visibleSet D R c) := by
  refine ⟨?_, ?_, ?_⟩
  · intro n hn hp
    exact (visibleSet_iff D hD R c n).mpr (Reach.root hn hp)
  · intro n hn t hl m hm hp
    exact (visibleSet_iff D hD R c m).mpr (Reach.child ((visibleSet_iff D hD R c n).mp hn) hl hm hp)
  · intro t ht hk hv hpass p hp hpv
    exact (visibleSet_iff D hD R c _).mpr (Reach.iface ht hk hv hp ((visibleSet_iff D hD R c p).mp hpv) hpass)

-- ------------------------------------------------------------------ witness of the single-pass toggle

private def sQ : IType :=
  { name := "Q", kind := .object,
    fields := [{ name := "o", desc := none, ty := .named "O", dep := .no, vis := .always, args := [] }] }
private def sO : IType := { name := "O", kind := .object }
private def sA : IType := { name := "A", kind := .interface, possible := ["B"] }
private def sB : IType := { name := "B", kind := .interface, possible := ["O"] }
/-- `Q { o: O }`, interface `B` with possible type `O`, interface `A` with possible type `B`: `A`
    becomes visible only after `B` did, and `A` sorts before `B` -/
def chainRegistry : Registry :=
  { types := [sA, sB, sO, sQ], dirs := [], query := "Q", mutation := none, subscription := none }

theorem chain_single : visibleSet { singlePass := true } chainRegistry 0 = ["B", "O", "Q"] := by
  have lQ : lookup chainRegistry.types "Q" = some sQ := by decide
  have lO : lookup chainRegistry.types "O" = some sO := by decide
  have lB : lookup chainRegistry.types "B" = some sB := by decide
  have v1 : dfs chainRegistry.types 0 ["Q"] [] = ["O", "Q"] := by
    rw [dfs_visit _ _ _ _ _ sQ (by decide) lQ (by decide)]
    have : children 0 sQ ++ [] = ["O"] := by decide
    rw [this, dfs_visit _ _ _ _ _ sO (by decide) lO (by decide)]
    have : children 0 sO ++ [] = [] := by decide
    rw [this, dfs_nil]
  have vB : dfs chainRegistry.types 0 ["B"] ["O", "Q"] = ["B", "O", "Q"] := by
    rw [dfs_visit _ _ _ _ _ sB (by decide) lB (by decide)]
    have : children 0 sB ++ [] = ["O"] := by decide
    rw [this, dfs_seen _ _ _ _ _ (by decide), dfs_nil]
  have sA' : ifaceStep chainRegistry.types 0 ["O", "Q"] sA = ["O", "Q"] := by
    unfold ifaceStep; rw [if_neg (by decide)]
  have sB' : ifaceStep chainRegistry.types 0 ["O", "Q"] sB = ["B", "O", "Q"] := by
    unfold ifaceStep; rw [if_pos (by decide)]; exact vB
  have sO' : ifaceStep chainRegistry.types 0 ["B", "O", "Q"] sO = ["B", "O", "Q"] := by
    unfold ifaceStep; rw [if_neg (by decide)]
  have sQ' : ifaceStep chainRegistry.types 0 ["B", "O", "Q"] sQ = ["B", "O", "Q"] := by
    unfold ifaceStep; rw [if_neg (by decide)]
  unfold visibleSet
  simp only [if_true]
  have e0 : (chainRegistry.dirs.flatMap fun d => inputKids 0 d.args) = [] := rfl
  have e1 : rootNames chainRegistry = ["Q"] := rfl
  rw [e0, dfs_nil, e1, v1, ifacePass_eq]
  show List.foldl _ ["O", "Q"] [sA, sB, sO, sQ] = _
  simp only [List.foldl_cons, List.foldl_nil, sA', sB', sO', sQ']

/-- a registry on which the single alphabetical pass and the iterated pass differ: the iterated
    pass finds `A` (by `c18_visible_complete`), the single pass does not -/
theorem c18_single_pass_differs : ∃ (R : Registry) (c : Nat),
    visibleSet { singlePass := true } R c ≠ visibleSet Defects.none R c := by
  refine ⟨chainRegistry, 0, fun h => ?_⟩
  have lQ : lookup chainRegistry.types "Q" = some sQ := by decide
  have lO : lookup chainRegistry.types "O" = some sO := by decide
  have lB : lookup chainRegistry.types "B" = some sB := by decide
  have lA : lookup chainRegistry.types "A" = some sA := by decide
  have rQ : Reach chainRegistry.types 0 (searchRoots chainRegistry 0) "Q" :=
    Reach.root (by decide) ⟨sQ, lQ, rfl⟩
  have rO : Reach chainRegistry.types 0 (searchRoots chainRegistry 0) "O" :=
    Reach.child rQ lQ (by decide) ⟨sO, lO, rfl⟩
  have rB : Reach chainRegistry.types 0 (searchRoots chainRegistry 0) "B" :=
    Reach.iface (t := sB) (p := "O") (by decide) rfl rfl (by decide) rO ⟨sB, lB, rfl⟩
  have rA : Reach chainRegistry.types 0 (searchRoots chainRegistry 0) "A" :=
    Reach.iface (t := sA) (p := "B") (by decide) rfl rfl (by decide) rB ⟨sA, lA, rfl⟩
  have hA := (visibleSet_iff Defects.none rfl chainRegistry 0 "A").mpr rA
  rw [← h, chain_single] at hA
  revert hA
  decide

-- ------------------------------------------------------------------ the round trip

/-- THE ROUND-TRIP LAW for well-formed descriptions (`WellFormed`: registry names unique, union
    members name OBJECT types): the client schema rebuilt from the introspection result is the
    served description restricted to the visible part — every flavour, every visibility rule on
    types / fields / arguments / input fields / enum values, every context.  `buildClient`
    inverts each resolver: kinds, `ofType` chains, fields, arguments, input fields, enum values,
    deprecations, interfaces, possibleTypes, specifiedByURL, isOneOf. -/
theorem c18_roundtrip_wf (fl : Flavour) (d : Desc) (c : Nat) (hwf : WellFormed d)
    (hq : d.query ∈ visibleNames Defects.none (mkRegistry Defects.none fl d) c) :
    buildClient (introspect Defects.none (mkRegistry Defects.none fl d) c true) =
      some (restrict d (visibleNames Defects.none (mkRegistry Defects.none fl d) c) c) := by
  have hcl := c18_closed Defects.none rfl (mkRegistry Defects.none fl d) c true hq
  simp only at hcl
  obtain ⟨h1, h2, h3, h4⟩ := hcl
  have hclosed : closed (introspect Defects.none (mkRegistry Defects.none fl d) c true) = true := by
    simp only [closed, List.all_eq_true, List.contains_eq_mem, decide_eq_true_eq]
    intro n hn
    simp only [schemaRefs, List.mem_cons, List.mem_append, List.mem_map, Option.mem_toList,
      List.mem_flatMap] at hn
    rcases hn with ((rfl | hn | hn) | ⟨t, ht, hn⟩) | hn
    · exact h2
    · obtain ⟨r, hr, rfl⟩ := hn; exact h3 r hr
    · obtain ⟨r, hr, rfl⟩ := hn; exact h4 r hr
    · exact h1 t ht n hn
    · rw [mem_listed_introspect]
      have : n ∈ ["String", "Boolean", "Boolean", "String"] := by
        rw [← dir_refs (mkRegistry Defects.none fl d).types]
        simp only [List.mem_flatMap]
        simp only [introspect, List.mem_map] at hn
        obtain ⟨dt, ⟨d0, hd0, rfl⟩, hn⟩ := hn
        exact ⟨d0, hd0, hn⟩
      apply builtin_listed
      simp only [List.mem_cons, List.mem_nil_iff, or_false] at this
      rcases this with rfl | rfl | rfl | rfl <;> decide
  unfold buildClient
  rw [if_pos hclosed]
  generalize hvn : visibleNames Defects.none (mkRegistry Defects.none fl d) c = vn at *
  have htypes : (introspect Defects.none (mkRegistry Defects.none fl d) c true).types =
      ((sortTypes (allTypes d)).filter (fun t => vn.contains t.name)).map (fun t =>
        typeT Defects.none (mkRegistry Defects.none fl d).types vn c true (register Defects.none fl (allTypes d) t)) := by
    simp only [introspect, hvn]
    conv => lhs; arg 2; arg 2; rw [mkRegistry_types]
    rw [List.filter_map, List.map_map]
    congr 1
    · congr 1; funext t; simp [register_name]
  rw [htypes, List.mapM_map]
  rw [mapM_some_of_forall _ (restrictType (allTypes d) vn c)]
  · simp [restrict, introspect, hvn, rootRef, Option.map_map, Function.comp_def]
    simp [mkRegistry]
  · intro t ht
    simp only [List.mem_filter, sortTypes, List.mem_mergeSort] at ht
    exact clientType_typeT fl d hwf vn c t ht.1


-- ------------------------------------------------------------------ `c18_roundtrip` without well-formedness is false

theorem mapM_some_all {α β} (f : α → Option β) (l : List α) (ys : List β) (h : l.mapM f = some ys) :
    ∀ x ∈ l, f x ≠ none := by
  induction l generalizing ys with
  | nil => intro x hx; cases hx
  | cons a l ih =>
    intro x hx hfx
    simp only [List.mapM_cons] at h
    cases hfa : f a with
    | none => simp [hfa] at h
    | some b =>
      cases hl : l.mapM f with
      | none => simp [hfa, hl] at h
      | some ys' =>
        rcases List.mem_cons.mp hx with rfl | hx
        · rw [hfx] at hfa; cases hfa
        · exact ih ys' hl x hx hfx

private def wQ : IType :=
  { name := "Q", kind := .object,
    fields := [{ name := "u", desc := none, ty := .named "U", dep := .no, vis := .always, args := [] }] }
private def wU : IType := { name := "U", kind := .union, members := ["String"] }
private def wS : IType := { name := "String", kind := .scalar }
/-- `type Q { u: U }  union U = String` — a union over a scalar: not a GraphQL schema, but a `Desc` -/
def scalarUnionDesc : Desc := { query := "Q", mutation := none, subscription := none, types := [wQ, wU] }

/-- the statement `c18_roundtrip` (all descriptions) is FALSE: for a union with a scalar member the
    client rejects the introspection result (possible type that is not an OBJECT), while `restrict`
    is defined.  The law holds for well-formed descriptions: `c18_roundtrip_wf`. -/
theorem c18_roundtrip_refuted : ¬ c18_roundtrip := by
  intro h
  have hnd : ((allTypes scalarUnionDesc).map (·.name)).Nodup := by decide
  have hQ : wQ ∈ allTypes scalarUnionDesc := by simp [allTypes, scalarUnionDesc]
  have hU : wU ∈ allTypes scalarUnionDesc := by simp [allTypes, scalarUnionDesc]
  have hS : wS ∈ allTypes scalarUnionDesc := by
    simp only [allTypes, List.mem_append, List.mem_map, List.mem_filter]
    left; right
    exact ⟨"String", ⟨by decide, by decide⟩, rfl⟩
  have lQ := lookup_mkRegistry Defects.none .static scalarUnionDesc hnd wQ hQ
  have lU := lookup_mkRegistry Defects.none .static scalarUnionDesc hnd wU hU
  have lS := lookup_mkRegistry Defects.none .static scalarUnionDesc hnd wS hS
  generalize hR : mkRegistry Defects.none .static scalarUnionDesc = R at *
  have rQ : Reach R.types 0 (searchRoots R 0) "Q" := by
    apply Reach.root
    · rw [← hR]; simp [searchRoots, rootNames, mkRegistry, scalarUnionDesc]
    · exact ⟨_, lQ, rfl⟩
  have rU : Reach R.types 0 (searchRoots R 0) "U" := by
    refine Reach.child rQ lQ ?_ ⟨_, lU, rfl⟩
    decide
  have vQ : "Q" ∈ visibleNames Defects.none R 0 := by
    simp only [visibleNames, List.mem_map, List.mem_filter]
    exact ⟨_, ⟨(lookup_some lQ).1, by simp [(visibleSet_iff Defects.none rfl R 0 "Q").mpr rQ, register_name, wQ]⟩,
      by simp [register_name, wQ]⟩
  have vU : "U" ∈ visibleNames Defects.none R 0 := by
    simp only [visibleNames, List.mem_map, List.mem_filter]
    exact ⟨_, ⟨(lookup_some lU).1, by simp [(visibleSet_iff Defects.none rfl R 0 "U").mpr rU, register_name, wU]⟩,
      by simp [register_name, wU]⟩
  have vS : "String" ∈ visibleNames Defects.none R 0 := by
    rw [← hR]; exact builtin_listed _ _ _ _ _ (by decide)
  have hb := h .static scalarUnionDesc 0 (by rw [hR]; exact vQ)
  rw [hR] at hb
  unfold buildClient at hb
  split at hb
  · simp only [Option.map_eq_some_iff] at hb
    obtain ⟨ts, hts, _⟩ := hb
    refine mapM_some_all _ _ _ hts (typeT Defects.none R.types (visibleNames Defects.none R 0) 0 true
      (register Defects.none .static (allTypes scalarUnionDesc) wU)) ?_ ?_
    · simp only [introspect, List.mem_map, List.mem_filter]
      exact ⟨_, ⟨(lookup_some lU).1, by simpa [register_name, wU] using vU⟩, rfl⟩
    · have hp : (typeT Defects.none R.types (visibleNames Defects.none R 0) 0 true
          (register Defects.none .static (allTypes scalarUnionDesc) wU)).possible =
          some [RefT.named "SCALAR" "String"] := by
        have lS' : lookup R.types "String" = some (register Defects.none .static (allTypes scalarUnionDesc) wS) := lS
        simp [typeT, register, wU, namedRefs, vS, refT, lS', kindName]
        decide
      simp [clientType, hp, refKind]
  · cases hb


-- the hypotheses of `c18_roundtrip_wf` are satisfiable by a schema with an interface, a union,
-- an enum and an input object
example : WellFormed
    { query := "Q", mutation := none, subscription := none,
      types := [ { name := "Q", kind := .object, implements := ["I"],
                   fields := [{ name := "u", desc := none, ty := .list (.nonNull (.named "U")), dep := .yes none,
                                vis := .bit 1, args := [{ name := "a", desc := none, ty := .named "In", default := some "1",
                                                           dep := .no, vis := .always }] }] },
                 { name := "I", kind := .interface }, { name := "U", kind := .union, members := ["Q"] },
                 { name := "E", kind := .enum, values := [{ name := "A", desc := none, dep := .no, vis := .never }] },
                 { name := "In", kind := .input, oneOf := true } ] } := by
  constructor <;> decide

-- ------------------------------------------------------------------ declared Rust types (derive-built schemas)

section Containers
open AGV.Core.RustTy

/-- THE WRAPPER-CHAIN RULE FOR CONTAINERS, all declared types: an argument, input field or field
    declared with Rust type `t` (named types, `Vec` / `VecDeque` / `LinkedList` / `HashSet` /
    `BTreeSet` / arrays / slices, `Option`, `MaybeUndefined`, `Box` / `Arc` / `&`, nested to any
    depth) is registered by the repaired `type_name` / `qualified_type_name` / `create_type_info`
    with a type whose served `ofType` chain decodes to the reference the declaration means; and
    that reference is: a named type is non-null; a container is a non-null list of its element's
    reference (`[inner!]!` for a non-null element); `Option` / `MaybeUndefined` strip exactly the
    outer `!` (`[inner!]`); pointers change nothing. -/
theorem c18_container_wrappers (ts : List IType) (t : RTy) :
    decodeRef (refT ts (Model.RustTy.created .none t).toTypeRef) = (Spec.RustTy.ref t).toTypeRef ∧
    (∀ n, Spec.RustTy.ref (.leaf n) = .nonNull (.named n)) ∧
    (∀ k, Spec.RustTy.ref (.list k t) = .nonNull (.list (Spec.RustTy.ref t))) ∧
    (∀ k, Spec.RustTy.ref (.option (.list k t)) = .list (Spec.RustTy.ref t)) ∧
    (∀ k, Spec.RustTy.ref (.undef (.list k t)) = .list (Spec.RustTy.ref t)) ∧
    Spec.RustTy.ref (.option t) = (Spec.RustTy.ref t).nullable ∧
    Spec.RustTy.ref (.undef t) = (Spec.RustTy.ref t).nullable ∧
    (∀ p, Spec.RustTy.ref (.ptr p t) = Spec.RustTy.ref t) := by
  refine ⟨?_, ?_, ?_, ?_, ?_, ?_, ?_, ?_⟩
  · rw [decodeRef_refT, AGV.Lemmas.RustTy.created_none]
  · intro n; simp [Spec.RustTy.ref, Spec.RustTy.core, Spec.RustTy.nullable]
  · intro k; simp [Spec.RustTy.ref, Spec.RustTy.core, Spec.RustTy.nullable]
  · intro k; simp [Spec.RustTy.ref, Spec.RustTy.core, Spec.RustTy.nullable]
  · intro k; simp [Spec.RustTy.ref, Spec.RustTy.core, Spec.RustTy.nullable]
  · rw [AGV.Lemmas.RustTy.ref_option, AGV.Lemmas.RustTy.ref_nullable]
  · rw [AGV.Lemmas.RustTy.ref_undef, AGV.Lemmas.RustTy.ref_nullable]
  · intro p; exact AGV.Lemmas.RustTy.ref_ptr p t

/-- … and the STRING the registry stores (built with `format!("[{}]", …)` / `format!("{}!", …)`
    exactly as the code does) is the rendering of that reference -/
theorem c18_container_registered_text (t : RTy) :
    Model.RustTy.createdS .none t = (Spec.RustTy.ref t).toTypeRef.render := by
  rw [RRef.toTypeRef_render, ← Model.RustTy.created_render, AGV.Lemmas.RustTy.created_none]

/-- the seeded variant (`HashSet<T>::type_name` built from `T::type_name()`): `Option<HashSet<i32>>`
    and `MaybeUndefined<HashSet<i32>>` lose the inner `!` (`[Int]` instead of `[Int!]`), while
    `HashSet<i32>`, `Vec<HashSet<i32>>` and `Option<Vec<i32>>` are unaffected -/
theorem c18_container_hashset_variant_differs :
    let D : Model.RustTy.Defects := { hashSetInnerTypeName := true }
    let int := RTy.leaf "Int"
    Model.RustTy.created D (.option (.list .hashSet int)) = .list (.named "Int") ∧
    Spec.RustTy.ref (.option (.list .hashSet int)) = .list (.nonNull (.named "Int")) ∧
    Model.RustTy.created D (.undef (.list .hashSet int)) ≠ Spec.RustTy.ref (.undef (.list .hashSet int)) ∧
    Model.RustTy.created D (.list .hashSet int) = Spec.RustTy.ref (.list .hashSet int) ∧
    Model.RustTy.created D (.option (.list .vec (.list .hashSet int))) = Spec.RustTy.ref (.option (.list .vec (.list .hashSet int))) ∧
    Model.RustTy.created D (.option (.list .vec int)) = Spec.RustTy.ref (.option (.list .vec int)) := by
  decide

/-- the pinned tree (`Box<T>` / `Arc<T>` / `&T` keep the default `qualified_type_name`): a list of
    boxed options declares non-null elements, `Vec<Box<Option<i32>>>` is served as `[Int!]!` -/
theorem c18_witness_pointer_option_in_list :
    let D : Model.RustTy.Defects := { ptrQualifiedDefault := true }
    let t := RTy.list .vec (.ptr .box (.option (.leaf "Int")))
    Model.RustTy.created D t = .nonNull (.list (.nonNull (.named "Int"))) ∧
    Spec.RustTy.ref t = .nonNull (.list (.named "Int")) ∧
    Model.RustTy.createdS D t = "[Int!]!" ∧
    Model.RustTy.created D (.ptr .box (.option (.leaf "Int"))) = Spec.RustTy.ref (.ptr .box (.option (.leaf "Int"))) := by
  decide

end Containers

end AGV.Props.C18
