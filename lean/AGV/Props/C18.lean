/-
  C18 — introspection is consistent and matches the schema actually served.

  OBLIGATION c18_wrappers
  OBLIGATION c18_wrappers_fields
  OBLIGATION c18_closed
  OBLIGATION c18_hidden_type
  OBLIGATION c18_hidden_elements
  OBLIGATION c18_possible_interface
  OBLIGATION c18_possible_union
  OBLIGATION c18_probe_hidden
  OBLIGATION c18_witness_hidden_type_referenced
  OBLIGATION c18_witness_interfaces_null
  OBLIGATION c18_witness_possible_lists_interfaces
  OBLIGATION c18_witness_dyn_implements_dropped
  OPEN c18_roundtrip
  OPEN c18_single_pass_differs

  All theorems are about the model with the relevant defect toggle OFF (the repaired behaviour);
  the remaining toggles are universally quantified where they do not matter.
-/
import AGV.Lemmas.Introspect

namespace AGV.Props.C18
open AGV AGV.Core AGV.Model.Introspect AGV.Spec.Introspect AGV.Lemmas.Introspect

/-- wrapper chains: the `ofType` chain served for a declared type decodes to exactly that type
    (all registries, all type references) -/
theorem c18_wrappers (ts : List IType) (ty : TypeRef) : decodeRef (refT ts ty) = ty :=
  decodeRef_refT ts ty

/-- …and every field listed for a type is a declared field with its declared type and the
    declared types of its listed arguments -/
theorem c18_wrappers_fields (D : Defects) (ts : List IType) (vn : List String) (c : Nat) (inc : Bool)
    (fs : List IField) (ft : FieldT) (h : ft ∈ fieldsT D ts vn c inc fs) :
    ∃ f ∈ fs, ft.name = f.name ∧ decodeRef ft.ty = f.ty ∧
      ∀ at' ∈ ft.args, ∃ a ∈ f.args, at'.name = a.name ∧ decodeRef at'.ty = a.ty := by
  simp only [fieldsT, List.mem_map, List.mem_filter] at h
  obtain ⟨f, ⟨hf, _⟩, rfl⟩ := h
  refine ⟨f, hf, rfl, decodeRef_refT _ _, ?_⟩
  intro at' hat
  simp only [fieldT, inputsT, List.mem_map, List.mem_filter] at hat
  obtain ⟨a, ⟨ha, _⟩, rfl⟩ := hat
  exact ⟨a, ha, rfl, decodeRef_refT _ _⟩

/-- closedness: with the hidden-type filter in place, every type name mentioned by any listed
    type (field types, argument types, input field types, interfaces, possible types) and by the
    root operation types is itself listed in `types` — for every registry, context and
    includeDeprecated flag, whatever the other toggles -/
theorem c18_closed (D : Defects) (hD : D.hiddenTypeReferenced = false) (R : Registry) (c : Nat) (inc : Bool)
    (hq : R.query ∈ visibleNames D R c) :
    let s := introspect D R c inc
    (∀ t ∈ s.types, ∀ n ∈ typeRefs t, n ∈ listed s) ∧ s.query.2 ∈ listed s ∧
      (∀ r, s.mutation = some r → r.2 ∈ listed s) ∧ (∀ r, s.subscription = some r → r.2 ∈ listed s) := by
  intro s
  have hl : ∀ n, n ∈ listed s ↔ n ∈ visibleNames D R c := mem_listed_introspect D R c inc
  refine ⟨?_, ?_, ?_, ?_⟩
  · intro t ht n hn
    rw [hl]
    simp only [s, introspect, List.mem_map, List.mem_filter] at ht
    obtain ⟨t0, _, rfl⟩ := ht
    simp only [typeRefs, typeT, List.mem_append] at hn
    rcases hn with ((hn | hn) | hn) | hn
    · -- field types and argument types
      split at hn
      · simp only [Option.getD_some, fieldRefs, List.mem_flatMap, fieldsT, List.mem_map, List.mem_filter] at hn
        obtain ⟨ft, ⟨f, ⟨_, hf⟩, rfl⟩, hn⟩ := hn
        simp only [fieldT, List.mem_cons] at hn
        rcases hn with rfl | hn
        · simp [tyListed, hD] at hf
          simpa [refBase_refT] using hf.2
        · simp only [inputRefs, inputsT, List.mem_map, List.mem_filter] at hn
          obtain ⟨_, ⟨a, ⟨_, ha⟩, rfl⟩, rfl⟩ := hn
          simp [tyListed, hD] at ha
          simpa [inputT, refBase_refT] using ha.2
      · simp [fieldRefs] at hn
    · split at hn
      · simp only [Option.getD_some, inputRefs, inputsT, List.mem_map, List.mem_filter] at hn
        obtain ⟨_, ⟨a, ⟨_, ha⟩, rfl⟩, rfl⟩ := hn
        simp [tyListed, hD] at ha
        simpa [inputT, refBase_refT] using ha.2
      · simp [inputRefs] at hn
    · split at hn
      · simp only [Option.getD_some, namedRefs, List.mem_map, List.mem_filter] at hn
        obtain ⟨_, ⟨m, ⟨_, hm⟩, rfl⟩, rfl⟩ := hn
        simpa [refBase_refT, TypeRef.base] using hm
      · simp at hn
    · split at hn
      · simp only [Option.getD_some, namedRefs, List.mem_map, List.mem_filter] at hn
        obtain ⟨_, ⟨m, ⟨_, hm⟩, rfl⟩, rfl⟩ := hn
        simpa [refBase_refT, TypeRef.base] using hm
      · simp at hn
  · rw [hl]; simpa [s, introspect, rootRef] using hq
  · intro r hr
    rw [hl]
    simp only [s, introspect, Option.map_eq_some_iff, Option.filter_eq_some_iff] at hr
    obtain ⟨m, ⟨_, hm⟩, rfl⟩ := hr
    simpa [rootRef] using hm
  · intro r hr
    rw [hl]
    simp only [s, introspect, Option.map_eq_some_iff, Option.filter_eq_some_iff] at hr
    obtain ⟨m, ⟨_, hm⟩, rfl⟩ := hr
    simpa [rootRef] using hm

/-- a type whose own rule fails in the context is absent from the result: not listed, and (with
    the hidden-type filter) mentioned by no listed type -/
theorem c18_hidden_type (D : Defects) (hD : D.hiddenTypeReferenced = false) (R : Registry) (c : Nat) (inc : Bool)
    (hq : R.query ∈ visibleNames D R c)
    (t0 : IType) (hl : lookup R.types t0.name = some t0) (hsys : isSystem t0.name = false)
    (hv : t0.vis.holds c = false) :
    let s := introspect D R c inc
    t0.name ∉ listed s ∧ ∀ t ∈ s.types, t0.name ∉ typeRefs t := by
  intro s
  have hnot : t0.name ∉ listed s := by
    rw [mem_listed_introspect]
    intro h
    simp only [visibleNames, List.mem_map, List.mem_filter] at h
    obtain ⟨t, ⟨_, hp⟩, hn⟩ := h
    rw [hn, hsys] at hp
    simp at hp
    obtain ⟨t', hl', hv'⟩ := visibleSet_sound D R c _ hp
    rw [hl] at hl'
    cases hl'
    rw [hv] at hv'
    cases hv'
  exact ⟨hnot, fun t ht hn => hnot ((c18_closed D hD R c inc hq).1 t ht _ hn)⟩

/-- fields, arguments, input fields and enum values whose own rule fails are not listed -/
theorem c18_hidden_elements (D : Defects) (ts : List IType) (vn : List String) (c : Nat) (inc : Bool) :
    (∀ fs : List IField, ∀ ft ∈ fieldsT D ts vn c inc fs, ∃ f ∈ fs, f.name = ft.name ∧ f.vis.holds c = true) ∧
    (∀ as : List IInput, ∀ at' ∈ inputsT D ts vn c inc as, ∃ a ∈ as, a.name = at'.name ∧ a.vis.holds c = true) ∧
    (∀ vs : List IEnumVal, ∀ vt ∈ enumValsT c inc vs, ∃ v ∈ vs, v.name = vt.name ∧ v.vis.holds c = true) := by
  refine ⟨?_, ?_, ?_⟩
  · intro fs ft h
    simp only [fieldsT, List.mem_map, List.mem_filter] at h
    obtain ⟨f, ⟨hf, hp⟩, rfl⟩ := h
    simp at hp
    exact ⟨f, hf, rfl, hp.1.1.1⟩
  · intro as at' h
    simp only [inputsT, List.mem_map, List.mem_filter] at h
    obtain ⟨a, ⟨ha, hp⟩, rfl⟩ := h
    simp at hp
    exact ⟨a, ha, rfl, hp.1.2⟩
  · intro vs vt h
    simp only [enumValsT, List.mem_map, List.mem_filter] at h
    obtain ⟨v, ⟨hv, hp⟩, rfl⟩ := h
    simp at hp
    exact ⟨v, hv, rfl, hp.1⟩

/-- possible types of an interface, as registered from a description and served: exactly the
    visible OBJECT types that declare it -/
theorem c18_possible_interface (D : Defects) (hD : D.possibleListsInterfaces = false) (fl : Flavour)
    (all ts : List IType) (vn : List String) (c : Nat) (inc : Bool) (t : IType) (hk : t.kind = .interface) (n : String) :
    n ∈ ((typeT D ts vn c inc (register D fl all t)).possible.getD []).map refBase ↔
      n ∈ vn ∧ ∃ u ∈ all, u.name = n ∧ u.kind = .object ∧ t.name ∈ u.implements := by
  have e1 : (Kind.interface == Kind.interface) = true := by decide
  simp [register, hk, typeT, namedRefs, sortNames, refBase_refT, TypeRef.base, isPossibleOf, hD,
    List.mem_mergeSort, Function.comp_def, e1]
  have kb : ∀ a : Kind, (a == Kind.object) = true ↔ a = Kind.object := by intro a; cases a <;> decide
  constructor
  · rintro ⟨⟨u, ⟨hu, hi, hko⟩, rfl⟩, hv⟩
    exact ⟨hv, u, hu, rfl, (kb _).mp hko, hi⟩
  · rintro ⟨hv, u, hu, rfl, hko, hi⟩
    exact ⟨⟨u, ⟨hu, hi, (kb _).mpr hko⟩, rfl⟩, hv⟩

/-- possible types of a union: exactly its visible members, in declaration order -/
theorem c18_possible_union (D : Defects) (fl : Flavour) (all ts : List IType) (vn : List String) (c : Nat) (inc : Bool)
    (t : IType) (hk : t.kind = .union) :
    ((typeT D ts vn c inc (register D fl all t)).possible.getD []).map refBase = t.members.filter vn.contains := by
  have e1 : (Kind.union == Kind.union) = true := by decide
  have e2 : (Kind.union == Kind.interface) = false := by decide
  simp [register, hk, typeT, namedRefs, refBase_refT, TypeRef.base, Function.comp_def, e1, e2]

/-- `__type(name:)` answers `null` for a type hidden in the context -/
theorem c18_probe_hidden (D : Defects) (R : Registry) (c : Nat) (inc : Bool)
    (t0 : IType) (hl : lookup R.types t0.name = some t0) (hsys : isSystem t0.name = false)
    (hv : t0.vis.holds c = false) : probe D R c inc t0.name = none := by
  have hnot : t0.name ∉ visibleNames D R c := by
    intro h
    simp only [visibleNames, List.mem_map, List.mem_filter] at h
    obtain ⟨t, ⟨_, hp⟩, hn⟩ := h
    rw [hn, hsys] at hp
    simp at hp
    obtain ⟨t', hl', hv'⟩ := visibleSet_sound D R c _ hp
    rw [hl] at hl'
    cases hl'
    rw [hv] at hv'
    cases hv'
  simp [probe, hl, hnot]

-- hypotheses of `c18_hidden_type` are satisfiable: a one-type registry and a never-visible type
example : lookup [({ name := "Ghost", kind := .object, vis := .never } : IType)] "Ghost"
    = some { name := "Ghost", kind := .object, vis := .never } ∧ isSystem "Ghost" = false := by decide

-- ------------------------------------------------------------------ witnesses of the pinned behaviour

private def ghostField : IField :=
  { name := "ghost", desc := none, ty := .named "Ghost", dep := .no, vis := .always, args := [] }

/-- pinned: a visible field of a hidden type is listed (here: nothing is visible, `vn = []`) -/
theorem c18_witness_hidden_type_referenced :
    fieldsT { hiddenTypeReferenced := true } [] [] 0 true [ghostField] ≠
      fieldsT Defects.none [] [] 0 true [ghostField] := by decide

private def ifaceJ : IType := { name := "J", kind := .interface, implements := ["I"] }

/-- pinned: `interfaces` of an INTERFACE is `null` although it implements `I` -/
theorem c18_witness_interfaces_null :
    (typeT { interfacesNull := true } [] ["I", "J"] 0 true ifaceJ).interfaces = none ∧
    (typeT Defects.none [] ["I", "J"] 0 true ifaceJ).interfaces ≠ none := by decide

/-- pinned (static): an interface variant is registered as a possible type of the outer interface -/
theorem c18_witness_possible_lists_interfaces :
    isPossibleOf { possibleListsInterfaces := true } .static "I" ifaceJ = true ∧
    isPossibleOf Defects.none .static "I" ifaceJ = false := by decide

/-- pinned (dynamic): the declared `implements` of an interface is not registered -/
theorem c18_witness_dyn_implements_dropped :
    (register { dynIfaceImplDropped := true } .dynamic [] ifaceJ).implements = [] ∧
    (register Defects.none .dynamic [] ifaceJ).implements = ["I"] := by
  constructor <;> simp [register, ifaceJ, Defects.none]

-- ------------------------------------------------------------------ open

/-- OPEN: the client schema rebuilt from the repaired introspection result is the served
    description restricted to the visible part.  Evaluated by the judge on every generated case
    (verdict TIE when it fails); not proved. -/
def c18_roundtrip : Prop :=
  ∀ (fl : Flavour) (d : Desc) (c : Nat),
    d.query ∈ visibleNames Defects.none (mkRegistry Defects.none fl d) c →
    buildClient (introspect Defects.none (mkRegistry Defects.none fl d) c true) =
      some (restrict d (visibleNames Defects.none (mkRegistry Defects.none fl d) c) c)

/-- OPEN: a registry on which the single alphabetical pass and the iterated pass differ (the
    corpus case `single-pass` shows it on the real code; evaluating the well-founded search by
    `decide` is not possible in the kernel). -/
def c18_single_pass_differs : Prop :=
  ∃ (R : Registry) (c : Nat), visibleSet { singlePass := true } R c ≠ visibleSet Defects.none R c

end AGV.Props.C18
