/-
  C14 — reported source positions are exact line and column numbers.
  Property theorems only (helper lemmas live in AGV/Lemmas/Pos.lean).

  OBLIGATION c14_chunking
  OBLIGATION c14_step
  OBLIGATION c14_syntax_error_pos
  OBLIGATION c14_step_violated_by_crBug
  OBLIGATION c14_pest_violated_by_crBug
  OBLIGATION c14_bytes
  OBLIGATION c14_step_bytes
  OBLIGATION c14_bytes_nonascii_witness
-/
import AGV.Lemmas.Pos

namespace AGV.Props.C14
open AGV.Model.Pos AGV.Spec.Pos AGV.Lemmas.Pos

/-- The incremental computation is sound: whatever increasing sequence of token offsets the
    calculator is stepped along, each answer only depends on the text before that offset
    (it is the fold over the whole prefix).  Holds for both variants of the per-character step. -/
theorem c14_chunking (b : Bool) (text : List Char) (offs : List Nat)
    (h : List.Pairwise (· ≤ ·) offs) :
    stepAll b text offs =
      offs.map (fun o => let s := stepChars b St.init (text.take o); (s.line, s.col)) := by
  have := stepAllAux_eq b text offs 0 (by
    rw [List.pairwise_cons]; exact ⟨fun _ _ => Nat.zero_le _, h⟩)
  simpa [stepAll, stepChars] using this

/-- Full statement for the position calculator: every position it hands out is the
    specification's line and column of the offset it was stepped to — for every text and every
    increasing offset sequence. -/
theorem c14_step (text : List Char) (offs : List Nat) (h : List.Pairwise (· ≤ ·) offs) :
    stepAll false text offs = offs.map (lineCol text) := by
  rw [c14_chunking false text offs h]
  apply List.map_congr_left
  intro o _
  exact (stepChars_spec (text.take o) 1 1).1

/-- Syntax-error positions (computed by the parser generator's own routine) agree with the
    specification on every text and offset. -/
theorem c14_syntax_error_pos (text : List Char) (off : Nat) :
    pestLineCol false text off = lineCol text off := by
  unfold pestLineCol lineCol
  exact pestAux_eq_spec _ _ _

/-- Non-vacuity / witness: with the pinned tree's per-character step a lone CR is not a line
    break, so the statement of `c14_step` fails (input `"{\r a }"`, token `a` at offset 3). -/
theorem c14_step_violated_by_crBug :
    ∃ text offs, List.Pairwise (· ≤ ·) offs ∧ stepAll true text offs ≠ offs.map (lineCol text) := by
  refine ⟨['{', '\r', ' ', 'a', ' ', '}'], [3], by simp, ?_⟩
  simp [stepAll, stepAllAux, stepChars, stepChar, St.init, lineCol, lineColAux]

theorem c14_pest_violated_by_crBug :
    ∃ text off, pestLineCol true text off ≠ lineCol text off := by
  refine ⟨['{', '\r', ' ', '%'], 3, ?_⟩
  simp [pestLineCol, pestAux, lineCol, lineColAux]

/-- Byte layer.  `PositionCalculator::step` is driven by BYTE offsets (pest spans) and slices
    the remaining input by bytes; the statements above index the text by scalar values.  For
    every text and every increasing sequence of character indices, running the byte-driven
    calculator on the corresponding byte offsets gives the answers of the character-driven one
    (both variants of the per-character step).  Byte offsets inside a character are outside the
    statement: pest spans start on character boundaries, and the real slice would panic there. -/
theorem c14_bytes (b : Bool) (text : List Char) (ks : List Nat) (h : List.Pairwise (· ≤ ·) ks) :
    stepAllB b text (ks.map (byteOff text)) = stepAll b text ks := by
  have := stepAllAuxB_eq b text ks 0 St.init (by
    rw [List.pairwise_cons]; exact ⟨fun _ _ => Nat.zero_le _, h⟩)
  simpa [stepAllB, stepAll, byteOff, byteLen] using this

/-- Full statement at the byte level: stepped along the byte offsets of any increasing sequence
    of token starts, the calculator returns the specification's line and column of each token
    (columns count scalar values, not bytes). -/
theorem c14_step_bytes (text : List Char) (ks : List Nat) (h : List.Pairwise (· ≤ ·) ks) :
    stepAllB false text (ks.map (byteOff text)) = ks.map (lineCol text) := by
  rw [c14_bytes false text ks h, c14_step text ks h]

/-- Non-vacuity on a text where bytes and scalar values differ: `é`, CR, `€`, `a` — the token `a`
    starts at byte 6 and character 3, line 2 column 2. -/
theorem c14_bytes_nonascii_witness :
    byteOff ['é', '\r', '€', 'a'] 3 = 6 ∧
    stepAllB false ['é', '\r', '€', 'a'] [6] = [(2, 2)] ∧
    lineCol ['é', '\r', '€', 'a'] 3 = (2, 2) := by
  refine ⟨by decide, by decide, ?_⟩
  simp [lineCol, lineColAux]

/-- the hypotheses of `c14_step` are satisfiable by a non-trivial input -/
example : List.Pairwise (· ≤ ·) [0, 3, 3, 5] := by decide

end AGV.Props.C14
