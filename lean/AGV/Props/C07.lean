/-
  C07 — built-in scalar types accept exactly their domain and round-trip.
  Property theorems only (helper lemmas live in AGV/Lemmas/Scalars.lean).

  The integer theorems quantify over `AGV.Gen.IntScalars.table`, which srcfacts extracts from the
  `impl ScalarType for …` blocks of integers.rs / non_zero_integers.rs (accessor, comparisons,
  casts), and over unbounded `Int`: MIN-1, MAX+1, 0 for NonZero, numbers beyond i64/u64, floats
  with an integral value and every other kind of value are covered by the statements.

  OBLIGATION c07_int_table_complete
  OBLIGATION c07_accept
  OBLIGATION c07_reject_is_error
  OBLIGATION c07_roundtrip
  OBLIGATION c07_refines_spec
  OBLIGATION c07_roundtrip_all
  OBLIGATION c07_isvalid_complete
  OBLIGATION c07_f64_accept
  OBLIGATION c07_float_partial
  OBLIGATION c07_nonfinite_not_roundtrip
  OBLIGATION c07_id_large_uint_rejected
  OBLIGATION c07_nonzero_unsigned_isvalid_rejects_domain
  OBLIGATION c07_schema_accept
  OBLIGATION c07_schema_reject
  OBLIGATION c07_schema_pinned_exact
  OBLIGATION c07_schema_first_registered_refuses_u64
  OBLIGATION c07_schema_first_registered_refuses_i32
  OPEN c07_f32_roundtrip
-/
import AGV.Lemmas.Scalars

namespace AGV.Props.C07
open AGV.Gen.IntScalars AGV.Model.Scalars AGV.Spec.Scalars AGV.Lemmas.Scalars

/-- the specification's name for a modelled type -/
def specOf : Ty → STy
  | .int t => .int t.name
  | .f64 => .f64
  | .f32 => .f32
  | .bool => .bool
  | .string => .string
  | .char => .char
  | .id => .id
  | .enum items => .enum items

/-- an integer type is one of the source-derived table -/
def fromSource : Ty → Prop
  | .int t => t ∈ table
  | _ => True

/-- the outcome of a coercion meets the requirement -/
def meets : Res RVal → Req → Prop
  | .ok r, .accept r' => r = r'
  | .ok _, .acceptSome => True
  | .err _, .reject => True
  | _, _ => False

/-- The source has an `impl ScalarType` for exactly the twenty integer types of the
    specification (no type lost, none unknown to the specification). -/
theorem c07_int_table_complete : table.map (·.name) = intTypeNames := by decide

/-- Integer scalars accept exactly the integer numbers of their range (0 excluded for the
    NonZero forms) and return that integer. -/
theorem c07_accept (t : Entry) (ht : t ∈ table) (x : GValue) (r : Int) :
    parseInt t x = .ok r ↔ ∃ i, x = .int i ∧ r = i ∧ inIntDomain t.name i := by
  constructor
  · intro h
    by_cases hx : ∃ i, x = .int i
    · obtain ⟨i, rfl⟩ := hx
      by_cases hd : inIntDomain t.name i
      · rw [parseInt_in t ht i hd] at h
        exact ⟨i, rfl, by injection h with h; exact h.symm, hd⟩
      · obtain ⟨e, he⟩ := parseInt_out t ht i hd
        rw [he] at h; cases h
    · obtain ⟨e, he⟩ := parseInt_other t x (fun i hi => hx ⟨i, hi⟩)
      rw [he] at h; cases h
  · rintro ⟨i, rfl, rfl, hd⟩
    exact parseInt_in t ht r hd

/-- Everything else — integers outside the range, 0 for NonZero, floats (also with an integral
    value), strings, booleans, null, enums, lists, objects, binaries — is rejected with an
    error (no panic, no silent wrap). -/
theorem c07_reject_is_error (t : Entry) (ht : t ∈ table) (x : GValue)
    (h : ¬ ∃ i, x = .int i ∧ inIntDomain t.name i) : ∃ e, parseInt t x = .err e := by
  by_cases hx : ∃ i, x = .int i
  · obtain ⟨i, rfl⟩ := hx
    exact parseInt_out t ht i (fun hd => h ⟨i, rfl, hd⟩)
  · exact parseInt_other t x (fun i hi => hx ⟨i, hi⟩)

example : (∃ e, parseInt table[0] (.float 0x3FF0000000000000) = .err e)
    ∧ (∃ e, parseInt table[0] (.str ['1']) = .err e) ∧ (∃ e, parseInt table[0] (.int 128) = .err e) :=
  ⟨c07_reject_is_error _ (List.getElem_mem _) _ (by simp), c07_reject_is_error _ (List.getElem_mem _) _ (by simp),
   c07_reject_is_error _ (List.getElem_mem _) _ (by simp [table, inIntDomain, intKind, minOf, maxOf])⟩

/-- Serialising any value of an integer type and coercing the result yields that value. -/
theorem c07_roundtrip (t : Entry) (ht : t ∈ table) (r : Int) (h : inIntDomain t.name r) :
    parseInt t (toValueInt t r) = .ok r := by
  rw [toValueInt_in t ht r h, parseInt_in t ht r h]

/-- All scalar mappings refine the specification: on every value a `serde_json::Number` based
    `Value` can be, coercion (repaired model) accepts exactly when the value denotes a value of
    the type, returns the denoted value, and otherwise fails with an error. -/
theorem c07_refines_spec (ty : Ty) (hty : fromSource ty) (x : GValue) (hx : x.representable) :
    meets (parse .none ty x) (coerce (specOf ty) x) := by
  cases ty with
  | int t =>
    by_cases hi : ∃ i, x = .int i
    · obtain ⟨i, rfl⟩ := hi
      by_cases hd : inIntDomain t.name i
      · simp [parse, specOf, coerce, hd, parseInt_in t hty i hd, Res.map, meets]
      · obtain ⟨e, he⟩ := parseInt_out t hty i hd
        simp [parse, specOf, coerce, hd, he, Res.map, meets]
    · obtain ⟨e, he⟩ := parseInt_other t x (fun i h => hi ⟨i, h⟩)
      cases x <;> simp_all [parse, specOf, coerce, Res.map, meets]
  | f64 => cases x <;> simp [parse, specOf, coerce, parseF64, Res.map, meets]
  | f32 => cases x <;> simp [parse, specOf, coerce, parseF32, Res.map, meets]
  | bool => cases x <;> simp [parse, specOf, coerce, parseBool, Res.map, meets]
  | string => cases x <;> simp [parse, specOf, coerce, parseString, Res.map, meets]
  | char =>
    cases x with
    | str s =>
      match s with
      | [] => simp [parse, specOf, coerce, parseChar, Res.map, meets]
      | [c] => simp [parse, specOf, coerce, parseChar, Res.map, meets]
      | _ :: _ :: _ => simp [parse, specOf, coerce, parseChar, Res.map, meets]
    | _ => simp [parse, specOf, coerce, parseChar, Res.map, meets]
  | id =>
    cases x with
    | int i =>
      have : readable .i64 i ∨ readable .u64 i := by
        simp only [GValue.representable] at hx
        simp only [readable, i64Min, i64Max, u64Max]; omega
      simp [parse, specOf, coerce, parseId, Defects.none, Res.map, meets, this]
    | _ => simp [parse, specOf, coerce, parseId, Res.map, meets]
  | «enum» items =>
    cases x with
    | «enum» n =>
      simp only [parse, specOf, coerce, parseEnum]
      cases items.find? (fun it => it.1 = n) <;> simp [Res.map, meets]
    | str n =>
      simp only [parse, specOf, coerce, parseEnum]
      cases items.find? (fun it => it.1 = n) <;> simp [Res.map, meets]
    | _ => simp [parse, specOf, coerce, parseEnum, Res.map, meets]

/-- Round trip for every mapping except `f32` (see `c07_f32_roundtrip`): serialising any Rust
    value of the type gives a value whose coercion is that same Rust value.  For a derived enum
    the item names must be distinct (the derive macro generates them from distinct variants). -/
theorem c07_roundtrip_all (ty : Ty) (hty : fromSource ty) (r : RVal)
    (hr : isValueOf (specOf ty) r) (hf : ∀ b, r ≠ .f32 b)
    (hn : ∀ items, ty = .enum items → (items.map (·.1)).Nodup) :
    ∃ v, toValue .none ty r = some v ∧ parse .none ty v = .ok r := by
  cases ty with
  | int t =>
    cases r <;> simp [specOf, isValueOf] at hr
    rename_i i
    exact ⟨_, rfl, by simp [parse, c07_roundtrip t hty i hr, Res.map]⟩
  | f64 =>
    cases r <;> simp [specOf, isValueOf] at hr
    exact ⟨_, rfl, by simp [parse, toValueF64, Defects.none, parseF64, Res.map]⟩
  | f32 =>
    cases r <;> simp [specOf, isValueOf] at hr
    rename_i b
    exact absurd rfl (hf b)
  | bool => cases r <;> simp [specOf, isValueOf] at hr; exact ⟨_, rfl, by simp [parse, parseBool, Res.map]⟩
  | string => cases r <;> simp [specOf, isValueOf] at hr; exact ⟨_, rfl, by simp [parse, parseString, Res.map]⟩
  | char => cases r <;> simp [specOf, isValueOf] at hr; exact ⟨_, rfl, by simp [parse, parseChar, Res.map]⟩
  | id => cases r <;> simp [specOf, isValueOf] at hr; exact ⟨_, rfl, by simp [parse, parseId, Res.map]⟩
  | «enum» items =>
    cases r <;> simp [specOf, isValueOf] at hr
    rename_i v
    obtain ⟨name, hmem⟩ := hr
    have hnd := hn items rfl
    -- `enum_value` finds the first item carrying the value
    cases hfind : items.find? (fun it => it.2 = v) with
    | none =>
      have := List.find?_eq_none.mp hfind (name, v) hmem
      simp at this
    | some it =>
      have hv : it.2 = v := by simpa using List.find?_some hfind
      have hin : it ∈ items := List.mem_of_find?_eq_some hfind
      refine ⟨.enum it.1, by simp [toValue, enumValue, hfind], ?_⟩
      simp [parse, parseEnum, find_name_unique items hnd it hin, Res.map, hv]

/-- the hypotheses of `c07_roundtrip_all` are met by a non-trivial enum -/
example : ([(['R', 'E', 'D'], 0), (['B', 'L', 'U', 'E'], 1)].map (·.1)).Nodup := by decide

/-- A value an integer scalar accepts passes that scalar's validation pre-check `is_valid`
    (otherwise the validation rules refuse an in-domain literal before `parse` is reached). -/
theorem c07_isvalid_complete (t : Entry) (ht : t ∈ table) (x : GValue) (r : Int)
    (h : parseInt t x = .ok r) : isValidInt .none t x = true := by
  obtain ⟨i, rfl, rfl, hd⟩ := (c07_accept t ht x r).mp h
  exact isValidInt_in t ht r hd

/-- `Float` accepts exactly the numbers, integer or float, and a float token is returned as it is. -/
theorem c07_f64_accept (x : GValue) :
    ((∃ r, parseF64 x = .ok r) ↔ (∃ i, x = .int i) ∨ (∃ b, x = .float b))
    ∧ (∀ b, parseF64 (.float b) = .ok b)
    ∧ ((∃ r, parseF32 x = .ok r) ↔ (∃ i, x = .int i) ∨ (∃ b, x = .float b)) := by
  cases x <;> simp [parseF64, parseF32]

/-- Finite `f64` values round-trip as tokens under the pinned behaviour as well (the toggle only
    concerns NaN/±∞). -/
theorem c07_float_partial (D : Defects) (b : Nat) (h : finite64 b = true) :
    parseF64 (toValueF64 D b) = .ok b := by
  simp [toValueF64, h, parseF64]

example : finite64 0x3FF8000000000000 = true := by decide

/-- Witness (finding C07-nonfinite-float-null, inherent to JSON numbers): the pinned
    `to_value` turns +∞ into `null`, which `parse` rejects — the round trip of
    `c07_roundtrip_all` fails for non-finite floats. -/
theorem c07_nonfinite_not_roundtrip :
    ∃ b, ¬ ∃ v, toValue { nonFiniteToNull := true } .f64 (.f64 b) = some v
        ∧ parse { nonFiniteToNull := true } .f64 v = .ok (.f64 b) := by
  refine ⟨0x7FF0000000000000, ?_⟩
  simp [toValue, toValueF64, finite64, parse, parseF64, Res.map]

/-- Witness (finding C07-id-rejects-large-uint): with the pinned `if n.is_i64()` guard `ID`
    refuses the integer 2^64-1, which `c07_refines_spec` requires it to accept. -/
theorem c07_id_large_uint_rejected :
    ∃ x, x.representable ∧
      ¬ meets (parse { idRejectsLargeUint := true } .id x) (coerce (specOf .id) x) := by
  refine ⟨.int 18446744073709551615, by simp [GValue.representable], ?_⟩
  simp [parse, parseId, readable, i64Min, i64Max, specOf, coerce, Res.map, meets]

/-- Witness (finding C07-nonzero-unsigned-isvalid-i64): the pinned `is_valid` of the NonZeroU*
    scalars tests `is_i64()`, so the NonZeroU64 value 2^63 is accepted by `parse` and refused by
    the validation pre-check — `c07_isvalid_complete` fails. -/
theorem c07_nonzero_unsigned_isvalid_rejects_domain :
    ∃ t ∈ table, ∃ x r, parseInt t x = .ok r
      ∧ isValidInt { nonZeroUnsignedIsValidI64 := true } t x = false := by
  refine ⟨table[18], List.getElem_mem _, .int 9223372036854775808, 9223372036854775808, ?_, ?_⟩
  · simp [table, parseInt, readable, u64Max, cmpHolds, wrap]
  · simp [table, isValidInt, readableB, i64Min, i64Max]

-- ------------------------------------------------------------------ through a schema

theorem schemaValid_none (order : List Entry) (t : Entry) (v : GValue) :
    schemaValid .none order t v = isValidInt .none t v := by
  simp [schemaValid, Defects.none]

/-- THROUGH A SCHEMA (validation pre-check registered under `Int`, then the resolver's `parse`): an
    argument of any integer type, whatever other integer types the schema registers and in whatever
    order, is accepted exactly for the integer numbers of the type's domain, and the resolver gets
    that integer — for every value, integers of any size included. -/
theorem c07_schema_accept (order : List Entry) (t : Entry) (ht : t ∈ table) (x : GValue) (r : Int) :
    schemaAnswer .none order t x = .accepted r ↔ ∃ i, x = .int i ∧ r = i ∧ inIntDomain t.name i := by
  rw [← c07_accept t ht x r]
  unfold schemaAnswer
  constructor
  · intro h
    split at h
    · cases h
    · split at h <;> simp_all
  · intro h
    have hv := c07_isvalid_complete t ht x r h
    simp [schemaValid_none, hv, h]

/-- … and every other value is refused (at validation or by the resolver's `parse`), never a
    panic. -/
theorem c07_schema_reject (order : List Entry) (t : Entry) (ht : t ∈ table) (x : GValue)
    (h : ¬ ∃ i, x = .int i ∧ inIntDomain t.name i) : ∃ s, schemaAnswer .none order t x = .rejected s := by
  obtain ⟨e, he⟩ := c07_reject_is_error t ht x h
  unfold schemaAnswer
  split
  · exact ⟨_, rfl⟩
  · simp [he]


/-- Witness (finding C07-int-validator-of-first-registered), a `Schema`: `add_system_types`
    registers `i32` first, so `Int` positions are validated with `is_i64()` — the `u64` value 2^64-1
    (in the domain) is refused by validation. -/
theorem c07_schema_first_registered_refuses_u64 :
    ∃ f ∈ table, ∃ t ∈ table, f.name = "i32" ∧ t.name = "u64" ∧
      inIntDomain t.name 18446744073709551615 ∧
      schemaAnswer { intValidatorOfFirstRegistered := true } [f, t] t (.int 18446744073709551615)
        = .rejected .validation := by
  refine ⟨table[2], List.getElem_mem _, table[7], List.getElem_mem _, by decide, by decide, by decide, by decide⟩

/-- Witness, the other direction (a registry in which `u64` registers first): the `i32` value -5
    is refused by validation. -/
theorem c07_schema_first_registered_refuses_i32 :
    ∃ f ∈ table, ∃ t ∈ table, f.name = "u64" ∧ t.name = "i32" ∧
      inIntDomain t.name (-5) ∧
      schemaAnswer { intValidatorOfFirstRegistered := true } [f, t] t (.int (-5)) = .rejected .validation := by
  refine ⟨table[7], List.getElem_mem _, table[2], List.getElem_mem _, by decide, by decide, by decide, by decide⟩

/-- The pinned behaviour, exactly: an integer is accepted iff it is in the domain of the
    position's type AND the 64-bit view of the FIRST registered integer type can read it. -/
theorem c07_schema_pinned_exact (f : Entry) (rest : List Entry) (t : Entry) (ht : t ∈ table) (i r : Int) :
    schemaAnswer { intValidatorOfFirstRegistered := true } (f :: rest) t (.int i) = .accepted r ↔
      (r = i ∧ inIntDomain t.name i ∧ readable f.accessor i) := by
  unfold schemaAnswer
  simp only [schemaValid, List.headD_cons, if_true, pinnedValidInt]
  have hb : readableB f.accessor i = true ↔ readable f.accessor i := by
    cases f.accessor <;> simp [readableB, readable]
  by_cases hr : readable f.accessor i
  · simp only [hb.mpr hr, Bool.true_eq_false, if_false]
    constructor
    · intro h
      split at h <;> try cases h
      rename_i r' hp
      obtain ⟨j, hj, rfl, hd⟩ := (c07_accept t ht (.int i) _).mp hp
      cases hj; exact ⟨rfl, hd, hr⟩
    · rintro ⟨rfl, hd, _⟩
      rw [parseInt_in t ht _ hd]
  · have : readableB f.accessor i = false := by
      cases hx : readableB f.accessor i
      · rfl
      · exact absurd (hb.mp hx) hr
    simp [this, hr]

/-- OPEN: every `f32` round-trips (`x as f64 as f32 = x`).  The widening and the rounding
    narrowing are modelled bit-exactly (`widen`, `narrow`, `roundFloat`) and compared with the
    real casts by the correspondence on every generated float, but the identity
    `narrow (widen b) = b` for all 2^32 patterns is not proved here. -/
def c07_f32_roundtrip : Prop :=
  ∀ b, b < 2 ^ 32 → parseF32 (toValueF32 .none b) = .ok b

end AGV.Props.C07
