/-
  C21 — secret arguments never appear in logged or traced query text.

  Stated as NON-INTERFERENCE of the repaired printer (all defect toggles off), for every registry,
  every leaf printer `pv`, every pair of requests: if two requests differ only in values flowing
  to an argument or input-object field marked secret (`Spec.Stringify.EqualOutsideSecrets`:
  literal or variable, inside lists and nested input objects, under inline fragments with and
  without type condition, in named fragments, in variable defaults — defaults are not constrained
  at all), the logged text is the same string.  No sentinel, no size bound.

  OBLIGATION c21_noninterference
  OBLIGATION c21_noninterference_chunks
  OBLIGATION c21_secret_position_redacted
  OBLIGATION c21_relation_nontrivial
  OBLIGATION c21_repaired_example
  OBLIGATION c21_witness_inlineNoCondLosesType
  OBLIGATION c21_witness_listNotRecursed
  OBLIGATION c21_witness_varDefaultPrinted
  OBLIGATION c21_nested_secret_redacted
  OBLIGATION c21_nested_secret_redacted_args
  OBLIGATION c21_nested_example

  c21_nested_secret_redacted: secrets at ANY depth below ANY mix of enclosing input types (with or
  without secret fields of their own), lists included - whatever stands below a secret position
  can be replaced by any value without changing the text (corollary of the value-level lemma;
  example: depth 3 below two secret-free input types).

  Nothing OPEN.  (DESIGN.md's relation constrains a default value unless the variable is used at
  a secret position; the relation proved here leaves every default unconstrained, which contains
  that case: the repaired printer does not print default values.)
-/
import AGV.Lemmas.Stringify

namespace AGV.Props.C21
open AGV.Core AGV.Spec.Stringify AGV.Model.Stringify AGV.Lemmas.Stringify

/-- Non-interference, per definition: the fragment texts and the operation texts of two requests
    that are equal outside secrets coincide (so every interleaving order gives the same string). -/
theorem c21_noninterference_chunks (R : Reg) (pv : GValue → String) (d d' : Doc) (v v' : Vars)
    (h : EqualOutsideSecrets R (d, v) (d', v')) :
    chunks Defects.none R pv v d = chunks Defects.none R pv v' d' := by
  obtain ⟨hf, ho⟩ := h
  simp only [chunks]
  rw [sfrags_eq R pv v v' _ _ hf, sops_eq R pv v v' _ _ ho]

/-- Non-interference of the logged string. -/
theorem c21_noninterference (R : Reg) (pv : GValue → String) (d d' : Doc) (v v' : Vars)
    (h : EqualOutsideSecrets R (d, v) (d', v')) :
    stringify Defects.none R pv v d = stringify Defects.none R pv v' d' := by
  simp only [stringify, c21_noninterference_chunks R pv d d' v v' h]

/-- Whatever the toggles: a value printed against a description marked secret is the fixed text
    `"<secret>"` (the defects are about losing the description, not about ignoring it). -/
theorem c21_secret_position_redacted (D : Defects) (R : Reg) (pv : GValue → String) (m : Meta)
    (g : GValue) (h : m.secret = true) : sval D R pv (some m) g = "\"<secret>\"" :=
  sval_secret D R pv (some m) g (by simpa [isSecret] using h)

-- ------------------------------------------------------------------ a concrete registry and requests

def wR : Reg :=
  { schema :=
      { types := [
          { name := "Query", kind := .object, fields := [
              { name := "login", ty := .named "Int", args := [
                  { name := "token", ty := .named "String", default := none },
                  { name := "creds", ty := .list (.named "Cred"), default := none }] }] },
          { name := "Cred", kind := .input, fields := [
              { name := "user", ty := .named "String", args := [] },
              { name := "pass", ty := .named "String", args := [] }] }],
        query := "Query" },
    secrets := { args := [("Query", "login", "token")], inputs := [("Cred", "pass")] } }

mutual
/-- a small leaf printer for the examples -/
def pvT : GValue → String
  | .str s => "\"" ++ s ++ "\""
  | .list xs => "[" ++ pvTL xs ++ "]"
  | .obj fs => "{" ++ pvTF fs ++ "}"
  | _ => "?"
def pvTL : List GValue → String
  | [] => ""
  | x :: r => pvT x ++ "," ++ pvTL r
def pvTF : List (String × GValue) → String
  | [] => ""
  | (k, v) :: r => k ++ ":" ++ pvT v ++ "," ++ pvTF r
end

def p0 : Pos := ⟨0, 0⟩

/-- `query Q($t: String = <dflt>) { ... { login(token: <tok>, creds: [{user: "u", pass: <pw>}]) } a: login(token: $t) }` -/
def wDoc (dflt tok pw : String) : Doc :=
  { ops := [{ ty := .query, name := some "Q", vars := [{ name := "t", ty := .named "String", default := some (.str dflt) }],
              dirs := [],
              sels := [
                .inline none [] [.field none "login"
                  [("token", .str tok), ("creds", .list [.obj [("user", .str "u"), ("pass", .str pw)]])] [] [] p0] p0,
                .field (some "a") "login" [("token", .var "t")] [] [] p0] }],
    frags := [] }

/-- The hypothesis of the theorem is satisfiable non-trivially: requests with different secrets
    in all three positions (under an inline fragment without type condition, inside a list of
    input objects, as a variable default; plus the variable's value) are related. -/
theorem c21_relation_nontrivial :
    EqualOutsideSecrets wR (wDoc "SECRET3" "SECRET1" "SECRET2", [("t", .str "x")])
      (wDoc "other3" "other1" "other2", [("t", .str "y")]) := by
  simp [EqualOutsideSecrets, wDoc, FragsRel, OpsRel, OpRel, VdRel, SsRel, SRel, ARel, VRel, FRel, LRel,
    wR, rootType, typeGet, Schema.find?, inlineScope, argMeta, fieldByName, inputTypeOf, inputFieldMeta,
    isSecret, argValue, resolve, resolveL, resolveF, TypeRef.base]

/-- the repaired model on that request: the text the repaired Rust code logs (checked against
    the patched tree by a unit test in the scratch worktree, with `Display` in place of `pvT`) -/
theorem c21_repaired_example :
    stringify Defects.none wR pvT [] (wDoc "SECRET3" "SECRET1" "SECRET2") =
      "query Q($t: String) { ... { login(token: \"<secret>\", creds: [{user: \"u\", pass: \"<secret>\"}]) } a:login(token: \"<secret>\") }" := by
  decide

-- ------------------------------------------------------------------ witnesses of the three defects

/-- with the toggle, two requests that are equal outside secrets are logged differently -/
def Leaks (D : Defects) : Prop :=
  ∃ (d d' : Doc) (v v' : Vars), EqualOutsideSecrets wR (d, v) (d', v') ∧
    stringify D wR pvT v d ≠ stringify D wR pvT v' d'

def wInline (tok : String) : Doc :=
  { ops := [{ ty := .query, name := none, vars := [], dirs := [],
              sels := [.inline none [] [.field none "login" [("token", .str tok)] [] [] p0] p0] }], frags := [] }

def wList (pw : String) : Doc :=
  { ops := [{ ty := .query, name := none, vars := [], dirs := [],
              sels := [.field none "login" [("creds", .list [.obj [("user", .str "u"), ("pass", .str pw)]])] [] [] p0] }],
    frags := [] }

def wDefault (dflt : String) : Doc :=
  { ops := [{ ty := .query, name := some "Q", vars := [{ name := "t", ty := .named "String", default := some (.str dflt) }],
              dirs := [], sels := [.field none "login" [("token", .var "t")] [] [] p0] }], frags := [] }

theorem c21_witness_inlineNoCondLosesType : Leaks { inlineNoCondLosesType := true } := by
  refine ⟨wInline "SECRET1", wInline "other", [], [], ?_, by decide⟩
  simp [EqualOutsideSecrets, wInline, FragsRel, OpsRel, OpRel, VdRel, SsRel, SRel, ARel, VRel,
    wR, rootType, typeGet, Schema.find?, inlineScope, argMeta, fieldByName, isSecret, argValue, resolve]

theorem c21_witness_listNotRecursed : Leaks { listNotRecursed := true } := by
  refine ⟨wList "SECRET2", wList "other", [], [], ?_, by decide⟩
  simp [EqualOutsideSecrets, wList, FragsRel, OpsRel, OpRel, VdRel, SsRel, SRel, ARel, VRel, FRel, LRel,
    wR, rootType, typeGet, Schema.find?, argMeta, fieldByName, inputTypeOf, inputFieldMeta,
    isSecret, argValue, resolve, resolveL, resolveF, TypeRef.base]

theorem c21_witness_varDefaultPrinted : Leaks { varDefaultPrinted := true } := by
  refine ⟨wDefault "SECRET3", wDefault "other", [], [], ?_, by decide⟩
  simp [EqualOutsideSecrets, wDefault, FragsRel, OpsRel, OpRel, VdRel, SsRel, SRel, ARel, VRel,
    wR, rootType, typeGet, Schema.find?, argMeta, fieldByName, isSecret, argValue, resolve]

-- ------------------------------------------------------------------ secrets at any depth

/-- Secrets at ANY depth: for every registry, every position description `m`, every value `g`
    and every path into it that passes a position marked secret (`secretAlong`: the position
    itself, or a secret input-object field of whatever input type is found on the way - the
    enclosing input types may or may not declare secret fields of their own -, or an item of a
    list standing there), the printed text does not depend on what stands at the end of the
    path: replacing it by ANY other value prints the same string.  No bound on depth. -/
theorem c21_nested_secret_redacted (R : Reg) (pv : GValue → String) (m : Option Meta) (g : GValue)
    (path : List Nat) (new : GValue) (h : secretAlong R m g path = true) :
    sval Defects.none R pv m (replaceAt new path g) = sval Defects.none R pv m g :=
  (sval_eq R pv m g (replaceAt new path g) (VRel_replaceAt R new path m g h)).symm

/-- the same for a whole argument list of a field: a secret below an argument, at any depth. -/
theorem c21_nested_secret_redacted_args (R : Reg) (pv : GValue → String) (parent : Option TypeDef)
    (field : String) (m : Option Meta) (g : GValue) (path : List Nat) (new : GValue)
    (h : secretAlong R m g path = true) (k : String) (hm : argMeta R parent field k = m) (vars : Vars)
    (a a' : DValue) (ha : argValue vars a = g) (ha' : argValue vars a' = replaceAt new path g) :
    sargs Defects.none R pv vars parent field true [(k, a')] =
      sargs Defects.none R pv vars parent field true [(k, a)] := by
  simp only [sargs, hm, ha, ha', c21_nested_secret_redacted R pv m g path new h]

/-- `LoginRequest { clientId, credentials: Credentials { user, auth: Auth { password(secret), kind } } }`:
    neither `LoginRequest` nor `Credentials` declares a secret field; the secret sits at depth 3 -/
def nR : Reg :=
  { schema :=
      { types := [
          { name := "Query", kind := .object, fields := [
              { name := "signin", ty := .named "Int", args := [
                  { name := "req", ty := .named "LoginRequest", default := none },
                  { name := "reqs", ty := .list (.named "LoginRequest"), default := none }] }] },
          { name := "LoginRequest", kind := .input, fields := [
              { name := "clientId", ty := .named "String", args := [] },
              { name := "credentials", ty := .named "Credentials", args := [] }] },
          { name := "Credentials", kind := .input, fields := [
              { name := "user", ty := .named "String", args := [] },
              { name := "auth", ty := .named "Auth", args := [] }] },
          { name := "Auth", kind := .input, fields := [
              { name := "password", ty := .named "String", args := [] },
              { name := "kind", ty := .named "String", args := [] }] }],
        query := "Query" },
    secrets := { args := [], inputs := [("Auth", "password")] } }

def nReq (pw : String) : GValue :=
  .obj [("clientId", .str "c"),
        ("credentials", .obj [("user", .str "u"), ("auth", .obj [("password", .str pw), ("kind", .str "k")])])]

/-- the same request written as a literal -/
def nReqD (pw : String) : DValue :=
  .obj [("clientId", .str "c"),
        ("credentials", .obj [("user", .str "u"), ("auth", .obj [("password", .str pw), ("kind", .str "k")])])]

def nMeta (arg : String) : Option Meta := argMeta nR (typeGet nR "Query") "signin" arg

/-- the hypothesis is satisfiable at depth 3 below two secret-free input types, directly and
    inside a list: the path `credentials / auth / password` is secret, its end is the password -/
example : secretAlong nR (nMeta "req") (nReq "SECRET") [1, 1, 0] = true ∧
    subAt [1, 1, 0] (nReq "SECRET") = some (.str "SECRET") ∧
    replaceAt (.str "other") [1, 1, 0] (nReq "SECRET") = nReq "other" ∧
    secretAlong nR (nMeta "reqs") (.list [nReq "x", nReq "SECRET"]) [1, 1, 1, 0] = true ∧
    -- the neighbouring `kind` and `user` are not secret
    secretAlong nR (nMeta "req") (nReq "SECRET") [1, 1, 1] = false ∧
    secretAlong nR (nMeta "req") (nReq "SECRET") [1, 0] = false :=
  ⟨by decide, rfl, rfl, by decide, by decide, by decide⟩

set_option maxRecDepth 8192 in
/-- the text logged for such a request - literal, variable, list of variables -: the password is
    masked although its two enclosing input types declare no secret field -/
theorem c21_nested_example :
    stringify Defects.none nR pvT [("v", nReq "SECRET2")]
      { ops := [{ ty := .query, name := none, vars := [], dirs := [],
                  sels := [.field none "signin" [("req", nReqD "SECRET1"), ("reqs", .list [.var "v"])] [] [] p0] }],
        frags := [] } =
      "query { signin(req: {clientId: \"c\", credentials: {user: \"u\", auth: {password: \"<secret>\", kind: \"k\"}}}, reqs: [{clientId: \"c\", credentials: {user: \"u\", auth: {password: \"<secret>\", kind: \"k\"}}}]) }" := by
  decide

end AGV.Props.C21
