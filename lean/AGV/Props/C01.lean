/-
  C01 — query results follow spec field collection and completion (static schemas).
  Property theorems only (lemmas: AGV/Lemmas/ExecStatic.lean, AGV/Lemmas/ExecStaticData.lean).

  OBLIGATION c01_key_order
  OBLIGATION c01_nonnull_position
  OBLIGATION c01_errors_never_lost
  OBLIGATION c01_union_condition_witness
  OBLIGATION c01_union_condition_repaired_example
  OBLIGATION c01_skip_default_witness
  OBLIGATION c01_nan_nonnull_witness
  OBLIGATION c01_data_full_needs_validity
  OBLIGATION c01_repeated_key_error_witness
  OBLIGATION c01_repeated_key_error_repaired_example
  OBLIGATION c01_collect_partial
  OBLIGATION c01_collect_spread_once
  OBLIGATION c01_data_partial_nodup
  OBLIGATION c01_data_partial_nodup_example
  OBLIGATION c01_create_value_object_groups
  OBLIGATION c01_exec_union_is_merge
  OBLIGATION c01_data_mergeable_full
  OBLIGATION c01_data_mergeable_example

  `c01_data_full` (the statement as first written, without hypotheses) is REFUTED
  (`c01_data_full_needs_validity`); for the executor as found validity alone did not rescue it
  (`c01_repeated_key_error_witness`, toggle `mergeKeepsPartialOnNull`).  What holds:
  `c01_data_mergeable_full` — the full statement restated with the validity hypotheses, repeated
  response keys included (all worlds, faults included); its core is the MERGE LEMMA
  `c01_exec_union_is_merge`.  `c01_data_partial_nodup` is the earlier special case of distinct keys.
-/
import AGV.Lemmas.ExecStatic
import AGV.Lemmas.ExecStaticData
import AGV.Lemmas.ExecStaticMerge
import AGV.Lemmas.ExecStaticMergeExec

namespace AGV.Props.C01
open AGV.Core AGV.Model.ExecStatic AGV.Lemmas.ExecStatic AGV.Lemmas.ExecStaticData AGV.Lemmas.ExecStaticMerge

/-- The statement as first written: for every schema, document, variables and data world, the data
    of the executor model with no defect equals the data of the specification's execution
    algorithm.  It carries no validity hypothesis and is FALSE (`c01_data_full_needs_validity`
    below).  Proved instead: `c01_data_partial_nodup`; restated with hypotheses and open:
    `c01_data_mergeable_full`.  The equation itself is still checked per generated case by the judge. -/
def c01_data_full : Prop :=
  ∀ (S : Schema) (d : Doc) (op : Option String) (vars : List (String × GValue)) (w : World),
    -- documents accepted by the specification's validation rules
    (∀ fuel ≥ AGV.Spec.Exec.fuelBound d,
      (Model.ExecStatic.run Defects.none S d op vars w fuel).val = (AGV.Spec.Exec.run S d op vars w fuel).val)

/-- "exactly the collected response keys in document order": whatever the field futures
    returned, the object built by `create_value_object` / `insert_value` has each response key
    once, in order of first occurrence — for every list of key/value pairs and every merge depth. -/
theorem c01_key_order (D : Defects) (fuel : Nat) (kvs : List (String × GValue)) :
    ∃ fs, createValueObject D fuel kvs = .obj fs ∧ fs.map (·.1) = newKeys [] (kvs.map (·.1)) := by
  refine ⟨_, rfl, ?_⟩
  simpa using keys_foldl_insertKV (merge D.mergeKeepsPartialOnNull (4 * fuel)) kvs []

/-- "a position whose type is non-null never holds null": completing any resolver result
    against a non-null type gives a non-null value or propagates — for every type, result,
    sub-selection and recursive executor that records the errors it propagates. -/
theorem c01_nonnull_position (c : Model.ExecStatic.Ctx) (hD : c.D.nanNullInNonNull = false) (fuel : Nat)
    (t : TypeRef) (rv : RVal) (ss : List Sel) (path : List PathSeg) (pos : Pos) :
    (resolveValue c (resolveContainer c fuel) (.nonNull t) rv ss path pos).val ≠ some .null := by
  intro h
  have hrec := recOK_resolveContainer c hD fuel
  by_cases hrv : rv = .null
  · subst hrv; simp [resolveValue] at h
  · rw [resolveValue_nonNull _ _ _ _ _ _ _ hrv] at h
    have h2 := (resolveValue_props c hD _ hrec t rv ss path pos).2
    unfold nnWrap at h
    split at h
    · rename_i hnull
      split at h
      · rename_i hemp
        exact hrv (h2 hnull (by simpa using hemp))
      · simp at h
    · rename_i hnn
      exact hnn h

/-- whenever a selection set gives up (`val = none`: the error travels to the parent), an error
    has been recorded — so `"data": null` never comes without an error; and an object value is
    never `null` by itself. -/
theorem c01_errors_never_lost (c : Model.ExecStatic.Ctx) (hD : c.D.nanNullInNonNull = false) (fuel : Nat) :
    RecOK (resolveContainer c fuel) :=
  recOK_resolveContainer c hD fuel

-- ------------------------------------------------------------------ witnesses (also in corpus/C01)

def p0 : Pos := ⟨1, 1⟩
def S0 : Schema := { query := "Query", types := [
  { name := "Query", kind := .object, fields := [{ name := "obj", ty := .named "O", args := [] }] },
  { name := "O", kind := .object, fields := [{ name := "a", ty := .named "Int", args := [] },
                                             { name := "f", ty := .nonNull (.named "Float"), args := [] }] },
  { name := "U", kind := .union, members := ["O"] },
  { name := "Int", kind := .scalar }, { name := "Float", kind := .scalar }, { name := "Boolean", kind := .scalar }] }
def w0 : World := { entries := [((0, "obj"), .obj "O" 1), ((1, "a"), .leaf (.int 5)), ((1, "f"), .leaf (.float "NaN"))] }

def selA : Sel := Sel.field none "a" [] [] [] p0
def selU : Sel := Sel.inline (some "U") [] [selA] p0
def docU : Doc := { ops := [{ ty := .query, name := none, vars := [], dirs := [], sels := [Sel.field none "obj" [] [] [selU] p0] }], frags := [] }

/-- `{ obj { ... on U { a } } }`: the pinned executor drops the union-conditioned fragment -/
theorem c01_union_condition_witness :
    (run { unionCondIgnored := true } S0 docU none [] w0 10).val ≠ (AGV.Spec.Exec.run S0 docU none [] w0 10).val := by
  have hm : (run { unionCondIgnored := true } S0 docU none [] w0 10).val = some (.obj [("obj", .obj [])]) := by rfl
  have hs : (AGV.Spec.Exec.run S0 docU none [] w0 10).val = some (.obj [("obj", .obj [("a", .int 5)])]) := by rfl
  rw [hm, hs]; simp

theorem c01_union_condition_repaired_example :
    (run Defects.none S0 docU none [] w0 10).val = (AGV.Spec.Exec.run S0 docU none [] w0 10).val := by rfl

def selASkip : Sel := Sel.field none "a" [] [{ name := "skip", args := [("if", .var "s")] }] [] p0
def selObjSkip : Sel := Sel.field none "obj" [] [] [selASkip] p0
def varS : VarDef := VarDef.mk "s" (.named "Boolean") (some (.bool true))
def opSkip : OpDef := { ty := .query, name := none, vars := [varS], dirs := [], sels := [selObjSkip] }
def docSkip : Doc := { ops := [opSkip], frags := [] }

/-- `query($s: Boolean = true) { obj { a @skip(if: $s) } }` with `s` not supplied -/
theorem c01_skip_default_witness :
    (run { skipIgnoresVarDefault := true } S0 docSkip none [] w0 10).val ≠ (AGV.Spec.Exec.run S0 docSkip none [] w0 10).val := by
  have hm : (run { skipIgnoresVarDefault := true } S0 docSkip none [] w0 10).val = some (.obj [("obj", .obj [("a", .int 5)])]) := by rfl
  have hs : (AGV.Spec.Exec.run S0 docSkip none [] w0 10).val = some (.obj [("obj", .obj [])]) := by rfl
  rw [hm, hs]; simp

def selF : Sel := Sel.field none "f" [] [] [] p0
def selObjF : Sel := Sel.field none "obj" [] [] [selF] p0
def opNaN : OpDef := { ty := .query, name := none, vars := [], dirs := [], sels := [selObjF] }
def docNaN : Doc := { ops := [opNaN], frags := [] }

/-- a NaN in a `Float!` field: the pinned executor answers `null` in the non-null position -/
theorem c01_nan_nonnull_witness :
    (run { nanNullInNonNull := true } S0 docNaN none [] w0 10).val = some (.obj [("obj", .obj [("f", .null)])]) ∧
    (AGV.Spec.Exec.run S0 docNaN none [] w0 10).val = some (.obj [("obj", .null)]) := by
  constructor <;> rfl

-- ------------------------------------------------------------------ the full statement needs hypotheses

/-- `{ zz }`: a field the root type does not have (rejected by validation rule 5.3.1) -/
def docUnknown : Doc := { ops := [{ ty := .query, name := none, vars := [], dirs := [], sels := [Sel.field none "zz" [] [] [] p0] }], frags := [] }

/-- `c01_data_full` as first stated (no validity hypothesis) is FALSE: for a field that does not
    exist the executor model answers `{"zz": null}` (the derive-generated `resolve_field` returns
    `Ok(None)`), the specification's executor skips the field.  Such documents never reach the
    executor (validation rejects them). -/
theorem c01_data_full_needs_validity : ¬ c01_data_full := by
  intro h
  have h1 := h S0 docUnknown none [] w0 3 (by simp [AGV.Spec.Exec.fuelBound, AGV.Spec.Exec.selCount, docUnknown])
  have hm : (run Defects.none S0 docUnknown none [] w0 3).val = some (.obj [("zz", .null)]) := by rfl
  have hs : (AGV.Spec.Exec.run S0 docUnknown none [] w0 3).val = some (.obj []) := by rfl
  rw [hm, hs] at h1
  simp at h1

/-- `{ x: obj { a }  x: obj { f } }` with `f: Float!` failing (NaN) -/
def docRepeatErr : Doc := { ops := [{ ty := .query, name := none, vars := [], dirs := [], sels := [Sel.field (some "x") "obj" [] [] [selA] p0, Sel.field (some "x") "obj" [] [] [selF] p0] }], frags := [] }

/-- Validity alone was not enough for the executor as found: for a VALID document in which a response
    key occurs twice and the later occurrence is nulled by an error propagating out of its
    sub-selection, `merge_value`'s `_ => {}` arm keeps the earlier partial object — the pinned executor
    answers `{"x": {"a": 5}}` where the specification (one execution of the merged selection set)
    answers `{"x": null}`.  Reproduced on the real executor (corpus/C03/main-repeated-key-error.case);
    toggle `mergeKeepsPartialOnNull`, finding C03-repeated-key-error-keeps-partial-object. -/
theorem c01_repeated_key_error_witness :
    (run { mergeKeepsPartialOnNull := true } S0 docRepeatErr none [] w0 10).val = some (.obj [("x", .obj [("a", .int 5)])]) ∧
    (AGV.Spec.Exec.run S0 docRepeatErr none [] w0 10).val = some (.obj [("x", .null)]) := by
  constructor <;> rfl

theorem c01_repeated_key_error_repaired_example :
    (run Defects.none S0 docRepeatErr none [] w0 10).val = (AGV.Spec.Exec.run S0 docRepeatErr none [] w0 10).val := by rfl

-- ------------------------------------------------------------------ stage 1: field collection

/-- selection sets made of plain fields: no fragments, no directives -/
def plainFields (sels : List Sel) : Bool :=
  sels.all (fun s => match s with
    | .field _ _ _ ds _ _ => ds.isEmpty
    | _ => false)

/-- warm-up: on a selection set of plain fields `Fields::add_set` and CollectFields produce the same
    occurrence list (for every schema, document, runtime type, static type and visited set) -/
theorem c01_collect_partial (cm : Model.ExecStatic.Ctx) (cs : AGV.Spec.Exec.Ctx) (rt st : String) (fuel : Nat)
    (sels : List Sel) (vis : List String) (h : plainFields sels = true) :
    AGV.Spec.Exec.collect cs rt (fuel + 1) sels vis =
      ((Model.ExecStatic.collect cm rt (fuel + 1) st sels).map eraseSt, vis) := by
  rw [spec_collect_succ]
  suffices hg : ∀ acc : List AGV.Spec.Exec.FieldOcc × List String,
      sels.foldl (specStep cs rt fuel) acc =
        (acc.1 ++ (Model.ExecStatic.collect cm rt (fuel + 1) st sels).map eraseSt, acc.2) by
    simpa using hg ([], vis)
  induction sels with
  | nil => intro acc; simp [Model.ExecStatic.collect]
  | cons s r ih =>
    intro acc
    simp only [plainFields, List.all_cons, Bool.and_eq_true] at h
    have ih' := ih (by simpa [plainFields] using h.2)
    cases s with
    | field al n args ds ss pos =>
      have hds : ds = [] := by simpa using h.1
      subst hds
      rw [List.foldl_cons, ih', collect_cons]
      simp [specStep, AGV.Spec.Exec.excluded, Model.ExecStatic.collect, eraseSt]
    | spread n ds pos => simp at h
    | inline cnd ds ss pos => simp at h

/-- CollectFields in general: with the union-condition defect repaired, on a consistent schema,
    when no directive acts and no fragment name is spread twice within the selection set, the model
    collects exactly the specification's occurrences (type conditions on objects, interfaces and
    unions; named and inline fragments; any nesting) -/
theorem c01_collect_spread_once (c : Model.ExecStatic.Ctx) (hD : c.D = Defects.none) (hok : SchemaOK c.S)
    (rt : String) (hrt : IsObj c.S rt) (hfr : ∀ f ∈ c.d.frags, selsInert c.vars f.sels = true)
    (fuel : Nat) (st : String) (sels : List Sel) (hst : AGV.Spec.Exec.doesApply c.S rt st = true)
    (hin : selsInert c.vars sels = true) (hnd : (spreads c.d fuel sels).Nodup) :
    (AGV.Spec.Exec.collect (sc c) rt fuel sels []).1 = (Model.ExecStatic.collect c rt fuel st sels).map eraseSt :=
  (collect_agree c hD hok rt hrt hfr fuel st sels [] hst hin hnd (by intro n _; simp)).1

-- ------------------------------------------------------------------ stage 2: data, distinct response keys

/-- DATA EQUALITY for documents without repeated response keys.  For every schema, document,
    variables, world (resolver failures, nulls in non-null positions, ill-typed leaves, non-finite
    floats, unknown runtime types all included) and every fuel: if, for the selected operation,
      * the schema is consistent (`SchemaOK`: `implements`/`members` agree with DoesFragmentTypeApply;
        implied by the decidable `schemaWF`), no composite type is named like a built-in scalar,
      * no `@skip`/`@include` acts (`selsInert`; present-but-inert directives are allowed),
      * no `Int` leaf is returned for a `Float` field (implied by the decidable `worldFloatOK`),
      * `noRepeatedKeys`: at every selection set reached, for every possible runtime type, the
        collected response keys are pairwise distinct, no fragment name is spread twice and every
        collected field exists,
    then the executor model without defects returns exactly the specification's data. -/
theorem c01_data_partial_nodup (S : Schema) (d : Doc) (opName : Option String) (raw : List (String × GValue))
    (w : World) (fuel : Nat)
    (H : ∀ op, AGV.Spec.Exec.selectOp d opName = some op → RunHyps S d op raw w fuel) :
    (Model.ExecStatic.run Defects.none S d opName raw w fuel).val = (AGV.Spec.Exec.run S d opName raw w fuel).val :=
  run_val_eq S d opName raw w fuel H

/-- the hypotheses of `c01_data_partial_nodup` hold for `Ex.doc1`:
    `{ obj { ...F ... on U { f } } node { __typename ... on P { nm: name } ... on O { a } } items { a @include(if: true) } }`
    with `fragment F on I { name ... @skip(if: false) { a } }` (interface and union conditions, inert
    directives, a list) in a world with a failing resolver and a NaN in a `Float!` position -/
theorem c01_data_partial_nodup_example :
    ∀ op, AGV.Spec.Exec.selectOp Ex.doc1 none = some op → RunHyps Ex.S1 Ex.doc1 op [] Ex.w1 10 :=
  fun op hop => (Ex.runHyps op hop).1

example : (run Defects.none Ex.S1 Ex.doc1 none [] Ex.w1 10).val = (AGV.Spec.Exec.run Ex.S1 Ex.doc1 none [] Ex.w1 10).val :=
  c01_data_partial_nodup Ex.S1 Ex.doc1 none [] Ex.w1 10 c01_data_partial_nodup_example

/-- the instance is not vacuous: `obj` is nulled by the NaN in `f: Float!`, `items[1].a` by the failing resolver -/
example : (run Defects.none Ex.S1 Ex.doc1 none [] Ex.w1 10).val = some (.obj [("obj", .null),
    ("node", .obj [("__typename", .str "P"), ("nm", .str "p")]),
    ("items", .list [.obj [("a", .int 5)], .obj [("a", .null)]])]) := by rfl

-- ------------------------------------------------------------------ stage 3: repeated response keys

/-- first step of the merge lemma, for EVERY list of field results (no shape hypothesis): the object
    built by `create_value_object`/`insert_value` is "group the results by response key in order of
    first occurrence, then fold `merge_value` over each key's values in occurrence order" — the model's
    counterpart of the specification's grouping of field occurrences -/
theorem c01_create_value_object_groups (D : Defects) (fuel : Nat) (kvs : List (String × GValue)) :
    createValueObject D fuel kvs =
      .obj ((groupKV kvs).map (fun g => (g.1, mergeAll (merge D.mergeKeepsPartialOnNull (4 * fuel)) g.2))) :=
  createValueObject_group D fuel kvs

/-- THE MERGE LEMMA (specification side).  Executing the union `a ++ b` of two selection sets on an
    object is the `merge_value` of executing `a` and executing `b` (objects key by key in order of first
    occurrence, lists item by item, a `null` on either side wins, a propagating error on either side
    propagates) — for every object, depth, path and every merge depth `N ≥ 4·fuel`, when the union is
    mergeable (`MKP`, the proposition behind `mergeableKeys`: occurrences of one response key name one
    field with one argument list, recursively on the merged sub-selections; no fragment spread twice) and
    no directive acts.  This is what makes "one field future per occurrence, deep merge afterwards"
    (the executor) agree with "merge the selection sets, execute once" (the specification). -/
theorem c01_exec_union_is_merge (c : Model.ExecStatic.Ctx) (H : DataHyps c) (fuel : Nat) (st rt : String) (id : Nat)
    (a b : List Sel) (path : List PathSeg) (N : Nat) (hrt : IsObj c.S rt) (hst : AGV.Spec.Exec.doesApply c.S rt st = true)
    (ha : selsInert c.vars a = true) (hb : selsInert c.vars b = true) (hmk : MKP c fuel st rt (a ++ b)) (hN : 4 * fuel ≤ N) :
    (AGV.Spec.Exec.execSet (sc c) fuel rt id (a ++ b) path).val =
      mergeO N (AGV.Spec.Exec.execSet (sc c) fuel rt id a path).val (AGV.Spec.Exec.execSet (sc c) fuel rt id b path).val :=
  execSet_merge c H fuel st rt id a b path N hrt hst ha hb hmk hN

/-- DATA EQUALITY, the full statement restated with the hypotheses found necessary (validity in the sense
    of `mergeableKeys`: every collected field exists, occurrences of one response key name the same
    field with the same arguments — `argsSame`, structural equality —, recursively on the merged
    sub-selections, list depth ≤ 3 for repeated keys (the depth `merge_value` is modelled to); a consistent
    schema; directives that do not act; no `Int` leaf for a `Float` field): the executor model without
    defects returns the specification's data, in every world (resolver failures, nulls in non-null
    positions, NaN, ill-typed leaves included) and at every fuel.  The pinned `merge_value` needs
    error-free executions instead (`c01_repeated_key_error_witness`).
    `c01_data_partial_nodup` is the case of pairwise distinct keys. -/
theorem c01_data_mergeable_full :
  ∀ (S : Schema) (d : Doc) (opName : Option String) (raw : List (String × GValue)) (w : World) (fuel : Nat),
    (∀ op, AGV.Spec.Exec.selectOp d opName = some op →
      IsObj S (rootOf S op) ∧ DataHyps (runCtx S d op raw w) ∧
      selsInert (AGV.Spec.Exec.coerceVars op.vars raw) op.sels = true ∧
      mergeableKeys (runCtx S d op raw w) fuel (rootOf S op) (rootOf S op) op.sels = true) →
    (Model.ExecStatic.run Defects.none S d opName raw w fuel).val = (AGV.Spec.Exec.run S d opName raw w fuel).val :=
  fun S d opName raw w fuel H => run_val_eq_mergeable S d opName raw w fuel H

/-- `{ obj { name } obj { a ...F } x: obj { f } x: obj { a } items { a } items { name f } node { __typename } node { ... on P { nm: name } } }`
    over `Ex.S1`/`Ex.w1`: every top-level key occurs twice (an object; an aliased object whose first
    occurrence is nulled by the NaN in `f: Float!`; a list of non-null objects with a failing resolver and
    a NaN below; an interface with a type-conditioned fragment), `a` repeats inside the merged `obj` -/
def opRep : OpDef := { ty := .query, name := none, vars := [], dirs := [], sels := [
  Sel.field none "obj" [] [] [Sel.field none "name" [] [] [] p0] p0,
  Sel.field none "obj" [] [] [Sel.field none "a" [] [] [] p0, Sel.spread "F" [] p0] p0,
  Sel.field (some "x") "obj" [] [] [Sel.field none "f" [] [] [] p0] p0,
  Sel.field (some "x") "obj" [] [] [Sel.field none "a" [] [] [] p0] p0,
  Sel.field none "items" [] [] [Sel.field none "a" [] [] [] p0] p0,
  Sel.field none "items" [] [] [Sel.field none "name" [] [] [] p0, Sel.field none "f" [] [] [] p0] p0,
  Sel.field none "node" [] [] [Sel.field none "__typename" [] [] [] p0] p0,
  Sel.field none "node" [] [] [Sel.inline (some "P") [] [Sel.field (some "nm") "name" [] [] [] p0] p0] p0] }
def docRep : Doc := { ops := [opRep], frags := [Ex.fragF] }

/-- the hypotheses of `c01_data_mergeable_full` hold for `docRep` (and `noRepeatedKeys` does not) -/
theorem c01_data_mergeable_example :
    (∀ op, AGV.Spec.Exec.selectOp docRep none = some op →
      IsObj Ex.S1 (rootOf Ex.S1 op) ∧ DataHyps (runCtx Ex.S1 docRep op [] Ex.w1) ∧
      selsInert (AGV.Spec.Exec.coerceVars op.vars []) op.sels = true ∧
      mergeableKeys (runCtx Ex.S1 docRep op [] Ex.w1) 10 (rootOf Ex.S1 op) (rootOf Ex.S1 op) op.sels = true) ∧
    (∀ op, AGV.Spec.Exec.selectOp docRep none = some op →
      noRepeatedKeys (runCtx Ex.S1 docRep op [] Ex.w1) 10 (rootOf Ex.S1 op) (rootOf Ex.S1 op) op.sels = false) := by
  constructor
  · intro op hop
    have : op = opRep := by simpa [AGV.Spec.Exec.selectOp, docRep] using hop.symm
    subst this
    exact ⟨⟨Ex.tQuery, rfl, rfl⟩,
      { noDefect := rfl
        schema := schemaOK_of_wf _ (by decide)
        builtins := by decide
        frags := by decide
        floats := floats_of_world _ (by decide) },
      by decide, by decide⟩
  · intro op hop
    have : op = opRep := by simpa [AGV.Spec.Exec.selectOp, docRep] using hop.symm
    subst this
    decide

example : (run Defects.none Ex.S1 docRep none [] Ex.w1 10).val = (AGV.Spec.Exec.run Ex.S1 docRep none [] Ex.w1 10).val :=
  c01_data_mergeable_full Ex.S1 docRep none [] Ex.w1 10 c01_data_mergeable_example.1

/-- the instance is not vacuous: merged objects, a key nulled by one of its occurrences, merged list items -/
example : (run Defects.none Ex.S1 docRep none [] Ex.w1 10).val = some (.obj [
    ("obj", .obj [("name", .str "x"), ("a", .int 5)]), ("x", .null),
    ("items", .null),
    ("node", .obj [("__typename", .str "P"), ("nm", .str "p")])]) := by rfl

end AGV.Props.C01
