/-
  C01 — query results follow spec field collection and completion (static schemas).
  Property theorems only (lemmas: AGV/Lemmas/ExecStatic.lean).

  OBLIGATION c01_key_order
  OBLIGATION c01_nonnull_position
  OBLIGATION c01_errors_never_lost
  OBLIGATION c01_union_condition_witness
  OBLIGATION c01_union_condition_repaired_example
  OBLIGATION c01_skip_default_witness
  OBLIGATION c01_nan_nonnull_witness
  OPEN c01_data_full
-/
import AGV.Lemmas.ExecStatic

namespace AGV.Props.C01
open AGV.Core AGV.Model.ExecStatic AGV.Lemmas.ExecStatic

/-- FULL STATEMENT (open): for every schema, document valid for it, variables and data world,
    the data of the executor model with no defect equals the data of the specification's
    execution algorithm.  Tied by the correspondence check only (the judge evaluates both sides
    on every generated case); `Valid` is C09's executable reference validator. -/
def c01_data_full : Prop :=
  ∀ (S : Schema) (d : Doc) (op : Option String) (vars : List (String × GValue)) (w : World),
    -- documents accepted by the specification's validation rules
    (∀ fuel ≥ AGV.Spec.Exec.fuelBound d,
      (Model.ExecStatic.run Defects.none S d op vars w fuel).val = (AGV.Spec.Exec.run S d op vars w fuel).val)

/-- "exactly the collected response keys in document order": whatever the field futures
    returned, the object built by `create_value_object` / `insert_value` has each response key
    once, in order of first occurrence — for every list of key/value pairs and every merge depth. -/
theorem c01_key_order (fuel : Nat) (kvs : List (String × GValue)) :
    ∃ fs, createValueObject fuel kvs = .obj fs ∧ fs.map (·.1) = newKeys [] (kvs.map (·.1)) := by
  refine ⟨_, rfl, ?_⟩
  simpa using keys_foldl_insertKV (merge fuel) kvs []

/-- "a position whose type is non-null never holds null": completing any resolver result
    against a non-null type gives a non-null value or propagates — for every type, result,
    sub-selection and recursive executor that records the errors it propagates. -/
theorem c01_nonnull_position (c : Model.ExecStatic.Ctx) (hD : c.D.nanNullInNonNull = false) (fuel : Nat)
    (t : TypeRef) (rv : RVal) (ss : List Sel) (path : List PathSeg) (pos : Pos) :
    (resolveValue c (resolveContainer c fuel) (.nonNull t) rv ss path pos).val ≠ some .null := by
  intro h
  have hrec := recOK_resolveContainer c hD fuel
  by_cases hrv : rv = .null
  · subst hrv; simp [resolveValue] at h
  · rw [resolveValue_nonNull _ _ _ _ _ _ _ hrv] at h
    have h2 := (resolveValue_props c hD _ hrec t rv ss path pos).2
    unfold nnWrap at h
    split at h
    · rename_i hnull
      split at h
      · rename_i hemp
        exact hrv (h2 hnull (by simpa using hemp))
      · simp at h
    · rename_i hnn
      exact hnn h

/-- whenever a selection set gives up (`val = none`: the error travels to the parent), an error
    has been recorded — so `"data": null` never comes without an error; and an object value is
    never `null` by itself. -/
theorem c01_errors_never_lost (c : Model.ExecStatic.Ctx) (hD : c.D.nanNullInNonNull = false) (fuel : Nat) :
    RecOK (resolveContainer c fuel) :=
  recOK_resolveContainer c hD fuel

-- ------------------------------------------------------------------ witnesses (also in corpus/C01)

def p0 : Pos := ⟨1, 1⟩
def S0 : Schema := { query := "Query", types := [
  { name := "Query", kind := .object, fields := [{ name := "obj", ty := .named "O", args := [] }] },
  { name := "O", kind := .object, fields := [{ name := "a", ty := .named "Int", args := [] },
                                             { name := "f", ty := .nonNull (.named "Float"), args := [] }] },
  { name := "U", kind := .union, members := ["O"] },
  { name := "Int", kind := .scalar }, { name := "Float", kind := .scalar }, { name := "Boolean", kind := .scalar }] }
def w0 : World := { entries := [((0, "obj"), .obj "O" 1), ((1, "a"), .leaf (.int 5)), ((1, "f"), .leaf (.float "NaN"))] }

def selA : Sel := Sel.field none "a" [] [] [] p0
def selU : Sel := Sel.inline (some "U") [] [selA] p0
def docU : Doc := { ops := [{ ty := .query, name := none, vars := [], dirs := [], sels := [Sel.field none "obj" [] [] [selU] p0] }], frags := [] }

/-- `{ obj { ... on U { a } } }`: the pinned executor drops the union-conditioned fragment -/
theorem c01_union_condition_witness :
    (run { unionCondIgnored := true } S0 docU none [] w0 10).val ≠ (AGV.Spec.Exec.run S0 docU none [] w0 10).val := by
  have hm : (run { unionCondIgnored := true } S0 docU none [] w0 10).val = some (.obj [("obj", .obj [])]) := by rfl
  have hs : (AGV.Spec.Exec.run S0 docU none [] w0 10).val = some (.obj [("obj", .obj [("a", .int 5)])]) := by rfl
  rw [hm, hs]; simp

theorem c01_union_condition_repaired_example :
    (run Defects.none S0 docU none [] w0 10).val = (AGV.Spec.Exec.run S0 docU none [] w0 10).val := by rfl

def selASkip : Sel := Sel.field none "a" [] [{ name := "skip", args := [("if", .var "s")] }] [] p0
def selObjSkip : Sel := Sel.field none "obj" [] [] [selASkip] p0
def varS : VarDef := VarDef.mk "s" (.named "Boolean") (some (.bool true))
def opSkip : OpDef := { ty := .query, name := none, vars := [varS], dirs := [], sels := [selObjSkip] }
def docSkip : Doc := { ops := [opSkip], frags := [] }

/-- `query($s: Boolean = true) { obj { a @skip(if: $s) } }` with `s` not supplied -/
theorem c01_skip_default_witness :
    (run { skipIgnoresVarDefault := true } S0 docSkip none [] w0 10).val ≠ (AGV.Spec.Exec.run S0 docSkip none [] w0 10).val := by
  have hm : (run { skipIgnoresVarDefault := true } S0 docSkip none [] w0 10).val = some (.obj [("obj", .obj [("a", .int 5)])]) := by rfl
  have hs : (AGV.Spec.Exec.run S0 docSkip none [] w0 10).val = some (.obj [("obj", .obj [])]) := by rfl
  rw [hm, hs]; simp

def selF : Sel := Sel.field none "f" [] [] [] p0
def selObjF : Sel := Sel.field none "obj" [] [] [selF] p0
def opNaN : OpDef := { ty := .query, name := none, vars := [], dirs := [], sels := [selObjF] }
def docNaN : Doc := { ops := [opNaN], frags := [] }

/-- a NaN in a `Float!` field: the pinned executor answers `null` in the non-null position -/
theorem c01_nan_nonnull_witness :
    (run { nanNullInNonNull := true } S0 docNaN none [] w0 10).val = some (.obj [("obj", .obj [("f", .null)])]) ∧
    (AGV.Spec.Exec.run S0 docNaN none [] w0 10).val = some (.obj [("obj", .null)]) := by
  constructor <;> rfl

end AGV.Props.C01
