/-
  C29 — DataLoader cache operations behave like the documented cache.
  Property theorems only (definitions and helper lemmas: AGV/Lemmas/LoaderCache.lean).

  The model (`Model/LoaderCache.lean`, no defect toggle) is related to the documented cache
  (`Spec/LoaderCache.lean`) by the simulation relation `Rel`: the LRU list *is* the spec's recency
  list (with the LRU invariant), a hash map holds the same pairs, no-cache holds nothing, the
  switches and the loader environment agree, and a key type without entry counts as fresh.
  `abs` is the canonical spec state of a model state (`Rel s (abs s)` whenever the invariant holds).

  OBLIGATION c29_refine
  OBLIGATION c29_inv_init
  OBLIGATION c29_inv_step
  OBLIGATION c29_inv_reachable
  OBLIGATION c29_history
  OBLIGATION c29_history_from
  OBLIGATION c29_abs_exact
  OBLIGATION c29_load_one
  OBLIGATION c29_load_many
  OBLIGATION c29_total
  OBLIGATION c29_total_history
  OBLIGATION c29_toggle_scope
  OBLIGATION c29_violated_by_enableCacheNeedsEntry
-/
import AGV.Lemmas.LoaderCache

namespace AGV.Props.C29
open AGV.Spec.LoaderCache (Key Val Op Out)
open AGV.Model.LoaderCache (Kind Defects)
open AGV.Lemmas.LoaderCache

/-- Refinement, one step: from related states every operation produces the same observable
    output in the model and in the documented cache, and leads to related states. -/
theorem c29_refine (s : Model.LoaderCache.State) (t : Spec.LoaderCache.State) (op : Op) (h : Rel s t) :
    Rel (Model.LoaderCache.step Defects.none s op).1 (Spec.LoaderCache.step t op).1 ∧
      (Model.LoaderCache.step Defects.none s op).2 = (Spec.LoaderCache.step t op).2 :=
  step_refines s t op h

/-- The untouched loader satisfies the LRU invariant (for an LRU capacity ≥ 1). -/
theorem c29_inv_init (kind : Kind) (hk : KindOK kind) : LruInv (Model.LoaderCache.init kind) :=
  inv_init kind hk

/-- Every operation preserves the LRU invariant (no key twice, at most `cap` pairs). -/
theorem c29_inv_step (s : Model.LoaderCache.State) (op : Op) (h : LruInv s) :
    LruInv (Model.LoaderCache.step Defects.none s op).1 :=
  inv_of_rel (step_refines s (abs s) op (rel_abs s h)).1

/-- … hence it holds after every history. -/
theorem c29_inv_reachable (kind : Kind) (hk : KindOK kind) (ops : List Op) :
    LruInv (after Defects.none (Model.LoaderCache.init kind) ops) := by
  suffices ∀ s, LruInv s → LruInv (after Defects.none s ops) from this _ (inv_init kind hk)
  induction ops with
  | nil => exact fun _ h => h
  | cons op ops ih => exact fun s h => ih _ (c29_inv_step s op h)

/-- Whole histories from any state satisfying the invariant: the model's outputs are the
    documented cache's outputs. -/
theorem c29_history_from (s : Model.LoaderCache.State) (h : LruInv s) (ops : List Op) :
    Model.LoaderCache.run Defects.none s ops = Spec.LoaderCache.run (abs s) ops :=
  run_refines ops s (abs s) (rel_abs s h)

/-- Whole histories on a new DataLoader (NoCache, HashMapCache, LruCache of any capacity ≥ 1):
    every load returns what the documented cache returns, the loader is called exactly when and
    with the keys the documented cache says. -/
theorem c29_history (kind : Kind) (hk : KindOK kind) (ops : List Op) :
    Model.LoaderCache.run Defects.none (Model.LoaderCache.init kind) ops =
      Spec.LoaderCache.run (Spec.LoaderCache.init (capOf kind)) ops := by
  rw [← abs_init]
  exact c29_history_from _ (inv_init kind hk) ops

/-- For NoCache and LruCache the refinement is an equation on the abstraction function: the
    documented cache of the next model state *is* the documented cache's next state (recency
    order and eviction included).  (A hash map forgets the recency the spec keeps, hence `Rel`
    in `c29_refine`; nothing observable depends on it.) -/
theorem c29_abs_exact (s : Model.LoaderCache.State) (op : Op) (h : LruInv s)
    (hm : isMap s.entryOr.storage = false) :
    abs (Model.LoaderCache.step Defects.none s op).1 = (Spec.LoaderCache.step (abs s) op).1 ∧
      (Model.LoaderCache.step Defects.none s op).2 = (Spec.LoaderCache.step (abs s) op).2 := by
  have hr := rel_abs s h
  obtain ⟨hr', ho⟩ := step_refines s (abs s) op hr
  refine ⟨(rel_eq_abs hr' ?_).symm, ho⟩
  rw [rel_isMap hr', spec_step_cap, ← rel_isMap hr, hm]

/-- whether caching is on for the key type / the value the cache storage holds for a key -/
def cachingOn (s : Model.LoaderCache.State) : Bool := !s.disableAll && !s.entryOr.disable
def cachedVal (s : Model.LoaderCache.State) (k : Key) : Option Val :=
  (absStorage s.entryOr.storage).1.lookup k

/-- The statement in words, on the model: `load_one(k)` returns the cached value — without
    calling the loader — exactly when caching is enabled (globally and for the key type) and the
    cache holds `k`; otherwise it calls the loader with `[k]` and returns the loader's current
    answer (or its error). -/
theorem c29_load_one (s : Model.LoaderCache.State) (k : Key) (h : LruInv s) :
    (Model.LoaderCache.step Defects.none s (.loadOne k)).2 =
      match (if cachingOn s then cachedVal s k else none) with
      | some v => .one (some v) []
      | none => if s.fail then .failed [k] else .one (Spec.LoaderCache.loaderVal (s.gen + 1) k) [k] := by
  rw [(step_refines s (abs s) (.loadOne k) (rel_abs s h)).2, spec_loadOne]
  rfl

/-- The statement in words for `load_many(ks)` (loader not failing): the loader is called with
    exactly the requested keys that are not answered from the cache (caching on and key held),
    and every requested key gets the cached value if there is one, the loader's current value
    otherwise — whatever order the loader's answer enumerates its keys in. -/
theorem c29_load_many (s : Model.LoaderCache.State) (ks ord : List Key) (h : LruInv s) (hf : s.fail = false) :
    ∃ res call ins, (Model.LoaderCache.step Defects.none s (.load ks ord)).2 = .loaded res call ins ∧
      (∀ k, k ∈ call ↔ k ∈ ks ∧ (if cachingOn s then cachedVal s k else none) = none) ∧
      (∀ k ∈ ks, res.lookup k = match (if cachingOn s then cachedVal s k else none) with
        | some v => some v
        | none => Spec.LoaderCache.loaderVal (s.gen + 1) k) := by
  rw [(step_refines s (abs s) (.load ks ord) (rel_abs s h)).2]
  have := loadOut_spec (cachedOn (abs s)) (s.gen + 1) ks ord
  have e : (Spec.LoaderCache.step (abs s) (.load ks ord)).2 = loadOut (cachedOn (abs s)) (s.gen + 1) false ks ord := by
    rw [← hf]; exact load_out_eq (abs s) ks ord
  rw [e]
  exact this

/-- No operation panics, in any state — in particular on a loader that has not been used. -/
theorem c29_total (s : Model.LoaderCache.State) (op : Op) :
    (Model.LoaderCache.step Defects.none s op).2 ≠ .panic :=
  step_not_panic s op

theorem c29_total_history (s : Model.LoaderCache.State) (ops : List Op) :
    Out.panic ∉ Model.LoaderCache.run Defects.none s ops := by
  induction ops generalizing s with
  | nil => simp [Model.LoaderCache.run]
  | cons op ops ih =>
    simp only [Model.LoaderCache.run, List.mem_cons, not_or]
    exact ⟨fun e => step_not_panic s op e.symm, ih _⟩

/-- The defect toggle changes nothing except `enable_cache` on a key type without entry. -/
theorem c29_toggle_scope (D : Defects) (s : Model.LoaderCache.State) (op : Op)
    (h : s.entry ≠ none ∨ ∀ b, op ≠ .enable b) :
    Model.LoaderCache.step D s op = Model.LoaderCache.step Defects.none s op := by
  cases op with
  | enable b =>
    cases he : s.entry with
    | some r => simp [Model.LoaderCache.step, he]
    | none => rcases h with h | h
              · exact absurd he h
              · exact absurd rfl (h b)
  | _ => rfl

/-- Witness of the pinned tree's defect: with `enable_cache` unwrapping the missing entry,
    `enable_cache::<K>(false)` as the first operation on a new loader panics, which the
    documented cache never does (statement of `c29_history` fails). -/
theorem c29_violated_by_enableCacheNeedsEntry :
    ∃ kind ops, KindOK kind ∧
      Model.LoaderCache.run { enableCacheNeedsEntry := true } (Model.LoaderCache.init kind) ops ≠
        Spec.LoaderCache.run (Spec.LoaderCache.init (capOf kind)) ops :=
  ⟨.lru 2, [.enable false, .loadOne 1], Nat.le_succ 1, by decide⟩

/-- the hypotheses are satisfiable by non-trivial inputs -/
example : KindOK (.lru 2) := Nat.le_succ 1
example : LruInv { kind := .lru 2, entry := some { storage := .lru 2 [(1, 1001), (0, 500007)], disable := true } } :=
  ⟨Nat.le_succ 1, by simp [NodupKeys], Nat.le_refl 2⟩

end AGV.Props.C29
