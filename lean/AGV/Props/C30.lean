/-
  C30 — extensions are transparent and run their hooks in lifecycle order.

  Model: Model/Ext.lean (chain runners, request pipeline with the executor as a parameter, the
  executor of the static family with the extension branch of field / list resolution).
  `stack ls` is the stack of recording pass-through extensions with indices `ls` (outermost first).

  OBLIGATION c30_nesting_chain
  OBLIGATION c30_nesting
  OBLIGATION c30_nesting_family
  OBLIGATION c30_transparent
  OBLIGATION c30_transparent_family
  OBLIGATION c30_lifecycle_stages
  OBLIGATION c30_lifecycle
  OBLIGATION c30_lifecycle_family
  OBLIGATION c30_lifecycle_front_forms
  OBLIGATION c30_lifecycle_family_forms
  OBLIGATION c30_parse_hook_sees_text
  OBLIGATION c30_seeded_preparsed_skips_parse_hook
  OBLIGATION c30_seeded_preparsed_witness
  OBLIGATION c30_rewriting
  OBLIGATION c30_lifecycle_rewriting
  OBLIGATION c30_lifecycle_batch
  OBLIGATION c30_stream_stages
  OBLIGATION c30_lifecycle_stream
  OBLIGATION c30_lifecycle_stream_family
  OBLIGATION c30_dynamic_stream_query_witness
  OBLIGATION c30_passthrough_needed
  OBLIGATION c30_fast_unknown_field_witness
  OBLIGATION c30_resolve_once_per_invocation
  OBLIGATION c30_sites_balanced_exec
  OBLIGATION c30_sites_balanced
  OBLIGATION c30_resolve_once_family
-/
import AGV.Lemmas.ExtPipeline
import AGV.Lemmas.ExtSites

namespace AGV.Props.C30
open AGV.Core AGV.Model.Ext AGV.Lemmas.Ext

section
variable {Req Doc VR Op Resp E : Type}

/-- NESTING, one hook site: a chain of recording pass-through hooks returns what the base future
    returns, and its trace is  enter l₀ … enter lₙ · base trace · exit lₙ … exit l₀  — the hooks
    nest in registration order.  (Induction on the stack.) -/
theorem c30_nesting_chain {α : Type} (s : Site) (ls : List Nat) (base : Unit → T α) :
    runChain (ls.map (fun i => recWrap i s)) base =
      ((base ()).1, ls.map (fun i => Ev.hook true i s) ++ (base ()).2 ++ ls.reverse.map (fun i => Ev.hook false i s)) :=
  runChain_rec s ls base

/-- NESTING, whole request: the trace under a stack of recording extensions is the
    extension-free trace (markers of the hook sites only) in which every site
    `⟦ inner ⟧` has become `⟦ enter l₀ … enter lₙ · inner · exit lₙ … exit l₀ ⟧`, recursively. -/
theorem c30_nesting (B : Base Req Doc VR Op Resp E) (ls : List Nat) (hB : ExecNatural B ls) (req : Req) :
    (execute B (stack ls) req).2 = expand ls (execute B [] req).2 := by
  rw [execute_stack B ls hB req]; rfl

/-- TRANSPARENCY: with pass-through (recording) extensions the response — whatever it consists of:
    data, errors, extensions map, cache policy — equals the extension-free response, provided the
    executor treats its resolve hook naturally. -/
theorem c30_transparent (B : Base Req Doc VR Op Resp E) (ls : List Nat) (hB : ExecNatural B ls) (req : Req) :
    (execute B (stack ls) req).1 = (execute B [] req).1 := by
  rw [execute_stack B ls hB req]; rfl
end

/-- the executor of the static family is natural in the resolve hook once the extension-free
    path performs the same registry look-up (`plainPathSkipsLookup = false`) -/
theorem family_natural (D : AGV.Model.ExecStatic.Defects) (X : XDefects) (hX : X.plainPathSkipsLookup = false)
    (ls : List Nat) : ExecNatural (caseBase D X) ls := by
  intro req doc op vr
  simp only [caseBase]
  rw [runOp_rel (expand_hom ls) D X _ false _ _ (resolveAt_rel ls) (Or.inl hX)]
  rfl

theorem c30_transparent_family (D : AGV.Model.ExecStatic.Defects) (X : XDefects) (hX : X.plainPathSkipsLookup = false)
    (ls : List Nat) (req : CaseReq) :
    (execute (caseBase D X) (stack ls) req).1 = (execute (caseBase D X) [] req).1 :=
  c30_transparent _ ls (family_natural D X hX ls) req

theorem c30_nesting_family (D : AGV.Model.ExecStatic.Defects) (X : XDefects) (hX : X.plainPathSkipsLookup = false)
    (ls : List Nat) (req : CaseReq) :
    (execute (caseBase D X) (stack ls) req).2 = expand ls (execute (caseBase D X) [] req).2 :=
  c30_nesting _ ls (family_natural D X hX ls) req

example : (stack [0, 1, 2] : List (Ext CaseReq Doc Cache Resp Stage)).length = 3 := rfl

-- ------------------------------------------------------------------ lifecycle

/-- the hook sites opened, in order -/
def opened (t : List Ev) : List Hook :=
  t.filterMap (fun e => match e with
    | .mark true s => some s.hook
    | _ => none)

/-- the hooks extension `i` entered, in order -/
def entered (i : Nat) (t : List Ev) : List Hook :=
  t.filterMap (fun e => match e with
    | .hook true j s => if j = i then some s.hook else none
    | _ => none)

def MarksOnly (t : List Ev) : Prop := ∀ e ∈ t, ∃ b s, e = Ev.mark b s

section
variable {Req Doc VR Op Resp E : Type}

theorem opened_append (a b : List Ev) : opened (a ++ b) = opened a ++ opened b := by
  simp [opened, List.filterMap_append]

theorem opened_site (s : Site) (t : List Ev) :
    opened (Ev.mark true s :: t ++ [Ev.mark false s]) = s.hook :: opened t := by
  show opened ([Ev.mark true s] ++ t ++ [Ev.mark false s]) = _
  rw [opened_append, opened_append]; simp [opened]

theorem opened_site' (s : Site) (t : List Ev) :
    opened (Ev.mark true s :: (t ++ [Ev.mark false s])) = s.hook :: opened t := opened_site s t

theorem MarksOnly.nil : MarksOnly [] := fun _ h => by simp at h

theorem MarksOnly.append {a b : List Ev} (ha : MarksOnly a) (hb : MarksOnly b) : MarksOnly (a ++ b) := by
  intro e he
  rcases List.mem_append.mp he with h | h
  · exact ha e h
  · exact hb e h

theorem MarksOnly.site (s : Site) {t : List Ev} (h : MarksOnly t) : MarksOnly (Ev.mark true s :: t ++ [Ev.mark false s]) := by
  intro e he
  simp only [List.cons_append, List.mem_cons, List.mem_append, List.not_mem_nil, or_false] at he
  rcases he with rfl | he | rfl
  · exact ⟨_, _, rfl⟩
  · exact h e he
  · exact ⟨_, _, rfl⟩

theorem MarksOnly.flatten {ts : List (List Ev)} (h : ∀ t ∈ ts, MarksOnly t) : MarksOnly ts.flatten := by
  intro e he
  obtain ⟨t, ht, het⟩ := List.mem_flatten.mp he
  exact h t ht e het

/-- the sites of the extension-free front:  prepare_request · parse_query (unless the variant skips
    it for a pre-parsed document) · validation iff the parse future succeeded -/
theorem opened_frontMarks (P : PDefects) (B : Base Req Doc VR Op Resp E) (req : Req) :
    opened (frontMarks P B req) =
      Hook.prepare :: ((if P.preparsedSkipsParseHooks && (B.preparsed req).isSome then [] else [Hook.parse]) ++
        (match parseFut B req with
         | .error _ => []
         | .ok _ => [Hook.validation])) := by
  simp only [frontMarks, parseMarks]
  cases hp : parseFut B req <;> split <;> simp [opened]

theorem frontMarks_marksOnly (P : PDefects) (B : Base Req Doc VR Op Resp E) (req : Req) :
    MarksOnly (frontMarks P B req) := by
  have hsite : ∀ s : Site, MarksOnly [Ev.mark true s, Ev.mark false s] := fun s => MarksOnly.site s MarksOnly.nil
  simp only [frontMarks, parseMarks]
  refine ((hsite _).append ?_).append ?_
  · split
    · exact MarksOnly.nil
    · exact hsite _
  · cases parseFut B req
    · exact MarksOnly.nil
    · exact hsite _

/-- the extension-free request body, explicitly -/
theorem stagesP_nil (P : PDefects) (B : Base Req Doc VR Op Resp E) (req : Req) :
    stagesP P B ([] : List (Ext Req Doc VR Resp E)) req =
      match frontVal B req with
      | .error e => (B.fromErrors e, frontMarks P B req)
      | .ok (r, d, vr, op) =>
        ((B.exec (resolveAt ([] : List (Ext Req Doc VR Resp E))) false r d op vr).1,
          frontMarks P B req ++ (Ev.mark true { hook := .execute } ::
            (B.exec (resolveAt ([] : List (Ext Req Doc VR Resp E))) false r d op vr).2 ++ [Ev.mark false { hook := .execute }])) := by
  simp only [stagesP, front_nil, atSite, runChain, List.map_nil, List.isEmpty_nil, Bool.not_true]
  cases frontVal B req with
  | error e => rfl
  | ok q => obtain ⟨r, d, vr, op⟩ := q; rfl

/-- LIFECYCLE, stages: without extensions the sites are opened in the order
    request, prepare_request, parse_query, then validation iff the parse future succeeded, then
    execute iff validation succeeded and an operation was selected, then the executor's (resolve)
    sites.  WHATEVER THE REQUEST FORM: `parseFut` is the pre-parsed document when the request
    carries one and the parsed text otherwise; the parse site is there in both cases. -/
theorem c30_lifecycle_stages (B : Base Req Doc VR Op Resp E) (req : Req) :
    opened (execute B ([] : List (Ext Req Doc VR Resp E)) req).2 =
      [.request, .prepare, .parse] ++
        (match parseFut B req with
         | .error _ => []
         | .ok doc => Hook.validation ::
           (match B.validate req doc with
            | .error _ => []
            | .ok vr =>
              match B.selectOp req doc with
              | .error _ => []
              | .ok op => Hook.execute :: opened (B.exec (resolveAt ([] : List (Ext Req Doc VR Resp E))) false req doc op vr).2)) := by
  simp only [execute, executeP, atSite, runChain, List.map_nil]
  rw [opened_site, stagesP_nil]
  have hm := opened_frontMarks ({} : PDefects) B req
  simp only [Bool.false_and, Bool.false_eq_true, if_false] at hm
  simp only [frontVal]
  cases hp : parseFut B req with
  | error e => simp only [hp] at hm ⊢; simp [hm]
  | ok doc =>
    simp only [hp] at hm
    cases hv : B.validate req doc with
    | error e => simp [hm, hv]
    | ok vr =>
      cases hs : B.selectOp req doc with
      | error e => simp [hm, hv, hs]
      | ok op => simp [hm, hv, hs, opened_append, opened_site']

/-- without extensions a request emits site markers only, if its executor does -/
theorem executeP_nil_marksOnly (P : PDefects) (B : Base Req Doc VR Op Resp E)
    (hx : ∀ r d op vr, MarksOnly (B.exec (resolveAt ([] : List (Ext Req Doc VR Resp E))) false r d op vr).2) (req : Req) :
    MarksOnly (executeP P B ([] : List (Ext Req Doc VR Resp E)) req).2 := by
  simp only [executeP, atSite, runChain, List.map_nil]
  apply MarksOnly.site
  rw [stagesP_nil]
  cases frontVal B req with
  | error e => exact frontMarks_marksOnly P B req
  | ok q =>
    obtain ⟨r, d, vr, op⟩ := q
    exact (frontMarks_marksOnly P B req).append (MarksOnly.site _ (hx r d op vr))

theorem frontMarks_bal (P : PDefects) (B : Base Req Doc VR Op Resp E) (req : Req) :
    Bal (frontMarks P B req) ∧ fieldOpens (frontMarks P B req) = 0 := by
  have hsite : ∀ s : Site, Bal [Ev.mark true s, Ev.mark false s] := fun s => Bal.site s Bal.nil
  simp only [frontMarks, parseMarks]
  constructor
  · refine ((hsite _).append ?_).append ?_
    · split
      · exact Bal.nil
      · exact hsite _
    · cases parseFut B req
      · exact Bal.nil
      · exact hsite _
  · cases parseFut B req <;> split <;> simp [fieldOpens, isFieldOpen, isFieldSite]

/-- without extensions the trace of a request is well bracketed and opens as many field sites as
    its executor does (`m` = what the executor's field sites are counted against) -/
theorem executeP_nil_once (P : PDefects) (B : Base Req Doc VR Op Resp E) (m : Resp → Nat)
    (hm : ∀ e, m (B.fromErrors e) = 0)
    (hx : ∀ r d op vr, Bal (B.exec (resolveAt ([] : List (Ext Req Doc VR Resp E))) false r d op vr).2 ∧
      fieldOpens (B.exec (resolveAt ([] : List (Ext Req Doc VR Resp E))) false r d op vr).2 =
        m (B.exec (resolveAt ([] : List (Ext Req Doc VR Resp E))) false r d op vr).1) (req : Req) :
    Bal (executeP P B ([] : List (Ext Req Doc VR Resp E)) req).2 ∧
    fieldOpens (executeP P B ([] : List (Ext Req Doc VR Resp E)) req).2 =
      m (executeP P B ([] : List (Ext Req Doc VR Resp E)) req).1 := by
  simp only [executeP, atSite, runChain, List.map_nil]
  rw [stagesP_nil]
  obtain ⟨hb, hf⟩ := frontMarks_bal P B req
  cases frontVal B req with
  | error e =>
    refine ⟨Bal.site _ hb, ?_⟩
    rw [fieldOpens_site]; simp [hf, hm, isFieldSite]
  | ok q =>
    obtain ⟨r, d, vr, op⟩ := q
    obtain ⟨h1, h2⟩ := hx r d op vr
    refine ⟨Bal.site _ (hb.append (Bal.site _ h1)), ?_⟩
    simp only
    rw [fieldOpens_site, fieldOpens_append, fieldOpens_site, hf, h2]; simp [isFieldSite]

theorem entered_map_enter (i : Nat) (s : Site) (ls : List Nat) :
    entered i (ls.map (fun j => Ev.hook true j s)) = List.replicate (ls.count i) s.hook := by
  induction ls with
  | nil => rfl
  | cons j ls ih =>
    simp only [entered, List.map_cons, List.filterMap_cons, List.count_cons] at ih ⊢
    by_cases h : j = i
    · simp [h, ih, List.replicate_succ]
    · simp [h, ih]

theorem entered_map_exit (i : Nat) (s : Site) (ls : List Nat) :
    entered i (ls.map (fun j => Ev.hook false j s)) = [] := by
  induction ls with
  | nil => rfl
  | cons j ls ih => simpa [entered] using ih

theorem entered_append (i : Nat) (a b : List Ev) : entered i (a ++ b) = entered i a ++ entered i b := by
  simp [entered, List.filterMap_append]

/-- what extension `i` sees of an expanded marker trace -/
theorem entered_expand (i : Nat) (ls : List Nat) (t : List Ev) (ht : MarksOnly t) :
    entered i (expand ls t) = (opened t).flatMap (fun h => List.replicate (ls.count i) h) := by
  induction t with
  | nil => rfl
  | cons e t ih =>
    have ht' : MarksOnly t := fun e' he' => ht e' (List.mem_cons_of_mem _ he')
    obtain ⟨b, s, rfl⟩ := ht e (List.mem_cons_self)
    rw [expand_cons, entered_append, ih ht']
    cases b with
    | true =>
      have : entered i (expandEv ls (Ev.mark true s)) = List.replicate (ls.count i) s.hook := by
        show entered i (Ev.mark true s :: ls.map (fun j => Ev.hook true j s)) = _
        rw [show (Ev.mark true s :: ls.map (fun j => Ev.hook true j s)) = [Ev.mark true s] ++ ls.map (fun j => Ev.hook true j s) from rfl,
          entered_append, entered_map_enter]
        rfl
      rw [this]
      simp [opened, List.flatMap_cons]
    | false =>
      have : entered i (expandEv ls (Ev.mark false s)) = [] := by
        show entered i (ls.reverse.map (fun j => Ev.hook false j s) ++ [Ev.mark false s]) = _
        rw [entered_append, entered_map_exit]
        rfl
      rw [this]
      simp [opened]

theorem flatMap_replicate_one (hs : List Hook) : hs.flatMap (fun h => List.replicate 1 h) = hs := by
  induction hs with
  | nil => rfl
  | cons h hs ih => simp [List.flatMap_cons, ih]

/-- LIFECYCLE: every extension that is registered once enters exactly the hooks of the sites of
    the extension-free run, once each and in that order: request, prepare_request, parse_query,
    validation (iff parsing succeeded), execute (iff validation succeeded and an operation was
    selected), then one resolve per site the executor opens (fields and list items). -/
theorem c30_lifecycle (B : Base Req Doc VR Op Resp E) (ls : List Nat) (hB : ExecNatural B ls) (req : Req)
    (hM : MarksOnly (execute B ([] : List (Ext Req Doc VR Resp E)) req).2)
    (i : Nat) (hi : ls.count i = 1) :
    entered i (execute B (stack ls) req).2 = opened (execute B ([] : List (Ext Req Doc VR Resp E)) req).2 := by
  rw [c30_nesting B ls hB req, entered_expand i ls _ hM, hi, flatMap_replicate_one]

-- ------------------------------------------------------------------ the request form

/-- LIFECYCLE OF `prepare_request`, EVERY REQUEST FORM: for every base (in particular whatever
    `B.preparsed req` is: plain text, `parsed_query()` called beforehand, `set_parsed_query`, a
    document injected by a prepare hook), every stack and every extension registered once, the
    extension enters prepare_request, parse_query, and validation iff the parse future succeeded —
    each exactly once and in that order. -/
theorem c30_lifecycle_front_forms (B : Base Req Doc VR Op Resp E) (ls : List Nat) (req : Req)
    (i : Nat) (hi : ls.count i = 1) :
    entered i (front {} B (stack ls) req).2 =
      [.prepare, .parse] ++ (match parseFut B req with
        | .error _ => []
        | .ok _ => [Hook.validation]) := by
  rw [front_stack, mapT_snd, front_nil, entered_expand i ls _ (frontMarks_marksOnly {} B req), hi, flatMap_replicate_one,
    opened_frontMarks]
  simp

/-- the parse hooks are handed the text of `request.query` (as the prepare hooks left it), never
    the pre-parsed document: the parse site of a recording stack, explicitly, for every form -/
theorem c30_parse_hook_sees_text (B : Base Req Doc VR Op Resp E) (ls : List Nat) (req : Req) :
    parseAt {} B (stack ls) req =
      (parseFut B req,
        Ev.mark true { hook := .parse, parent := B.queryText req } ::
          (ls.map (fun i => Ev.hook true i { hook := .parse, parent := B.queryText req }) ++
           ls.reverse.map (fun i => Ev.hook false i { hook := .parse, parent := B.queryText req })) ++
          [Ev.mark false { hook := .parse, parent := B.queryText req }]) := by
  simp only [parseAt, Bool.false_and, Bool.false_eq_true, if_false, stack_map_parse, atSite, runChain_rec]
  simp

/-- WITNESS SHAPE OF THE SEEDED CHANGE (C30-r3): if the parse chain is entered only when the text
    still has to be parsed, then for EVERY request that carries a parsed document every extension's
    parse hook runs zero times — while the pipeline as it is runs it exactly once. -/
theorem c30_seeded_preparsed_skips_parse_hook (B : Base Req Doc VR Op Resp E) (ls : List Nat) (req : Req)
    (i : Nat) (hi : ls.count i = 1) (hpre : (B.preparsed req).isSome = true) :
    (entered i (front { preparsedSkipsParseHooks := true } B (stack ls) req).2).count Hook.parse = 0 ∧
    (entered i (front {} B (stack ls) req).2).count Hook.parse = 1 := by
  constructor
  · rw [front_stack, mapT_snd, front_nil, entered_expand i ls _ (frontMarks_marksOnly _ B req), hi, flatMap_replicate_one,
      opened_frontMarks]
    simp only [hpre, Bool.and_self, if_true, List.nil_append]
    cases parseFut B req <;> simp
  · rw [c30_lifecycle_front_forms B ls req i hi]
    cases parseFut B req <;> simp

/-- REWRITING: a stack of recording extensions whose prepare hooks rewrite the request (replace the
    text, inject a parsed document, change variables, set the operation name — any functions
    `Req → Req`) gives the response and the trace of the plain recording stack on the rewritten
    request.  Also for the stream API. -/
theorem c30_rewriting (P : PDefects) (B : Base Req Doc VR Op Resp E) (lfs : List (Nat × (Req → Req))) (req : Req) :
    executeP P B (stackRw lfs) req = executeP P B (stack (lfs.map (·.1))) (rewritten lfs req) :=
  executeP_stackRw P B lfs req

/-- LIFECYCLE under rewriting prepare hooks: every extension registered once enters the sites of
    the extension-free run OF THE REWRITTEN REQUEST, once each and in order -/
theorem c30_lifecycle_rewriting (B : Base Req Doc VR Op Resp E) (lfs : List (Nat × (Req → Req)))
    (hB : ExecNatural B (lfs.map (·.1))) (req : Req)
    (hM : MarksOnly (execute B ([] : List (Ext Req Doc VR Resp E)) (rewritten lfs req)).2)
    (i : Nat) (hi : (lfs.map (·.1)).count i = 1) :
    entered i (execute B (stackRw lfs) req).2 =
      opened (execute B ([] : List (Ext Req Doc VR Resp E)) (rewritten lfs req)).2 := by
  show entered i (executeP {} B (stackRw lfs) req).2 = _
  rw [c30_rewriting]
  exact c30_lifecycle B _ hB _ hM i hi

/-- LIFECYCLE of a batch: the requests run one after the other, each with its full lifecycle -/
theorem c30_lifecycle_batch (B : Base Req Doc VR Op Resp E) (ls : List Nat) (hB : ExecNatural B ls) (reqs : List Req)
    (hM : ∀ r ∈ reqs, MarksOnly (execute B ([] : List (Ext Req Doc VR Resp E)) r).2)
    (i : Nat) (hi : ls.count i = 1) :
    entered i (executeBatch {} B (stack ls) reqs).2 =
      reqs.flatMap (fun r => opened (execute B ([] : List (Ext Req Doc VR Resp E)) r).2) := by
  rw [executeBatch_stack {} B ls hB, mapT_snd]
  have hMM : MarksOnly (executeBatch {} B ([] : List (Ext Req Doc VR Resp E)) reqs).2 := by
    simp only [executeBatch, List.map_map]
    apply MarksOnly.flatten
    intro t ht
    obtain ⟨r, hr, rfl⟩ := List.mem_map.mp ht
    exact hM r hr
  rw [entered_expand i ls _ hMM, hi, flatMap_replicate_one]
  simp only [executeBatch, List.map_map]
  clear hMM hM
  induction reqs with
  | nil => rfl
  | cons r reqs ih =>
    simp only [List.map_cons, List.flatten_cons, opened_append, List.flatMap_cons, ih]
    rfl

-- ------------------------------------------------------------------ the stream API

/-- the extension-free stream, explicitly -/
theorem executeStream_nil (P : PDefects) (B : SBase Req Doc VR Op Resp E) (req : Req) :
    (executeStream P B ([] : List (Ext Req Doc VR Resp E)) req).2 =
      [Ev.mark true { hook := .subscribe }, Ev.mark false { hook := .subscribe }] ++ frontMarks P B.toBase req ++
      (match frontVal B.toBase req with
       | .error _ => []
       | .ok (r, d, vr, op) =>
         if B.isSub op then
           ((B.events (resolveAt ([] : List (Ext Req Doc VR Resp E))) false r d op vr).map
             (fun ev => Ev.mark true { hook := .execute } :: (ev ()).2 ++ [Ev.mark false { hook := .execute }])).flatten
         else if P.streamQuerySkipsExecuteHook then (B.exec (resolveAt ([] : List (Ext Req Doc VR Resp E))) false r d op vr).2
         else Ev.mark true { hook := .execute } ::
           (B.exec (resolveAt ([] : List (Ext Req Doc VR Resp E))) false r d op vr).2 ++ [Ev.mark false { hook := .execute }]) := by
  simp only [executeStream, front_nil, atSite, runChain, List.map_nil, List.isEmpty_nil, Bool.not_true]
  cases frontVal B.toBase req with
  | error e => simp
  | ok q =>
    obtain ⟨r, d, vr, op⟩ := q
    simp only
    cases B.isSub op with
    | true => simp [List.map_map, Function.comp_def]
    | false => cases P.streamQuerySkipsExecuteHook <;> simp

/-- LIFECYCLE OF A STREAM, stages: subscribe, prepare_request, parse_query, validation iff the
    parse future succeeded; then, iff an operation was selected, one execute per event of a
    subscription (each around the event's resolve sites) or the single execute of a query /
    mutation.  No request hook. -/
theorem c30_stream_stages (B : SBase Req Doc VR Op Resp E) (req : Req) :
    opened (executeStream {} B ([] : List (Ext Req Doc VR Resp E)) req).2 =
      [.subscribe, .prepare, .parse] ++
        (match parseFut B.toBase req with
         | .error _ => []
         | .ok doc => Hook.validation ::
           (match B.validate req doc with
            | .error _ => []
            | .ok vr =>
              match B.selectOp req doc with
              | .error _ => []
              | .ok op =>
                if B.isSub op then
                  (B.events (resolveAt ([] : List (Ext Req Doc VR Resp E))) false req doc op vr).flatMap
                    (fun ev => Hook.execute :: opened (ev ()).2)
                else Hook.execute :: opened (B.exec (resolveAt ([] : List (Ext Req Doc VR Resp E))) false req doc op vr).2)) := by
  rw [executeStream_nil, opened_append, opened_append]
  have hm := opened_frontMarks ({} : PDefects) B.toBase req
  simp only [Bool.false_and, Bool.false_eq_true, if_false] at hm
  rw [hm]
  simp only [frontVal]
  have hfl : ∀ (evs : List (Unit → T Resp)),
      opened (evs.map (fun ev => Ev.mark true { hook := .execute } :: (ev ()).2 ++ [Ev.mark false { hook := .execute }])).flatten =
        evs.flatMap (fun ev => Hook.execute :: opened (ev ()).2) := by
    intro evs
    induction evs with
    | nil => rfl
    | cons ev evs ih =>
      simp only [List.map_cons, List.flatten_cons, List.flatMap_cons]
      rw [opened_append, ih, opened_site]
  cases hp : parseFut B.toBase req with
  | error e => simp [opened]
  | ok doc =>
    cases hv : B.validate req doc with
    | error e => simp [opened, hv]
    | ok vr =>
      cases hs : B.selectOp req doc with
      | error e => simp [opened, hv, hs]
      | ok op =>
        cases hsub : B.isSub op with
        | true => simp only [hv, hs, hsub, if_true, hfl]; simp [opened]
        | false => simp only [hv, hs, hsub]; simp [opened_site', opened]

/-- LIFECYCLE OF A STREAM: every extension registered once enters exactly the sites of the
    extension-free stream, once each, in order -/
theorem c30_lifecycle_stream (B : SBase Req Doc VR Op Resp E) (ls : List Nat)
    (hB : ExecNatural B.toBase ls) (hE : EventsNatural B ls) (req : Req)
    (hM : MarksOnly (executeStream {} B ([] : List (Ext Req Doc VR Resp E)) req).2)
    (i : Nat) (hi : ls.count i = 1) :
    entered i (executeStream {} B (stack ls) req).2 =
      opened (executeStream {} B ([] : List (Ext Req Doc VR Resp E)) req).2 := by
  rw [executeStream_stack {} B ls hB hE req, mapT_snd, entered_expand i ls _ hM, hi, flatMap_replicate_one]

/-- NEGATIVE SIDE: pass-through is needed.  An extension whose request hook answers by itself
    (never running the rest of the chain) determines the response. -/
def shortCircuit (r : Resp) : Ext Req Doc VR Resp E :=
  { (passExt : Ext Req Doc VR Resp E) with request := fun _ => (r, []) }

theorem c30_passthrough_needed (B : Base Req Doc VR Op Resp E) (req : Req) (r : Resp)
    (hr : r ≠ (execute B ([] : List (Ext Req Doc VR Resp E)) req).1) :
    (execute B [shortCircuit r] req).1 ≠ (execute B ([] : List (Ext Req Doc VR Resp E)) req).1 := by
  have : (execute B [shortCircuit r] req).1 = r := by
    simp [execute, executeP, atSite, runChain, shortCircuit]
  rw [this]; exact hr
end

-- ------------------------------------------------------------------ the family

theorem filter_marks_hom : Hom (List.filter (fun e => match e with | Ev.mark _ _ => true | _ => false)) :=
  ⟨rfl, fun a b => List.filter_append ..⟩

/-- the executor of the family, run without extensions, emits site markers only -/
theorem runOp_marksOnly (D : AGV.Model.ExecStatic.Defects) (X : XDefects) (S : Schema) (doc : Doc) (op : OpDef)
    (raw : List (String × GValue)) (w : World) (fuel : Nat) :
    MarksOnly (runOp D X false (resolveAt ([] : List (Ext CaseReq Doc Cache Resp Stage))) S doc op raw w fuel).2 := by
  let φ : List Ev → List Ev := List.filter (fun e => match e with | Ev.mark _ _ => true | _ => false)
  have hrel : HookRel φ (resolveAt ([] : List (Ext CaseReq Doc Cache Resp Stage))) (resolveAt ([] : List (Ext CaseReq Doc Cache Resp Stage))) := by
    intro s b1 b2 h
    simp only [resolveAt, List.map_nil, atSite, runChain, h, mapT]
    simp [φ, List.filter_append, List.filter_cons]
  have h := runOp_rel filter_marks_hom D X false false _ _ hrel (Or.inr rfl) S doc op raw w fuel
  intro e he
  rw [h] at he
  simp only [mapT_snd, List.mem_filter] at he
  cases e with
  | mark b s => exact ⟨b, s, rfl⟩
  | hook b i s => simp at he

theorem family_marksOnly (D : AGV.Model.ExecStatic.Defects) (X : XDefects) (req : CaseReq) (doc : Doc) (op : OpDef) (vr : Cache) :
    MarksOnly ((caseBase D X).exec (resolveAt ([] : List (Ext CaseReq Doc Cache Resp Stage))) false req doc op vr).2 :=
  runOp_marksOnly D X req.S doc op req.vars req.w req.fuel

theorem family_execute_marksOnly (D : AGV.Model.ExecStatic.Defects) (X : XDefects) (req : CaseReq) :
    MarksOnly (execute (caseBase D X) ([] : List (Ext CaseReq Doc Cache Resp Stage)) req).2 :=
  executeP_nil_marksOnly {} (caseBase D X) (family_marksOnly D X) req

/-- LIFECYCLE for the family (look-up on both paths): each of `n` stacked recording extensions
    enters exactly the hooks of the extension-free sites, once each, in order. -/
theorem c30_lifecycle_family (D : AGV.Model.ExecStatic.Defects) (X : XDefects) (hX : X.plainPathSkipsLookup = false)
    (ls : List Nat) (req : CaseReq) (i : Nat) (hi : ls.count i = 1) :
    entered i (execute (caseBase D X) (stack ls) req).2 =
      opened (execute (caseBase D X) ([] : List (Ext CaseReq Doc Cache Resp Stage)) req).2 :=
  c30_lifecycle _ ls (family_natural D X hX ls) req (family_execute_marksOnly D X req) i hi

/-- the document a request of the family ends up with: the pre-parsed one if the request carries
    one (the text is then ignored), else the parsed text -/
def carriedDoc (req : CaseReq) : Option Doc :=
  match req.pre with
  | some p => some p.doc
  | none => if req.parses then some req.doc else none

theorem family_parseFut (D : AGV.Model.ExecStatic.Defects) (X : XDefects) (req : CaseReq) :
    parseFut (caseBase D X) req = match carriedDoc req with
      | some d => .ok d
      | none => .error .parse := by
  simp only [parseFut, caseBase, carriedDoc]
  cases req.pre with
  | some p => rfl
  | none => cases req.parses <;> rfl

/-- LIFECYCLE for the family, EVERY REQUEST FORM, explicitly: whatever the request carries
    (`req.pre = none`: plain text; `some _`: a pre-parsed document, which then is the one that is
    validated and executed), each extension registered once enters request, prepare_request,
    parse_query — then validation iff there is a document, execute iff it is valid and an operation
    is selected, then the resolves — each exactly once, in this order. -/
theorem c30_lifecycle_family_forms (D : AGV.Model.ExecStatic.Defects) (X : XDefects) (hX : X.plainPathSkipsLookup = false)
    (ls : List Nat) (req : CaseReq) (i : Nat) (hi : ls.count i = 1) :
    entered i (execute (caseBase D X) (stack ls) req).2 =
      [.request, .prepare, .parse] ++
        (match carriedDoc req with
         | none => []
         | some doc => Hook.validation ::
           (match (caseBase D X).validate req doc with
            | .error _ => []
            | .ok vr =>
              match (caseBase D X).selectOp req doc with
              | .error _ => []
              | .ok op => Hook.execute ::
                  opened ((caseBase D X).exec (resolveAt ([] : List (Ext CaseReq Doc Cache Resp Stage))) false req doc op vr).2)) := by
  rw [c30_lifecycle_family D X hX ls req i hi, c30_lifecycle_stages, family_parseFut]
  cases carriedDoc req with
  | none => simp
  | some d =>
    simp only [List.append_cancel_left_eq, List.cons.injEq, true_and]
    cases hv : (caseBase D X).validate req d with
    | error e => rfl
    | ok vr => cases hs : (caseBase D X).selectOp req d <;> rfl

theorem EvsRel.map {α β : Type} (ls : List Nat) (f1 f2 : β → Unit → T α) (h : ∀ v, f1 v () = mapT (expand ls) (f2 v ()))
    (vs : List β) : EvsRel ls (vs.map f1) (vs.map f2) := by
  induction vs with
  | nil => exact EvsRel.nil
  | cons v vs ih => exact EvsRel.cons (h v) ih

/-- the events of a subscription of the family are natural in the resolve hook -/
theorem family_events_natural (D : AGV.Model.ExecStatic.Defects) (X : XDefects) (hX : X.plainPathSkipsLookup = false)
    (ls : List Nat) : EventsNatural (caseSBase D X) ls := by
  intro req doc op vr
  simp only [caseSBase, caseEvents]
  split
  · split
    · apply EvsRel.map
      intro v
      rw [runOp_rel (expand_hom ls) D X _ false _ _ (resolveAt_rel ls) (Or.inl hX)]
      rfl
    · exact EvsRel.nil
  · exact EvsRel.nil

theorem family_stream_marksOnly (D : AGV.Model.ExecStatic.Defects) (X : XDefects) (req : CaseReq) :
    MarksOnly (executeStream {} (caseSBase D X) ([] : List (Ext CaseReq Doc Cache Resp Stage)) req).2 := by
  rw [executeStream_nil]
  have hsite : ∀ s : Site, MarksOnly [Ev.mark true s, Ev.mark false s] := fun s => MarksOnly.site s MarksOnly.nil
  refine ((hsite _).append (frontMarks_marksOnly _ _ _)).append ?_
  cases frontVal (caseSBase D X).toBase req with
  | error e => exact MarksOnly.nil
  | ok q =>
    obtain ⟨r, d, vr, op⟩ := q
    simp only
    split
    · apply MarksOnly.flatten
      intro t ht
      obtain ⟨ev, hev, rfl⟩ := List.mem_map.mp ht
      apply MarksOnly.site
      simp only [caseSBase, caseEvents] at hev
      split at hev
      · split at hev
        · obtain ⟨v, _, rfl⟩ := List.mem_map.mp hev
          exact runOp_marksOnly D X _ _ _ _ _ _
        · simp at hev
      · simp at hev
    · simp only [Bool.false_eq_true, if_false]
      exact MarksOnly.site _ (family_marksOnly D X r d op vr)

/-- LIFECYCLE OF A STREAM for the family (look-up on both paths; static `execute_stream`): each
    extension registered once enters subscribe, prepare_request, parse_query, validation, then one
    execute (around its resolves) per event — exactly the sites of the extension-free stream -/
theorem c30_lifecycle_stream_family (D : AGV.Model.ExecStatic.Defects) (X : XDefects) (hX : X.plainPathSkipsLookup = false)
    (ls : List Nat) (req : CaseReq) (i : Nat) (hi : ls.count i = 1) :
    entered i (executeStream {} (caseSBase D X) (stack ls) req).2 =
      opened (executeStream {} (caseSBase D X) ([] : List (Ext CaseReq Doc Cache Resp Stage)) req).2 :=
  c30_lifecycle_stream _ ls (family_natural D X hX ls) (family_events_natural D X hX ls) req
    (family_stream_marksOnly D X req) i hi

example : [0, 1, 2].count 1 = 1 := by decide

/-- the executor of the family run without extensions: `Once` -/
theorem family_once (D : AGV.Model.ExecStatic.Defects) (X : XDefects) (req : CaseReq) (doc : Doc) (op : OpDef) (vr : Cache) :
    Bal ((caseBase D X).exec (resolveAt ([] : List (Ext CaseReq Doc Cache Resp Stage))) false req doc op vr).2 ∧
    fieldOpens ((caseBase D X).exec (resolveAt ([] : List (Ext CaseReq Doc Cache Resp Stage))) false req doc op vr).2 =
      ((caseBase D X).exec (resolveAt ([] : List (Ext CaseReq Doc Cache Resp Stage))) false req doc op vr).1.res.log.length :=
  runOp_once D X false _ resolveAt_nil_siteHook req.S doc op req.vars req.w req.fuel

/-- ONE FIELD SITE PER RESOLVER INVOCATION (was OPEN): in the family's executor (`runOp`,
    `resolveContainerX`, `runFieldX`, `resolveValueX`) run without extensions, the number of opened
    field sites (resolve sites whose path ends in a key) equals the number of resolver invocations
    in the log of the result — every field future that reaches a resolver does so inside exactly
    one site, list items open item sites only, `__typename`/unknown fields open none.
    (`Lemmas.ExtSites.Once`, by induction on the fuel and on the `TypeRef`.) -/
theorem c30_resolve_once_per_invocation :
  ∀ (D : AGV.Model.ExecStatic.Defects) (X : XDefects) (req : CaseReq) (doc : Doc) (op : OpDef) (vr : Cache),
    let r := (caseBase D X).exec (resolveAt ([] : List (Ext CaseReq Doc Cache Resp Stage))) false req doc op vr
    (r.2.filter (fun e => match e with
      | .mark true s => s.hook = .resolve && (match s.path.getLast? with | some (.key _) => true | _ => false)
      | _ => false)).length = r.1.res.log.length := by
  intro D X req doc op vr
  have h := (family_once D X req doc op vr).2
  have e : (fun e : Ev => match e with
      | .mark true s => decide (s.hook = .resolve) && (match s.path.getLast? with | some (.key _) => true | _ => false)
      | _ => false) = isFieldOpen := by
    funext e
    cases e with
    | mark b s => cases b <;> rfl
    | hook b i s => rfl
  simp only [e]
  exact h

/-- BALANCE: the site markers of the family's executor are well bracketed -/
theorem c30_sites_balanced_exec (D : AGV.Model.ExecStatic.Defects) (X : XDefects) (req : CaseReq) (doc : Doc) (op : OpDef) (vr : Cache) :
    balanced [] ((caseBase D X).exec (resolveAt ([] : List (Ext CaseReq Doc Cache Resp Stage))) false req doc op vr).2 = true :=
  (family_once D X req doc op vr).1.balanced

/-- the events recorded by extensions are transparent for bracketing -/
theorem balanced_hooks (a : List Ev) (ha : ∀ e ∈ a, ∃ en i s, e = Ev.hook en i s) (st : List Site) (r : List Ev) :
    balanced st (a ++ r) = balanced st r := by
  induction a with
  | nil => rfl
  | cons e a ih =>
    obtain ⟨en, i, s, rfl⟩ := ha e List.mem_cons_self
    simp only [List.cons_append, balanced]
    exact ih (fun e' he' => ha e' (List.mem_cons_of_mem _ he'))

/-- … so a stack of recording extensions does not change whether a trace is well bracketed -/
theorem balanced_expand (ls : List Nat) (t : List Ev) : ∀ st, balanced st (expand ls t) = balanced st t := by
  induction t with
  | nil => intro st; rfl
  | cons e t ih =>
    intro st
    rw [expand_cons]
    cases e with
    | hook en i s => simp only [expandEv, List.cons_append, List.nil_append, balanced, ih]
    | mark b s =>
      cases b with
      | true =>
        simp only [expandEv, List.cons_append, balanced]
        rw [balanced_hooks _ (by intro e he; obtain ⟨j, _, rfl⟩ := List.mem_map.mp he; exact ⟨_, _, _, rfl⟩), ih]
      | false =>
        simp only [expandEv, List.append_assoc]
        rw [balanced_hooks _ (by intro e he; obtain ⟨j, _, rfl⟩ := List.mem_map.mp he; exact ⟨_, _, _, rfl⟩)]
        cases st <;> simp [balanced, ih]

/-- extension `i` enters a field site -/
def isFieldEnter (i : Nat) : Ev → Bool
  | .hook true j s => j == i && isFieldSite s
  | _ => false

/-- the number of field sites extension `i` enters -/
def fieldEnters (i : Nat) (t : List Ev) : Nat := (t.filter (isFieldEnter i)).length

theorem fieldEnters_append (i : Nat) (a b : List Ev) : fieldEnters i (a ++ b) = fieldEnters i a + fieldEnters i b := by
  simp [fieldEnters, List.filter_append]

theorem fieldEnters_enter (i : Nat) (s : Site) (ls : List Nat) :
    fieldEnters i (ls.map (fun j => Ev.hook true j s)) = if isFieldSite s then ls.count i else 0 := by
  cases hs : isFieldSite s
  · induction ls with
    | nil => rfl
    | cons j ls ih =>
      simp only [fieldEnters, List.map_cons, List.filter_cons, isFieldEnter, hs, Bool.and_false] at ih ⊢
      simpa using ih
  · induction ls with
    | nil => rfl
    | cons j ls ih =>
      simp only [fieldEnters, List.map_cons, List.filter_cons, isFieldEnter, hs, Bool.and_true, List.count_cons] at ih ⊢
      by_cases h : j = i <;> simp_all

theorem fieldEnters_exit (i : Nat) (s : Site) (ls : List Nat) :
    fieldEnters i (ls.map (fun j => Ev.hook false j s)) = 0 := by
  induction ls with
  | nil => rfl
  | cons j ls ih => simp [fieldEnters, isFieldEnter]

theorem fieldEnters_expand (i : Nat) (ls : List Nat) (t : List Ev) (ht : MarksOnly t) :
    fieldEnters i (expand ls t) = ls.count i * fieldOpens t := by
  induction t with
  | nil => rfl
  | cons e t ih =>
    have ht' : MarksOnly t := fun e' he' => ht e' (List.mem_cons_of_mem _ he')
    obtain ⟨b, s, rfl⟩ := ht e (List.mem_cons_self)
    rw [expand_cons, fieldEnters_append, ih ht']
    have hc : fieldOpens (Ev.mark b s :: t) = fieldOpens [Ev.mark b s] + fieldOpens t := fieldOpens_append [_] t
    rw [hc, Nat.mul_add]
    congr 1
    cases b with
    | true =>
      show fieldEnters i ([Ev.mark true s] ++ ls.map (fun j => Ev.hook true j s)) = _
      rw [fieldEnters_append, fieldEnters_enter]
      cases hs : isFieldSite s <;> simp [fieldEnters, isFieldEnter, fieldOpens, isFieldOpen, hs]
    | false =>
      show fieldEnters i (ls.reverse.map (fun j => Ev.hook false j s) ++ [Ev.mark false s]) = _
      rw [fieldEnters_append, fieldEnters_exit]
      simp [fieldEnters, isFieldEnter, fieldOpens, isFieldOpen]

/-- the whole extension-free request of the family: stage sites around the executor's sites —
    well bracketed, and the field sites are exactly the resolver invocations of the response -/
theorem family_execute_once (D : AGV.Model.ExecStatic.Defects) (X : XDefects) (req : CaseReq) :
    Bal (execute (caseBase D X) ([] : List (Ext CaseReq Doc Cache Resp Stage)) req).2 ∧
    fieldOpens (execute (caseBase D X) ([] : List (Ext CaseReq Doc Cache Resp Stage)) req).2 =
      (execute (caseBase D X) ([] : List (Ext CaseReq Doc Cache Resp Stage)) req).1.res.log.length :=
  executeP_nil_once {} (caseBase D X) (fun r => r.res.log.length) (fun _ => rfl) (family_once D X) req

/-- BALANCE: whatever stack of recording extensions is installed, the trace of a request of the
    family is well bracketed: every site (stage, field, list item) closes inside the site that
    was open when it began. -/
theorem c30_sites_balanced (D : AGV.Model.ExecStatic.Defects) (X : XDefects) (hX : X.plainPathSkipsLookup = false)
    (ls : List Nat) (req : CaseReq) :
    balanced [] (execute (caseBase D X) (stack ls) req).2 = true := by
  rw [c30_nesting_family D X hX ls req, balanced_expand]
  exact (family_execute_once D X req).1.balanced

/-- ONE RESOLVE HOOK PER RESOLVER INVOCATION, as an extension sees it: each extension registered
    once enters exactly as many field sites as the response's log has resolver invocations. -/
theorem c30_resolve_once_family (D : AGV.Model.ExecStatic.Defects) (X : XDefects) (hX : X.plainPathSkipsLookup = false)
    (ls : List Nat) (req : CaseReq) (i : Nat) (hi : ls.count i = 1) :
    fieldEnters i (execute (caseBase D X) (stack ls) req).2 =
      (execute (caseBase D X) (stack ls) req).1.res.log.length := by
  rw [c30_nesting_family D X hX ls req, c30_transparent_family D X hX ls req,
    fieldEnters_expand i ls _ (family_execute_marksOnly D X req), hi, Nat.one_mul]
  exact (family_execute_once D X req).2


/-- `{ a }` with two recording extensions: one field site, one resolver invocation -/
def okReq : CaseReq :=
  { S := { types := [{ name := "Query", kind := .object, fields := [{ name := "a", ty := .named "Int", args := [] }] },
                     { name := "Int", kind := .scalar }], query := "Query" },
    doc := { ops := [{ ty := .query, name := none, vars := [], dirs := [],
                       sels := [.field none "a" [] [] [] ⟨1, 3⟩] }], frags := [] },
    opName := none, vars := [], w := { entries := [] }, parses := true, strictValid := true, fast := false, fuel := 3 }

example : fieldEnters 1 (execute (caseBase {} {}) (stack [0, 1]) okReq).2 = 1 ∧
    (execute (caseBase {} {}) (stack [0, 1]) okReq).1.res.log.length = 1 := by decide

-- ------------------------------------------------------------------ witnesses of the pipeline variants

/-- `okReq` carrying its document in parsed form (`Request::parsed_query()` was called, or
    `set_parsed_query`) -/
def okReqPre : CaseReq := { okReq with text := "{ a }", pre := some { doc := okReq.doc, strictValid := true } }

/-- WITNESS of the seeded change C30-r3 (parse chain entered only when the text has to be parsed):
    on `{ a }` carried in parsed form, with two recording extensions, extension 1 never enters its
    parse hook, while the pipeline as it is enters request, prepare, parse, validation, execute,
    resolve; the response is the same, so only the trace shows it. -/
theorem c30_seeded_preparsed_witness :
    entered 1 (executeP { preparsedSkipsParseHooks := true } (caseBase {} {}) (stack [0, 1]) okReqPre).2 =
      [.request, .prepare, .validation, .execute, .resolve] ∧
    entered 1 (execute (caseBase {} {}) (stack [0, 1]) okReqPre).2 =
      [.request, .prepare, .parse, .validation, .execute, .resolve] ∧
    (executeP { preparsedSkipsParseHooks := true } (caseBase {} {}) (stack [0, 1]) okReqPre).1.res.val =
      (execute (caseBase {} {}) (stack [0, 1]) okReqPre).1.res.val ∧
    -- the plain text form is not affected by the change
    entered 1 (executeP { preparsedSkipsParseHooks := true } (caseBase {} {}) (stack [0, 1]) okReq).2 =
      [.request, .prepare, .parse, .validation, .execute, .resolve] := by
  refine ⟨by decide, by decide, by rfl, by decide⟩

/-- WITNESS of the pinned behaviour of `dynamic::Schema::execute_stream`
    (`streamQuerySkipsExecuteHook`): the query `{ a }` sent through the stream API with one
    recording extension never enters the execute hook (the static schema does). -/
theorem c30_dynamic_stream_query_witness :
    entered 0 (executeStream { streamQuerySkipsExecuteHook := true } (caseSBase {} {}) (stack [0]) okReq).2 =
      [.subscribe, .prepare, .parse, .validation, .resolve] ∧
    entered 0 (executeStream {} (caseSBase {} {}) (stack [0]) okReq).2 =
      [.subscribe, .prepare, .parse, .validation, .execute, .resolve] := by
  refine ⟨?_, ?_⟩ <;> decide

/-- a subscription `subscription { a }` whose stream yields 5 and 6: two events, one execute each -/
def subReq : CaseReq :=
  { okReq with
    S := { okReq.S with subscription := some "Query" },
    doc := { ops := [{ ty := .subscription, name := none, vars := [], dirs := [],
                       sels := [.field none "a" [] [] [] ⟨1, 16⟩] }], frags := [] },
    w := { entries := [((0, "a"), .list [.leaf (.int 5), .leaf (.int 6)])] } }

example : entered 1 (executeStream {} (caseSBase {} {}) (stack [0, 1]) subReq).2 =
    [.subscribe, .prepare, .parse, .validation, .execute, .resolve, .execute, .resolve] := by decide

-- ------------------------------------------------------------------ the defect of the pinned tree

def wS : Schema :=
  { types := [{ name := "Query", kind := .object, fields := [{ name := "a", ty := .named "Int", args := [] }] },
              { name := "Int", kind := .scalar }],
    query := "Query" }

/-- `{ nope }` in fast validation mode -/
def wReq : CaseReq :=
  { S := wS,
    doc := { ops := [{ ty := .query, name := none, vars := [], dirs := [],
                       sels := [.field none "nope" [] [] [] ⟨1, 3⟩] }], frags := [] },
    opName := none, vars := [], w := { entries := [] }, parses := true, strictValid := false, fast := true, fuel := 3 }

/-- WITNESS of the pinned behaviour (`plainPathSkipsLookup`): in fast mode `{ nope }` yields
    `{"nope": null}` without extensions but `data: null` plus an error with one recording
    extension installed — transparency fails. -/
theorem c30_fast_unknown_field_witness :
    ((execute (caseBase {} { plainPathSkipsLookup := true }) ([] : List (Ext CaseReq Doc Cache Resp Stage)) wReq).1.res.val.isSome = true ∧
     (execute (caseBase {} { plainPathSkipsLookup := true }) ([] : List (Ext CaseReq Doc Cache Resp Stage)) wReq).1.res.errs.length = 0) ∧
    ((execute (caseBase {} { plainPathSkipsLookup := true }) (stack [0]) wReq).1.res.val.isNone = true ∧
     (execute (caseBase {} { plainPathSkipsLookup := true }) (stack [0]) wReq).1.res.nq = 1) := by
  refine ⟨⟨?_, ?_⟩, ⟨?_, ?_⟩⟩ <;> decide

end AGV.Props.C30
